/-
C11 §4 — the native-call glue of internal/language/bytecode/callNative.go as value maps (core Lean only).

  toNative    = convertToNative   (one argument; per declared parameter type)
                with data.String / data.Int / data.Int32 / data.Int64 / data.Byte / data.UInt64 / data.Bool
                (internal/language/data/accessor.go, coerce.go) on nil, bool, integer and string sources
  arrToNative = makeNativeArrayArgument
  fromNative  = convertFromNative + convertFromNativeArray + pushMultiReturnResult (call.go)

Ego scalars ARE Go scalars boxed in `any`, so Ego values and Go values share the type `Val`; what differs
is the container: `*data.Array` (`arr`) on the Ego side, native slices (`slice`) and `data.List`/`[]any`
(`list`) on the Go side.  Floats/complex values are opaque bit patterns (only the same-kind identity is
modelled); conversions the model does not cover answer `unmodelled` and are outside every theorem's domain.
Sandbox prefixing (sandboxName) is the identity in the modelled configuration (no sandbox, empty prefix).
-/
namespace EgoVerif.C11

/-- integer kinds of internal/language/data -/
inductive IK where
  | byte | int8 | int16 | uint16 | int32 | uint32 | int | uint | int64 | uint64
  deriving DecidableEq, Repr

def IK.lo : IK → Int
  | .byte | .uint16 | .uint32 | .uint | .uint64 => 0
  | .int8 => -128 | .int16 => -32768 | .int32 => -2147483648
  | .int | .int64 => -9223372036854775808

def IK.hi : IK → Int
  | .byte => 255 | .int8 => 127 | .int16 => 32767 | .uint16 => 65535
  | .int32 => 2147483647 | .uint32 => 4294967295
  | .int | .int64 => 9223372036854775807
  | .uint | .uint64 => 18446744073709551615

def IK.inRange (k : IK) (n : Int) : Prop := k.lo ≤ n ∧ n ≤ k.hi

instance (k : IK) (n : Int) : Decidable (k.inRange n) := by unfold IK.inRange; exact inferInstance

/-- Go integer conversion `T(n)`: two's-complement wrap into the range of `k` -/
def IK.wrap (k : IK) (n : Int) : Int := (n - k.lo) % (k.hi - k.lo + 1) + k.lo

inductive FK where
  | f32 | f64 | c64 | c128
  deriving DecidableEq, Repr

/-- parameter / result types of a function declaration (tools/extract_c11 renders the same grammar) -/
inductive Ty where
  | str | bool | int8 | int16 | uint16 | int32 | uint32 | int | uint | int64 | uint64 | byte
  | f32 | f64 | c64 | c128 | any | err | own | func | struct | void
  | arr (e : Ty) | ptr (e : Ty) | sandboxed (t : Ty) | named (n : String) | other (n : String)
  deriving DecidableEq, Repr

inductive Scalar where
  | nil
  | bool (b : Bool)
  | int (k : IK) (n : Int)
  | str (s : String)
  | flt (k : FK) (bits : Nat)
  | err (code : Nat)            -- a non-nil error value
  deriving DecidableEq, Repr

/-- element kind of an Ego array / Go slice -/
inductive EK where
  | int (k : IK) | str | bool | flt (k : FK) | any
  deriving DecidableEq, Repr

inductive Val where
  | sc (s : Scalar)
  | arr (e : EK) (xs : List Scalar)      -- *data.Array with element type e
  | slice (e : EK) (xs : List Scalar)    -- native Go slice []e
  | list (xs : List Scalar)              -- data.List / []any : a multi-value result
  | marker (n : Nat)                     -- StackMarker("results", n)
  deriving DecidableEq, Repr

inductive Res (α : Type) where
  | ok (v : α)
  | precision | invalidInteger | invalidBool | invalidType | argumentType | wrongArrayValueType
  | unmodelled
  deriving DecidableEq, Repr

/-- the integer target kinds convertToNative has a case for -/
def intTarget : Ty → Option IK
  | .int => some .int | .int32 => some .int32 | .int64 => some .int64 | .byte => some .byte
  | .uint64 => some .uint64 | _ => none

/-- `precisionError() && <range test of the helper in coerce.go>`; the tests are NOT the exact ranges:
    (coerceInt64ToInt32 is modelled AS FIXED by fixes/C11.patch: n < MinInt32 ∨ n > MaxInt32; the code before
    the fix tested |n| > MaxInt32 and so rejected MinInt32), the uint64 → int/int64 test goes through
    float64: float64(n) > 2^63 ⇔ n > 2^63+1024, round-to-even, and the targets int, int64 (from signed sources) and uint64 never test. -/
def lossy (src dst : IK) (n : Int) : Bool :=
  match dst with
  | .byte => src != .byte && (n < 0 || n > 255)
  | .int32 =>
    match src with
    | .int | .int64 => decide (n > 2147483647 ∨ n < -2147483648)
    | .uint | .uint32 | .uint64 => decide (n > 2147483647)
    | _ => false
  | .int | .int64 =>
    match src with
    | .uint64 => decide (n > 9223372036854775808 + 1024)
    | .uint => dst == .int && decide (n > 9223372036854775808 + 1024)
    | _ => false
  | _ => false

/-- data.Int / Int32 / Int64 / Byte / UInt64 on nil, bool, integer and "" sources (`pe` = ego.runtime.precision.error) -/
def coerceInt (pe : Bool) (dst : IK) : Scalar → Res Scalar
  | .nil => .ok (.int dst 0)
  | .bool b => .ok (.int dst (if b then 1 else 0))
  | .int src n => if pe && lossy src dst n then .precision else .ok (.int dst (dst.wrap n))
  | .str s => if s = "" then .ok (.int dst 0) else .unmodelled
  | .flt _ _ => .unmodelled
  | .err _ => .invalidInteger

/-- data.Bool (coerceBool): integers go through data.Int64 first (so the precision test applies) -/
def coerceBool (pe : Bool) : Scalar → Res Scalar
  | .nil => .ok (.bool false)
  | .bool b => .ok (.bool b)
  | .int src n => if pe && lossy src .int64 n then .precision else .ok (.bool (IK.int64.wrap n != 0))
  | .str s => if s = "" then .ok (.bool false) else .unmodelled
  | .flt _ _ => .unmodelled
  | .err _ => .invalidBool

/-- data.String on the modelled sources -/
def stringOf : Scalar → Res Scalar
  | .nil => .ok (.str "")
  | .bool b => .ok (.str (if b then "true" else "false"))
  | .int _ n => .ok (.str (toString n))
  | .str s => .ok (.str s)
  | _ => .unmodelled

def fltTarget : Ty → Option FK
  | .f32 => some .f32 | .f64 => some .f64 | .c64 => some .c64 | .c128 => some .c128 | _ => none

def coerceFlt (k : FK) : Scalar → Res Scalar
  | .flt k' b => if k = k' then .ok (.flt k b) else .unmodelled
  | _ => .unmodelled

/-- convertToNative on a scalar argument for the declared parameter type `t` -/
def scalarToNative (pe : Bool) (t : Ty) (s : Scalar) : Res Scalar :=
  match t with
  | .str | .sandboxed .str => stringOf s
  | .bool => coerceBool pe s
  | .any => .ok s
  | _ =>
    match intTarget t with
    | some k => coerceInt pe k s
    | none =>
      match fltTarget t with
      | some k => coerceFlt k s
      | none => .unmodelled

def mapRes (f : Scalar → Res Scalar) : List Scalar → Res (List Scalar)
  | [] => .ok []
  | x :: xs =>
    match f x, mapRes f xs with
    | .ok y, .ok ys => .ok (y :: ys)
    | .ok _, e => e
    | .precision, _ => .precision | .invalidInteger, _ => .invalidInteger | .invalidBool, _ => .invalidBool
    | .invalidType, _ => .invalidType | .argumentType, _ => .argumentType
    | .wrongArrayValueType, _ => .wrongArrayValueType | .unmodelled, _ => .unmodelled

/-- element coercion of makeNativeArrayArgument: data.Int / Int32 / Int64 are modelled in full,
    data.Int16 / data.UInt16 only on elements that already have the kind -/
def coerceElem (pe : Bool) (k : IK) (s : Scalar) : Res Scalar :=
  if k = .int ∨ k = .int32 ∨ k = .int64 then coerceInt pe k s
  else match s with
    | .int src n => if src = k then .ok (.int k n) else .unmodelled
    | _ => .unmodelled

/-- native slice types makeNativeArrayArgument passes through -/
def passNative : EK → Bool
  | .int k => k == .int || k == .int32 || k == .int16 || k == .uint16 || k == .uint32 || k == .int64 || k == .byte
  | .str | .bool => true
  | .flt k => k == .f32 || k == .f64
  | .any => false

/-- makeNativeArrayArgument: the element kind of the ARGUMENT decides, not the declared type -/
def arrToNative (pe : Bool) : Val → Res Val
  | .slice e xs => if passNative e then .ok (.slice e xs) else .argumentType
  | .arr (.int k) xs =>
    if k = .int ∨ k = .int16 ∨ k = .uint16 ∨ k = .int32 ∨ k = .int64 then
      (match mapRes (coerceElem pe k) xs with
       | .ok ys => .ok (.slice (.int k) ys)
       | .precision => .precision | .invalidInteger => .invalidInteger | _ => .unmodelled)
    else if k = .byte then .ok (.slice (.int .byte) xs)       -- arg.GetBytes()
    else .invalidType
  | .arr .bool xs =>
    (match mapRes (coerceBool pe) xs with
     | .ok ys => .ok (.slice .bool ys) | .invalidBool => .invalidBool | .precision => .precision | _ => .unmodelled)
  | .arr .str xs =>
    (match mapRes stringOf xs with
     | .ok ys => .ok (.slice .str ys) | _ => .unmodelled)
  | .arr (.flt k) xs =>
    if k = .f32 ∨ k = .f64 then
      (match mapRes (coerceFlt k) xs with
       | .ok ys => .ok (.slice (.flt k) ys) | _ => .unmodelled)
    else .invalidType
  | .arr .any _ => .invalidType
  | _ => .argumentType

/-- convertToNative for one argument -/
def toNative (pe : Bool) (t : Ty) (v : Val) : Res Val :=
  match t with
  | .arr _ => arrToNative pe v
  | _ =>
    match v with
    | .sc s => (match scalarToNative pe t s with
                | .ok r => .ok (.sc r)
                | .precision => .precision | .invalidInteger => .invalidInteger | .invalidBool => .invalidBool
                | .invalidType => .invalidType | .argumentType => .argumentType
                | .wrongArrayValueType => .wrongArrayValueType | .unmodelled => .unmodelled)
    | other => if t = .any then .ok other else .unmodelled

/-- element kinds convertFromNativeArray has a case for -/
def fromArrayKind : EK → Bool
  | .int k => k == .byte || k == .int || k == .int16 || k == .uint16 || k == .int32 || k == .int64
  | .str | .bool | .any => true
  | .flt k => k == .f32 || k == .f64

/-- convertFromNative: the values left on the stack, top first.  `multi` = the next instruction is
    StackCheck/DropToMarker (an "a, b := f()" use); otherwise only the primary value of a tuple is pushed.
    `slice .any` is a Go `[]any`, `list` a data.List. -/
def pushMulti (multi : Bool) (xs : List Scalar) : List Val :=
  if xs.length > 1 && !multi then (xs.take 1).map .sc else xs.map .sc ++ [.marker xs.length]

def fromNative (rets : List Ty) (multi : Bool) (r : Val) : Res (List Val) :=
  match rets with
  | [.arr _] =>
    (match r with
     | .slice e xs => if fromArrayKind e then .ok [.arr e xs] else .wrongArrayValueType
     | _ => .wrongArrayValueType)
  | _ =>
    match r with
    | .list xs => .ok (pushMulti multi xs)
    | .slice .any xs => .ok (pushMulti multi xs)
    | v => .ok [v]

/-! ### the per-function obligation (table regenerated by tools/extract_c11) -/

structure FnDecl where
  pkg : String
  name : String
  params : List Ty
  variadic : Bool
  returns : List Ty
  native : Bool
  receiver : Bool
  value : String
  deriving Repr

/-- scalar parameter types convertToNative has a case for and for which C11_conv_roundtrip is proved -/
def faithfulScalar : Ty → Bool
  | .str | .sandboxed .str | .bool | .int | .int32 | .int64 | .byte | .uint64
  | .f32 | .f64 | .c64 | .c128 | .any => true
  | _ => false

/-- array element types both makeNativeArrayArgument and convertFromNativeArray have a case for -/
def faithfulElem : Ty → Bool
  | .str | .bool | .int | .int16 | .uint16 | .int32 | .int64 | .byte | .f32 | .f64 => true
  | _ => false

/-- package-defined native types travel unchanged (makeNativePackageTypeArgument checks the Go type name) -/
def opaqueTy : Ty → Bool
  | .named _ | .ptr (.named _) => true
  | _ => false

def okParam : Ty → Bool
  | .arr e => faithfulElem e
  | t => faithfulScalar t || opaqueTy t

def okReturn : Ty → Bool
  | .arr e => faithfulElem e || e == .any
  | .err => true
  | t => faithfulScalar t || opaqueTy t

def declOk (f : FnDecl) : Bool := !f.native || (f.params.all okParam && f.returns.all okReturn)

def tableOk (t : List FnDecl) : Bool := t.all declOk

def FaithfulDecl (f : FnDecl) : Prop := (∀ p ∈ f.params, okParam p = true) ∧ (∀ r ∈ f.returns, okReturn r = true)

end EgoVerif.C11
