import EgoVerif.C11.Model
/-
C11 §2 — the FINITE part of the Roman-numeral round trip: kernel evaluation of
`romanParse (romanFormat n) = some n` for n = 1 … 3999 in four chunks, and the lemma that lifts a
checked range to a statement about each of its members.  Kept in its own module because the kernel
evaluation takes a couple of CPU minutes; it is rebuilt only when Model.lean changes.
-/
namespace EgoVerif.C11

def romanOk (n : Nat) : Bool := romanParse (romanFormat n) == some n
def romanRange (lo len : Nat) : Bool := (List.range' lo len).all romanOk

theorem romanRange_sound (lo len : Nat) (h : romanRange lo len = true) (n : Nat) (h1 : lo ≤ n) (h2 : n < lo + len) :
    romanParse (romanFormat n) = some n := by
  have hm : n ∈ List.range' lo len := by rw [List.mem_range'_1]; exact ⟨h1, h2⟩
  have := List.all_eq_true.mp h n hm
  simpa [romanOk] using this

theorem roman_c0 : romanRange 1 999 = true := by decide +kernel
theorem roman_c1 : romanRange 1000 1000 = true := by decide +kernel
theorem roman_c2 : romanRange 2000 1000 = true := by decide +kernel
theorem roman_c3 : romanRange 3000 1000 = true := by decide +kernel

end EgoVerif.C11
