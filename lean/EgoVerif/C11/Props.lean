import EgoVerif.C11.Model
import EgoVerif.C11.Glue
import EgoVerif.C11.RomanTable
/-
C11 — theorems.  §1 base64 round trip (unbounded), §2 Roman numerals (FINITE 1…3999), §3 the sort
checkers are sound and complete, §4 the native-call glue is the identity on each parameter type's domain.
The Go library functions themselves are the specification and are compared differentially (harness).
-/
namespace EgoVerif.C11

/-! ## §1 base64 -/
theorem dec_enc (n : Nat) (h : n < 64) : dec (enc n) = some n := by
  unfold enc dec
  split
  · simp; omega
  · split
    · rw [if_neg (by omega), if_pos (by omega)]; congr 1; omega
    · split
      · rw [if_neg (by omega), if_neg (by omega), if_pos (by omega)]; congr 1; omega
      · split
        · subst_vars; simp
        · have : n = 63 := by omega
          subst this; simp

theorem enc_ne_pad (n : Nat) (h : n < 64) : enc n ≠ 61 := by
  unfold enc; split <;> (try split) <;> (try split) <;> (try split) <;> omega

theorem enc_not_nl (n : Nat) (h : n < 64) : isNL (enc n) = false := by
  have : enc n ≠ 10 ∧ enc n ≠ 13 := by
    unfold enc; split <;> (try split) <;> (try split) <;> (try split) <;> omega
  simp [isNL, this.1, this.2]

theorem decodeQ_encodeN (l : List Nat) (h : ∀ b ∈ l, b < 256) : decodeQ (encodeN l) = some l := by
  fun_induction encodeN l with
  | case1 => simp [decodeQ]
  | case2 a =>
    have ha : a < 256 := h a (by simp)
    simp only [decodeQ, and_self, if_true, pad2]
    rw [dec_enc _ (by omega), dec_enc _ (by omega)]
    simp only [Option.some.injEq, List.cons.injEq, and_true]; omega
  | case3 a b =>
    have ha : a < 256 := h a (by simp)
    have hb : b < 256 := h b (by simp)
    have hne := enc_ne_pad ((b % 16) * 4) (by omega)
    simp only [decodeQ, and_self, if_true, if_neg hne, pad1]
    rw [dec_enc _ (by omega), dec_enc _ (by omega), dec_enc _ (by omega)]
    simp only [Option.some.injEq, List.cons.injEq, and_true]; omega
  | case4 a b c rest ih =>
    have ha : a < 256 := h a (by simp)
    have hb : b < 256 := h b (by simp)
    have hc : c < 256 := h c (by simp)
    have hne := enc_ne_pad (c % 64) (by omega)
    have ih' := ih (fun x hx => h x (by simp [hx]))
    simp only [decodeQ]
    rw [if_neg (by intro hh; exact hne hh.2)]
    rw [dec_enc _ (by omega), dec_enc _ (by omega), dec_enc _ (by omega), dec_enc _ (by omega), ih']
    simp only [Option.some.injEq, List.cons.injEq, and_true]; omega
theorem encodeN_no_nl (l : List Nat) (h : ∀ b ∈ l, b < 256) : ∀ c ∈ encodeN l, isNL c = false := by
  fun_induction encodeN l with
  | case1 => simp
  | case2 a =>
    have ha : a < 256 := h a (by simp)
    intro c hc
    simp only [List.mem_cons, List.not_mem_nil, or_false] at hc
    rcases hc with rfl | rfl | rfl | rfl
    · exact enc_not_nl _ (by omega)
    · exact enc_not_nl _ (by omega)
    · decide
    · decide
  | case3 a b =>
    have ha : a < 256 := h a (by simp)
    have hb : b < 256 := h b (by simp)
    intro c hc
    simp only [List.mem_cons, List.not_mem_nil, or_false] at hc
    rcases hc with rfl | rfl | rfl | rfl
    · exact enc_not_nl _ (by omega)
    · exact enc_not_nl _ (by omega)
    · exact enc_not_nl _ (by omega)
    · decide
  | case4 a b c rest ih =>
    have ha : a < 256 := h a (by simp)
    have hb : b < 256 := h b (by simp)
    have hc : c < 256 := h c (by simp)
    intro x hx
    simp only [List.mem_cons] at hx
    rcases hx with rfl | rfl | rfl | rfl | hx
    · exact enc_not_nl _ (by omega)
    · exact enc_not_nl _ (by omega)
    · exact enc_not_nl _ (by omega)
    · exact enc_not_nl _ (by omega)
    · exact ih (fun y hy => h y (by simp [hy])) x hx

theorem decodeN_encodeN (l : List Nat) (h : ∀ b ∈ l, b < 256) : decodeN (encodeN l) = some l := by
  unfold decodeN
  rw [List.filter_eq_self.mpr]
  · exact decodeQ_encodeN l h
  · intro c hc; simp [encodeN_no_nl l h c hc]

theorem encodeN_lt (l : List Nat) : ∀ c ∈ encodeN l, c < 256 := by
  have henc : ∀ n, enc n < 256 := by
    intro n; unfold enc; split <;> (try split) <;> (try split) <;> (try split) <;> omega
  fun_induction encodeN l with
  | case1 => simp
  | case2 a => intro c hc; simp only [List.mem_cons, List.not_mem_nil, or_false] at hc; rcases hc with rfl | rfl | rfl | rfl <;> first | exact henc _ | decide
  | case3 a b => intro c hc; simp only [List.mem_cons, List.not_mem_nil, or_false] at hc; rcases hc with rfl | rfl | rfl | rfl <;> first | exact henc _ | decide
  | case4 a b c rest ih =>
    intro x hx; simp only [List.mem_cons] at hx
    rcases hx with rfl | rfl | rfl | rfl | hx
    · exact henc _
    · exact henc _
    · exact henc _
    · exact henc _
    · exact ih x hx

theorem map_toNat_ofNat (l : List Nat) (h : ∀ c ∈ l, c < 256) : (l.map UInt8.ofNat).map (·.toNat) = l := by
  induction l with
  | nil => rfl
  | cons a t ih =>
    have ha : a < 256 := h a (by simp)
    simp only [List.map_cons, List.cons.injEq]
    refine ⟨?_, ih (fun c hc => h c (by simp [hc]))⟩
    simp [UInt8.toNat_ofNat', Nat.mod_eq_of_lt ha]

theorem map_ofNat_toNat (bs : List UInt8) : (bs.map (·.toNat)).map UInt8.ofNat = bs := by
  induction bs with
  | nil => rfl
  | cons a t ih => simp only [List.map_cons, List.cons.injEq]; exact ⟨by simp, ih⟩

/-- base64 round trip, every byte string (unbounded; induction on 3-byte chunks) -/
theorem C11_base64 (bs : List UInt8) : b64decode (b64encode bs) = some bs := by
  unfold b64decode b64encode
  rw [map_toNat_ofNat _ (encodeN_lt _)]
  rw [decodeN_encodeN _ (by intro b hb; simp only [List.mem_map] at hb; obtain ⟨x, _, rfl⟩ := hb; exact x.toNat_lt)]
  simp only [Option.map_some]; exact congrArg some (map_ofNat_toNat bs)

/-- non-vacuity: "Man" ↦ "TWFu", "M" ↦ "TQ==" and back; garbage and bad padding are rejected,
    newlines are skipped -/
example : b64encode [77, 97, 110] = [84, 87, 70, 117] := by decide
example : b64encode [77] = [84, 81, 61, 61] := by decide
example : b64decode [84, 81, 61, 61] = some [77] := by decide
example : b64decode [84, 10, 81, 61, 13, 61, 10] = some [77] := by decide
example : b64decode [84, 81, 61] = none := by decide
example : b64decode [84, 81, 61, 61, 84] = none := by decide
example : b64decode [84, 42, 70, 117] = none := by decide

/-! ## §2 Roman numerals -/

/-- FINITE statement (1…3999: kernel evaluation in four chunks + the lifting lemma above):
    romannumeral.romanToInt (intToRoman n) = n -/
theorem C11_roman (n : Nat) (h1 : 1 ≤ n) (h2 : n ≤ 3999) : romanParse (romanFormat n) = some n := by
  by_cases a : n < 1000
  · exact romanRange_sound 1 999 roman_c0 n h1 (by omega)
  by_cases b : n < 2000
  · exact romanRange_sound 1000 1000 roman_c1 n (by omega) (by omega)
  by_cases c : n < 3000
  · exact romanRange_sound 2000 1000 roman_c2 n (by omega) (by omega)
  · exact romanRange_sound 3000 1000 roman_c3 n (by omega) (by omega)

/-- strconv.Itor rejects exactly the integers outside 1…3999 -/
theorem C11_itor_range (n : Int) : (itor n).isSome = true ↔ (1 ≤ n ∧ n ≤ 3999) := by
  unfold itor; split <;> simp <;> omega

example : romanFormat 1994 = [77, 67, 77, 88, 67, 73, 86] := by decide
example : romanParse [77, 67, 77, 88, 67, 73, 86] = some 1994 := by decide
example : rtoi [32, 120, 105, 118, 10] = some 14 := by decide
/-- the parser is greedy, not a validator: "IIII" and "IM" are accepted (as Go's library does) -/
example : romanParse [73, 73, 73, 73] = some 4 := by decide
example : romanParse [73, 77] = none := by decide

/-! ## §3 checkers for observed sort results (T3) -/
theorem sortedB_iff (l : List Int) : sortedB l = true ↔ l.Pairwise (· ≤ ·) := by
  induction l with
  | nil => simp [sortedB]
  | cons a rest ih =>
    cases rest with
    | nil => simp [sortedB]
    | cons b t =>
      rw [sortedB]
      simp only [Bool.and_eq_true, decide_eq_true_eq, ih, List.pairwise_cons]
      constructor
      · rintro ⟨hab, hb, ht⟩
        refine ⟨?_, hb, ht⟩
        intro x hx
        rcases List.mem_cons.mp hx with rfl | hx
        · exact hab
        · exact Int.le_trans hab (hb x hx)
      · rintro ⟨ha, hb, ht⟩
        exact ⟨ha b (by simp), hb, ht⟩

/-- the checker the harness feeds with observed sort results is sound and complete -/
theorem C11_sortcheck_sound (out inp : List Int) :
    isSortedPerm out inp = true ↔ out.Pairwise (· ≤ ·) ∧ out.Perm inp := by
  simp [isSortedPerm, sortedB_iff, List.isPerm_iff]

theorem sameRuns_iff (out inp : List (Int × Nat)) (ks : List Int) :
    sameRuns out inp ks = true ↔ ∀ k ∈ ks, out.filter (·.1 == k) = inp.filter (·.1 == k) := by
  induction ks with
  | nil => simp [sameRuns]
  | cons k t ih => simp [sameRuns, ih]

theorem filter_absent (l : List (Int × Nat)) (k : Int) (h : k ∉ keys l) : l.filter (·.1 == k) = [] := by
  rw [List.filter_eq_nil_iff]
  intro x hx hk
  apply h
  simp only [keys, List.mem_map]
  exact ⟨x, hx, by simpa using hk⟩

/-- stability checker: sound and complete for "sorted by key, permutation, equal keys keep input order" -/
theorem C11_stablecheck_sound (out inp : List (Int × Nat)) :
    isStable out inp = true ↔
      (keys out).Pairwise (· ≤ ·) ∧ out.Perm inp ∧ ∀ k : Int, out.filter (·.1 == k) = inp.filter (·.1 == k) := by
  simp only [isStable, Bool.and_eq_true, sortedB_iff, List.isPerm_iff, sameRuns_iff, and_assoc]
  constructor
  · rintro ⟨hs, hp, hr⟩
    refine ⟨hs, hp, fun k => ?_⟩
    by_cases hk : k ∈ keys out ++ keys inp
    · exact hr k hk
    · rw [List.mem_append, not_or] at hk
      rw [filter_absent out k hk.1, filter_absent inp k hk.2]
  · rintro ⟨hs, hp, hr⟩
    exact ⟨hs, hp, fun k _ => hr k⟩

example : isSortedPerm [1, 2, 2, 5] [2, 5, 1, 2] = true := by decide
example : isSortedPerm [1, 2, 5] [2, 5, 1, 2] = false := by decide
example : isSortedPerm [2, 1] [1, 2] = false := by decide
example : isStable [(1, 1), (2, 0), (2, 2)] [(2, 0), (1, 1), (2, 2)] = true := by decide
example : isStable [(1, 1), (2, 2), (2, 0)] [(2, 0), (1, 1), (2, 2)] = false := by decide

/-! ## §4 the native-call glue (Glue.lean: convertToNative / convertFromNative) -/

set_option linter.unusedSimpArgs false

theorem wrap_id (k : IK) (n : Int) (h : k.inRange n) : k.wrap n = n := by
  unfold IK.inRange at h
  unfold IK.wrap
  have hpos : 0 < k.hi - k.lo + 1 := by cases k <;> simp [IK.hi, IK.lo]
  rw [Int.emod_eq_of_lt (by omega) (by omega)]; omega

theorem lossy_same (k : IK) (n : Int) (h : k.inRange n) : lossy k k n = false := by
  cases k <;> simp [lossy]

/-- the domain of a scalar parameter type: the values that already have the declared Go type -/
def hasTy : Ty → Scalar → Prop
  | .str, .str _ => True
  | .sandboxed .str, .str _ => True
  | .bool, .bool _ => True
  | .any, _ => True
  | t, .int k n => intTarget t = some k ∧ k.inRange n
  | t, .flt k _ => fltTarget t = some k
  | _, _ => False

theorem scalar_roundtrip (pe : Bool) (t : Ty) (s : Scalar) (ht : faithfulScalar t = true) (h : hasTy t s) :
    scalarToNative pe t s = .ok s := by
  cases s with
  | nil => cases t <;> simp_all [hasTy, scalarToNative, faithfulScalar]
  | bool b => cases t <;> simp_all [hasTy, scalarToNative, faithfulScalar, coerceBool, intTarget, fltTarget]
  | str x =>
    cases t <;> simp_all [hasTy, scalarToNative, faithfulScalar, stringOf, intTarget, fltTarget]
    rename_i t'; cases t' <;> simp_all [hasTy, scalarToNative, stringOf]
  | err c => cases t <;> simp_all [hasTy, scalarToNative, faithfulScalar]
  | int k n =>
    cases t <;> simp_all [hasTy, scalarToNative, faithfulScalar, intTarget, fltTarget] <;>
      (first
        | (obtain ⟨rfl, hr⟩ := h; simp [coerceInt, lossy_same _ _ hr, wrap_id _ _ hr])
        | skip)
    all_goals (rename_i t'; cases t' <;> simp_all [hasTy, intTarget])
  | flt k b =>
    cases t <;> simp_all [hasTy, scalarToNative, faithfulScalar, intTarget, fltTarget, coerceFlt]
    all_goals (rename_i t'; cases t' <;> simp_all [hasTy, fltTarget])

/-- element domain of an array with element kind `e` -/
def elemHas : EK → Scalar → Prop
  | .int k, .int k' n => k = k' ∧ k.inRange n
  | .str, .str _ => True
  | .bool, .bool _ => True
  | .flt k, .flt k' _ => k = k'
  | _, _ => False

/-- array element kinds handled in BOTH directions (makeNativeArrayArgument and convertFromNativeArray) -/
def faithfulEK : EK → Bool
  | .int k => k == .int || k == .int16 || k == .uint16 || k == .int32 || k == .int64 || k == .byte
  | .str | .bool => true
  | .flt k => k == .f32 || k == .f64
  | .any => false

theorem mapRes_id (f : Scalar → Res Scalar) (xs : List Scalar) (h : ∀ x ∈ xs, f x = .ok x) : mapRes f xs = .ok xs := by
  induction xs with
  | nil => rfl
  | cons a t ih =>
    simp [mapRes, h a (by simp), ih (fun x hx => h x (by simp [hx]))]

theorem coerceElem_id (pe : Bool) (k : IK) (x : Scalar) (h : elemHas (.int k) x) : coerceElem pe k x = .ok x := by
  cases x <;> simp_all [elemHas]
  obtain ⟨rfl, hr⟩ := h
  unfold coerceElem
  split
  · simp [coerceInt, lossy_same _ _ hr, wrap_id _ _ hr]
  · simp

theorem arr_toNative (pe : Bool) (e : EK) (xs : List Scalar) (he : faithfulEK e = true)
    (h : ∀ x ∈ xs, elemHas e x) : arrToNative pe (.arr e xs) = .ok (.slice e xs) := by
  cases e with
  | any => simp [faithfulEK] at he
  | str =>
    have : mapRes stringOf xs = .ok xs := mapRes_id _ _ (fun x hx => by
      have := h x hx; cases x <;> simp_all [elemHas, stringOf])
    simp [arrToNative, this]
  | bool =>
    have : mapRes (coerceBool pe) xs = .ok xs := mapRes_id _ _ (fun x hx => by
      have := h x hx; cases x <;> simp_all [elemHas, coerceBool])
    simp [arrToNative, this]
  | flt k =>
    have : mapRes (coerceFlt k) xs = .ok xs := mapRes_id _ _ (fun x hx => by
      have := h x hx; cases x <;> simp_all [elemHas, coerceFlt])
    cases k <;> simp_all [arrToNative, faithfulEK]
  | int k =>
    have : mapRes (coerceElem pe k) xs = .ok xs := mapRes_id _ _ (fun x hx => coerceElem_id pe k x (h x hx))
    cases k <;> simp_all [arrToNative, faithfulEK]

theorem faithfulEK_from (e : EK) (h : faithfulEK e = true) : fromArrayKind e = true := by
  cases e with
  | int k => cases k <;> simp_all [faithfulEK, fromArrayKind]
  | flt k => cases k <;> simp_all [faithfulEK, fromArrayKind]
  | _ => simp_all [faithfulEK, fromArrayKind]

/-- `fromNative (toNative v T) = v`, scalars: on the domain of a faithful parameter type the argument
    reaches the Go function unchanged, and a Go scalar result comes back unchanged -/
theorem C11_conv_roundtrip (pe multi : Bool) (t : Ty) (s : Scalar) (ht : faithfulScalar t = true) (h : hasTy t s) :
    toNative pe t (.sc s) = .ok (.sc s) ∧ fromNative [t] multi (.sc s) = .ok [.sc s] := by
  constructor
  · have := scalar_roundtrip pe t s ht h
    cases t <;> simp_all [toNative, faithfulScalar]
  · cases t <;> simp_all [fromNative, faithfulScalar]

/-- `fromNative (toNative v T) = v`, arrays: an Ego array of a faithful element kind reaches Go as the
    slice with the same elements, and that slice comes back as the same Ego array -/
theorem C11_conv_roundtrip_array (pe multi : Bool) (et : Ty) (e : EK) (xs : List Scalar) (he : faithfulEK e = true)
    (h : ∀ x ∈ xs, elemHas e x) :
    toNative pe (.arr et) (.arr e xs) = .ok (.slice e xs) ∧
    fromNative [.arr et] multi (.slice e xs) = .ok [.arr e xs] := by
  constructor
  · simp [toNative, arr_toNative pe e xs he h]
  · simp [fromNative, faithfulEK_from e he]

/-- value/error result lists: every element of a Go multi-value result is delivered, in order, under
    a marker carrying the count; a single-value use receives the primary (first) value -/
theorem C11_conv_results (rets : List Ty) (xs : List Scalar) (hr : ∀ e, rets ≠ [.arr e]) :
    fromNative rets true (.list xs) = .ok (xs.map .sc ++ [.marker xs.length]) ∧
    (xs.length > 1 → fromNative rets false (.list xs) = .ok ((xs.take 1).map .sc)) := by
  have : fromNative rets true (.list xs) = .ok (pushMulti true xs) ∧
         fromNative rets false (.list xs) = .ok (pushMulti false xs) := by
    unfold fromNative
    split
    · rename_i e; exact absurd rfl (hr e)
    · simp
  refine ⟨by simp [this.1, pushMulti], fun hl => ?_⟩
  simp [this.2, pushMulti, hl]

/-- faithfulness: on the domain, distinct Ego arguments reach the Go function as distinct values
    (so the wrapper computes the Go function on the caller's value) -/
theorem C11_conv_faithful (pe : Bool) (t : Ty) (s₁ s₂ : Scalar) (ht : faithfulScalar t = true)
    (h₁ : hasTy t s₁) (h₂ : hasTy t s₂) (heq : toNative pe t (.sc s₁) = toNative pe t (.sc s₂)) : s₁ = s₂ := by
  rw [(C11_conv_roundtrip pe true t s₁ ht h₁).1, (C11_conv_roundtrip pe true t s₂ ht h₂).1] at heq
  injection heq with h; injection h

/-- outside the domain the mapping is NOT the identity — the coercions of coerce.go:
    an int32 parameter wraps (or, with ego.runtime.precision.error, rejects) a wide int … -/
theorem C11_conv_wrap_counterexample :
    toNative false .int32 (.sc (.int .int 4294967297)) = .ok (.sc (.int .int32 1)) ∧
    toNative true .int32 (.sc (.int .int 4294967297)) = .precision := by decide

/-- an integer literal (an Ego `int`) that the parameter type can hold arrives as exactly that value, under
    either setting of ego.runtime.precision.error (with fixes/C11.patch; before it, MinInt32 was rejected
    for an int32 parameter: `strings.ContainsRune(s, -2147483648)`) -/
theorem C11_conv_int_literal (pe : Bool) (t : Ty) (k : IK) (n : Int) (ht : intTarget t = some k) (hr : k.inRange n) :
    toNative pe t (.sc (.int .int n)) = .ok (.sc (.int k n)) := by
  have hl : lossy .int k n = false := by
    unfold IK.inRange at hr
    cases k <;> simp_all [lossy, IK.lo, IK.hi] <;> omega
  cases t <;> simp_all [intTarget, toNative, scalarToNative, coerceInt, fltTarget, wrap_id _ _ hr]

example : toNative true .int32 (.sc (.int .int (-2147483648))) = .ok (.sc (.int .int32 (-2147483648))) := by decide

theorem tableOk_append (a b : List FnDecl) : tableOk (a ++ b) = (tableOk a && tableOk b) := by
  simp [tableOk]

theorem tableOk_sound (t : List FnDecl) (h : tableOk t = true) : ∀ f ∈ t, f.native = true → FaithfulDecl f := by
  intro f hf hn
  have := List.all_eq_true.mp h f hf
  simp [declOk, hn] at this
  exact ⟨fun p hp => this.1 p hp, fun r hr => this.2 r hr⟩

example : hasTy .int32 (.int .int32 (-2147483648)) := by unfold hasTy; exact ⟨rfl, by decide⟩
example : hasTy .str (.str "héllo") := trivial
example : elemHas (.int .byte) (.int .byte 255) := by unfold elemHas; exact ⟨rfl, by decide⟩

/-! non-vacuity of the remaining hypotheses -/
example : ∀ e, ([Ty.int, Ty.err] : List Ty) ≠ [.arr e] := by intro e; simp
example : faithfulEK (.int .int32) = true ∧ faithfulEK .str = true ∧ faithfulEK .any = false := by decide
example : faithfulScalar .int32 = true ∧ faithfulScalar (.sandboxed .str) = true ∧ faithfulScalar .uint32 = false := by decide
example : intTarget .byte = some .byte ∧ IK.byte.inRange 255 := by decide
/-- a native function with a parameter type the glue has no case for fails the per-function obligation -/
example : declOk { pkg := "strconv", name := "IsPrint", params := [.uint32], variadic := false, returns := [.bool],
                   native := true, receiver := false, value := "go:strconv.IsPrint" } = false := by decide
example : declOk { pkg := "strings", name := "Fields", params := [.str], variadic := false, returns := [.arr .str],
                   native := true, receiver := false, value := "go:strings.Fields" } = true := by decide
end EgoVerif.C11
