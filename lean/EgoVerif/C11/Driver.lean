import EgoVerif.Common.Drv
import EgoVerif.C11.Model
import EgoVerif.C11.Glue
/- line protocol (hex = lowercase hex of bytes, "-" = empty):
   b64e <hex>                      → <hex of base64.Encode>
   b64d <hex>                      → ok <hex> | err
   romf <int>                      → ok <hex> | err                (strconv.Itor)
   romp <hex ascii>                → ok <n> | err                  (strconv.Rtoi)
   sortchk <ints> <ints>           → ok | bad     isSortedPerm out inp   (ints: a,b,c or "-")
   stablechk <pairs> <pairs>       → ok | bad     isStable out inp       (pairs: k:t,k:t or "-")
   conv <pe 0|1> <ty> <val>        → ok <val> | <error>            (convertToNative, one argument)
   back <multi 0|1> <tys> <val>    → ok <val>|<val>… | <error>     (convertFromNative: stack, top first)
   values:  sc=<scalar> | arr=<ek>=<scalars> | slice=<ek>=<scalars> | list=<scalars> | marker=<n>
   scalars: nil | b:0 | b:1 | i:<kind>:<n> | s:<hex> | f:<kind>:<bits> | e:<code>   joined by ';', "-" = none -/
namespace EgoVerif.C11

def ikOf : String → Option IK
  | "byte" => some .byte | "int8" => some .int8 | "int16" => some .int16 | "uint16" => some .uint16
  | "int32" => some .int32 | "uint32" => some .uint32 | "int" => some .int | "uint" => some .uint
  | "int64" => some .int64 | "uint64" => some .uint64 | _ => none

def ikName : IK → String
  | .byte => "byte" | .int8 => "int8" | .int16 => "int16" | .uint16 => "uint16" | .int32 => "int32"
  | .uint32 => "uint32" | .int => "int" | .uint => "uint" | .int64 => "int64" | .uint64 => "uint64"

def fkOf : String → Option FK
  | "f32" => some .f32 | "f64" => some .f64 | "c64" => some .c64 | "c128" => some .c128 | _ => none

def fkName : FK → String
  | .f32 => "f32" | .f64 => "f64" | .c64 => "c64" | .c128 => "c128"

def ekOf (s : String) : Option EK :=
  match s with
  | "str" => some .str | "bool" => some .bool | "any" => some .any
  | _ => match ikOf s with
    | some k => some (.int k)
    | none => (fkOf s).map .flt

def ekName : EK → String
  | .int k => ikName k | .str => "str" | .bool => "bool" | .flt k => fkName k | .any => "any"

def tyBase : String → Option Ty
  | "str" => some .str | "bool" => some .bool | "int8" => some .int8 | "int16" => some .int16
  | "uint16" => some .uint16 | "int32" => some .int32 | "uint32" => some .uint32 | "int" => some .int
  | "uint" => some .uint | "int64" => some .int64 | "uint64" => some .uint64 | "byte" => some .byte
  | "f32" => some .f32 | "f64" => some .f64 | "c64" => some .c64 | "c128" => some .c128
  | "any" => some .any | "err" => some .err | "sandboxed.str" => some (.sandboxed .str)
  | _ => none

def tyOf (s : String) : Option Ty :=
  match s.splitOn "." with
  | ["arr", e] => (tyBase e).map .arr
  | _ => tyBase s

def scalarOf (s : String) : Option Scalar :=
  match s.splitOn ":" with
  | ["nil"] => some .nil
  | ["b", "0"] => some (.bool false)
  | ["b", "1"] => some (.bool true)
  | ["i", k, n] => match ikOf k, n.toInt? with
    | some k, some n => some (.int k n)
    | _, _ => none
  | ["s", h] => (stringOfHex h).map .str
  | ["f", k, b] => match fkOf k, b.toNat? with
    | some k, some b => some (.flt k b)
    | _, _ => none
  | ["e", c] => c.toNat?.map .err
  | _ => none

def scalarName : Scalar → String
  | .nil => "nil"
  | .bool b => if b then "b:1" else "b:0"
  | .int k n => "i:" ++ ikName k ++ ":" ++ toString n
  | .str s => "s:" ++ hexOfString s
  | .flt k b => "f:" ++ fkName k ++ ":" ++ toString b
  | .err c => "e:" ++ toString c

def scalarsOf (s : String) : Option (List Scalar) :=
  if s == "-" then some [] else (s.splitOn ";").mapM scalarOf

def scalarsName (xs : List Scalar) : String :=
  if xs.isEmpty then "-" else ";".intercalate (xs.map scalarName)

def valOf (s : String) : Option Val :=
  match s.splitOn "=" with
  | ["sc", x] => (scalarOf x).map .sc
  | ["arr", e, xs] => match ekOf e, scalarsOf xs with
    | some e, some xs => some (.arr e xs)
    | _, _ => none
  | ["slice", e, xs] => match ekOf e, scalarsOf xs with
    | some e, some xs => some (.slice e xs)
    | _, _ => none
  | ["list", xs] => (scalarsOf xs).map .list
  | ["marker", n] => n.toNat?.map .marker
  | _ => none

def valName : Val → String
  | .sc s => "sc=" ++ scalarName s
  | .arr e xs => "arr=" ++ ekName e ++ "=" ++ scalarsName xs
  | .slice e xs => "slice=" ++ ekName e ++ "=" ++ scalarsName xs
  | .list xs => "list=" ++ scalarsName xs
  | .marker n => "marker=" ++ toString n

def resName {α : Type} (f : α → String) : Res α → String
  | .ok v => "ok " ++ f v
  | .precision => "precision" | .invalidInteger => "invalidInteger" | .invalidBool => "invalidBool"
  | .invalidType => "invalidType" | .argumentType => "argumentType"
  | .wrongArrayValueType => "wrongArrayValueType" | .unmodelled => "unmodelled"

def intsOf (s : String) : Option (List Int) :=
  if s == "-" then some [] else (s.splitOn ",").mapM (·.toInt?)

def pairsOf (s : String) : Option (List (Int × Nat)) :=
  if s == "-" then some [] else
  (s.splitOn ",").mapM fun p =>
    match p.splitOn ":" with
    | [k, t] => match k.toInt?, t.toNat? with
      | some k, some t => some (k, t)
      | _, _ => none
    | _ => none

def natsToHex (l : List Nat) : String :=
  if l.isEmpty then "-" else hexOfBytes (l.map UInt8.ofNat)

def bytesOfField (h : String) : Option (List UInt8) := if h == "-" then some [] else bytesOfHex h

def handle (line : String) : String :=
  match fields line with
  | ["b64e", h] => match bytesOfField h with
    | some bs => let r := b64encode bs; if r.isEmpty then "-" else hexOfBytes r
    | none => "bad-input"
  | ["b64d", h] => match bytesOfField h with
    | some bs => (match b64decode bs with
      | some r => "ok " ++ (if r.isEmpty then "-" else hexOfBytes r)
      | none => "err")
    | none => "bad-input"
  | ["romf", n] => match n.toInt? with
    | some n => (match itor n with | some r => "ok " ++ natsToHex r | none => "err")
    | none => "bad-input"
  | ["romp", h] => match bytesOfField h with
    | some bs => (match rtoi (bs.map (·.toNat)) with | some n => "ok " ++ toString n | none => "err")
    | none => "bad-input"
  | ["sortchk", o, i] => match intsOf o, intsOf i with
    | some o, some i => if isSortedPerm o i then "ok" else "bad"
    | _, _ => "bad-input"
  | ["stablechk", o, i] => match pairsOf o, pairsOf i with
    | some o, some i => if isStable o i then "ok" else "bad"
    | _, _ => "bad-input"
  | ["conv", pe, t, v] => match tyOf t, valOf v with
    | some t, some v => resName valName (toNative (pe == "1") t v)
    | _, _ => "bad-input"
  | ["back", m, ts, v] =>
    match (if ts == "-" then some [] else (ts.splitOn ",").mapM tyOf), valOf v with
    | some ts, some v => resName (fun l => "|".intercalate (l.map valName)) (fromNative ts (m == "1") v)
    | _, _ => "bad-input"
  | _ => "bad-op"

def drv : Drv := Drv.pure handle

end EgoVerif.C11
