/-
C15 — SQL endpoints authorize every table the statement touches.

Executable model (core Lean only) of
  * internal/sqlparse/ast/visit.go   `Walk` + the `nodes()` helper every `Children()` uses,
  * internal/sqlparse/analyze.go     `Sqlparse.Tables()` (closures admin / write / read + the type switch),
                                     `Sqlparse.StatementKind()`, `tableRefName`,
  * internal/server/tables/sql_permissions.go   `authorizeStatement`, `baseTableName`, `writePermissionForKind`,
  * internal/server/tables/scripting/authz.go   the loop of `authorizeAndClassifySQL`.

REGENERATED MODEL.  Nothing in this file names a concrete AST node struct (except the leaf
`TableRef`, which `Tables()` itself names).  The per-struct facts — which fields can hold nodes, which
fields `Children()` hands to `nodes()`, which fields each `case` of the `Tables()` switch passes to
read / write / admin, whether the closures skip empty names — are DATA (`Schema`, `List StmtCase`,
`Cfg`, `PermMap`) produced on every run by tools/extract_c15 from the current Go source.
-/
namespace EgoVerif.C15

/-- A generic AST node: the Go struct's name, its string-typed fields, and — per field whose static
type can hold AST nodes — the non-nil nodes stored there, in order (`[][]Node` flattened). -/
inductive Node where
  | mk (ty : String) (strs : List (String × String)) (kids : List (String × List Node))

def Node.ty : Node → String | .mk t _ _ => t
def Node.strs : Node → List (String × String) | .mk _ s _ => s
def Node.kids : Node → List (String × List Node) | .mk _ _ k => k

inductive Mode where
  | read | write | admin
  deriving DecidableEq, Repr

def Mode.rank : Mode → Nat
  | .read => 0 | .write => 1 | .admin => 2

/-- sqlparse.TableUsage -/
structure Usage where
  name : String
  mode : Mode
  deriving DecidableEq, Repr

/-- GENERATED, one per node struct of internal/sqlparse/ast. -/
structure NodeSchema where
  ty : String
  isStmt : Bool                          -- embeds BaseStmt
  nodeFields : List (String × String)    -- (field, static element type: "Node" or a struct name)
  visited : List String                  -- fields Children() really hands to nodes(), in call order

abbrev Schema := List NodeSchema

def Schema.entry (S : Schema) (ty : String) : NodeSchema :=
  match S.find? (fun e => e.ty == ty) with
  | some e => e
  | none => { ty := ty, isStmt := false, nodeFields := [], visited := [] }

/-- everything stored under field `f` (all entries of that name, in order) -/
def pick {α : Type} (f : String) (l : List (String × List α)) : List α :=
  (l.filter (fun p => p.1 == f)).flatMap (fun p => p.2)

/-! ### ast.Walk (visit.go): pre-order over `Children()`; `Children()` = `nodes(visited fields…)` -/
mutual
def walk (S : Schema) : Node → List Node
  | .mk ty strs kids =>
    let below := walkFields S kids     -- computed once (the compiled driver must not redo it per field)
    .mk ty strs kids :: (S.entry ty).visited.flatMap (fun f => pick f below)
def walkFields (S : Schema) : List (String × List Node) → List (String × List Node)
  | [] => []
  | (f, ns) :: rest => (f, walkList S ns) :: walkFields S rest
def walkList (S : Schema) : List Node → List Node
  | [] => []
  | n :: ns => walk S n ++ walkList S ns
end

/-! ### the full structural traversal: every node reachable through ANY field -/
mutual
def desc : Node → List Node
  | .mk ty strs kids => .mk ty strs kids :: descFields kids
def descFields : List (String × List Node) → List Node
  | [] => []
  | (_, ns) :: rest => descList ns ++ descFields rest
def descList : List Node → List Node
  | [] => []
  | n :: ns => desc n ++ descList ns
end

def strField (strs : List (String × String)) (f : String) : String :=
  match strs.find? (fun p => p.1 == f) with
  | some p => p.2
  | none => ""

/-- analyze.go tableRefName -/
def tableRefName (strs : List (String × String)) : String :=
  let s := strField strs "Schema"
  let n := strField strs "Name"
  if s != "" then s ++ "." ++ n else n

def refTy : String := "TableRef"

/-- the callback of the `read` closure: `if ref, ok := node.(*ast.TableRef); ok { out = append(…UsageRead) }` -/
def refName (n : Node) : Option String :=
  if n.ty == refTy then some (tableRefName n.strs) else none

def refUsage (n : Node) : Option Usage := (refName n).map (fun s => { name := s, mode := .read })

/-- `read(n)` for one node -/
def readNode (S : Schema) (n : Node) : List Usage := (walk S n).filterMap refUsage

/-- GENERATED: the statements of one `case` body of the Tables() switch, in order -/
inductive Action where
  | readSelf                    -- read(s)
  | read (f : String)           -- read(s.F) / read(s.F...) / for _, x := range s.F { read(x) }
  | write (f : String)          -- write(s.F)
  | adminRef (f : String)       -- admin(tableRefName(s.F))
  | adminStr (f : String)       -- admin(s.F)   (string field)
  deriving DecidableEq, Repr

structure StmtCase where
  ty : String
  kind : String
  actions : List Action

/-- GENERATED: do the `admin` / `write` closures drop an empty name? -/
structure Cfg where
  adminSkipsEmpty : Bool
  writeSkipsEmpty : Bool

/-- GENERATED: the shape of the generic traversal `ast.Walk` (internal/sqlparse/ast/visit.go) as the
translator reads it.  `walk` above is the plain recursion "the node, then every child of every visited
field, to any depth"; it mirrors the Go function only if the Go function carries no budget:
no parameter besides `(node, fn)`, no return-before-descending other than the nil test and the
callback's own answer, and a loop that recurses into every element of `node.Children()`. -/
structure WalkFacts where
  recursor : String
  extraParams : Nat
  nilGuard : Bool
  pruneGuard : Bool
  otherGuards : List String
  allChildren : Bool

def WalkFacts.unbounded (w : WalkFacts) : Bool :=
  w.extraParams == 0 && w.otherGuards.isEmpty && w.allChildren

def emit (skipEmpty : Bool) (name : String) (m : Mode) : List Usage :=
  if skipEmpty && name == "" then [] else [{ name := name, mode := m }]

def runAction (S : Schema) (cfg : Cfg) (n : Node) : Action → List Usage
  | .readSelf => readNode S n
  | .read f => (pick f n.kids).flatMap (readNode S)
  | .write f => (pick f n.kids).flatMap (fun c => emit cfg.writeSkipsEmpty (tableRefName c.strs) .write)
  | .adminRef f =>
    match pick f n.kids with
    | [] => emit cfg.adminSkipsEmpty "" .admin          -- tableRefName(nil) = ""
    | cs => cs.flatMap (fun c => emit cfg.adminSkipsEmpty (tableRefName c.strs) .admin)
  | .adminStr f => emit cfg.adminSkipsEmpty (strField n.strs f) .admin

def findCase (C : List StmtCase) (ty : String) : Option StmtCase := C.find? (fun c => c.ty == ty)

/-- Sqlparse.Tables() -/
def tablesModel (S : Schema) (C : List StmtCase) (cfg : Cfg) (n : Node) : List Usage :=
  match findCase C n.ty with
  | some c => c.actions.flatMap (runAction S cfg n)
  | none => []

/-- Sqlparse.StatementKind() -/
def kindModel (C : List StmtCase) (n : Node) : String :=
  match findCase C n.ty with
  | some c => c.kind
  | none => "StmtUnknown"

/-! ### authorization (sql_permissions.go authorizeStatement, scripting/authz.go authorizeAndClassifySQL) -/

/-- GENERATED writePermissionForKind -/
structure PermMap where
  cases : List (String × String)
  dflt : String

def PermMap.get (m : PermMap) (kind : String) : String :=
  match m.cases.find? (fun p => p.1 == kind) with
  | some p => p.2
  | none => m.dflt

def lastDot : List Char → List Char → List Char
  | [], acc => acc
  | c :: rest, acc => if c == '.' then lastDot rest [] else lastDot rest (acc ++ [c])

/-- baseTableName: the text after the last '.' -/
def baseTableName (s : String) : String := String.ofList (lastDot s.toList [])

inductive Check where
  | table (t : String) (perm : String)   -- Authorized(session, user, dsn+"."+t, perm)
  | dsnAdmin                             -- hasPermission(DSNAdminPermission) || AuthDSN(…, DSNAdminAction)
  deriving DecidableEq, Repr

/-- what the caller holds -/
structure Sess where
  table : String → String → Bool
  dsnAdmin : Bool

def Check.holds (s : Sess) : Check → Bool
  | .table t p => s.table t p
  | .dsnAdmin => s.dsnAdmin

def readPerm : String := "TableReadPermission"

/-- the `switch t.Usage` of both authorize loops -/
def checkFor (pm : PermMap) (kind : String) (u : Usage) : Check :=
  match u.mode with
  | .read => .table (baseTableName u.name) readPerm
  | .write => .table (baseTableName u.name) (pm.get kind)
  | .admin => .dsnAdmin

/-- `for _, t := range p.Tables() { … return deny … }`: the checks performed, and the first failing one -/
def authLoop (s : Sess) (pm : PermMap) (kind : String) : List Usage → List Check × Option Check
  | [] => ([], none)
  | u :: us =>
    let c := checkFor pm kind u
    if c.holds s then
      let r := authLoop s pm kind us
      (c :: r.1, r.2)
    else ([c], some c)

/-- non-admin path of authorizeStatement / authorizeAndClassifySQL for a statement that parsed -/
def authorize (S : Schema) (C : List StmtCase) (cfg : Cfg) (pm : PermMap) (s : Sess) (n : Node) :
    List Check × Option Check :=
  authLoop s pm (kindModel C n) (tablesModel S C cfg n)

/-! ### a multi-statement @sql request (sql_permissions.go authorizeAndFormatStatements)

`for i, stmt := range statements { … if status := authorizeStatement(session, w, db.DSN, p); status > OK { return nil, nil, status } }`
for a non-admin caller whose statements all parsed.  The statements are authorized one after the other,
each by its own run of `authorizeStatement` — so each `UsageWrite` reference is checked with the
permission `writePermissionForKind` gives for THAT statement's kind — and nothing is carried from one
statement to the next.  The first denial ends the request (nothing is handed on for execution). -/

/-- the checks performed, in order, and on denial the index of the refused statement with the failing check -/
def authorizeBatch (S : Schema) (C : List StmtCase) (cfg : Cfg) (pm : PermMap) (s : Sess) :
    List Node → List Check × Option (Nat × Check)
  | [] => ([], none)
  | n :: ns =>
    let r := authorize S C cfg pm s n
    match r.2 with
    | some c => (r.1, some (0, c))
    | none =>
      let q := authorizeBatch S C cfg pm s ns
      (r.1 ++ q.1, q.2.map (fun p => (p.1 + 1, p.2)))

end EgoVerif.C15
