import EgoVerif.C15.Model
/-
C15 — theorems.  All of them quantify over EVERY schema / case table / tree / session; the facts about
the current Go source enter only through the decidable hypotheses `schemaComplete`, `casesComplete`
and `ddlAdmin`, which ./check discharges by `decide` over the data the translator regenerates from the
source on every run (generated obligation file `C15Obl.lean`).
-/
namespace EgoVerif.C15

/-! ## decidable facts about the generated data -/

def fieldNames (e : NodeSchema) : List String := e.nodeFields.map (fun q => q.1)

/-- every node-holding field of every struct is handed to `nodes()` by its `Children()` -/
def schemaComplete (S : Schema) : Bool :=
  S.all (fun e => (fieldNames e).all (fun f => e.visited.contains f))

/-- local well-typedness of one node against the schema: each populated field is a declared
node-holding field and its children have the field's static element type -/
def wtNode (S : Schema) (n : Node) : Bool :=
  n.kids.all (fun p => (S.entry n.ty).nodeFields.any
    (fun q => q.1 == p.1 && p.2.all (fun c => q.2 == "Node" || c.ty == q.2)))

/-- a tree is well typed when every node in it is (what a reflection dump of a real AST always is) -/
def WT (S : Schema) (n : Node) : Prop := ∀ x ∈ desc n, wtNode S x = true

/-- SPEC (hand written, independent of the Tables() switch): the object a statement of each type
creates / alters / drops / modifies, where its name is stored, and the usage mode that requires. -/
structure Target where
  ty : String
  field : String
  isStr : Bool
  mode : Mode

def spec : List Target := [
  ⟨"InsertStmt", "Table", false, .write⟩, ⟨"UpdateStmt", "Table", false, .write⟩,
  ⟨"DeleteStmt", "Table", false, .write⟩,
  ⟨"CreateTableStmt", "Table", false, .admin⟩, ⟨"DropTableStmt", "Table", false, .admin⟩,
  ⟨"AlterTableStmt", "Table", false, .admin⟩,
  ⟨"CreateIndexStmt", "Table", true, .admin⟩, ⟨"DropIndexStmt", "Name", true, .admin⟩,
  ⟨"CreateViewStmt", "Name", true, .admin⟩, ⟨"DropViewStmt", "Name", true, .admin⟩]

def targetNames (n : Node) (t : Target) : List String :=
  if t.isStr then [strField n.strs t.field] else (pick t.field n.kids).map (fun c => tableRefName c.strs)

/-- every table reference anywhere in the tree (full structural traversal, all fields) -/
def refs (n : Node) : List String := (desc n).filterMap refName

/-- what the statement touches: its target object with the target's mode, and every table
reference anywhere below it (subqueries in any expression position, CTEs, joins, …) for reading -/
def touched (n : Node) : List Usage :=
  (spec.filter (fun t => t.ty == n.ty)).flatMap
      (fun t => (targetNames n t).map (fun s => ({ name := s, mode := t.mode } : Usage)))
    ++ (refs n).map (fun s => ({ name := s, mode := .read } : Usage))

def covers (e : NodeSchema) (acts : List Action) (q : String × String) : Bool :=
  acts.any (fun a => match a with
    | .readSelf => e.visited.contains q.1
    | .read g => g == q.1
    | .write g => g == q.1 && q.2 == refTy
    | .adminRef g => g == q.1 && q.2 == refTy
    | .adminStr _ => false)

def targetAction (t : Target) (a : Action) : Bool :=
  match a with
  | .write f => !t.isStr && f == t.field && t.mode.rank ≤ Mode.write.rank
  | .adminRef f => !t.isStr && f == t.field
  | .adminStr f => t.isStr && f == t.field
  | _ => false

/-- the `Tables()` switch handles every statement struct, every node-holding field of it, and its
target with at least the specified mode; the closures drop nothing; `TableRef` is a leaf -/
def casesComplete (S : Schema) (C : List StmtCase) (cfg : Cfg) : Bool :=
  !cfg.adminSkipsEmpty && !cfg.writeSkipsEmpty &&
  (S.entry refTy).nodeFields.isEmpty && !(S.entry refTy).isStmt &&
  S.all (fun e => !e.isStmt ||
    match findCase C e.ty with
    | none => false
    | some c => e.nodeFields.all (covers e c.actions) &&
                (spec.filter (fun t => t.ty == e.ty)).all (fun t => c.actions.any (targetAction t)))

def isAdminAction : Action → Bool
  | .adminRef _ => true
  | .adminStr _ => true
  | _ => false

/-- every case whose StatementKind is schema-altering performs an `admin(…)` -/
def ddlAdmin (C : List StmtCase) (alt : List String) : Bool :=
  C.all (fun c => !alt.contains c.kind || c.actions.any isAdminAction)

/-! ## list forms of the mutual definitions -/

theorem walkList_eq (S : Schema) (ns : List Node) : walkList S ns = ns.flatMap (walk S) := by
  induction ns with
  | nil => simp [walkList]
  | cons n ns ih => simp [walkList, ih]

theorem walkFields_eq (S : Schema) (kids : List (String × List Node)) :
    walkFields S kids = kids.map (fun p => (p.1, p.2.flatMap (walk S))) := by
  induction kids with
  | nil => simp [walkFields]
  | cons p rest ih => cases p; simp [walkFields, ih, walkList_eq]

theorem descList_eq (ns : List Node) : descList ns = ns.flatMap desc := by
  induction ns with
  | nil => simp [descList]
  | cons n ns ih => simp [descList, ih]

theorem descFields_eq (kids : List (String × List Node)) :
    descFields kids = kids.flatMap (fun p => p.2.flatMap desc) := by
  induction kids with
  | nil => simp [descFields]
  | cons p rest ih => cases p; simp [descFields, ih, descList_eq]

theorem desc_mk (ty : String) (strs : List (String × String)) (kids : List (String × List Node)) :
    desc (.mk ty strs kids) = .mk ty strs kids :: kids.flatMap (fun p => p.2.flatMap desc) := by
  simp [desc, descFields_eq]

theorem walk_mk (S : Schema) (ty : String) (strs : List (String × String)) (kids : List (String × List Node)) :
    walk S (.mk ty strs kids) = .mk ty strs kids ::
      (S.entry ty).visited.flatMap (fun f => pick f (kids.map (fun p => (p.1, p.2.flatMap (walk S))))) := by
  simp [walk, walkFields_eq]

theorem mem_pick {α : Type} {f : String} {l : List (String × List α)} {x : α} :
    x ∈ pick f l ↔ ∃ p ∈ l, p.1 = f ∧ x ∈ p.2 := by
  simp only [pick, List.mem_flatMap, List.mem_filter, beq_iff_eq]
  constructor
  · rintro ⟨p, ⟨hp, hf⟩, hx⟩; exact ⟨p, hp, hf, hx⟩
  · rintro ⟨p, hp, hf, hx⟩; exact ⟨p, ⟨hp, hf⟩, hx⟩

theorem self_mem_desc (n : Node) : n ∈ desc n := by
  cases n; simp [desc]

theorem self_mem_walk (S : Schema) (n : Node) : n ∈ walk S n := by
  cases n; simp [walk]

/-- induction over trees: children are the nodes stored in any field -/
theorem Node.induct {P : Node → Prop}
    (h : ∀ ty strs kids, (∀ p ∈ kids, ∀ c ∈ p.2, P c) → P (.mk ty strs kids)) : ∀ n, P n
  | .mk ty strs kids => h ty strs kids (fun p hp c hc => Node.induct h c)
termination_by n => sizeOf n
decreasing_by
  have h1 := List.sizeOf_lt_of_mem hp
  have h2 := List.sizeOf_lt_of_mem hc
  cases p with
  | mk f ns =>
    simp only [Prod.mk.sizeOf_spec] at h1
    simp only [Node.mk.sizeOf_spec]
    simp only at h2
    omega

theorem desc_trans {n c d : Node} (hc : c ∈ desc n) (hd : d ∈ desc c) : d ∈ desc n := by
  induction n using Node.induct generalizing c d with
  | h ty strs kids ih =>
    rw [desc_mk] at hc ⊢
    rcases List.mem_cons.mp hc with rfl | hc
    · rw [desc_mk] at hd; exact hd
    · simp only [List.mem_flatMap] at hc
      obtain ⟨p, hp, k, hk, hck⟩ := hc
      refine List.mem_cons_of_mem _ ?_
      simp only [List.mem_flatMap]
      exact ⟨p, hp, k, hk, ih p hp k hk hck hd⟩

theorem child_mem_desc {ty : String} {strs : List (String × String)} {kids : List (String × List Node)}
    {p : String × List Node} {c : Node} (hp : p ∈ kids) (hc : c ∈ p.2) : c ∈ desc (.mk ty strs kids) := by
  rw [desc_mk]
  refine List.mem_cons_of_mem _ ?_
  simp only [List.mem_flatMap]
  exact ⟨p, hp, c, hc, self_mem_desc c⟩

theorem WT_child {S : Schema} {n c : Node} (h : WT S n) (hc : c ∈ desc n) : WT S c :=
  fun x hx => h x (desc_trans hc hx)

theorem entry_complete {S : Schema} (hS : schemaComplete S = true) (ty f : String)
    (hf : f ∈ fieldNames (S.entry ty)) : f ∈ (S.entry ty).visited := by
  unfold Schema.entry at hf ⊢
  cases hfind : S.find? (fun e => e.ty == ty) with
  | none => simp [hfind, fieldNames] at hf
  | some e =>
    simp only [hfind] at hf ⊢
    have he : e ∈ S := List.mem_of_find?_eq_some hfind
    simp only [schemaComplete, List.all_eq_true] at hS
    have := hS e he f hf
    simpa using this

/-- from local well-typedness: a populated field is a declared node field, with its element type -/
theorem wt_field {S : Schema} {n : Node} (h : wtNode S n = true) {p : String × List Node} (hp : p ∈ n.kids) :
    ∃ q ∈ (S.entry n.ty).nodeFields, q.1 = p.1 ∧ ∀ c ∈ p.2, q.2 = "Node" ∨ c.ty = q.2 := by
  simp only [wtNode, List.all_eq_true, List.any_eq_true, Bool.and_eq_true, beq_iff_eq, Bool.or_eq_true] at h
  obtain ⟨q, hq, hq1, hq2⟩ := h p hp
  exact ⟨q, hq, hq1, hq2⟩

/-! ## C15_walk_complete -/

/-- **Walk is complete.**  If every node-holding field of every struct is returned by its
`Children()` (decidable over the generated schema), then `ast.Walk` visits every descendant of every
well-typed tree — whatever field it sits in and however deep. -/
theorem C15_walk_complete (S : Schema) (hS : schemaComplete S = true) :
    ∀ n, WT S n → ∀ d ∈ desc n, d ∈ walk S n := by
  intro n
  induction n using Node.induct with
  | h ty strs kids ih =>
    intro hwt d hd
    rw [walk_mk]
    rw [desc_mk] at hd
    rcases List.mem_cons.mp hd with rfl | hd
    · exact List.mem_cons_self
    · refine List.mem_cons_of_mem _ ?_
      simp only [List.mem_flatMap] at hd
      obtain ⟨p, hp, c, hc, hdc⟩ := hd
      have hcd : c ∈ desc (.mk ty strs kids) := child_mem_desc hp hc
      have hd' : d ∈ walk S c := ih p hp c hc (WT_child hwt hcd) d hdc
      have hself := hwt _ (self_mem_desc (.mk ty strs kids))
      obtain ⟨q, hq, hq1, _⟩ := wt_field hself (p := p) hp
      have hvis : p.1 ∈ (S.entry ty).visited := by
        apply entry_complete hS
        simp only [fieldNames, List.mem_map]
        exact ⟨q, hq, hq1⟩
      simp only [List.mem_flatMap]
      refine ⟨p.1, hvis, ?_⟩
      rw [mem_pick]
      refine ⟨(p.1, p.2.flatMap (walk S)), ?_, rfl, ?_⟩
      · simp only [List.mem_map]; exact ⟨p, hp, rfl⟩
      · simp only [List.mem_flatMap]; exact ⟨c, hc, hd'⟩

/-- `read(n)` reports every table reference below `n` -/
theorem read_complete (S : Schema) (hS : schemaComplete S = true) (n : Node) (hwt : WT S n) :
    ∀ r ∈ refs n, ({ name := r, mode := .read } : Usage) ∈ readNode S n := by
  intro r hr
  simp only [refs, List.mem_filterMap] at hr
  obtain ⟨d, hd, hdr⟩ := hr
  simp only [readNode, List.mem_filterMap]
  exact ⟨d, C15_walk_complete S hS n hwt d hd, by simp [refUsage, hdr]⟩

/-! ## C15_tables_cover -/

theorem refs_mk {ty : String} {strs : List (String × String)} {kids : List (String × List Node)} {r : String}
    (h : r ∈ refs (.mk ty strs kids)) :
    refName (.mk ty strs kids) = some r ∨ ∃ p ∈ kids, ∃ c ∈ p.2, r ∈ refs c := by
  simp only [refs, desc_mk, List.mem_filterMap] at h
  obtain ⟨d, hd, hdr⟩ := h
  rcases List.mem_cons.mp hd with rfl | hd
  · left; exact hdr
  · right
    simp only [List.mem_flatMap] at hd
    obtain ⟨p, hp, c, hc, hdc⟩ := hd
    exact ⟨p, hp, c, hc, by simp only [refs, List.mem_filterMap]; exact ⟨d, hdc, hdr⟩⟩

theorem entry_mem {S : Schema} {ty : String} (h : (S.entry ty).isStmt = true) :
    S.entry ty ∈ S ∧ (S.entry ty).ty = ty := by
  unfold Schema.entry at h ⊢
  cases hfind : S.find? (fun e => e.ty == ty) with
  | none => simp [hfind] at h
  | some e =>
    simp only [hfind]
    have := List.find?_some hfind
    exact ⟨List.mem_of_find?_eq_some hfind, by simpa using this⟩

theorem emit_noskip (name : String) (m : Mode) : emit false name m = [{ name := name, mode := m }] := by
  simp [emit]

/-- a `TableRef` child of a well-typed tree has no children, so the only reference below it is itself -/
theorem refs_leaf {S : Schema} (hleaf : (S.entry refTy).nodeFields.isEmpty = true) {c : Node}
    (hty : c.ty = refTy) (hwt : wtNode S c = true) {r : String} (hr : r ∈ refs c) :
    r = tableRefName c.strs := by
  cases c with
  | mk ty strs kids =>
    simp only [Node.ty] at hty
    subst hty
    have hk : kids = [] := by
      cases kids with
      | nil => rfl
      | cons p rest =>
        obtain ⟨q, hq, _, _⟩ := wt_field hwt (p := p) (by simp [Node.kids])
        simp only [Node.ty, List.isEmpty_iff] at hleaf hq
        rw [hleaf] at hq
        simp at hq
    subst hk
    simp [refs, desc_mk, refName, Node.ty, Node.strs] at hr
    simp [Node.strs, hr]

/-- **Tables() covers everything the statement touches.**  For every statement struct, if the
`Tables()` switch handles each of its node-holding fields and its target (decidable over the
generated case table) then every table the statement touches — its target, and every table reference
in any expression position at any depth — is reported under the same name with at least that mode. -/
theorem C15_tables_cover (S : Schema) (C : List StmtCase) (cfg : Cfg)
    (hS : schemaComplete S = true) (hC : casesComplete S C cfg = true)
    (n : Node) (hstmt : (S.entry n.ty).isStmt = true) (hwt : WT S n) :
    ∀ u ∈ touched n, ∃ v ∈ tablesModel S C cfg n, v.name = u.name ∧ u.mode.rank ≤ v.mode.rank := by
  simp only [casesComplete, Bool.and_eq_true, Bool.not_eq_true', List.all_eq_true, Bool.or_eq_true] at hC
  obtain ⟨⟨⟨⟨hA, hW⟩, hleaf⟩, hrefNotStmt⟩, hall⟩ := hC
  obtain ⟨hmem, hety⟩ := entry_mem hstmt
  have hcase := hall _ hmem
  rw [hstmt] at hcase
  simp only [Bool.true_eq_false, false_or] at hcase
  rw [hety] at hcase
  cases n with
  | mk ty strs kids =>
  simp only [Node.ty] at hstmt hcase hety
  cases hfc : findCase C ty with
  | none => simp [hfc] at hcase
  | some c =>
    simp only [hfc, Bool.and_eq_true, List.all_eq_true] at hcase
    obtain ⟨hfields, htargets⟩ := hcase
    have hcfg : cfg = { adminSkipsEmpty := false, writeSkipsEmpty := false } := by
      cases cfg; simp_all
    have htm : tablesModel S C cfg (.mk ty strs kids) = c.actions.flatMap (runAction S cfg (.mk ty strs kids)) := by
      simp [tablesModel, Node.ty, hfc]
    intro u hu
    simp only [touched, List.mem_append, List.mem_flatMap, List.mem_map, List.mem_filter, Node.ty,
      beq_iff_eq] at hu
    rw [htm]
    rcases hu with ⟨t, ⟨hts, htty⟩, s, hs, rfl⟩ | ⟨r, hr, rfl⟩
    · -- the statement's own target
      have hta := htargets t (by simp [List.mem_filter, hts, htty, hety])
      simp only [List.any_eq_true] at hta
      obtain ⟨a, ha, hat⟩ := hta
      simp only [List.mem_flatMap]
      cases a with
      | readSelf => simp [targetAction] at hat
      | read f => simp [targetAction] at hat
      | adminStr f =>
        simp only [targetAction, Bool.and_eq_true, beq_iff_eq] at hat
        obtain ⟨histr, hf⟩ := hat
        simp only [targetNames, histr, if_true, List.mem_singleton] at hs
        refine ⟨⟨s, .admin⟩, ⟨.adminStr f, ha, ?_⟩, rfl, ?_⟩
        · simp [runAction, hcfg, emit_noskip, hs, hf, Node.strs]
        · cases t.mode <;> simp [Mode.rank]
      | write f =>
        simp only [targetAction, Bool.and_eq_true, Bool.not_eq_true', beq_iff_eq, decide_eq_true_eq] at hat
        obtain ⟨⟨histr, hf⟩, hmode⟩ := hat
        simp only [targetNames, histr, Bool.false_eq_true, if_false, List.mem_map, Node.kids] at hs
        obtain ⟨k, hk, rfl⟩ := hs
        refine ⟨⟨tableRefName k.strs, .write⟩, ⟨.write f, ha, ?_⟩, rfl, hmode⟩
        simp only [runAction, hcfg, emit_noskip, List.mem_flatMap, Node.kids, List.mem_singleton]
        exact ⟨k, hf ▸ hk, rfl⟩
      | adminRef f =>
        simp only [targetAction, Bool.and_eq_true, Bool.not_eq_true', beq_iff_eq] at hat
        obtain ⟨histr, hf⟩ := hat
        simp only [targetNames, histr, Bool.false_eq_true, if_false, List.mem_map, Node.kids] at hs
        obtain ⟨k, hk, rfl⟩ := hs
        refine ⟨⟨tableRefName k.strs, .admin⟩, ⟨.adminRef f, ha, ?_⟩, rfl, ?_⟩
        · simp only [runAction, hcfg, emit_noskip, Node.kids]
          subst hf
          cases hpk : pick t.field kids with
          | nil => rw [hpk] at hk; simp at hk
          | cons k0 ks =>
            simp only [List.mem_flatMap, List.mem_singleton]
            exact ⟨k, hpk ▸ hk, rfl⟩
        · cases t.mode <;> simp [Mode.rank]
    · -- a table reference somewhere below the statement
      have hself := hwt _ (self_mem_desc (.mk ty strs kids))
      rcases refs_mk hr with hroot | ⟨p, hp, k, hk, hrk⟩
      · -- the statement struct itself is not a TableRef
        exfalso
        simp only [refName, Node.ty] at hroot
        by_cases hty : ty = refTy
        · subst hty
          rw [hstmt] at hrefNotStmt
          simp at hrefNotStmt
        · simp [hty] at hroot
      · obtain ⟨q, hq, hq1, hq2⟩ := wt_field hself (p := p) (by simpa [Node.kids] using hp)
        simp only [Node.ty] at hq
        have hcov := hfields q hq
        simp only [covers, List.any_eq_true] at hcov
        obtain ⟨a, ha, hcova⟩ := hcov
        have hkd : k ∈ desc (.mk ty strs kids) := child_mem_desc hp hk
        have hkwt : WT S k := WT_child hwt hkd
        have hkpick : k ∈ pick q.1 kids := by rw [mem_pick]; exact ⟨p, hp, hq1.symm, hk⟩
        simp only [List.mem_flatMap]
        cases a with
        | adminStr f => simp at hcova
        | read f =>
          simp only [beq_iff_eq] at hcova
          subst hcova
          refine ⟨⟨r, .read⟩, ⟨.read q.1, ha, ?_⟩, rfl, Nat.le_refl _⟩
          simp only [runAction, List.mem_flatMap, Node.kids]
          exact ⟨k, hkpick, read_complete S hS k hkwt r hrk⟩
        | readSelf =>
          refine ⟨⟨r, .read⟩, ⟨.readSelf, ha, ?_⟩, rfl, Nat.le_refl _⟩
          simp only [runAction]
          apply read_complete S hS _ hwt
          simp only [refs, List.mem_filterMap] at hrk ⊢
          obtain ⟨d, hd, hdr⟩ := hrk
          exact ⟨d, desc_trans hkd hd, hdr⟩
        | write f =>
          simp only [Bool.and_eq_true, beq_iff_eq] at hcova
          obtain ⟨hf, hel⟩ := hcova
          have hkty : k.ty = refTy := by
            rcases hq2 k hk with h | h
            · rw [hel] at h; simp [refTy] at h
            · rw [h, hel]
          have := refs_leaf hleaf hkty (hkwt k (self_mem_desc k)) hrk
          subst this
          refine ⟨⟨tableRefName k.strs, .write⟩, ⟨.write f, ha, ?_⟩, rfl, by simp [Mode.rank]⟩
          simp only [runAction, hcfg, emit_noskip, List.mem_flatMap, Node.kids, List.mem_singleton]
          exact ⟨k, hf ▸ hkpick, rfl⟩
        | adminRef f =>
          simp only [Bool.and_eq_true, beq_iff_eq] at hcova
          obtain ⟨hf, hel⟩ := hcova
          have hkty : k.ty = refTy := by
            rcases hq2 k hk with h | h
            · rw [hel] at h; simp [refTy] at h
            · rw [h, hel]
          have := refs_leaf hleaf hkty (hkwt k (self_mem_desc k)) hrk
          subst this
          refine ⟨⟨tableRefName k.strs, .admin⟩, ⟨.adminRef f, ha, ?_⟩, rfl, by simp [Mode.rank]⟩
          simp only [runAction, hcfg, emit_noskip, Node.kids]
          subst hf
          cases hpk : pick q.1 kids with
          | nil => rw [hpk] at hkpick; simp at hkpick
          | cons k0 ks =>
            simp only [List.mem_flatMap, List.mem_singleton]
            exact ⟨k, hpk ▸ hkpick, rfl⟩

/-! ## C15_authz -/

/-- **allow ⇒ every reported usage had its check made and held.** -/
theorem C15_authz (s : Sess) (pm : PermMap) (kind : String) (us : List Usage)
    (h : (authLoop s pm kind us).2 = none) :
    ∀ u ∈ us, (checkFor pm kind u).holds s = true ∧ checkFor pm kind u ∈ (authLoop s pm kind us).1 := by
  induction us with
  | nil => simp
  | cons u us ih =>
    simp only [authLoop] at h ⊢
    by_cases hc : (checkFor pm kind u).holds s = true
    · simp only [hc, if_true] at h ⊢
      intro v hv
      rcases List.mem_cons.mp hv with rfl | hv
      · exact ⟨hc, List.mem_cons_self⟩
      · exact ⟨(ih h v hv).1, List.mem_cons_of_mem _ (ih h v hv).2⟩
    · simp [hc] at h

/-- a denial names a check that really failed and that belongs to a reported usage -/
theorem C15_deny_justified (s : Sess) (pm : PermMap) (kind : String) (us : List Usage) (c : Check)
    (h : (authLoop s pm kind us).2 = some c) :
    c.holds s = false ∧ ∃ u ∈ us, c = checkFor pm kind u := by
  induction us with
  | nil => simp [authLoop] at h
  | cons u us ih =>
    simp only [authLoop] at h
    by_cases hc : (checkFor pm kind u).holds s = true
    · simp only [hc, if_true] at h
      obtain ⟨h1, v, hv, h2⟩ := ih h
      exact ⟨h1, v, List.mem_cons_of_mem _ hv, h2⟩
    · simp only [hc] at h
      simp only [Bool.false_eq_true, if_false, Option.some.injEq] at h
      subst h
      exact ⟨by simpa using hc, u, List.mem_cons_self, rfl⟩

/-- **End to end.**  If the statement is allowed, every table it touches was checked with a
permission at least as strong as the way it is touched. -/
theorem C15_sound (S : Schema) (C : List StmtCase) (cfg : Cfg) (pm : PermMap) (s : Sess)
    (hS : schemaComplete S = true) (hC : casesComplete S C cfg = true)
    (n : Node) (hstmt : (S.entry n.ty).isStmt = true) (hwt : WT S n)
    (hallow : (authorize S C cfg pm s n).2 = none) :
    ∀ u ∈ touched n, ∃ v : Usage, v.name = u.name ∧ u.mode.rank ≤ v.mode.rank ∧
      (checkFor pm (kindModel C n) v).holds s = true ∧
      checkFor pm (kindModel C n) v ∈ (authorize S C cfg pm s n).1 := by
  intro u hu
  obtain ⟨v, hv, hname, hmode⟩ := C15_tables_cover S C cfg hS hC n hstmt hwt u hu
  have := C15_authz s pm (kindModel C n) (tablesModel S C cfg n) hallow v hv
  exact ⟨v, hname, hmode, this.1, this.2⟩

/-- **Schema-changing statements need DSN-admin.**  If every case of a schema-altering kind performs an
`admin(…)` and the closure drops nothing, an allowed statement of such a kind had the DSN-admin check. -/
theorem C15_ddl_needs_admin (S : Schema) (C : List StmtCase) (cfg : Cfg) (pm : PermMap) (s : Sess)
    (alt : List String) (hD : ddlAdmin C alt = true) (hunk : "StmtUnknown" ∉ alt)
    (hcfg : cfg.adminSkipsEmpty = false)
    (n : Node) (hk : kindModel C n ∈ alt) (hallow : (authorize S C cfg pm s n).2 = none) :
    s.dsnAdmin = true := by
  simp only [kindModel] at hk
  cases hfc : findCase C n.ty with
  | none =>
    simp only [hfc] at hk
    exact absurd hk hunk
  | some c =>
    simp only [hfc] at hk
    have hcm : c ∈ C := List.mem_of_find?_eq_some hfc
    simp only [ddlAdmin, List.all_eq_true, Bool.or_eq_true, Bool.not_eq_true', List.any_eq_true] at hD
    rcases hD c hcm with h | ⟨a, ha, haa⟩
    · simp [hk] at h
    · have hex : ∃ v ∈ tablesModel S C cfg n, v.mode = .admin := by
        simp only [tablesModel, hfc, List.mem_flatMap]
        cases a with
        | readSelf => simp [isAdminAction] at haa
        | read f => simp [isAdminAction] at haa
        | write f => simp [isAdminAction] at haa
        | adminStr f =>
          exact ⟨⟨strField n.strs f, .admin⟩, ⟨.adminStr f, ha, by simp [runAction, emit, hcfg]⟩, rfl⟩
        | adminRef f =>
          cases hpk : pick f n.kids with
          | nil => exact ⟨⟨"", .admin⟩, ⟨.adminRef f, ha, by simp [runAction, hpk, emit, hcfg]⟩, rfl⟩
          | cons k ks =>
            exact ⟨⟨tableRefName k.strs, .admin⟩,
              ⟨.adminRef f, ha, by simp [runAction, hpk, emit, hcfg]⟩, rfl⟩
      obtain ⟨v, hv, hvm⟩ := hex
      have := (C15_authz s pm (kindModel C n) (tablesModel S C cfg n) hallow v hv).1
      simpa [checkFor, hvm, Check.holds] using this

/-! ## multi-statement @sql requests: every statement, every usage, with the permission of ITS OWN kind -/

theorem authorize_eq (S : Schema) (C : List StmtCase) (cfg : Cfg) (pm : PermMap) (s : Sess) (n : Node) :
    authorize S C cfg pm s n = authLoop s pm (kindModel C n) (tablesModel S C cfg n) := rfl

/-- a request is allowed exactly when each of its statements, taken alone, is allowed -/
theorem C15_batch_allow_iff (S : Schema) (C : List StmtCase) (cfg : Cfg) (pm : PermMap) (s : Sess)
    (ns : List Node) :
    (authorizeBatch S C cfg pm s ns).2 = none ↔ ∀ n ∈ ns, (authorize S C cfg pm s n).2 = none := by
  induction ns with
  | nil => simp [authorizeBatch]
  | cons n ns ih =>
    simp only [authorizeBatch]
    cases h : (authorize S C cfg pm s n).2 with
    | some c => simp [h]
    | none =>
      simp only [List.mem_cons, forall_eq_or_imp, h, true_and]
      rw [← ih]
      cases (authorizeBatch S C cfg pm s ns).2 <;> simp

/-- in an allowed request the checks of every statement are among the checks performed -/
theorem batch_checks_sub (S : Schema) (C : List StmtCase) (cfg : Cfg) (pm : PermMap) (s : Sess)
    (ns : List Node) (hallow : (authorizeBatch S C cfg pm s ns).2 = none) :
    ∀ n ∈ ns, ∀ c ∈ (authorize S C cfg pm s n).1, c ∈ (authorizeBatch S C cfg pm s ns).1 := by
  induction ns with
  | nil => simp
  | cons n ns ih =>
    simp only [authorizeBatch] at hallow ⊢
    cases h : (authorize S C cfg pm s n).2 with
    | some c => simp [h] at hallow
    | none =>
      simp only [h] at hallow ⊢
      have hq : (authorizeBatch S C cfg pm s ns).2 = none := by
        cases hq : (authorizeBatch S C cfg pm s ns).2 with
        | none => rfl
        | some p => simp [hq] at hallow
      intro m hm c hc
      rcases List.mem_cons.mp hm with rfl | hm
      · exact List.mem_append_left _ hc
      · exact List.mem_append_right _ (ih hq m hm c hc)

/-- **End to end for a multi-statement request.**  If the request is allowed then for EVERY statement in
it, every table that statement touches was checked with a permission at least as strong as the way it is
touched — and a written table with the permission `writePermissionForKind` gives for that statement's own
kind (`kindModel C n`), not the kind of some other statement of the request. -/
theorem C15_batch_sound (S : Schema) (C : List StmtCase) (cfg : Cfg) (pm : PermMap) (s : Sess)
    (hS : schemaComplete S = true) (hC : casesComplete S C cfg = true) (ns : List Node)
    (hstmt : ∀ n ∈ ns, (S.entry n.ty).isStmt = true ∧ WT S n)
    (hallow : (authorizeBatch S C cfg pm s ns).2 = none) :
    ∀ n ∈ ns, ∀ u ∈ touched n, ∃ v : Usage, v.name = u.name ∧ u.mode.rank ≤ v.mode.rank ∧
      (checkFor pm (kindModel C n) v).holds s = true ∧
      checkFor pm (kindModel C n) v ∈ (authorizeBatch S C cfg pm s ns).1 := by
  intro n hn u hu
  have hone := (C15_batch_allow_iff S C cfg pm s ns).mp hallow n hn
  obtain ⟨v, h1, h2, h3, h4⟩ := C15_sound S C cfg pm s hS hC n (hstmt n hn).1 (hstmt n hn).2 hone u hu
  exact ⟨v, h1, h2, h3, batch_checks_sub S C cfg pm s ns hallow n hn _ h4⟩

/-- a refused request names a statement of the request and a check of that statement that really failed;
every earlier statement was allowed on its own -/
theorem C15_batch_deny_justified (S : Schema) (C : List StmtCase) (cfg : Cfg) (pm : PermMap) (s : Sess)
    (ns : List Node) (i : Nat) (c : Check) (h : (authorizeBatch S C cfg pm s ns).2 = some (i, c)) :
    c.holds s = false ∧ (∃ n, ns[i]? = some n ∧ (authorize S C cfg pm s n).2 = some c) ∧
    ∀ j, j < i → ∀ m, ns[j]? = some m → (authorize S C cfg pm s m).2 = none := by
  induction ns generalizing i with
  | nil => simp [authorizeBatch] at h
  | cons n ns ih =>
    simp only [authorizeBatch] at h
    cases h' : (authorize S C cfg pm s n).2 with
    | some c0 =>
      simp only [h', Option.some.injEq, Prod.mk.injEq] at h
      obtain ⟨rfl, rfl⟩ := h
      refine ⟨?_, ⟨n, by simp, h'⟩, by intro j hj; omega⟩
      rw [authorize_eq] at h'
      exact (C15_deny_justified s pm _ _ _ h').1
    | none =>
      simp only [h'] at h
      cases hq : (authorizeBatch S C cfg pm s ns).2 with
      | none => simp [hq] at h
      | some p =>
        obtain ⟨i0, c0⟩ := p
        simp only [hq, Option.map_some, Option.some.injEq, Prod.mk.injEq] at h
        obtain ⟨rfl, rfl⟩ := h
        obtain ⟨g1, ⟨m, hm, g2⟩, g3⟩ := ih i0 hq
        refine ⟨g1, ⟨m, by simpa using hm, g2⟩, ?_⟩
        intro j hj k hk
        cases j with
        | zero =>
          simp only [List.getElem?_cons_zero, Option.some.injEq] at hk
          subst hk
          exact h'
        | succ j =>
          simp only [List.getElem?_cons_succ] at hk
          exact g3 j (by omega) k hk

/-! ## witnesses: the defects the hypotheses rule out, and non-vacuity of every implication -/

namespace Demo

def tref (name : String) : Node := .mk "TableRef" [("Schema", ""), ("Name", name)] []

/-- a four-struct excerpt of the real schema -/
def S0 : Schema := [
  { ty := "UpdateStmt", isStmt := true,
    nodeFields := [("Table", "TableRef"), ("Set", "SetClause"), ("Where", "Node")],
    visited := ["Table", "Set", "Where"] },
  { ty := "DropIndexStmt", isStmt := true, nodeFields := [], visited := [] },
  { ty := "SetClause", isStmt := false, nodeFields := [("Value", "Node")], visited := ["Value"] },
  { ty := "Subquery", isStmt := false, nodeFields := [("Select", "Node")], visited := ["Select"] },
  { ty := "TableRef", isStmt := false, nodeFields := [], visited := [] }]

/-- `UPDATE t SET a = (SELECT … FROM secret)` -/
def upd : Node :=
  .mk "UpdateStmt" [] [("Table", [tref "t"]),
    ("Set", [.mk "SetClause" [] [("Value", [.mk "Subquery" [] [("Select", [tref "secret"])]])]]),
    ("Where", [])]

/-- `DROP INDEX idx1` -/
def dropIdx : Node := .mk "DropIndexStmt" [("Schema", ""), ("Name", "idx1")] []

/-- the two cases as they were before fixes/C15.patch … -/
def oldCases : List StmtCase := [
  { ty := "UpdateStmt", kind := "StmtUpdate", actions := [.write "Table", .read "Where"] },
  { ty := "DropIndexStmt", kind := "StmtDropIndex", actions := [] }]
def oldCfg : Cfg := ⟨true, true⟩

/-- … and after it -/
def newCases : List StmtCase := [
  { ty := "UpdateStmt", kind := "StmtUpdate", actions := [.write "Table", .read "Where", .read "Set"] },
  { ty := "DropIndexStmt", kind := "StmtDropIndex", actions := [.adminStr "Name"] }]
def newCfg : Cfg := ⟨false, false⟩

def pm : PermMap := { cases := [("StmtUpdate", "TableUpdatePermission")], dflt := "TableWritePermission" }

/-- a caller who may update `t` and nothing else -/
def onlyT : Sess := { table := fun t p => t == "t" && p == "TableUpdatePermission", dsnAdmin := false }

end Demo

open Demo in
/-- **The UPDATE … SET defect.**  With the unpatched case table the statement touches `secret` for
reading, `Tables()` reports only `t`, and a caller holding nothing on `secret` is allowed. -/
theorem C15_update_set_counterexample :
    ({ name := "secret", mode := .read } : Usage) ∈ touched upd ∧
    tablesModel S0 oldCases oldCfg upd = [{ name := "t", mode := .write }] ∧
    (authorize S0 oldCases oldCfg pm onlyT upd).2 = none ∧
    casesComplete S0 oldCases oldCfg = false := by decide

open Demo in
/-- **The DROP INDEX defect.**  Unpatched, a schema-altering statement reports nothing, so it is allowed
without DSN-admin; `ddlAdmin` is the hypothesis that rules it out. -/
theorem C15_drop_index_counterexample :
    tablesModel S0 oldCases oldCfg dropIdx = [] ∧
    (authorize S0 oldCases oldCfg pm onlyT dropIdx).2 = none ∧ onlyT.dsnAdmin = false ∧
    ddlAdmin oldCases ["StmtDropIndex"] = false := by decide

open Demo in
/-- **The empty-name defect.**  Unpatched, `DELETE FROM ""` (write closure drops the empty name) is unchecked. -/
theorem C15_empty_name_counterexample :
    runAction S0 oldCfg (.mk "DeleteStmt" [] [("Table", [tref ""])]) (.write "Table") = [] ∧
    runAction S0 newCfg (.mk "DeleteStmt" [] [("Table", [tref ""])]) (.write "Table")
      = [{ name := "", mode := .write }] := by decide

/-! non-vacuity: the hypotheses of the theorems are met by the patched excerpt, and the conclusions bite -/
open Demo in
example : schemaComplete S0 = true ∧ casesComplete S0 newCases newCfg = true ∧
    ddlAdmin newCases ["StmtDropIndex"] = true := by decide
open Demo in
example : (S0.entry upd.ty).isStmt = true := by decide
open Demo in
example : (desc upd).all (wtNode S0) = true := by decide
open Demo in
example : tablesModel S0 newCases newCfg upd =
    [{ name := "t", mode := .write }, { name := "secret", mode := .read }] := by decide
open Demo in
example : (authorize S0 newCases newCfg pm onlyT upd) =
    ([.table "t" "TableUpdatePermission", .table "secret" "TableReadPermission"],
     some (.table "secret" "TableReadPermission")) := by decide
open Demo in
example : (authorize S0 newCases newCfg pm onlyT dropIdx).2 = some .dsnAdmin := by decide
open Demo in
example : (authorize S0 newCases newCfg pm
    { table := fun _ _ => true, dsnAdmin := true } upd).2 = none := by decide
example : baseTableName "main.secret" = "secret" ∧ baseTableName "t0" = "t0" := by decide
/-- a tree whose `Children()` skipped a field would not be covered: completeness is a real hypothesis -/
example : schemaComplete [⟨"UpdateStmt", true, [("Set", "SetClause")], []⟩] = false := by decide

/-! ### why nothing may be carried from one statement of a request to the next

`UsageWrite` stands for three different permissions (insert / update / delete) depending on the kind of the
statement the reference came from.  A loop that remembers "this (table, usage) was allowed earlier in the
request" and skips the lookup for it answers for the wrong permission. -/
namespace Demo

/-- the loop of authorizeStatement with a per-request memory of allowed references keyed by
(base table name, usage mode) -/
def authLoopMemo (s : Sess) (pm : PermMap) (kind : String) :
    List Usage → List (String × Mode) → Option Check × List (String × Mode)
  | [], g => (none, g)
  | u :: us, g =>
    let key := (baseTableName u.name, u.mode)
    if g.contains key then authLoopMemo s pm kind us g
    else
      let c := checkFor pm kind u
      if c.holds s then authLoopMemo s pm kind us (key :: g) else (some c, g)

def authorizeBatchMemo (S : Schema) (C : List StmtCase) (cfg : Cfg) (pm : PermMap) (s : Sess) :
    List Node → List (String × Mode) → Option Check
  | [], _ => none
  | n :: ns, g =>
    let r := authLoopMemo s pm (kindModel C n) (tablesModel S C cfg n) g
    match r.1 with
    | some c => some c
    | none => authorizeBatchMemo S C cfg pm s ns r.2

def dmlCases : List StmtCase := [
  { ty := "InsertStmt", kind := "StmtInsert", actions := [.write "Table"] },
  { ty := "UpdateStmt", kind := "StmtUpdate", actions := [.write "Table", .read "Where", .read "Set"] },
  { ty := "DeleteStmt", kind := "StmtDelete", actions := [.write "Table", .read "Where"] }]

def pm3 : PermMap :=
  { cases := [("StmtUpdate", "TableUpdatePermission"), ("StmtDelete", "TableDeletePermission")],
    dflt := "TableWritePermission" }

/-- `INSERT INTO t …` ; `DELETE FROM t` -/
def insT : Node := .mk "InsertStmt" [] [("Table", [tref "t"])]
def delT : Node := .mk "DeleteStmt" [] [("Table", [tref "t"]), ("Where", [])]

/-- a caller who may insert into `t` and nothing else -/
def insertOnly : Sess := { table := fun t p => t == "t" && p == "TableWritePermission", dsnAdmin := false }

end Demo

open Demo in
/-- **Cross-statement carry-over is unsound.**  `INSERT INTO t; DELETE FROM t` from a caller holding only
the insert permission: the code's loop refuses the request at statement 1 for the delete permission; the
remembering loop allows it, although the DELETE alone is refused. -/
theorem C15_batch_memo_counterexample :
    (authorizeBatch S0 dmlCases newCfg pm3 insertOnly [insT, delT]).2
      = some (1, .table "t" "TableDeletePermission") ∧
    (authorize S0 dmlCases newCfg pm3 insertOnly delT).2 = some (.table "t" "TableDeletePermission") ∧
    authorizeBatchMemo S0 dmlCases newCfg pm3 insertOnly [insT, delT] [] = none := by decide

/-! non-vacuity of the batch theorems -/
open Demo in
example : (authorizeBatch S0 dmlCases newCfg pm3
    { table := fun _ _ => true, dsnAdmin := false } [insT, delT]) =
    ([.table "t" "TableWritePermission", .table "t" "TableDeletePermission"], none) := by decide
open Demo in
example : (authorizeBatch S0 newCases newCfg pm onlyT [upd, dropIdx]).2
    = some (0, .table "secret" "TableReadPermission") := by decide
open Demo in
example : (authorizeBatch S0 newCases newCfg pm
    { table := fun _ _ => true, dsnAdmin := false } [upd, dropIdx]).2 = some (1, .dsnAdmin) := by decide

end EgoVerif.C15
