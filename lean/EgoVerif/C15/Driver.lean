import EgoVerif.Common.Drv
import EgoVerif.C15.Model
/- line protocol (tokens separated by blanks; names are Go identifiers, SQL names hex-encoded, "-" = empty)

   `S <gen>`        load the GENERATED data (schema, cases, cfg, perm maps) printed by `encodeGen`   → `ok`
   `T <tree>`       → `<StatementKind> <usage>,<usage>…`  usage = `<hex name>:<r|w|a>`   (Tables())
   `W`              → `wt=<0|1> refs=<hex>,…`  well-typedness of the last `T` tree against the schema, and the
                      model's own full traversal (descendant table references, pre-order)
   (`B` and `C` refer to the tree of the last `T` line)
   `B <sql|tx> <dsnAdmin 0|1> <n> (<hex table> <perm>)*n`
                    → `allow` | `deny <check>`            verdict and the check that failed
   `C <sql|tx> <dsnAdmin 0|1> <n> (<hex table> <perm>)*n`
                    → `allow <check>,…` | `deny <check>,…`  verdict and the table checks performed, in order
                      check = `T:<hex table>:<perm>` | `A` (DSN-admin)
   `M <k> <tree>*k` a multi-statement @sql request → `<StatementKind> <usages>|<StatementKind> <usages>|…`
                    (one entry per statement; `D` lines refer to the statements of the last `M` line)
   `D <dsnAdmin 0|1> <n> (<hex table> <perm>)*n`
                    → `allow <t>` | `deny <check> <t>`   verdict of authorizeAndFormatStatements for the whole
                      request, the check that failed, and t = number of table-permission lookups
                      (Authorized() calls) performed before the verdict
   `<tree>` = `<ty> <nstr> (<field> <hex>)* <nfields> (<field> <count> <tree>*count)*`
-/
namespace EgoVerif.C15

structure GenData where
  schema : Schema
  cases : List StmtCase
  cfg : Cfg
  pmSql : PermMap
  pmTx : PermMap
  alt : List String

/-! encoder: used by the generated obligation file (`#eval IO.println (encodeGen …)`), so the driver
runs on exactly the Lean term the `decide` obligations are about -/

def encList {α : Type} (f : α → String) (l : List α) : String :=
  toString l.length ++ (l.foldl (fun acc x => acc ++ " " ++ f x) "")

def encAction : Action → String
  | .readSelf => "readSelf -"
  | .read f => "read " ++ f
  | .write f => "write " ++ f
  | .adminRef f => "adminRef " ++ f
  | .adminStr f => "adminStr " ++ f

def encPM (m : PermMap) : String := encList (fun p => p.1 ++ " " ++ p.2) m.cases ++ " " ++ m.dflt

def b01 (b : Bool) : String := if b then "1" else "0"

def encodeGen (g : GenData) : String :=
  encList (fun e => e.ty ++ " " ++ b01 e.isStmt ++ " " ++ encList (fun q => q.1 ++ " " ++ q.2) e.nodeFields
            ++ " " ++ encList id e.visited) g.schema
  ++ " " ++ encList (fun c => c.ty ++ " " ++ c.kind ++ " " ++ encList encAction c.actions) g.cases
  ++ " " ++ b01 g.cfg.adminSkipsEmpty ++ " " ++ b01 g.cfg.writeSkipsEmpty
  ++ " " ++ encPM g.pmSql ++ " " ++ encPM g.pmTx ++ " " ++ encList id g.alt

/-! decoder -/

/-- blank-separated tokens, one linear pass -/
def toksAux : List Char → List Char → List String → List String
  | [], cur, acc => (if cur.isEmpty then acc else String.ofList cur.reverse :: acc).reverse
  | c :: rest, cur, acc =>
    if c == ' ' then toksAux rest [] (if cur.isEmpty then acc else String.ofList cur.reverse :: acc)
    else toksAux rest (c :: cur) acc

def toks (line : String) : List String := toksAux line.toList [] []

abbrev P := StateT (List String) Option

def tok : P String := do
  match (← get) with
  | [] => failure
  | t :: rest => set rest; pure t

def nat : P Nat := do
  match (← tok).toNat? with
  | some n => pure n
  | none => failure

def rep {α : Type} (p : P α) : Nat → P (List α)
  | 0 => pure []
  | n + 1 => do
    let x ← p
    let xs ← rep p n
    pure (x :: xs)

def many {α : Type} (p : P α) : P (List α) := do
  let n ← nat
  rep p n

def bool01 : P Bool := do pure ((← tok) == "1")

def pAction : P Action := do
  let op ← tok
  let f ← tok
  match op with
  | "readSelf" => pure .readSelf
  | "read" => pure (.read f)
  | "write" => pure (.write f)
  | "adminRef" => pure (.adminRef f)
  | "adminStr" => pure (.adminStr f)
  | _ => failure

def pPM : P PermMap := do
  let cs ← many (do let k ← tok; let v ← tok; pure (k, v))
  let d ← tok
  pure { cases := cs, dflt := d }

def pGen : P GenData := do
  let schema ← many (do
    let ty ← tok
    let st ← bool01
    let nf ← many (do let f ← tok; let e ← tok; pure (f, e))
    let vis ← many tok
    pure ({ ty := ty, isStmt := st, nodeFields := nf, visited := vis } : NodeSchema))
  let cases ← many (do
    let ty ← tok
    let kind ← tok
    let acts ← many pAction
    pure ({ ty := ty, kind := kind, actions := acts } : StmtCase))
  let a ← bool01
  let w ← bool01
  let p1 ← pPM
  let p2 ← pPM
  let alt ← many tok
  pure { schema := schema, cases := cases, cfg := ⟨a, w⟩, pmSql := p1, pmTx := p2, alt := alt }

def hexStr : P String := do
  match stringOfHex (← tok) with
  | some s => pure s
  | none => failure

partial def pTree : P Node := do
  let ty ← tok
  let strs ← many (do let f ← tok; let v ← hexStr; pure (f, v))
  let kids ← many (do let f ← tok; let cs ← many pTree; pure (f, cs))
  pure (.mk ty strs kids)

/-! answers -/

def modeCh : Mode → String
  | .read => "r" | .write => "w" | .admin => "a"

def showUsages (us : List Usage) : String :=
  if us.isEmpty then "-" else ",".intercalate (us.map (fun u => hexOfString u.name ++ ":" ++ modeCh u.mode))

def showCheck : Check → String
  | .table t p => "T:" ++ hexOfString t ++ ":" ++ p
  | .dsnAdmin => "A"

def showChecks (cs : List Check) : String :=
  if cs.isEmpty then "-" else ",".intercalate (cs.map showCheck)

/-- executable copy of Props.wtNode / WT (kept here so the driver stays core-only) -/
def wtNodeD (S : Schema) (n : Node) : Bool :=
  let nf := (S.entry n.ty).nodeFields
  n.kids.all (fun p => nf.any (fun q => q.1 == p.1 && p.2.all (fun c => q.2 == "Node" || c.ty == q.2)))

structure St where
  gen : Option GenData := none
  tree : Option Node := none      -- the statement of the last `T` line; `W`, `B`, `C` lines refer to it
  batch : Option (List Node) := none   -- the statements of the last `M` line; `D` lines refer to them

def handle (st : St) (line : String) : St × String :=
  match toks line with
  | "S" :: rest =>
    match pGen.run rest with
    | some (g', []) => ({ st with gen := some g' }, "ok")
    | _ => (st, "bad-gen")
  | "T" :: rest =>
    match st.gen, pTree.run rest with
    | some g, some (n, []) =>
      ({ st with tree := some n }, kindModel g.cases n ++ " " ++ showUsages (tablesModel g.schema g.cases g.cfg n))
    | _, _ => ({ st with tree := none }, "bad-input")
  | ["W"] =>
    match st.gen, st.tree with
    | some g, some n =>
      let ds := desc n
      let rs := ds.filterMap refName
      (st, "wt=" ++ b01 (ds.all (wtNodeD g.schema)) ++ " refs=" ++
        (if rs.isEmpty then "-" else ",".intercalate (rs.map hexOfString)))
    | _, _ => (st, "bad-input")
  | "M" :: rest =>
    match st.gen, (many pTree).run rest with
    | some g, some (ns, []) =>
      ({ st with batch := some ns },
        "|".intercalate (ns.map (fun n =>
          kindModel g.cases n ++ " " ++ showUsages (tablesModel g.schema g.cases g.cfg n))))
    | _, _ => ({ st with batch := none }, "bad-input")
  | "D" :: adm :: rest =>
    match st.gen, st.batch with
    | some g, some ns =>
      let p : P (List (String × String)) := many (do let t ← hexStr; let pm ← tok; pure (t, pm))
      match p.run rest with
      | some (grants, []) =>
        let s : Sess := { table := fun t pm => grants.contains (t, pm), dsnAdmin := adm == "1" }
        let r := authorizeBatch g.schema g.cases g.cfg g.pmSql s ns
        let t := (r.1.filter (fun c => match c with | .table _ _ => true | .dsnAdmin => false)).length
        (st, match r.2 with
          | none => "allow " ++ toString t
          | some (_, c) => "deny " ++ showCheck c ++ " " ++ toString t)
      | _ => (st, "bad-input")
    | _, _ => (st, "no-batch")
  | op :: variant :: adm :: rest =>
    if op != "B" && op != "C" then (st, "bad-op") else
    match st.gen, st.tree with
    | some g, some n =>
      let p : P (List (String × String)) := many (do let t ← hexStr; let pm ← tok; pure (t, pm))
      match p.run rest with
      | some (grants, []) =>
        let s : Sess := { table := fun t pm => grants.contains (t, pm), dsnAdmin := adm == "1" }
        let pm := if variant == "tx" then g.pmTx else g.pmSql
        let r := authorize g.schema g.cases g.cfg pm s n
        if op == "C" then
          (st, (if r.2.isNone then "allow " else "deny ") ++
            showChecks (r.1.filter (fun c => match c with | .table _ _ => true | .dsnAdmin => false)))
        else
          (st, match r.2 with | none => "allow" | some c => "deny " ++ showCheck c)
      | _ => (st, "bad-input")
    | _, _ => (st, "no-tree")
  | _ => (st, "bad-op")

def drv : Drv := { σ := St, init := {}, step := handle }

end EgoVerif.C15
