import EgoVerif.C14.Stmt
/-
C14 — theorems over the model of the (repaired) SQL generators.

`C14_structure`: for EVERY request the statement builders accept (tokens of the filters arbitrary, subject only to
the tokenizer contract `TokOK` on numeric tokens), running the model of SQLite's tokenizer over the generated
text yields exactly the token skeleton of the pieces the builder wrote: each client-supplied text (filter string,
column name, table name, sort name that is not a plain identifier, row key) is ONE string-literal or ONE
quoted-identifier token; every other character comes from the builder's own fixed vocabulary, a number, or a
plain-identifier sort name.  Consequences: `C14_one_statement` (no `;`, no comment, nothing unterminated),
`C14_client_text_confined`.  `C14_unfixed_*_counterexample`: the statements the unrepaired handlers executed
(captured by the harness) do not have that shape.
-/
namespace EgoVerif.C14

theorem chain_all : ∀ {ps : List Piece}, Chain ps → ∀ p ∈ ps, PieceOK p
  | [], _, p, hp => by simp at hp
  | q :: qs, ⟨hq, hc, _⟩, p, hp => by
    simp at hp
    rcases hp with rfl | hp
    · exact hq
    · exact chain_all hc p hp

theorem chain_structure {ps : List Piece} (h : Chain ps) :
    sqlLex (render ps) = pieceToks ps ∧ ∀ p ∈ ps, PieceOK p := by
  refine ⟨?_, chain_all h⟩
  have := chain_lex ps h [] follow_nil
  simpa [sqlLex, run, flush] using this

/-- the requests of the statement builders -/
inductive Req where
  | selectDelete (r : SelReq)
  | update (table : List Char) (keys : List (List Char)) (filters : List (List Tok)) (rowid : Bool)
  | insert (table : List Char) (keys : List (List Char)) (nvalues : Nat)
  | abstractUpdate (table : List Char) (items : List (List Char)) (filters : List (List Tok)) (rowid : Bool)
  | taskUpdate (table : List Char) (keys : List (List Char)) (filters : List (List Tok))
  | whereOnly (filters : List (List Tok))

def Req.filters : Req → List (List Tok)
  | .selectDelete r => r.filters
  | .update _ _ f _ => f
  | .insert _ _ _ => []
  | .abstractUpdate _ _ f _ => f
  | .taskUpdate _ _ f => f
  | .whereOnly f => f

/-- the statement (as pieces) generated for a request, or its rejection -/
def gen : Req → Except Err (List Piece)
  | .selectDelete r => selectDelete r
  | .update t k f r => updateQuery t k f r
  | .insert t k n => .ok (insertQuery (fullName t) k n)
  | .abstractUpdate t k f r => abstractUpdate t k f r
  | .taskUpdate t k f => txUpdate t k f
  | .whereOnly f => whereClause f

theorem gen_chain {q : Req} {ps : List Piece} (h : FiltersOK q.filters) (e : gen q = .ok ps) : Chain ps := by
  cases q with
  | selectDelete r => exact selectDelete_chain h e
  | update t k f r => exact updateQuery_chain h e
  | insert t k n => cases e; exact insertQuery_chain t k n
  | abstractUpdate t k f r => exact abstractUpdate_chain h e
  | taskUpdate t k f => exact txUpdate_chain h e
  | whereOnly f => exact (whereClause_chain h e).1

/-- MAIN: the text of every accepted request lexes to the skeleton of its pieces, and every piece is either
confined client text or fixed/numeric/plain-identifier text -/
theorem C14_structure (q : Req) (ps : List Piece) (h : FiltersOK q.filters) (e : gen q = .ok ps) :
    sqlLex (render ps) = pieceToks ps ∧ ∀ p ∈ ps, PieceOK p :=
  chain_structure (gen_chain h e)

def LTok.bad : LTok → Bool
  | .semi => true
  | .comment => true
  | .unterminated => true
  | _ => false

theorem pieceToks_not_bad : ∀ (ps : List Piece), ∀ t ∈ pieceToks ps, t.bad = false
  | [], t, ht => by simp [pieceToks] at ht
  | p :: ps, t, ht => by
    simp only [pieceToks, List.mem_append] at ht
    rcases ht with ht | ht
    · cases p <;> simp [Piece.toks] at ht <;> first | (subst ht; rfl) | (obtain ⟨c, _, rfl⟩ := ht; rfl)
    · exact pieceToks_not_bad ps t ht

/-- one statement: SQLite sees no `;`, no comment opener and no unterminated literal outside the literals -/
theorem C14_one_statement (q : Req) (ps : List Piece) (h : FiltersOK q.filters) (e : gen q = .ok ps) :
    ∀ t ∈ sqlLex (render ps), t ≠ .semi ∧ t ≠ .comment ∧ t ≠ .unterminated := by
  intro t ht
  rw [(C14_structure q ps h e).1] at ht
  have := pieceToks_not_bad ps t ht
  refine ⟨?_, ?_, ?_⟩ <;> intro e <;> subst e <;> simp [LTok.bad] at this

def Piece.client : Piece → Option (Bool × List Char)
  | .str v => some (false, v)
  | .ident v => some (true, v)
  | _ => none

def LTok.literal : LTok → Option (Bool × List Char)
  | .str v => some (false, v)
  | .qid v => some (true, v)
  | _ => none

theorem literal_pieceToks : ∀ ps : List Piece, (pieceToks ps).filterMap LTok.literal = ps.filterMap Piece.client
  | [] => rfl
  | p :: ps => by
    have ih := literal_pieceToks ps
    have hch : ∀ s : List Char, (s.map LTok.ch).filterMap LTok.literal = [] := by
      intro s; induction s with
      | nil => rfl
      | cons c cs ih => simp [List.filterMap_cons, LTok.literal, ih]
    cases p <;> simp [pieceToks, Piece.toks, Piece.client, LTok.literal, List.filterMap_append, List.filterMap_cons, hch, ih]

/-- the literal tokens SQLite sees are exactly the client texts the builder quoted, in order, each whole -/
theorem C14_client_text_confined (q : Req) (ps : List Piece) (h : FiltersOK q.filters) (e : gen q = .ok ps) :
    (sqlLex (render ps)).filterMap LTok.literal = ps.filterMap Piece.client := by
  rw [(C14_structure q ps h e).1, literal_pieceToks]

/-- the literals that introduce a table name -/
def tableWords : List (List Char) := ["FROM ", " INTO ", "UPDATE", "UPDATE ", "SELECT * FROM "].map String.toList

/-- NOT PROVED here (checked on every run by SQLite's EXPLAIN instead): in a SELECT/DELETE statement the only
table-introducing literal is the `FROM ` that precedes the addressed table -/
def C14_only_addressed_table_statement : Prop :=
  ∀ (r : SelReq) (ps : List Piece), FiltersOK r.filters → selectDelete r = .ok ps →
    ∃ a b, ps = a ++ Piece.kw "FROM ".toList :: (fullName r.table ++ b) ∧
      ∀ p ∈ a ++ b, ∀ s, p = Piece.kw s → s ∉ tableWords

/-! ## the column-metadata statement (QueryParameters + SQLEscape) -/

theorem trimSuffix1_snoc (q : Char) (a : List Char) : trimSuffix1 q (a ++ [q]) = a := by
  simp [trimSuffix1, trimPrefix1]

theorem sqlEscape_ident (n : List Char) {x : List Char} (e : sqlEscape (Piece.ident n).text = some x) : x = escD n := by
  have hsrc : trimPrefix1 '"' (trimSuffix1 '"' ('"' :: (escD n ++ ['"']))) = escD n := by
    rw [show '"' :: (escD n ++ ['"']) = ('"' :: escD n) ++ ['"'] from rfl, trimSuffix1_snoc]
    simp [trimPrefix1]
  unfold sqlEscape at e
  simp only [Piece.text, List.head?_cons] at e
  have h1 : ((some '"' : Option Char) = some '\'') = False := eq_false (by decide)
  simp only [if_true, hsrc, h1, if_false] at e
  by_cases hl : escLoop (escD n).length 0 (escD n) = true
  · rw [if_pos hl] at e
    exact (Option.some.inj e).symm
  · rw [if_neg hl] at e
    cases e

/-- whenever the metadata statement is built at all, it is `SELECT * FROM <quoted identifier> WHERE 1=0` -/
theorem C14_metadata_structure (table x : List Char) (e : metaText table = some x) :
    x = render [.kw "SELECT * FROM ".toList, .ident (stripQuotes table), .kw " WHERE 1=0".toList] ∧
    sqlLex x = pieceToks [.kw "SELECT * FROM ".toList, .ident (stripQuotes table), .kw " WHERE 1=0".toList] := by
  have hx : x = render [.kw "SELECT * FROM ".toList, .ident (stripQuotes table), .kw " WHERE 1=0".toList] := by
    unfold metaText at e
    simp only at e
    split at e
    · cases e
    · cases hq : sqlEscape (Piece.ident (stripQuotes table)).text with
      | none => rw [hq] at e; cases e
      | some y =>
        rw [hq] at e
        have hy := sqlEscape_ident _ hq
        subst hy
        cases e
        simp [render, Piece.text]
  refine ⟨hx, ?_⟩
  rw [hx]
  have hc : Chain [Piece.ident (stripQuotes table), Piece.kw " WHERE 1=0".toList] :=
    ⟨trivial, chain_kw (by decide) trivial, fun _ => nqs_kw (by decide)⟩
  exact (chain_structure (chain_kw (by decide) hc)).1

/-! ## non-vacuity: a hostile request that is accepted -/

instance (t : Tok) : Decidable (TokOK t) := by unfold TokOK; infer_instance
instance (ts : List Tok) : Decidable (ToksOK ts) := by unfold ToksOK; infer_instance
instance (fs : List (List Tok)) : Decidable (FiltersOK fs) := by unfold FiltersOK; infer_instance

/-- tokens of `EQ(name,"a'")` and `EQ(note," ) OR 1=1 --")` -/
def exFilters : List (List Tok) :=
  [[⟨.ident, "EQ".toList⟩, ⟨.special, ['(']⟩, ⟨.ident, "name".toList⟩, ⟨.special, [',']⟩, ⟨.str, "a'".toList⟩,
    ⟨.special, [')']⟩, ⟨.special, [';']⟩],
   [⟨.ident, "EQ".toList⟩, ⟨.special, ['(']⟩, ⟨.ident, "note".toList⟩, ⟨.special, [',']⟩,
    ⟨.str, " ) OR 1=1 --".toList⟩, ⟨.special, [')']⟩, ⟨.special, [';']⟩]]

def exSel : SelReq where
  select := false
  table := "t1".toList
  columns := []
  filters := exFilters
  sort := none
  lim := none
  start := none

def exReq : Req := .selectDelete exSel

example : FiltersOK exReq.filters := by decide

example : (gen exReq).toOption.map (fun ps => String.ofList (render ps)) =
    some "DELETE FROM \"t1\" WHERE (\"name\" = 'a''') AND (\"note\" = ' ) OR 1=1 --')" := by
  decide

/-! ## the statements the unrepaired handlers executed (recorded by the harness) -/

/-- `sort=(select 1);delete from canary;--`: a second statement and a comment -/
theorem C14_unfixed_sort_counterexample :
    LTok.semi ∈ sqlLex "SELECT * FROM \"t1\" ORDER BY (select 1);delete from canary;--  LIMIT 1000".toList ∧
    LTok.comment ∈ sqlLex "SELECT * FROM \"t1\" ORDER BY (select 1);delete from canary;--  LIMIT 1000".toList := by
  decide

/-- `EQ(name,"a'")` + `EQ(note," ) OR 1=1 --")`: the first literal swallows the text up to the second value,
which is then live SQL -/
theorem C14_unfixed_quote_counterexample :
    sqlLex "WHERE (\"name\" = 'a'') AND (\"note\" = ' ) OR 1=1 --')".toList =
      ("WHERE (".toList.map LTok.ch) ++ [.qid "name".toList] ++ (" = ".toList.map LTok.ch) ++
      [.str "a') AND (\"note\" = ".toList] ++ (" ) OR 1=1 ".toList.map LTok.ch) ++ [.comment] := by
  decide

/-- `columns=count(*) from canary --` (abstract read): the addressed table is commented out -/
theorem C14_unfixed_count_counterexample :
    sqlLex "SELECT count(*) from canary -- FROM \"t1\"  LIMIT 1000".toList =
      ("SELECT count(*) from canary ".toList.map LTok.ch) ++ [.comment] := by
  decide

/-- `EQ(id,-"1 OR 1=1")`: the client text is outside every literal -/
theorem C14_unfixed_signed_counterexample :
    (sqlLex "DELETE FROM \"t1\" WHERE (\"id\" = -1 OR 1=1)".toList).filterMap LTok.literal =
      [(true, "t1".toList), (true, "id".toList)] := by
  decide

end EgoVerif.C14
