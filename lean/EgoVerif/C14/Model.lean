/-
C14 — model of the SQL text generators behind the table REST handlers, core Lean only.

Mirrors (with the repair proposed in fixes/C14.patch applied):
  internal/server/tables/parsing/generators.go   filterClause, sqlTerm, formWhereExpressions, WhereClause,
                                                 PagingClauses, FormSelectorDeleteQuery, FormUpdateQuery,
                                                 FormInsertQuery, writeSpaceString
  internal/server/tables/parsing/parsing.go      SQLEscape, StripQuotes, ColumnList, FullName, SortList, sortName,
                                                 QueryParameters (one "table" argument)
  internal/server/tables/parsingAbstract.go      formAbstractUpdateQuery, formAbstractInsertQuery
  internal/server/tables/scripting/update.go     the UPDATE text built by doUpdate
  internal/util/strings/quotes.go                SQLIdentifier
for the SQLite provider.  A generator returns the list of `Piece`s it writes, in the order the Go code
writes them into its strings.Builder; the statement text is `render` of that list.  `run`/`sqlLex` is a model
of SQLite's tokenizer restricted to what matters here: string literals, quoted identifiers, comments and `;`.
-/
namespace EgoVerif.C14

/-! ## pieces of generated text -/

inductive Piece where
  | kw (s : List Char)      -- literal text of the generator itself
  | nat (n : Nat)           -- strconv.Itoa / %d of a non-negative number ($N, LIMIT N)
  | int (i : Int)           -- strconv.Itoa of a possibly negative number (OFFSET N)
  | num (s : List Char)     -- spelling of an Integer/Float/Boolean token (or NULL), copied as is
  | bare (s : List Char)    -- a sort name that is a plain identifier, copied as is
  | str (v : List Char)     -- client text inside a '…' literal, quotes doubled
  | ident (v : List Char)   -- client text inside a "…" identifier, quotes doubled (SQLIdentifier)
  deriving DecidableEq, Repr

/-- decimal digits of `n`, most significant first (strconv.Itoa for n ≥ 0) -/
def natDigits (n : Nat) : List Char :=
  if h : n < 10 then [Char.ofNat (48 + n)] else natDigits (n / 10) ++ [Char.ofNat (48 + n % 10)]
decreasing_by omega

def intDigits : Int → List Char
  | .ofNat n => natDigits n
  | .negSucc n => '-' :: natDigits (n + 1)

/-- strings.ReplaceAll(s, "'", "''") -/
def escS : List Char → List Char
  | [] => []
  | c :: cs => if c = '\'' then '\'' :: '\'' :: escS cs else c :: escS cs

/-- strings.ReplaceAll(s, `"`, `""`) -/
def escD : List Char → List Char
  | [] => []
  | c :: cs => if c = '"' then '"' :: '"' :: escD cs else c :: escD cs

def Piece.text : Piece → List Char
  | .kw s => s
  | .nat n => natDigits n
  | .int i => intDigits i
  | .num s => s
  | .bare s => s
  | .str v => '\'' :: (escS v ++ ['\''])
  | .ident v => '"' :: (escD v ++ ['"'])

def render : List Piece → List Char
  | [] => []
  | p :: ps => p.text ++ render ps

/-- `writeSpaceString(b, s)`: a blank first unless the builder already ends in one -/
def wss (cur add : List Piece) : List Piece :=
  if (render cur).getLast? = some ' ' then cur ++ add else cur ++ Piece.kw [' '] :: add

/-! ## small string helpers (Go `strings` package) -/

/-- Go's `unicode.IsSpace` -/
def isSpace (c : Char) : Bool :=
  let n := c.toNat
  n == 0x20 || (0x09 ≤ n && n ≤ 0x0d) || n == 0x85 || n == 0xa0 || n == 0x1680 ||
  (0x2000 ≤ n && n ≤ 0x200a) || n == 0x2028 || n == 0x2029 || n == 0x202f || n == 0x205f || n == 0x3000

def trimLeft : List Char → List Char
  | [] => []
  | c :: cs => if isSpace c then trimLeft cs else c :: cs

/-- strings.TrimSpace -/
def trimSpace (s : List Char) : List Char := (trimLeft (trimLeft s).reverse).reverse

/-- strings.Split(s, sep) for a one-character separator -/
def splitOn (sep : Char) : List Char → List (List Char)
  | [] => [[]]
  | c :: cs =>
    match splitOn sep cs with
    | [] => [[c]]                       -- unreachable: the result is never empty
    | p :: ps => if c = sep then [] :: p :: ps else (c :: p) :: ps

def trimPrefix1 (q : Char) : List Char → List Char
  | [] => []
  | c :: cs => if c = q then cs else c :: cs

def trimSuffix1 (q : Char) (s : List Char) : List Char := (trimPrefix1 q s.reverse).reverse

/-- strings.ReplaceAll(s, `"."`, `.`) -/
def replDot : List Char → List Char
  | '"' :: '.' :: '"' :: rest => '.' :: replDot rest
  | c :: rest => c :: replDot rest
  | [] => []

/-- `StripQuotes` (parsing.go) -/
def stripQuotes (s : List Char) : List Char := trimPrefix1 '"' (trimSuffix1 '"' (replDot s))

/-- the loop of `SQLEscape`: `i` is the index of the next character, `n` the length of the source -/
def escLoop (n : Nat) : Nat → List Char → Bool
  | _, [] => true
  | i, c :: cs =>
    if (0 < i && i + 1 < n && (c = '\'' || c = '"')) || c = ';' then false else escLoop n (i + 1) cs

/-- `SQLEscape` (parsing.go): none = ErrInvalidSQLName -/
def sqlEscape (s : List Char) : Option (List Char) :=
  let src :=
    if s.head? = some '\'' then trimPrefix1 '\'' (trimSuffix1 '\'' s)
    else if s.head? = some '"' then trimPrefix1 '"' (trimSuffix1 '"' s)
    else s
  if escLoop src.length 0 src then some src else none

/-- `FullName` for the SQLite provider, as pieces: every dot-separated part a quoted identifier -/
def fullNameParts : List (List Char) → List Piece
  | [] => []
  | [p] => [.ident p]
  | p :: ps => .ident p :: .kw ['.'] :: fullNameParts ps

def fullName (table : List Char) : List Piece := fullNameParts (splitOn '.' (stripQuotes table))

/-! ## ColumnList, SortList, PagingClauses -/

def colNames : Bool → List (List Char) → List Piece
  | _, [] => []
  | first, n :: ns =>
    let name := trimSpace n
    if name = "count(*)".toList ∨ name = "count(*) as count".toList then
      (if first then [.kw name] else [.kw [','], .kw name]) ++ colNames false ns
    else if name = [] then colNames first ns
    else (if first then [.ident name] else [.kw [','], .ident name]) ++ colNames false ns

/-- `ColumnList` -/
def columnList (cols : List Char) : List Piece :=
  if cols = [] then [.kw ['*']] else
  match colNames true (splitOn ',' cols) with
  | [] => [.kw ['*']]
  | ps => ps

def isIdentStart (c : Char) : Bool := c = '_' || ('a' ≤ c && c ≤ 'z') || ('A' ≤ c && c ≤ 'Z')
def isIdentChar (c : Char) : Bool := isIdentStart c || ('0' ≤ c && c ≤ '9')

/-- `sortName` -/
def sortName (part : List Char) : Piece :=
  match trimSpace part with
  | [] => .ident []
  | c :: cs => if isIdentStart c && cs.all isIdentChar then .bare (c :: cs) else .ident (c :: cs)

def sortParts : Bool → List (List Char) → List Piece
  | _, [] => []
  | first, p :: ps => (if first then [sortName p] else [.kw [','], sortName p]) ++ sortParts false ps

/-- the loop over the values of one sort key; returns the pieces and the `ascending` flag -/
def sortValues : Bool → Bool → List (List Char) → List Piece × Bool
  | _, asc, [] => ([], asc)
  | first, asc, v :: vs =>
    let name := if v.head? = some '~' then trimPrefix1 '~' v else v
    let asc' := if v.head? = some '~' then false else asc
    (Piece.kw (if first then "ORDER BY ".toList else [',']) :: sortParts true (splitOn ',' name) ++
      (sortValues false asc' vs).1, (sortValues false asc' vs).2)

/-- `SortList` for a request with at most one sort key (`none` = no such key) -/
def sortList (vals : Option (List (List Char))) : List Piece :=
  match vals with
  | none => []
  | some vs =>
    let r := sortValues true true (vs.filter fun v => trimSpace v ≠ [])
    if r.1 ≠ [] ∧ r.2 = false then r.1 ++ [.kw " DESC".toList] else r.1

/-- the OFFSET part of `PagingClauses`: `start` = none when there is no start/offset key, some none when
its value did not parse -/
def offsetClause : Option (Option Int) → List Piece
  | none => []
  | some s => if s.getD 0 ≠ 0 then [.kw " OFFSET ".toList, .int (s.getD 0 - 1)] else []

def limitValue : Option Int → Nat
  | some (.ofNat (n + 1)) => n + 1
  | _ => 1000

/-- `PagingClauses`; `lim` = Atoi of the single limit value if it parsed -/
def pagingClauses (lim : Option Int) (start : Option (Option Int)) : List Piece :=
  .kw " LIMIT ".toList :: .nat (limitValue lim) :: offsetClause start

/-! ## tokens (internal/language/tokenizer) -/

inductive TC where
  | eot | ident | type | str | bool | int | float | complex | reserved | special | value
  deriving DecidableEq, Repr

structure Tok where
  cls : TC
  sp : List Char
  deriving DecidableEq, Repr

def EOT : Tok := ⟨.eot, []⟩

/-- `Tokenizer.Next` on the remaining tokens -/
def next : List Tok → Tok × List Tok
  | [] => (EOT, [])
  | t :: ts => (t, ts)

/-- `Tokenizer.Peek(n)`, n ≥ 1 -/
def peek (n : Nat) (ts : List Tok) : Tok := (ts[n - 1]?).getD EOT

/-- `Tokenizer.IsNext(special token sp)` -/
def isNext (sp : Char) : List Tok → Option (List Tok)
  | t :: ts => if t.cls = .special ∧ t.sp = [sp] then some ts else none
  | [] => none

/-- `Token.IsIdentifier` -/
def Tok.isIdentifier (t : Tok) : Bool :=
  t.cls = .type || (t.cls = .reserved && (t.sp = "make".toList || t.sp = "type".toList)) || t.cls = .ident

/-- the part of Go's `unicode.ToUpper` that can produce an ASCII letter -/
def goUpper (c : Char) : Char :=
  if 'a' ≤ c ∧ c ≤ 'z' then Char.ofNat (c.toNat - 32)
  else if c = 'ı' then 'I' else if c = 'ſ' then 'S' else c

def upper (s : List Char) : List Char := s.map goUpper

inductive Err where
  | unexpected | paren | list | fuel | name
  deriving DecidableEq, Repr

abbrev R := Except Err (List Piece × List Tok)

/-- `sqlTerm`: one scalar operand -/
def sqlTerm (op : Tok) (isString isName : Bool) : Except Err Piece :=
  if isString then
    .ok (.str (if op.cls = .str then op.sp else trimSuffix1 '\'' (trimPrefix1 '\'' op.sp)))
  else if isName || op.cls = .reserved then .ok (.ident op.sp)
  else if op.cls = .int || op.cls = .float || op.cls = .bool || op.sp = "NULL".toList then .ok (.num op.sp)
  else .error .unexpected

def containsOps : List (List Char) :=
  ["CONTAINS".toList, "HAS".toList, "HASANY".toList, "CONTAINSALL".toList, "HASALL".toList]

/-- (infix, listAllowed) of a dyadic operator -/
def dyadic (u : List Char) : Option (List Char × Bool) :=
  if u = "EQ".toList then some ("=".toList, false)
  else if u = "LT".toList then some ("<".toList, false)
  else if u = "LE".toList then some ("<=".toList, false)
  else if u = "GT".toList then some (">".toList, false)
  else if u = "GE".toList then some (">=".toList, false)
  else if u = "AND".toList then some (" AND ".toList, true)
  else if u = "OR".toList then some (" OR ".toList, true)
  else none

/-- the signed-constant rewrite at the start of `filterClause`; none = ErrUnexpectedToken -/
def signedStage (toks : List Tok) : Option (Tok × List Tok) :=
  if (next toks).1.sp = ['+'] ∨ (next toks).1.sp = ['-'] then
    if (next (next toks).2).1.cls = .int ∨ (next (next toks).2).1.cls = .float then
      some (⟨(next (next toks).2).1.cls, (next toks).1.sp ++ (next (next toks).2).1.sp⟩, (next (next toks).2).2)
    else none
  else some (next toks)

/-- the NULL-constant rewrite that follows -/
def nullStage (op1 : Tok) (ts1 : List Tok) : Tok × List Tok :=
  if op1.sp = ['.'] ∨ (peek 1 ts1).sp = "nil".toList then (⟨.value, "NULL".toList⟩, (next ts1).2) else (op1, ts1)

/-- the start of `filterClause`: the operator token after both rewrites, and the remaining tokens -/
def prelude (toks : List Tok) : Option (Tok × List Tok) :=
  match signedStage toks with
  | none => none
  | some (op1, ts1) => some (nullStage op1 ts1)

/-- the scalar branch of `filterClause` -/
def scalar (op : Tok) : Except Err Piece :=
  let isName := op.isIdentifier && !(op.sp = "true".toList || op.sp = "false".toList)
  let isString := op.cls = .str || (op.cls = .value && op.sp.head? = some '\'')
  sqlTerm op isString isName

mutual
/-- `filterClause(tokens, sqlDialect)`; the fuel only bounds the recursion depth -/
def filterClause : Nat → List Tok → R
  | 0, _ => .error .fuel
  | fuel + 1, toks =>
    match prelude toks with
    | none => .error .unexpected
    | some (op, ts) =>
      match isNext '(' ts with
      | none =>
        match scalar op with
        | .ok p => .ok ([p], ts)
        | .error e => .error e
      | some ts =>
        let u := upper op.sp
        if u ∈ containsOps then
          let conj := if u = "CONTAINSALL".toList ∨ u = "HASALL".toList then " AND ".toList else " OR ".toList
          match filterClause fuel ts with
          | .error e => .error e
          | .ok (term, ts) =>
            match hasLoop fuel term conj 0 ts with
            | .error e => .error e
            | .ok (ps, ts) =>
              match isNext ')' ts with
              | none => .error .paren
              | some ts => .ok (ps, ts)
        else if u = "NOT".toList then
          match filterClause fuel ts with
          | .error e => .error e
          | .ok (term, ts) =>
            match isNext ')' ts with
            | none => .error .paren
            | some ts => .ok (.kw " NOT ".toList :: .kw [' '] :: term, ts)
        else
          match dyadic u with
          | none => .error .unexpected
          | some (infx, listAllowed) =>
            match filterClause fuel ts with
            | .error e => .error e
            | .ok (term, ts) =>
              match termLoop fuel infx listAllowed 0 term ts with
              | .error e => .error e
              | .ok (ps, ts) =>
                match isNext ')' ts with
                | none => .error .paren
                | some ts => .ok (.kw ['('] :: (ps ++ [.kw [')']]), ts)

/-- the `for tokens.IsNext(CommaToken)` loop of the CONTAINS/HAS family -/
def hasLoop : Nat → List Piece → List Char → Nat → List Tok → R
  | 0, _, _, _, _ => .error .fuel
  | fuel + 1, term, conj, count, ts =>
    match isNext ',' ts with
    | none => .ok ([], ts)
    | some ts =>
      match filterClause fuel ts with
      | .error e => .error e
      | .ok (value, ts) =>
        match hasLoop fuel term conj (count + 1) ts with
        | .error e => .error e
        | .ok (rest, ts) =>
          .ok ((if count > 0 then [Piece.kw conj] else []) ++
               (.kw "POSITION(".toList :: (value ++ (.kw " IN ".toList :: (term ++ (.kw ") > 0".toList :: rest))))), ts)

/-- the term loop of a dyadic operator; `term` is the operand to write next -/
def termLoop : Nat → List Char → Bool → Nat → List Piece → List Tok → R
  | 0, _, _, _, _, _ => .error .fuel
  | fuel + 1, infx, listAllowed, count, term, ts =>
    let count := count + 1
    match isNext ',' ts with
    | none =>
      if count < 2 then .error .list
      else if count > 2 ∧ !listAllowed then .error .list
      else .ok (term, ts)
    | some ts =>
      if infx = ['='] ∧ (peek 1 ts).sp = ['.'] ∧ (peek 2 ts).sp = "nil".toList then
        match termLoop fuel infx listAllowed count [] (ts.drop 2) with
        | .error e => .error e
        | .ok (rest, ts) => .ok (term ++ (.kw " IS NULL ".toList :: rest), ts)
      else
        match filterClause fuel ts with
        | .error e => .error e
        | .ok (t2, ts) =>
          match termLoop fuel infx listAllowed count t2 ts with
          | .error e => .error e
          | .ok (rest, ts) => .ok (term ++ (.kw [' '] :: .kw infx :: .kw [' '] :: rest), ts)
end

/-- the inner `for` of `formWhereExpressions`: clauses of one filter separated by commas -/
def clauseLoop : Nat → Nat → List Tok → R
  | 0, _, _ => .error .fuel
  | n + 1, fuel, ts =>
    match filterClause fuel ts with
    | .error e => .error e
    | .ok (ps, ts) =>
      match isNext ',' ts with
      | none => .ok (ps, ts)
      | some ts =>
        match clauseLoop n fuel ts with
        | .error e => .error e
        | .ok (rest, ts) => .ok (ps ++ (.kw " AND ".toList :: rest), ts)

def dropSemis : List Tok → List Tok
  | t :: ts => if t.cls = .special ∧ t.sp = [';'] then dropSemis ts else t :: ts
  | [] => []

def fuelFor (ts : List Tok) : Nat := 2 * ts.length + 8

/-- `formWhereExpressions`: `i` is the index of the filter -/
def whereExprs : Nat → List (List Tok) → Except Err (List Piece)
  | _, [] => .ok []
  | i, f :: fs =>
    if f = [] then whereExprs (i + 1) fs else
    match clauseLoop (f.length + 1) (fuelFor f) f with
    | .error e => .error e
    | .ok (ps, ts) =>
      if dropSemis ts ≠ [] then .error .unexpected else
      match whereExprs (i + 1) fs with
      | .error e => .error e
      | .ok rest => .ok ((if i > 0 then [Piece.kw " AND ".toList] else []) ++ ps ++ rest)

/-- `WhereClause` -/
def whereClause (filters : List (List Tok)) : Except Err (List Piece) :=
  if filters = [] then .ok [] else
  match whereExprs 0 filters with
  | .error e => .error e
  | .ok ps => .ok (.kw "WHERE ".toList :: ps)

/-! ## statements -/

structure SelReq where
  select : Bool                       -- SELECT, otherwise DELETE
  table : List Char
  columns : List Char
  filters : List (List Tok)
  sort : Option (List (List Char))
  lim : Option Int
  start : Option (Option Int)

/-- `FormSelectorDeleteQuery` up to the table name -/
def selHead (r : SelReq) : List Piece :=
  if r.select then
    wss (wss [.kw "SELECT".toList] (columnList r.columns)) (.kw "FROM ".toList :: fullName r.table)
  else wss [.kw "DELETE".toList] (.kw "FROM ".toList :: fullName r.table)

/-- the rest of it, given the WHERE clause `w` -/
def selTail (r : SelReq) (w : List Piece) : List Piece :=
  let p3 := if w ≠ [] then wss (selHead r) w else selHead r
  if r.select then
    wss (if sortList r.sort ≠ [] then wss p3 (sortList r.sort) else p3) (pagingClauses r.lim r.start)
  else p3

/-- `FormSelectorDeleteQuery` -/
def selectDelete (r : SelReq) : Except Err (List Piece) :=
  match whereClause r.filters with
  | .error e => .error e
  | .ok w => .ok (selTail r w)

def setList (sep : List Char) (eq : List Char) : Nat → List (List Char) → List Piece
  | _, [] => []
  | n, k :: ks => .kw (if n = 0 then " SET ".toList else sep) :: .ident k :: .kw eq :: .nat (n + 1) :: setList sep eq (n + 1) ks

/-- append the row-id condition of the update builders -/
def withRowId (w : List Piece) (rid : List Piece) (n : Nat) : List Piece :=
  if w = [] then .kw "WHERE ".toList :: (rid ++ [.kw " = $".toList, .nat n])
  else w ++ .kw " AND ".toList :: (rid ++ [.kw " = $".toList, .nat n])

/-- `FormUpdateQuery` up to the SET list: `keys` = the sorted item names without the row id -/
def updHead (table : List Char) : List (List Char) → List Piece
  | [] => wss [.kw "UPDATE".toList] (fullName table)
  | k :: ks => wss (wss [.kw "UPDATE".toList] (fullName table))
      (.kw "SET ".toList :: .ident k :: .kw ['=', '$'] :: .nat 1 :: setList [','] ['=', '$'] 1 ks)

/-- `FormUpdateQuery`; all item values coercible; `rowid` = the items hold a non-empty row id -/
def updateQuery (table : List Char) (keys : List (List Char)) (filters : List (List Tok)) (rowid : Bool) :
    Except Err (List Piece) :=
  match whereClause filters with
  | .error e => .error e
  | .ok w =>
    .ok (if (if rowid then withRowId w [.ident "_row_id_".toList] (keys.length + 1) else w) ≠ [] then
           wss (updHead table keys) (if rowid then withRowId w [.ident "_row_id_".toList] (keys.length + 1) else w)
         else updHead table keys)

def nameList : Bool → List (List Char) → List Piece
  | _, [] => []
  | first, k :: ks => .kw [if first then '(' else ','] :: .ident k :: nameList false ks

def placeholders : Nat → Nat → List Piece
  | _, 0 => []
  | i, n + 1 => (if i > 0 then [Piece.kw [',']] else []) ++ (.kw ['$'] :: .nat (i + 1) :: placeholders (i + 1) n)

/-- `FormInsertQuery` / `formAbstractInsertQuery` (`table` already through FullName for the latter) -/
def insertQuery (table : List Piece) (keys : List (List Char)) (nvalues : Nat) : List Piece :=
  .kw "INSERT".toList :: .kw " INTO ".toList :: (table ++ nameList true keys ++
    (.kw ") VALUES (".toList :: (placeholders 0 nvalues ++ [.kw [')']])))

/-- `formAbstractUpdateQuery` -/
def abstractUpdate (table : List Char) (items : List (List Char)) (filters : List (List Tok)) (rowid : Bool) :
    Except Err (List Piece) :=
  match whereClause filters with
  | .error e => .error e
  | .ok w =>
    .ok (.kw "UPDATE".toList :: .kw [' '] :: (fullName table ++ (setList ", ".toList " = $".toList 0 items ++
      (if (if rowid then withRowId w [.kw "_row_id_".toList] (items.length + 1) else w) ≠ [] then
         .kw [' '] :: (if rowid then withRowId w [.kw "_row_id_".toList] (items.length + 1) else w)
       else []))))

/-- the UPDATE text of scripting.doUpdate; `keys` sorted, row id removed -/
def txUpdate (table : List Char) (keys : List (List Char)) (filters : List (List Tok)) : Except Err (List Piece) :=
  match whereClause filters with
  | .error e => .error e
  | .ok w =>
    .ok (.kw "UPDATE ".toList :: (fullName table ++ (setList ", ".toList " = $".toList 0 keys ++
      (if w ≠ [] then .kw [' '] :: w else []))))

/-- the column-metadata statement: `QueryParameters("SELECT * FROM \"{{table}}\" WHERE 1=0", table := FullName t)`
for a name without a dot; the result of SQLEscape is copied between the quotes -/
def metaText (table : List Char) : Option (List Char) :=
  let n := stripQuotes table
  if '.' ∈ n then none else
  match sqlEscape (Piece.ident n).text with
  | none => none
  | some x => some ("SELECT * FROM \"".toList ++ x ++ "\" WHERE 1=0".toList)

/-! ## SQLite's tokenizer, as far as string literals, quoted identifiers, comments and `;` go -/

inductive LTok where
  | ch (c : Char)             -- any other character, one at a time
  | str (v : List Char)       -- '…' with '' undoubled
  | qid (v : List Char)       -- "…" with "" undoubled
  | semi
  | comment
  | unterminated
  deriving DecidableEq, Repr

inductive LSt where
  | norm | dash | slash
  | str (acc : List Char) | strQ (acc : List Char)
  | qid (acc : List Char) | qidQ (acc : List Char)
  | line | block | blockStar
  deriving DecidableEq, Repr

def stepNorm (c : Char) : LSt × List LTok :=
  if c = '-' then (.dash, [])
  else if c = '/' then (.slash, [])
  else if c = ';' then (.norm, [.semi])
  else if c = '\'' then (.str [], [])
  else if c = '"' then (.qid [], [])
  else (.norm, [.ch c])

def step : LSt → Char → LSt × List LTok
  | .norm, c => stepNorm c
  | .dash, c => if c = '-' then (.line, [.comment]) else ((stepNorm c).1, .ch '-' :: (stepNorm c).2)
  | .slash, c => if c = '*' then (.block, [.comment]) else ((stepNorm c).1, .ch '/' :: (stepNorm c).2)
  | .str acc, c => if c = '\'' then (.strQ acc, []) else (.str (acc ++ [c]), [])
  | .strQ acc, c => if c = '\'' then (.str (acc ++ ['\'']), []) else ((stepNorm c).1, .str acc :: (stepNorm c).2)
  | .qid acc, c => if c = '"' then (.qidQ acc, []) else (.qid (acc ++ [c]), [])
  | .qidQ acc, c => if c = '"' then (.qid (acc ++ ['"']), []) else ((stepNorm c).1, .qid acc :: (stepNorm c).2)
  | .line, c => if c = '\n' then (.norm, []) else (.line, [])
  | .block, c => if c = '*' then (.blockStar, []) else (.block, [])
  | .blockStar, c => if c = '/' then (.norm, []) else if c = '*' then (.blockStar, []) else (.block, [])

def flush : LSt → List LTok
  | .norm => []
  | .dash => [.ch '-']
  | .slash => [.ch '/']
  | .str _ => [.unterminated]
  | .strQ acc => [.str acc]
  | .qid _ => [.unterminated]
  | .qidQ acc => [.qid acc]
  | .line => []
  | .block => []
  | .blockStar => []

def run : LSt → List Char → List LTok
  | st, [] => flush st
  | st, c :: cs => (step st c).2 ++ run (step st c).1 cs

def sqlLex (s : List Char) : List LTok := run .norm s

/-- what a piece must lex to -/
def Piece.toks : Piece → List LTok
  | .str v => [.str v]
  | .ident v => [.qid v]
  | p => p.text.map .ch

def pieceToks : List Piece → List LTok
  | [] => []
  | p :: ps => p.toks ++ pieceToks ps

end EgoVerif.C14
