import EgoVerif.C14.Lex
/-
C14 — the filter generator (`filterClause` and its loops) only ever writes chains of well-formed pieces.
-/
namespace EgoVerif.C14

/-- the tokenizer's contract used by the repaired `sqlTerm`: Integer, Float and Boolean tokens are spelled
with numeric characters, without `--`, and neither begin nor end with `-` (checked on every harness case) -/
def TokOK (t : Tok) : Prop :=
  (t.cls = .int ∨ t.cls = .float ∨ t.cls = .bool) → (numText t.sp = true ∧ t.sp.head? ≠ some '-' ∧ t.sp ≠ [])

def ToksOK (ts : List Tok) : Prop := ∀ t ∈ ts, TokOK t

/-- what `sqlTerm` needs of the (possibly rewritten) operand token -/
def OpOK (t : Tok) : Prop := (t.cls = .int ∨ t.cls = .float ∨ t.cls = .bool) → numText t.sp = true

theorem toksOK_tail {t : Tok} {ts : List Tok} (h : ToksOK (t :: ts)) : ToksOK ts :=
  fun x hx => h x (List.mem_cons_of_mem _ hx)

theorem next_ok {ts : List Tok} (h : ToksOK ts) : TokOK (next ts).1 ∧ ToksOK (next ts).2 := by
  cases ts with
  | nil => exact ⟨by simp [next, EOT, TokOK], h⟩
  | cons t ts => exact ⟨h t (by simp), toksOK_tail h⟩

theorem isNext_ok {c : Char} {ts ts' : List Tok} (h : ToksOK ts) (e : isNext c ts = some ts') : ToksOK ts' := by
  cases ts with
  | nil => simp [isNext] at e
  | cons t ts =>
    simp only [isNext] at e
    split at e
    · cases e; exact toksOK_tail h
    · cases e

theorem drop_ok {ts : List Tok} (n : Nat) (h : ToksOK ts) : ToksOK (ts.drop n) :=
  fun x hx => h x (List.mem_of_mem_drop hx)

theorem numText_sign {s : List Char} (hs : numText s = true) (hh : s.head? ≠ some '-') (hne : s ≠ []) :
    numText ('-' :: s) = true ∧ numText ('+' :: s) = true := by
  cases s with
  | nil => exact absurd rfl hne
  | cons d s =>
    have hd : d ≠ '-' := by intro e; subst e; exact hh rfl
    constructor
    · simp only [numText, hs, Bool.and_true, Bool.and_eq_true, Bool.or_eq_true, bne_iff_ne, ne_eq]
      exact ⟨by decide, Or.inr hd⟩
    · simp only [numText, hs, Bool.and_true, Bool.and_eq_true, Bool.or_eq_true, bne_iff_ne, ne_eq]
      exact ⟨by decide, Or.inl (by decide)⟩

theorem signedStage_ok {toks ts : List Tok} {op : Tok} (h : ToksOK toks) (e : signedStage toks = some (op, ts)) :
    OpOK op ∧ ToksOK ts := by
  have h0 := next_ok h
  have h1 := next_ok h0.2
  unfold signedStage at e
  split at e
  · rename_i hsign
    split at e
    · rename_i hnum
      cases e
      refine ⟨fun _ => ?_, h1.2⟩
      have hk := h1.1 (by rcases hnum with a | a <;> simp [a])
      have := numText_sign hk.1 hk.2.1 hk.2.2
      rcases hsign with hs | hs <;> rw [hs] <;> simp [this]
    · cases e
  · have e1 : (next toks).1 = op := congrArg Prod.fst (Option.some.inj e)
    have e2 : (next toks).2 = ts := congrArg Prod.snd (Option.some.inj e)
    subst e1 e2
    exact ⟨fun hc => (h0.1 hc).1, h0.2⟩

theorem prelude_ok {toks ts : List Tok} {op : Tok} (h : ToksOK toks) (e : prelude toks = some (op, ts)) :
    OpOK op ∧ ToksOK ts := by
  unfold prelude at e
  split at e
  · cases e
  · rename_i op1 ts1 hs
    have h1 := signedStage_ok h hs
    unfold nullStage at e
    split at e
    · cases e
      exact ⟨fun _ => by decide, (next_ok h1.2).2⟩
    · cases e
      exact h1

theorem sqlTerm_ok {op : Tok} {p : Piece} (h : OpOK op) (a b : Bool) (e : sqlTerm op a b = .ok p) : PieceOK p := by
  unfold sqlTerm at e
  cases a with
  | true =>
    simp only [if_true] at e
    cases e; trivial
  | false =>
    simp only [Bool.false_eq_true, if_false] at e
    by_cases h1 : (b || decide (op.cls = .reserved)) = true
    · rw [if_pos h1] at e
      cases e; trivial
    · rw [if_neg h1] at e
      by_cases h2 : (decide (op.cls = .int) || decide (op.cls = .float) || decide (op.cls = .bool) ||
          decide (op.sp = "NULL".toList)) = true
      · rw [if_pos h2] at e
        cases e
        simp only [Bool.or_eq_true, decide_eq_true_eq] at h2
        show numText op.sp = true
        rcases h2 with ((hc | hc) | hc) | hc
        · exact h (Or.inl hc)
        · exact h (Or.inr (Or.inl hc))
        · exact h (Or.inr (Or.inr hc))
        · rw [hc]; decide
      · rw [if_neg h2] at e
        cases e

theorem scalar_ok {op : Tok} {p : Piece} (h : OpOK op) (e : scalar op = .ok p) : PieceOK p :=
  sqlTerm_ok h _ _ e

theorem dyadic_vocab {u infx : List Char} {la : Bool} (e : dyadic u = some (infx, la)) : infx ∈ vocab := by
  unfold dyadic at e
  repeat' split at e
  all_goals first | (cases e; decide) | cases e

def conjs : List (List Char) := [" AND ".toList, " OR ".toList]

theorem conj_vocab {c : List Char} (h : c ∈ conjs) : c ∈ vocab := by
  simp [conjs] at h
  rcases h with h | h <;> subst h <;> decide

/-- every result of `filterClause`, `hasLoop` and `termLoop` is a chain of well-formed pieces -/
theorem filter_chain : ∀ fuel : Nat,
    (∀ toks ps ts, ToksOK toks → filterClause fuel toks = .ok (ps, ts) → Chain ps ∧ ToksOK ts) ∧
    (∀ term conj count toks ps ts, ToksOK toks → Chain term → conj ∈ conjs →
      hasLoop fuel term conj count toks = .ok (ps, ts) → Chain ps ∧ ToksOK ts) ∧
    (∀ infx la count term toks ps ts, ToksOK toks → Chain term → infx ∈ vocab →
      termLoop fuel infx la count term toks = .ok (ps, ts) → Chain ps ∧ ToksOK ts) := by
  intro fuel
  induction fuel with
  | zero =>
    refine ⟨?_, ?_, ?_⟩
    · intro toks ps ts _ e; simp [filterClause] at e
    · intro term conj count toks ps ts _ _ _ e; simp [hasLoop] at e
    · intro infx la count term toks ps ts _ _ _ e; simp [termLoop] at e
  | succ fuel ih =>
    obtain ⟨ihF, ihH, ihT⟩ := ih
    refine ⟨?_, ?_, ?_⟩
    · -- filterClause
      intro toks ps ts hok e
      simp only [filterClause] at e
      split at e
      · cases e
      · rename_i op ts0 hpre
        have hp := prelude_ok hok hpre
        split at e
        · -- scalar operand
          split at e
          · rename_i p hsc
            cases e
            exact ⟨chain_single (scalar_ok hp.1 hsc), hp.2⟩
          · cases e
        · rename_i ts1 hpar
          have hts1 := isNext_ok hp.2 hpar
          split at e
          · -- CONTAINS / HAS family
            split at e
            · cases e
            · rename_i term ts2 hterm
              have h2 := ihF _ _ _ hts1 hterm
              split at e
              · cases e
              · rename_i ps1 ts3 hloop
                have hconj : (if upper op.sp = "CONTAINSALL".toList ∨ upper op.sp = "HASALL".toList then " AND ".toList
                    else " OR ".toList) ∈ conjs := by
                  split <;> simp [conjs]
                have h3 := ihH _ _ _ _ _ _ h2.2 h2.1 hconj hloop
                split at e
                · cases e
                · rename_i ts4 hclose
                  cases e
                  exact ⟨h3.1, isNext_ok h3.2 hclose⟩
          · split at e
            · -- NOT
              split at e
              · cases e
              · rename_i term ts2 hterm
                have h2 := ihF _ _ _ hts1 hterm
                split at e
                · cases e
                · rename_i ts3 hclose
                  cases e
                  exact ⟨chain_kw (by decide) (chain_kw (by decide) h2.1), isNext_ok h2.2 hclose⟩
            · -- dyadic operators
              split at e
              · cases e
              · rename_i infx la hdy
                split at e
                · cases e
                · rename_i term ts2 hterm
                  have h2 := ihF _ _ _ hts1 hterm
                  split at e
                  · cases e
                  · rename_i ps1 ts3 hloop
                    have h3 := ihT _ _ _ _ _ _ _ h2.2 h2.1 (dyadic_vocab hdy) hloop
                    split at e
                    · cases e
                    · rename_i ts4 hclose
                      cases e
                      refine ⟨chain_kw (by decide) (chain_append h3.1 (chain_kw (by decide) trivial) (nqs_kw (by decide))),
                        isNext_ok h3.2 hclose⟩
    · -- hasLoop
      intro term conj count toks ps ts hok hterm hconj e
      simp only [hasLoop] at e
      split at e
      · cases e
        exact ⟨trivial, hok⟩
      · rename_i ts1 hcomma
        have hts1 := isNext_ok hok hcomma
        split at e
        · cases e
        · rename_i value ts2 hval
          have h2 := ihF _ _ _ hts1 hval
          split at e
          · cases e
          · rename_i rest ts3 hloop
            have h3 := ihH _ _ _ _ _ _ h2.2 hterm hconj hloop
            cases e
            have body : Chain (.kw "POSITION(".toList :: (value ++ (.kw " IN ".toList :: (term ++ (.kw ") > 0".toList :: rest))))) :=
              chain_kw (by decide) (chain_append h2.1
                (chain_kw (by decide) (chain_append hterm (chain_kw (by decide) h3.1) (nqs_kw (by decide))))
                (nqs_kw (by decide)))
            refine ⟨?_, h3.2⟩
            split
            · exact chain_kw (conj_vocab hconj) body
            · exact body
    · -- termLoop
      intro infx la count term toks ps ts hok hterm hinfx e
      simp only [termLoop] at e
      split at e
      · split at e
        · cases e
        · split at e
          · cases e
          · cases e
            exact ⟨hterm, hok⟩
      · rename_i ts1 hcomma
        have hts1 := isNext_ok hok hcomma
        split at e
        · split at e
          · cases e
          · rename_i rest ts2 hloop
            have h3 := ihT _ _ _ _ _ _ _ (drop_ok 2 hts1) (show Chain [] from trivial) hinfx hloop
            cases e
            exact ⟨chain_append hterm (chain_kw (by decide) h3.1) (nqs_kw (by decide)), h3.2⟩
        · split at e
          · cases e
          · rename_i t2 ts2 ht2
            have h2 := ihF _ _ _ hts1 ht2
            split at e
            · cases e
            · rename_i rest ts3 hloop
              have h3 := ihT _ _ _ _ _ _ _ h2.2 h2.1 hinfx hloop
              cases e
              exact ⟨chain_append hterm (chain_kw (by decide) (chain_kw hinfx (chain_kw (by decide) h3.1)))
                (nqs_kw (by decide)), h3.2⟩

end EgoVerif.C14
