import EgoVerif.C14.Gen
/-
C14 — every statement builder writes a chain of well-formed pieces.
-/
namespace EgoVerif.C14

theorem clauseLoop_chain : ∀ (n fuel : Nat) (toks : List Tok) (ps : List Piece) (ts : List Tok), ToksOK toks →
    clauseLoop n fuel toks = .ok (ps, ts) → Chain ps ∧ ToksOK ts := by
  intro n
  induction n with
  | zero => intro fuel toks ps ts _ e; simp [clauseLoop] at e
  | succ n ih =>
    intro fuel toks ps ts hok e
    simp only [clauseLoop] at e
    split at e
    · cases e
    · rename_i ps1 ts1 hf
      have h1 := (filter_chain fuel).1 _ _ _ hok hf
      split at e
      · cases e; exact h1
      · rename_i ts2 hcomma
        split at e
        · cases e
        · rename_i rest ts3 hloop
          have h2 := ih _ _ _ _ (isNext_ok h1.2 hcomma) hloop
          cases e
          exact ⟨chain_append h1.1 (chain_kw (by decide) h2.1) (nqs_kw (by decide)), h2.2⟩

theorem whereExprs_chain : ∀ (fs : List (List Tok)) (i : Nat) (r : List Piece), (∀ f ∈ fs, ToksOK f) →
    whereExprs i fs = .ok r → Chain r ∧ (i > 0 → NoQuoteStart r) := by
  intro fs
  induction fs with
  | nil => intro i r _ e; simp [whereExprs] at e; subst e; exact ⟨trivial, fun _ => nqs_nil⟩
  | cons f fs ih =>
    intro i r hok e
    have hfs : ∀ g ∈ fs, ToksOK g := fun g hg => hok g (List.mem_cons_of_mem _ hg)
    simp only [whereExprs] at e
    split at e
    · have := ih (i + 1) r hfs e
      exact ⟨this.1, fun _ => this.2 (by omega)⟩
    · split at e
      · cases e
      · rename_i ps ts hcl
        have h1 := clauseLoop_chain _ _ _ _ _ (hok f (by simp)) hcl
        split at e
        · cases e
        · split at e
          · cases e
          · rename_i rest hrest
            have h2 := ih (i + 1) rest hfs hrest
            cases e
            have hbody : Chain (ps ++ rest) := chain_append h1.1 h2.1 (h2.2 (by omega))
            by_cases hi : i > 0
            · rw [if_pos hi]
              exact ⟨by simpa using chain_kw (by decide) hbody, fun _ => by simpa using nqs_kw (by decide)⟩
            · rw [if_neg hi]
              exact ⟨by simpa using hbody, fun h => absurd h hi⟩

theorem whereClause_chain {fs : List (List Tok)} {w : List Piece} (hok : ∀ f ∈ fs, ToksOK f)
    (e : whereClause fs = .ok w) : Chain w ∧ NoQuoteStart w := by
  unfold whereClause at e
  split at e
  · cases e; exact ⟨trivial, nqs_nil⟩
  · split at e
    · cases e
    · rename_i ps hps
      cases e
      exact ⟨chain_kw (by decide) (whereExprs_chain _ _ _ hok hps).1, nqs_kw (by decide)⟩

theorem colNames_chain : ∀ (ns : List (List Char)) (first : Bool),
    Chain (colNames first ns) ∧ NoQuoteStart (colNames false ns) := by
  intro ns
  induction ns with
  | nil => intro first; simp [colNames]; exact ⟨trivial, nqs_nil⟩
  | cons n ns ih =>
    have hF := (ih false).1
    have hN := (ih false).2
    have key : ∀ first : Bool, Chain (colNames first (n :: ns)) := by
      intro first
      simp only [colNames]
      split
      · rename_i hcount
        have hv : trimSpace n ∈ vocab := by rcases hcount with h | h <;> rw [h] <;> decide
        cases first
        · exact chain_kw (by decide) (chain_kw hv hF)
        · exact chain_kw hv hF
      · split
        · exact (ih first).1
        · cases first
          · exact chain_kw (by decide) ⟨trivial, hF, fun _ => hN⟩
          · exact ⟨trivial, hF, fun _ => hN⟩
    intro first
    refine ⟨key first, ?_⟩
    simp only [colNames]
    split
    · exact nqs_kw (by decide)
    · split
      · exact hN
      · exact nqs_kw (by decide)

theorem columnList_chain (c : List Char) : Chain (columnList c) := by
  unfold columnList
  split
  · exact chain_kw (by decide) trivial
  · have h := (colNames_chain (splitOn ',' c) true).1
    generalize colNames true (splitOn ',' c) = r at h ⊢
    cases r with
    | nil => exact chain_kw (by decide) trivial
    | cons p ps => exact h

theorem sortName_ok (p : List Char) : PieceOK (sortName p) := by
  unfold sortName
  split
  · trivial
  · rename_i c cs _
    split
    · rename_i h
      simp only [Bool.and_eq_true, List.all_eq_true] at h
      refine ⟨by simp, ?_⟩
      intro d hd
      simp at hd
      rcases hd with hd | hd
      · subst hd; simp [isIdentChar, h.1]
      · exact h.2 d hd
    · trivial

theorem sortParts_chain : ∀ (ps : List (List Char)) (first : Bool),
    Chain (sortParts first ps) ∧ NoQuoteStart (sortParts false ps) := by
  intro ps
  induction ps with
  | nil => intro first; simp [sortParts]; exact ⟨trivial, nqs_nil⟩
  | cons p ps ih =>
    intro first
    have hF := (ih false).1
    have hN := (ih false).2
    have one : Chain (sortName p :: sortParts false ps) := ⟨sortName_ok p, hF, fun _ => hN⟩
    refine ⟨?_, ?_⟩
    · cases first <;> simp only [sortParts]
      · exact chain_kw (by decide) one
      · exact one
    · simp only [sortParts]
      exact nqs_kw (by decide)

theorem sortValues_chain : ∀ (vs : List (List Char)) (first asc : Bool),
    Chain (sortValues first asc vs).1 ∧ NoQuoteStart (sortValues first asc vs).1 := by
  intro vs
  induction vs with
  | nil => intro first asc; simp [sortValues]; exact ⟨trivial, nqs_nil⟩
  | cons v vs ih =>
    intro first asc
    simp only [sortValues]
    have h := ih false (if v.head? = some '~' then false else asc)
    have hv : (if first = true then "ORDER BY ".toList else [',']) ∈ vocab := by cases first <;> decide
    exact ⟨chain_kw hv (chain_append (sortParts_chain _ true).1 h.1 h.2), nqs_kw hv⟩

theorem sortList_chain (vals : Option (List (List Char))) : Chain (sortList vals) ∧ NoQuoteStart (sortList vals) := by
  cases vals with
  | none => exact ⟨trivial, nqs_nil⟩
  | some vs =>
    have h := sortValues_chain (vs.filter fun v => trimSpace v ≠ []) true true
    simp only [sortList]
    by_cases hc : (sortValues true true (vs.filter fun v => trimSpace v ≠ [])).1 ≠ [] ∧
        (sortValues true true (vs.filter fun v => trimSpace v ≠ [])).2 = false
    · rw [if_pos hc]
      exact ⟨chain_append h.1 (chain_kw (by decide) trivial) (nqs_kw (by decide)),
        nqs_append h.2 (nqs_kw (by decide))⟩
    · rw [if_neg hc]
      exact h

theorem offsetClause_chain (start : Option (Option Int)) : Chain (offsetClause start) := by
  cases start with
  | none => trivial
  | some s =>
    simp only [offsetClause]
    by_cases hc : s.getD 0 ≠ 0
    · rw [if_pos hc]
      exact chain_kw (by decide) (chain_unq trivial rfl trivial)
    · rw [if_neg hc]
      trivial

theorem pagingClauses_chain (lim : Option Int) (start : Option (Option Int)) :
    Chain (pagingClauses lim start) ∧ NoQuoteStart (pagingClauses lim start) :=
  ⟨chain_kw (by decide) (chain_unq trivial rfl (offsetClause_chain start)), nqs_kw (by decide)⟩

theorem fullNameParts_chain : ∀ parts : List (List Char), Chain (fullNameParts parts)
  | [] => trivial
  | [p] => chain_single trivial
  | p :: q :: ps => ⟨trivial, chain_kw (by decide) (fullNameParts_chain (q :: ps)), fun _ => nqs_kw (by decide)⟩

theorem fullName_chain (t : List Char) : Chain (fullName t) := fullNameParts_chain _

theorem wss_chain {cur add : List Piece} (hc : Chain cur) (ha : Chain add) (hn : NoQuoteStart add) :
    Chain (wss cur add) := by
  unfold wss
  split
  · exact chain_append hc ha hn
  · exact chain_append hc (chain_kw (by decide) ha) (nqs_kw (by decide))

/-- after a builder text that does not end in a blank, `writeSpaceString` always inserts one -/
theorem wss_chain_blank {cur add : List Piece} (hc : Chain cur) (ha : Chain add)
    (hb : (render cur).getLast? ≠ some ' ') : Chain (wss cur add) := by
  unfold wss
  rw [if_neg hb]
  exact chain_append hc (chain_kw (by decide) ha) (nqs_kw (by decide))

theorem nqs_wss {cur add : List Piece} (hc : NoQuoteStart cur) (hne : render cur ≠ []) : NoQuoteStart (wss cur add) := by
  intro rest hf
  have key : ∀ x : List Piece, Follow (render (cur ++ x) ++ rest) := by
    intro x
    rw [render_append, List.append_assoc]
    cases h : render cur with
    | nil => exact absurd h hne
    | cons c cs =>
      have := hc [] follow_nil
      rw [h] at this
      simpa [Follow] using this
  unfold wss
  split
  · exact key _
  · exact key _

def FiltersOK (fs : List (List Tok)) : Prop := ∀ f ∈ fs, ToksOK f

theorem selHead_chain (r : SelReq) : Chain (selHead r) := by
  have hfrom : Chain (Piece.kw "FROM ".toList :: fullName r.table) := chain_kw (by decide) (fullName_chain r.table)
  have hn : NoQuoteStart (Piece.kw "FROM ".toList :: fullName r.table) := nqs_kw (by decide)
  unfold selHead
  cases r.select with
  | true =>
    simp only [if_true]
    refine wss_chain (wss_chain_blank (chain_kw (by decide) trivial) (columnList_chain _) ?_) hfrom hn
    simp [render, Piece.text]
  | false =>
    simp only [Bool.false_eq_true, if_false]
    exact wss_chain (chain_kw (by decide) trivial) hfrom hn

theorem selTail_chain (r : SelReq) {w : List Piece} (hw : Chain w) (hn : NoQuoteStart w) : Chain (selTail r w) := by
  have h3 : Chain (if w ≠ [] then wss (selHead r) w else selHead r) := by
    by_cases hc : w ≠ []
    · rw [if_pos hc]; exact wss_chain (selHead_chain r) hw hn
    · rw [if_neg hc]; exact selHead_chain r
  unfold selTail
  cases r.select with
  | true =>
    simp only [if_true]
    have hs := sortList_chain r.sort
    have hp := pagingClauses_chain r.lim r.start
    refine wss_chain ?_ hp.1 hp.2
    by_cases hc : sortList r.sort ≠ []
    · rw [if_pos hc]; exact wss_chain h3 hs.1 hs.2
    · rw [if_neg hc]; exact h3
  | false =>
    simp only [Bool.false_eq_true, if_false]
    exact h3

theorem selectDelete_chain {r : SelReq} {ps : List Piece} (hok : FiltersOK r.filters)
    (e : selectDelete r = .ok ps) : Chain ps := by
  unfold selectDelete at e
  cases hw : whereClause r.filters with
  | error err => rw [hw] at e; cases e
  | ok w =>
    rw [hw] at e
    cases e
    have := whereClause_chain hok hw
    exact selTail_chain r this.1 this.2

theorem setList_chain (sep eq : List Char) (hs : sep ∈ vocab) (he : eq ∈ vocab) :
    ∀ (ks : List (List Char)) (n : Nat), Chain (setList sep eq n ks) ∧ NoQuoteStart (setList sep eq n ks) := by
  intro ks
  induction ks with
  | nil => intro n; exact ⟨trivial, nqs_nil⟩
  | cons k ks ih =>
    intro n
    simp only [setList]
    have hv : (if n = 0 then " SET ".toList else sep) ∈ vocab := by
      by_cases h : n = 0
      · rw [if_pos h]; decide
      · rw [if_neg h]; exact hs
    exact ⟨chain_kw hv ⟨trivial, chain_kw he (chain_unq trivial rfl (ih (n + 1)).1), fun _ => nqs_kw he⟩, nqs_kw hv⟩

theorem withRowId_chain {w rid : List Piece} (n : Nat) (hw : Chain w) (hn : NoQuoteStart w) (hr : Chain rid) :
    Chain (withRowId w rid n) ∧ NoQuoteStart (withRowId w rid n) := by
  have tail : Chain (rid ++ [Piece.kw " = $".toList, Piece.nat n]) :=
    chain_append hr (chain_kw (by decide) (chain_unq trivial rfl trivial)) (nqs_kw (by decide))
  unfold withRowId
  by_cases hc : w = []
  · rw [if_pos hc]
    exact ⟨chain_kw (by decide) tail, nqs_kw (by decide)⟩
  · rw [if_neg hc]
    exact ⟨chain_append hw (chain_kw (by decide) tail) (nqs_kw (by decide)), nqs_append hn (nqs_kw (by decide))⟩

theorem optRowId_chain {w rid : List Piece} (b : Bool) (n : Nat) (hw : Chain w) (hn : NoQuoteStart w) (hr : Chain rid) :
    Chain (if b = true then withRowId w rid n else w) ∧ NoQuoteStart (if b = true then withRowId w rid n else w) := by
  cases b with
  | true => simpa using withRowId_chain n hw hn hr
  | false => simpa using And.intro hw hn

theorem updHead_chain (table : List Char) (keys : List (List Char)) : Chain (updHead table keys) := by
  have h0 : Chain (wss [Piece.kw "UPDATE".toList] (fullName table)) :=
    wss_chain_blank (chain_kw (by decide) trivial) (fullName_chain table) (by simp [render, Piece.text])
  cases keys with
  | nil => exact h0
  | cons k ks =>
    simp only [updHead]
    have hs := (setList_chain [','] ['=', '$'] (by decide) (by decide) ks 1).1
    exact wss_chain h0
      (chain_kw (by decide) ⟨trivial, chain_kw (by decide) (chain_unq trivial rfl hs), fun _ => nqs_kw (by decide)⟩)
      (nqs_kw (by decide))

theorem updateQuery_chain {table : List Char} {keys : List (List Char)} {fs : List (List Tok)} {rowid : Bool}
    {ps : List Piece} (hok : FiltersOK fs) (e : updateQuery table keys fs rowid = .ok ps) : Chain ps := by
  unfold updateQuery at e
  cases hw : whereClause fs with
  | error err => rw [hw] at e; cases e
  | ok w =>
    rw [hw] at e
    cases e
    have hwc := whereClause_chain hok hw
    have hr := optRowId_chain rowid (keys.length + 1) hwc.1 hwc.2 (chain_single (p := .ident "_row_id_".toList) trivial)
    by_cases hc : (if rowid = true then withRowId w [.ident "_row_id_".toList] (keys.length + 1) else w) ≠ []
    · rw [if_pos hc]; exact wss_chain (updHead_chain table keys) hr.1 hr.2
    · rw [if_neg hc]; exact updHead_chain table keys

theorem nameList_chain : ∀ (ks : List (List Char)) (first : Bool),
    Chain (nameList first ks) ∧ NoQuoteStart (nameList first ks) := by
  intro ks
  induction ks with
  | nil => intro first; exact ⟨trivial, nqs_nil⟩
  | cons k ks ih =>
    intro first
    simp only [nameList]
    have hv : [if first = true then '(' else ','] ∈ vocab := by cases first <;> decide
    exact ⟨chain_kw hv ⟨trivial, (ih false).1, fun _ => (ih false).2⟩, nqs_kw hv⟩

theorem placeholders_chain : ∀ (n i : Nat), Chain (placeholders i n) ∧ NoQuoteStart (placeholders i n) := by
  intro n
  induction n with
  | zero => intro i; exact ⟨trivial, nqs_nil⟩
  | succ n ih =>
    intro i
    simp only [placeholders]
    have body : Chain (Piece.kw ['$'] :: Piece.nat (i + 1) :: placeholders (i + 1) n) :=
      chain_kw (by decide) (chain_unq trivial rfl (ih (i + 1)).1)
    by_cases hi : i > 0
    · rw [if_pos hi]
      exact ⟨chain_kw (by decide) body, nqs_kw (by decide)⟩
    · rw [if_neg hi]
      exact ⟨body, nqs_kw (by decide)⟩

theorem insertQuery_chain (table : List Char) (keys : List (List Char)) (n : Nat) :
    Chain (insertQuery (fullName table) keys n) := by
  unfold insertQuery
  have hp := placeholders_chain n 0
  have tail : Chain (Piece.kw ") VALUES (".toList :: (placeholders 0 n ++ [Piece.kw [')']])) :=
    chain_kw (by decide) (chain_append hp.1 (chain_kw (by decide) trivial) (nqs_kw (by decide)))
  have hk := nameList_chain keys true
  have mid : Chain (nameList true keys ++ Piece.kw ") VALUES (".toList :: (placeholders 0 n ++ [Piece.kw [')']])) :=
    chain_append hk.1 tail (nqs_kw (by decide))
  refine chain_kw (by decide) (chain_kw (by decide) ?_)
  rw [List.append_assoc]
  exact chain_append (fullName_chain table) mid (nqs_append hk.2 (nqs_kw (by decide)))

theorem abstractUpdate_chain {table : List Char} {items : List (List Char)} {fs : List (List Tok)} {rowid : Bool}
    {ps : List Piece} (hok : FiltersOK fs) (e : abstractUpdate table items fs rowid = .ok ps) : Chain ps := by
  unfold abstractUpdate at e
  cases hw : whereClause fs with
  | error err => rw [hw] at e; cases e
  | ok w =>
    rw [hw] at e
    cases e
    have hwc := whereClause_chain hok hw
    have hr := optRowId_chain rowid (items.length + 1) hwc.1 hwc.2 (chain_kw (s := "_row_id_".toList) (ps := []) (by decide) trivial)
    have hs := setList_chain ", ".toList " = $".toList (by decide) (by decide) items 0
    refine chain_kw (by decide) (chain_kw (by decide) ?_)
    have tail : Chain (if (if rowid = true then withRowId w [.kw "_row_id_".toList] (items.length + 1) else w) ≠ [] then
        Piece.kw [' '] :: (if rowid = true then withRowId w [.kw "_row_id_".toList] (items.length + 1) else w) else []) ∧
        NoQuoteStart (if (if rowid = true then withRowId w [.kw "_row_id_".toList] (items.length + 1) else w) ≠ [] then
        Piece.kw [' '] :: (if rowid = true then withRowId w [.kw "_row_id_".toList] (items.length + 1) else w) else []) := by
      by_cases hc : (if rowid = true then withRowId w [.kw "_row_id_".toList] (items.length + 1) else w) ≠ []
      · rw [if_pos hc]; exact ⟨chain_kw (by decide) hr.1, nqs_kw (by decide)⟩
      · rw [if_neg hc]; exact ⟨trivial, nqs_nil⟩
    exact chain_append (fullName_chain table) (chain_append hs.1 tail.1 tail.2) (nqs_append hs.2 tail.2)

theorem txUpdate_chain {table : List Char} {keys : List (List Char)} {fs : List (List Tok)}
    {ps : List Piece} (hok : FiltersOK fs) (e : txUpdate table keys fs = .ok ps) : Chain ps := by
  unfold txUpdate at e
  cases hw : whereClause fs with
  | error err => rw [hw] at e; cases e
  | ok w =>
    rw [hw] at e
    cases e
    have hwc := whereClause_chain hok hw
    have hs := setList_chain ", ".toList " = $".toList (by decide) (by decide) keys 0
    refine chain_kw (by decide) ?_
    have tail : Chain (if w ≠ [] then Piece.kw [' '] :: w else []) ∧
        NoQuoteStart (if w ≠ [] then Piece.kw [' '] :: w else []) := by
      by_cases hc : w ≠ []
      · rw [if_pos hc]; exact ⟨chain_kw (by decide) hwc.1, nqs_kw (by decide)⟩
      · rw [if_neg hc]; exact ⟨trivial, nqs_nil⟩
    exact chain_append (fullName_chain table) (chain_append hs.1 tail.1 tail.2) (nqs_append hs.2 tail.2)

end EgoVerif.C14
