import EgoVerif.Common.Drv
import EgoVerif.C14.Model
/- line protocol (every text is hex of its UTF-8 bytes, "-" = empty):
   tokens   := "-" | tok(";"tok)*        tok := <class letter>":"<hex spelling>
   filters  := "~" (none) | tokens("|"tokens)*
   list     := "~" (absent) | hex("|"hex)*
   int      := "n" (none) | decimal        start := "a" (no key) | "n" | decimal
   where <filters>                                   → ok <hex> | err
   cols <hex>            sort <list>   page <int> <start>   fullname <hex>   strip <hex>   → <hex>
   escape <hex>                                      → ok <hex> | err
   seldel <S|D> <table> <columns> <filters> <sort list> <int> <start>   → ok <hex> | err
   update <table> <keys list> <filters> <rowid 0|1> <coerceFail 0|1>     → ok <hex> | err
   insert <table> <keys list>          absins <table> <cols list> <nvalues>   → <hex>
   absupd <table> <items list> <filters> <rowid 0|1>   txupd <table> <keys list> <filters>   → ok <hex> | err
   meta <table>                                      → ok <hex> | err | unmodelled
   lex <hex>                                         → skeleton: c:<hex run> q:<hex> s:<hex> SEMI COMMENT UNTERM joined by "," -/
namespace EgoVerif.C14

def hx (s : List Char) : String := hexOfString (String.ofList s)

def unhx (h : String) : Option (List Char) := (stringOfHex h).map (·.toList)

def classOf (c : String) : Option TC :=
  match c with
  | "e" => some .eot | "i" => some .ident | "t" => some .type | "s" => some .str | "b" => some .bool
  | "n" => some .int | "f" => some .float | "c" => some .complex | "r" => some .reserved
  | "p" => some .special | "v" => some .value | _ => none

def parseTok (s : String) : Option Tok :=
  match s.splitOn ":" with
  | [c, h] => match classOf c, unhx h with
    | some k, some sp => some ⟨k, sp⟩
    | _, _ => none
  | _ => none

def parseToks (s : String) : Option (List Tok) :=
  if s == "-" then some [] else (s.splitOn ";").mapM parseTok

def parseFilters (s : String) : Option (List (List Tok)) :=
  if s == "~" then some [] else (s.splitOn "|").mapM parseToks

def parseList (s : String) : Option (Option (List (List Char))) :=
  if s == "~" then some none else ((s.splitOn "|").mapM unhx).map some

def parseInt (s : String) : Option (Option Int) :=
  if s == "n" then some none else s.toInt?.map some

def parseStart (s : String) : Option (Option (Option Int)) :=
  if s == "a" then some none else (parseInt s).map some

def okText : Except Err (List Piece) → String
  | .ok ps => "ok " ++ hx (render ps)
  | .error _ => "err"

def skeleton : List LTok → List Char → List String
  | [], [] => []
  | [], acc => ["c:" ++ hx acc]
  | .ch c :: ts, acc => skeleton ts (acc ++ [c])
  | t :: ts, acc =>
    (if acc = [] then [] else ["c:" ++ hx acc]) ++
    (match t with
     | .str v => "s:" ++ hx v
     | .qid v => "q:" ++ hx v
     | .semi => "SEMI"
     | .comment => "COMMENT"
     | .unterminated => "UNTERM"
     | .ch _ => "") :: skeleton ts []

def handle (line : String) : String :=
  match fields line with
  | ["where", f] =>
    match parseFilters f with
    | some fs => okText (whereClause fs)
    | none => "bad-input"
  | ["cols", h] => match unhx h with
    | some s => hx (render (columnList s))
    | none => "bad-input"
  | ["sort", l] => match parseList l with
    | some v => hx (render (sortList v))
    | none => "bad-input"
  | ["page", l, s] => match parseInt l, parseStart s with
    | some lim, some st => hx (render (pagingClauses lim st))
    | _, _ => "bad-input"
  | ["fullname", h] => match unhx h with
    | some s => hx (render (fullName s))
    | none => "bad-input"
  | ["strip", h] => match unhx h with
    | some s => hx (stripQuotes s)
    | none => "bad-input"
  | ["escape", h] => match unhx h with
    | some s => match sqlEscape s with
      | some r => "ok " ++ hx r
      | none => "err"
    | none => "bad-input"
  | ["seldel", v, t, c, f, s, l, st] =>
    match unhx t, unhx c, parseFilters f, parseList s, parseInt l, parseStart st with
    | some t, some c, some f, some s, some l, some st =>
      okText (selectDelete { select := v == "S", table := t, columns := c, filters := f, sort := s, lim := l, start := st })
    | _, _, _, _, _, _ => "bad-input"
  | ["update", t, k, f, r, cf] =>
    match unhx t, parseList k, parseFilters f with
    | some t, some k, some f => if cf == "1" then "err" else okText (updateQuery t (k.getD []) f (r == "1"))
    | _, _, _ => "bad-input"
  | ["insert", t, k] =>
    match unhx t, parseList k with
    | some t, some k => hx (render (insertQuery (fullName t) (k.getD []) (k.getD []).length))
    | _, _ => "bad-input"
  | ["absins", t, k, n] =>
    match unhx t, parseList k, n.toNat? with
    | some t, some k, some n => hx (render (insertQuery (fullName t) (k.getD []) n))
    | _, _, _ => "bad-input"
  | ["absupd", t, k, f, r] =>
    match unhx t, parseList k, parseFilters f with
    | some t, some k, some f => okText (abstractUpdate t (k.getD []) f (r == "1"))
    | _, _, _ => "bad-input"
  | ["txupd", t, k, f] =>
    match unhx t, parseList k, parseFilters f with
    | some t, some k, some f => okText (txUpdate t (k.getD []) f)
    | _, _, _ => "bad-input"
  | ["meta", t] =>
    match unhx t with
    | some t =>
      if '.' ∈ stripQuotes t then "unmodelled" else
      match metaText t with
      | some x => "ok " ++ hx x
      | none => "err"
    | none => "bad-input"
  | ["lex", h] => match unhx h with
    | some s => ",".intercalate (skeleton (sqlLex s) [])
    | none => "bad-input"
  | _ => "bad-op"

def drv : Drv := Drv.pure handle

end EgoVerif.C14
