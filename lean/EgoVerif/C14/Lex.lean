import EgoVerif.C14.Model
/-
C14 — lemmas: the model of SQLite's tokenizer on plain text, numeric text, string literals and quoted
identifiers; chains of well-formed pieces lex to the skeleton of their pieces (`chain_lex`).
-/
namespace EgoVerif.C14

/-! ## the tokenizer on the three kinds of text -/

def plain (c : Char) : Bool := c != '-' && c != '/' && c != ';' && c != '\'' && c != '"'

theorem stepNorm_plain {c : Char} (h : plain c = true) : stepNorm c = (.norm, [.ch c]) := by
  simp [plain] at h
  simp [stepNorm, h]

theorem run_cons_plain {c : Char} (h : plain c = true) (xs : List Char) :
    run .norm (c :: xs) = .ch c :: run .norm xs := by
  simp [run, step, stepNorm_plain h]

theorem run_plain (s : List Char) (hs : ∀ c ∈ s, plain c = true) (rest : List Char) :
    run .norm (s ++ rest) = s.map .ch ++ run .norm rest := by
  induction s with
  | nil => rfl
  | cons c cs ih =>
    have hc := stepNorm_plain (hs c (by simp))
    simp only [List.cons_append, run, step, hc, List.map_cons]
    rw [ih (fun d hd => hs d (by simp [hd]))]
    rfl

theorem run_dash {d : Char} (hd : d ≠ '-') (xs : List Char) :
    run .dash (d :: xs) = .ch '-' :: run .norm (d :: xs) := by
  simp [run, step, hd]

/-- digits, letters, `.`, `_`, `+`, `-`: the characters of a numeric token -/
def numChar (c : Char) : Bool :=
  ('0' ≤ c && c ≤ '9') || ('a' ≤ c && c ≤ 'z') || ('A' ≤ c && c ≤ 'Z') || c = '.' || c = '_' || c = '+' || c = '-'

/-- numeric text: numeric characters, no `--`, not ending in `-` -/
def numText : List Char → Bool
  | [] => true
  | [c] => numChar c && c != '-'
  | c :: d :: s => numChar c && (c != '-' || d != '-') && numText (d :: s)

theorem numChar_plain {c : Char} (h : numChar c = true) (hd : c ≠ '-') : plain c = true := by
  have h1 : c ≠ '/' := by intro e; subst e; revert h; decide
  have h2 : c ≠ ';' := by intro e; subst e; revert h; decide
  have h3 : c ≠ '\'' := by intro e; subst e; revert h; decide
  have h4 : c ≠ '"' := by intro e; subst e; revert h; decide
  simp [plain, hd, h1, h2, h3, h4]

theorem run_num : ∀ (s : List Char), numText s = true → ∀ rest, run .norm (s ++ rest) = s.map .ch ++ run .norm rest
  | [], _, _ => rfl
  | [c], h, rest => by
    simp [numText] at h
    exact run_plain [c] (by intro d hd; simp at hd; subst hd; exact numChar_plain h.1 h.2) rest
  | c :: d :: s, h, rest => by
    simp only [numText, Bool.and_eq_true, Bool.or_eq_true, bne_iff_ne, ne_eq] at h
    obtain ⟨⟨hc, hcd⟩, hrest⟩ := h
    have ih := run_num (d :: s) hrest rest
    by_cases hdash : c = '-'
    · subst hdash
      have hd : d ≠ '-' := by
        rcases hcd with h | h
        · exact absurd rfl h
        · exact h
      have : run .norm ('-' :: d :: s ++ rest) = run .dash (d :: (s ++ rest)) := by
        simp [run, step, stepNorm]
      rw [this, run_dash hd]
      simp only [List.cons_append] at ih
      rw [ih]
      rfl
    · rw [show c :: d :: s ++ rest = c :: (d :: s ++ rest) from rfl,
          run_cons_plain (numChar_plain hc hdash), ih]
      rfl

/-- what may follow a quoted piece: not a quote character (or nothing) -/
def Follow (rest : List Char) : Prop := rest.head? ≠ some '\'' ∧ rest.head? ≠ some '"'

theorem run_strQ (acc rest : List Char) (h : rest.head? ≠ some '\'') :
    run (.strQ acc) rest = .str acc :: run .norm rest := by
  cases rest with
  | nil => rfl
  | cons c cs =>
    have hc : c ≠ '\'' := by intro e; subst e; exact h rfl
    simp [run, step, hc]

theorem run_qidQ (acc rest : List Char) (h : rest.head? ≠ some '"') :
    run (.qidQ acc) rest = .qid acc :: run .norm rest := by
  cases rest with
  | nil => rfl
  | cons c cs =>
    have hc : c ≠ '"' := by intro e; subst e; exact h rfl
    simp [run, step, hc]

theorem run_str_body (v acc rest : List Char) :
    run (.str acc) (escS v ++ '\'' :: rest) = run (.strQ (acc ++ v)) rest := by
  induction v generalizing acc with
  | nil => simp [escS, run, step]
  | cons c cs ih =>
    by_cases hc : c = '\''
    · subst hc
      simp only [escS, if_true, List.cons_append, run, step, List.nil_append]
      rw [ih]
      simp
    · simp only [escS, hc, if_false, List.cons_append, run, step, List.nil_append]
      rw [ih]
      simp

theorem run_qid_body (v acc rest : List Char) :
    run (.qid acc) (escD v ++ '"' :: rest) = run (.qidQ (acc ++ v)) rest := by
  induction v generalizing acc with
  | nil => simp [escD, run, step]
  | cons c cs ih =>
    by_cases hc : c = '"'
    · subst hc
      simp only [escD, if_true, List.cons_append, run, step, List.nil_append]
      rw [ih]
      simp
    · simp only [escD, hc, if_false, List.cons_append, run, step, List.nil_append]
      rw [ih]
      simp

theorem run_str (v rest : List Char) (h : Follow rest) :
    run .norm ((Piece.str v).text ++ rest) = .str v :: run .norm rest := by
  have : run .norm ((Piece.str v).text ++ rest) = run (.str []) (escS v ++ '\'' :: rest) := by
    simp [Piece.text, run, step, stepNorm]
  rw [this, run_str_body, run_strQ _ _ h.1]
  simp

theorem run_ident (v rest : List Char) (h : Follow rest) :
    run .norm ((Piece.ident v).text ++ rest) = .qid v :: run .norm rest := by
  have : run .norm ((Piece.ident v).text ++ rest) = run (.qid []) (escD v ++ '"' :: rest) := by
    simp [Piece.text, run, step, stepNorm]
  rw [this, run_qid_body, run_qidQ _ _ h.2]
  simp

/-! ## pieces -/

/-- every literal the generators write themselves -/
def vocab : List (List Char) :=
  ["SELECT", "DELETE", "UPDATE", "UPDATE ", "INSERT", " INTO ", " ", "*", "FROM ", "WHERE ", ",", ".", "(", ")", " AND ", " OR ",
   " NOT ", "=", "<", "<=", ">", ">=", " IS NULL ", "POSITION(", " IN ", ") > 0", "ORDER BY ", " DESC", " LIMIT ",
   " OFFSET ", "SET ", " SET ", "=$", " = $", ", ", "$", ") VALUES (", "count(*)", "count(*) as count",
   "_row_id_", "SELECT * FROM ", " WHERE 1=0"].map String.toList

def startsPlain : List Char → Bool
  | c :: _ => c != '\'' && c != '"'
  | [] => false

theorem vocab_plain : ∀ s ∈ vocab, ∀ c ∈ s, plain c = true := by
  have h : vocab.all (fun s => s.all plain) = true := by decide
  intro s hs c hc
  exact List.all_eq_true.mp (List.all_eq_true.mp h s hs) c hc

theorem vocab_starts : ∀ s ∈ vocab, startsPlain s = true := by
  have h : vocab.all startsPlain = true := by decide
  exact fun s hs => List.all_eq_true.mp h s hs

def PieceOK : Piece → Prop
  | .kw s => s ∈ vocab
  | .num s => numText s = true
  | .bare s => s ≠ [] ∧ ∀ c ∈ s, isIdentChar c = true
  | _ => True

def Piece.quoted : Piece → Bool
  | .str _ => true
  | .ident _ => true
  | _ => false

theorem render_append (a b : List Piece) : render (a ++ b) = render a ++ render b := by
  induction a with
  | nil => rfl
  | cons p ps ih => simp [render, ih]

theorem pieceToks_append (a b : List Piece) : pieceToks (a ++ b) = pieceToks a ++ pieceToks b := by
  induction a with
  | nil => rfl
  | cons p ps ih => simp [pieceToks, ih]

def NoQuoteStart (ps : List Piece) : Prop := ∀ rest, Follow rest → Follow (render ps ++ rest)

def Chain : List Piece → Prop
  | [] => True
  | p :: ps => PieceOK p ∧ Chain ps ∧ (p.quoted = true → NoQuoteStart ps)

theorem digit_facts : ∀ k, k < 10 → plain (Char.ofNat (48 + k)) = true ∧ startsPlain [Char.ofNat (48 + k)] = true := by
  decide

theorem natDigits_plain (n : Nat) : ∀ c ∈ natDigits n, plain c = true := by
  induction n using Nat.strongRecOn with
  | _ n ih =>
    rw [natDigits]
    split
    · rename_i h
      intro c hc
      simp at hc
      subst hc
      exact (digit_facts n h).1
    · rename_i h
      intro c hc
      simp at hc
      rcases hc with hc | hc
      · exact ih (n / 10) (by omega) c hc
      · subst hc
        exact (digit_facts (n % 10) (by omega)).1

theorem natDigits_ne_nil (n : Nat) : natDigits n ≠ [] := by
  rw [natDigits]
  split <;> simp

theorem isIdentChar_plain {c : Char} (h : isIdentChar c = true) : plain c = true := by
  have h0 : c ≠ '-' := by intro e; subst e; revert h; decide
  have h1 : c ≠ '/' := by intro e; subst e; revert h; decide
  have h2 : c ≠ ';' := by intro e; subst e; revert h; decide
  have h3 : c ≠ '\'' := by intro e; subst e; revert h; decide
  have h4 : c ≠ '"' := by intro e; subst e; revert h; decide
  simp [plain, h0, h1, h2, h3, h4]

/-- an unquoted piece lexes to its own characters whatever follows -/
theorem piece_lex_any (p : Piece) (hp : PieceOK p) (hq : p.quoted = false) (rest : List Char) :
    run .norm (p.text ++ rest) = p.toks ++ run .norm rest := by
  cases p with
  | kw s => exact run_plain s (vocab_plain s hp) rest
  | nat n => exact run_plain _ (natDigits_plain n) rest
  | int i =>
    cases i with
    | ofNat n => exact run_plain _ (natDigits_plain n) rest
    | negSucc n =>
      simp only [Piece.text, Piece.toks, intDigits, List.cons_append, List.map_cons]
      have hne := natDigits_ne_nil (n + 1)
      have hpl := natDigits_plain (n + 1)
      cases hd : natDigits (n + 1) with
      | nil => exact absurd hd hne
      | cons d ds =>
        rw [hd] at hpl
        have hdp : plain d = true := hpl d (by simp)
        have hdd : d ≠ '-' := by intro e; subst e; revert hdp; decide
        have : run .norm ('-' :: (d :: ds ++ rest)) = run .dash (d :: (ds ++ rest)) := by
          simp [run, step, stepNorm]
        rw [this, run_dash hdd]
        have := run_plain (d :: ds) hpl rest
        simp only [List.cons_append] at this
        rw [this]
  | num s => exact run_num s hp rest
  | bare s => exact run_plain s (fun c hc => isIdentChar_plain (hp.2 c hc)) rest
  | str v => simp [Piece.quoted] at hq
  | ident v => simp [Piece.quoted] at hq

theorem piece_lex (p : Piece) (hp : PieceOK p) (rest : List Char) (hf : Follow rest) :
    run .norm (p.text ++ rest) = p.toks ++ run .norm rest := by
  cases hq : p.quoted with
  | false => exact piece_lex_any p hp hq rest
  | true =>
    cases p with
    | str v => exact run_str v rest hf
    | ident v => exact run_ident v rest hf
    | _ => simp [Piece.quoted] at hq

/-- the generated text of a chain lexes to the skeleton of its pieces -/
theorem chain_lex (ps : List Piece) (h : Chain ps) :
    ∀ rest, Follow rest → run .norm (render ps ++ rest) = pieceToks ps ++ run .norm rest := by
  induction ps with
  | nil => intro rest _; rfl
  | cons p ps ih =>
    intro rest hf
    obtain ⟨hp, hc, hq⟩ := h
    simp only [render, pieceToks, List.append_assoc]
    cases hquo : p.quoted with
    | false => rw [piece_lex_any p hp hquo, ih hc rest hf]
    | true => rw [piece_lex p hp _ (hq hquo rest hf), ih hc rest hf]

theorem follow_nil : Follow [] := by simp [Follow]

theorem nqs_of_starts {p : Piece} {ps : List Piece} (h : startsPlain p.text = true) : NoQuoteStart (p :: ps) := by
  intro rest _
  cases ht : p.text with
  | nil => rw [ht] at h; simp [startsPlain] at h
  | cons c cs =>
    rw [ht] at h
    simp [startsPlain] at h
    simp [render, ht, Follow, h]

theorem nqs_kw {s : List Char} {ps : List Piece} (h : s ∈ vocab) : NoQuoteStart (.kw s :: ps) :=
  nqs_of_starts (vocab_starts s h)

theorem nqs_nil : NoQuoteStart [] := fun _ h => h

theorem nqs_append {a b : List Piece} (ha : NoQuoteStart a) (hb : NoQuoteStart b) : NoQuoteStart (a ++ b) := by
  intro rest hf
  rw [render_append, List.append_assoc]
  exact ha _ (hb rest hf)

theorem chain_kw {s : List Char} {ps : List Piece} (h : s ∈ vocab) (hc : Chain ps) : Chain (.kw s :: ps) :=
  ⟨h, hc, by simp [Piece.quoted]⟩

theorem chain_unq {p : Piece} {ps : List Piece} (hp : PieceOK p) (hq : p.quoted = false) (hc : Chain ps) :
    Chain (p :: ps) := ⟨hp, hc, by simp [hq]⟩

theorem chain_append {a b : List Piece} (ha : Chain a) (hb : Chain b) (hn : NoQuoteStart b) : Chain (a ++ b) := by
  induction a with
  | nil => exact hb
  | cons p ps ih =>
    obtain ⟨hp, hc, hq⟩ := ha
    exact ⟨hp, ih hc, fun h => nqs_append (hq h) hn⟩

theorem chain_single {p : Piece} (hp : PieceOK p) : Chain [p] := ⟨hp, trivial, fun _ => nqs_nil⟩

end EgoVerif.C14
