/-
C33 — `lex1_spec` (all token kinds) and the re-lexing induction.
-/
import EgoVerif.C33.LemD
namespace EgoVerif.C33

theorem bnd_ident (v R : List Nat) (h : bnd ⟨.ident, v⟩ R.head? = true) : hdNot isIdentCont R = true := by
  cases R with
  | nil => rfl
  | cons x R' => simpa [bnd, hdNot] using h

theorem bnd_regex (v R : List Nat) (h : bnd ⟨.regex, v⟩ R.head? = true) : hdNot isIdentCont R = true := by
  cases R with
  | nil => rfl
  | cons x R' => simpa [bnd, hdNot] using h

theorem bnd_num (v R : List Nat) (h : bnd ⟨.num, v⟩ R.head? = true) : numStop (lastD v) R = true := by
  cases R with
  | nil => rfl
  | cons x R' => simpa [bnd, numStop] using h

theorem bnd_punct (v R : List Nat) (h : bnd ⟨.punct, v⟩ R.head? = true) :
    punctStop v R = true ∧ (v = [47] → hdIs R 47 = false ∧ hdIs R 42 = false) ∧ (v = [46] → hdDigit R = false) := by
  cases R with
  | nil => simp [punctStop, hdIs, hdDigit]
  | cons x R' =>
    simp only [bnd, List.head?_cons, Bool.and_eq_true, Bool.not_eq_true', Bool.and_eq_false_iff] at h
    refine ⟨by simpa [punctStop] using h.1.1, ?_, ?_⟩
    · intro hv
      have := h.1.2
      simp [hv] at this
      simp [hdIs, this.1, this.2]
    · intro hv
      have := h.2
      simp [hv] at this
      simp [hdDigit, this]

theorem lex1_spec (last : Option Tok) (t : Tok) (R : List Nat) (hv : validTok t = true)
    (hc : ctxOK last t = true) (hb : bnd t R.head? = true) : lex1 last (t.val ++ R) = some (t, R) := by
  obtain ⟨k, v⟩ := t
  cases k with
  | ws => simp [validTok] at hv
  | lineC => simp [validTok] at hv
  | blockC => simp [validTok] at hv
  | ident =>
    cases v with
    | nil => simp [validTok] at hv
    | cons c r =>
      simp only [validTok, Bool.and_eq_true] at hv
      exact lex1_ident last c r R hv.1 hv.2 (bnd_ident _ R hb)
  | num =>
    cases v with
    | nil => simp [validTok] at hv
    | cons c r =>
      simp only [validTok, Bool.and_eq_true] at hv
      exact lex1_num last c r R hv.1 hv.2 (bnd_num _ R hb)
  | str =>
    cases v with
    | nil => simp [validTok] at hv
    | cons q body =>
      simp only [validTok, Bool.and_eq_true] at hv
      exact lex1_str last q body R hv.1 hv.2
  | tpl =>
    cases v with
    | nil => simp [validTok] at hv
    | cons q body =>
      simp only [validTok, Bool.and_eq_true, beq_iff_eq] at hv
      obtain ⟨hq, hb'⟩ := hv
      subst hq
      exact lex1_tpl last body R hb'
  | regex =>
    cases v with
    | nil => simp [validTok] at hv
    | cons s body =>
      simp only [validTok, Bool.and_eq_true, beq_iff_eq, Bool.not_eq_true'] at hv
      obtain ⟨⟨⟨hs, h47⟩, h42⟩, hcl⟩ := hv
      subst hs
      have hctx : isRegexCtx last = true := by simpa [ctxOK] using hc
      exact lex1_regex last body R hctx h47 h42 hcl (bnd_regex _ R hb)
  | punct =>
    obtain ⟨hs, hcm, hdot⟩ := bnd_punct v R hb
    have hctx : hdIs v 47 = true → isRegexCtx last = false := by
      intro h; simpa [ctxOK, h] using hc
    match v, hv, hs, hcm, hdot, hctx with
    | [], hv, _, _, _, _ => simp [validTok, ops3, ops2] at hv
    | [c], hv, hs, hcm, hdot, hctx =>
      have hp : punctChar c = true := by simpa [validTok] using hv
      exact lex1_single last c R hp (fun h => hctx (by simp [hdIs, h])) hs
        (fun h => hcm (by simp [h])) (fun h => hdot (by simp [h]))
    | a :: b :: r, hv, hs, _, _, hctx =>
      have hm : (a :: b :: r) ∈ ops3 ∨ (a :: b :: r) ∈ ops2 := by
        simpa [validTok] using hv
      exact lex1_op last _ R hm hctx hs

theorem validTok_head (t : Tok) (hv : validTok t = true) :
    ∃ c r, t.val = c :: r ∧ isWs c = false ∧ t.kind ≠ .ws ∧ t.kind ≠ .lineC ∧ t.kind ≠ .blockC := by
  obtain ⟨k, v⟩ := t
  cases k with
  | ws => simp [validTok] at hv
  | lineC => simp [validTok] at hv
  | blockC => simp [validTok] at hv
  | ident =>
    cases v with
    | nil => simp [validTok] at hv
    | cons c r =>
      simp only [validTok, Bool.and_eq_true] at hv
      exact ⟨c, r, rfl, (identStart_facts c hv.1).1, by simp⟩
  | num =>
    cases v with
    | nil => simp [validTok] at hv
    | cons c r =>
      simp only [validTok, Bool.and_eq_true] at hv
      refine ⟨c, r, rfl, ?_, by simp⟩
      rcases Bool.or_eq_true _ _ |>.mp hv.1 with h | h
      · exact (digit_facts c h).1
      · have : c = 46 := by simp at h; exact h.1
        subst this; decide
  | str =>
    cases v with
    | nil => simp [validTok] at hv
    | cons q body =>
      simp only [validTok, Bool.and_eq_true] at hv
      refine ⟨q, body, rfl, ?_, by simp⟩
      rcases Bool.or_eq_true _ _ |>.mp hv.1 with h | h <;> (have := beq_iff_eq.mp h; subst this; decide)
  | tpl =>
    cases v with
    | nil => simp [validTok] at hv
    | cons q body =>
      simp only [validTok, Bool.and_eq_true, beq_iff_eq] at hv
      obtain ⟨hq, _⟩ := hv
      subst hq
      exact ⟨96, body, rfl, by decide, by simp⟩
  | regex =>
    cases v with
    | nil => simp [validTok] at hv
    | cons s body =>
      simp only [validTok, Bool.and_eq_true, beq_iff_eq] at hv
      have hs := hv.1.1.1
      subst hs
      exact ⟨47, body, rfl, by decide, by simp⟩
  | punct =>
    match v, hv with
    | [], hv => simp [validTok, ops3, ops2] at hv
    | [c], hv =>
      have hp : punctChar c = true := by simpa [validTok] using hv
      exact ⟨c, [], rfl, (punctChar_facts c hp).1, by simp⟩
    | a :: b :: r, hv =>
      have hm : (a :: b :: r) ∈ ops3 ∨ (a :: b :: r) ∈ ops2 := by simpa [validTok] using hv
      obtain ⟨b', d, v', e, hp, _⟩ := op_head _ hm
      have : a = b' := by simp at e; exact e.1
      subst this
      exact ⟨a, b :: r, rfl, (punctChar_facts a hp).1, by simp⟩

end EgoVerif.C33
