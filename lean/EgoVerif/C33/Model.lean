/-
C33 — renaming half of the model of `javascript.Minify` (internal/util/javascript/minify.go),
core Lean only; mirrors the code WITH fixes/C33.patch applied:
  * `isIdentStart` accepts bytes ≥ 0x80, `isRegexContext` treats every operator except
    `)` `]` `++` `--` (and the keywords else/do/yield/await) as a regex context,
    `needsSep` separates `/ /`, `< !` and a number from a following `.`   (Lex.lean)
  * `renameLocals` removes every identifier-shaped word of a template literal from the
    rename set (a template is emitted verbatim, `${…}` included).
Token slices are `Array Tok` where the Go code indexes, lists where it only iterates.
Go maps are duplicate-free lists; the iteration order of `for name := range locals`
(random in Go) is the explicit parameter `order` of `buildMap`/`renameWith`.
-/
import EgoVerif.C33.Lex
namespace EgoVerif.C33

abbrev Name := List Nat

/-- Go `reserved` (90 words; compared with the real map by the harness, op `reserved`) -/
def reservedWords : List Name := [
  [97,114,103,117,109,101,110,116,115], [97,115], [97,115,121,110,99], [97,119,97,105,116], [98,114,101,97,107], [99,97,115,101],  -- arguments as async await break case
  [99,97,116,99,104], [99,108,97,115,115], [99,111,110,115,116], [99,111,110,116,105,110,117,101], [100,101,98,117,103,103,101,114], [100,101,102,97,117,108,116],  -- catch class const continue debugger default
  [100,101,108,101,116,101], [100,111], [101,108,115,101], [101,120,112,111,114,116], [101,120,116,101,110,100,115], [102,97,108,115,101],  -- delete do else export extends false
  [102,105,110,97,108,108,121], [102,111,114], [102,114,111,109], [102,117,110,99,116,105,111,110], [103,101,116], [105,102],  -- finally for from function get if
  [105,109,112,111,114,116], [105,110], [105,110,115,116,97,110,99,101,111,102], [108,101,116], [110,101,119], [110,117,108,108],  -- import in instanceof let new null
  [111,102], [114,101,116,117,114,110], [115,101,116], [115,116,97,116,105,99], [115,117,112,101,114], [115,119,105,116,99,104],  -- of return set static super switch
  [116,104,105,115], [116,104,114,111,119], [116,114,117,101], [116,114,121], [116,121,112,101,111,102], [117,110,100,101,102,105,110,101,100],  -- this throw true try typeof undefined
  [118,97,114], [118,111,105,100], [119,104,105,108,101], [119,105,116,104], [121,105,101,108,100], [65,114,114,97,121],  -- var void while with yield Array
  [66,111,111,108,101,97,110], [99,111,110,115,111,108,101], [68,97,116,101], [100,111,99,117,109,101,110,116], [69,114,114,111,114], [101,118,97,108],  -- Boolean console Date document Error eval
  [70,117,110,99,116,105,111,110], [73,110,102,105,110,105,116,121], [74,83,79,78], [77,97,112], [77,97,116,104], [78,97,78],  -- Function Infinity JSON Map Math NaN
  [78,117,109,98,101,114], [79,98,106,101,99,116], [80,114,111,109,105,115,101], [80,114,111,120,121], [82,101,102,108,101,99,116], [82,101,103,69,120,112],  -- Number Object Promise Proxy Reflect RegExp
  [83,101,116], [83,116,114,105,110,103], [83,121,109,98,111,108], [84,121,112,101,69,114,114,111,114], [87,101,97,107,77,97,112], [87,101,97,107,82,101,102],  -- Set String Symbol TypeError WeakMap WeakRef
  [87,101,97,107,83,101,116], [119,105,110,100,111,119], [103,108,111,98,97,108,84,104,105,115], [112,97,114,115,101,73,110,116], [112,97,114,115,101,70,108,111,97,116], [105,115,78,97,78],  -- WeakSet window globalThis parseInt parseFloat isNaN
  [105,115,70,105,110,105,116,101], [100,101,99,111,100,101,85,82,73], [101,110,99,111,100,101,85,82,73], [100,101,99,111,100,101,85,82,73,67,111,109,112,111,110,101,110,116], [101,110,99,111,100,101,85,82,73,67,111,109,112,111,110,101,110,116], [85,105,110,116,56,65,114,114,97,121],  -- isFinite decodeURI encodeURI decodeURIComponent encodeURIComponent Uint8Array
  [99,111,110,115,116,114,117,99,116,111,114], [108,101,110,103,116,104], [112,114,111,116,111,116,121,112,101], [116,111,83,116,114,105,110,103], [118,97,108,117,101,79,102], [104,97,115,79,119,110,80,114,111,112,101,114,116,121]   -- constructor length prototype toString valueOf hasOwnProperty
  ]

def isReserved (x : Name) : Bool := reservedWords.contains x

def kwDecl : List Name := [[118,97,114], [108,101,116], [99,111,110,115,116]]  -- var let const
def kwFunc : List Name := [[102,117,110,99,116,105,111,110], [99,108,97,115,115]]  -- function class

def isP (t : Tok) (c : Nat) : Bool := t.kind == .punct && t.val == [c]
def isIdentTok (t : Tok) : Bool := t.kind == .ident
def wsTok : Tok := ⟨.ws, []⟩
def ins (s : List Name) (x : Name) : List Name := if s.contains x then s else x :: s

/-- Go `skipWhitespace` -/
def skipWs (a : Array Tok) : Nat → Nat → Nat
  | 0, i => i
  | f + 1, i => if i < a.size && (a.getD i wsTok).kind == .ws then skipWs a f (i + 1) else i

/-- Go `skipInitializer`; `d` = depth -/
def skipInit (a : Array Tok) : Nat → Nat → Nat → Nat
  | 0, _, i => i
  | f + 1, d, i =>
    if i ≥ a.size then i else
    let t := a.getD i wsTok
    if isP t 40 || isP t 91 || isP t 123 then skipInit a f (d + 1) (i + 1)
    else if isP t 41 || isP t 93 || isP t 125 then (if d == 0 then i else skipInit a f (d - 1) (i + 1))
    else if isP t 44 || isP t 59 then (if d == 0 then i else skipInit a f d (i + 1))
    else skipInit a f d (i + 1)

/-- Go `collectParams`; `d` = depth (starts at 1) -/
def collectParams (a : Array Tok) : Nat → Nat → Nat → List Name → Nat × List Name
  | 0, _, i, l => (i, l)
  | f + 1, d, i, l =>
    if i ≥ a.size || d == 0 then (i, l) else
    let t := a.getD i wsTok
    if isP t 40 then collectParams a f (d + 1) (i + 1) l
    else if isP t 41 then (if d == 1 then (i + 1, l) else collectParams a f (d - 1) (i + 1) l)
    else if isIdentTok t && !isReserved t.val then collectParams a f d (i + 1) (ins l t.val)
    else collectParams a f d (i + 1) l

/-- the destructuring loop of `collectLocals` (`for i < n && nest > 0`) -/
def destr (a : Array Tok) : Nat → Nat → Nat → List Name → Nat × List Name
  | 0, _, i, s => (i, s)
  | f + 1, nest, i, s =>
    if i ≥ a.size || nest == 0 then (i, s) else
    let t := a.getD i wsTok
    if isP t 123 || isP t 91 then destr a f (nest + 1) (i + 1) s
    else if isP t 125 || isP t 93 then destr a f (nest - 1) (i + 1) s
    else if isIdentTok t && !isReserved t.val then destr a f nest (i + 1) (ins s t.val)
    else destr a f nest (i + 1) s

/-- the `for i < n` loop of the `var/let/const` arm; the result index is the value of `i`
    when the loop is left (the caller then does `i--`) -/
def declLoop (a : Array Tok) : Nat → Nat → List Name → Nat × List Name
  | 0, i, s => (i, s)
  | f + 1, i, s =>
    let n := a.size
    if i ≥ n then (i, s) else
    let i := skipWs a n i
    if i ≥ n then (i, s) else
    let cur := a.getD i wsTok
    let r : Option (Nat × List Name) :=
      if isIdentTok cur && !isReserved cur.val then some (i + 1, ins s cur.val)
      else if isP cur 123 || isP cur 91 then some (destr a n 1 (i + 1) s)
      else none
    match r with
    | none => (i, s)
    | some (i, s) =>
      let i := skipWs a n i
      if i ≥ n then (i, s) else
      let i := if isP (a.getD i wsTok) 61 then skipInit a n 0 (i + 1) else i
      let i := skipWs a n i
      if i ≥ n || !isP (a.getD i wsTok) 44 then (i, s) else declLoop a f (i + 1) s

structure Sets where
  loc : List Name
  fs : List Name
  deriving Repr

/-- the main `for i := 0; i < n; i++` loop of Go `collectLocals` -/
def collect (a : Array Tok) : Nat → Nat → Nat → Sets → Sets
  | 0, _, _, s => s
  | f + 1, depth, i, s =>
    let n := a.size
    if i ≥ n then s else
    let t := a.getD i wsTok
    if t.kind == .punct then
      let depth' := if t.val == [123] then depth + 1
                    else if t.val == [125] then (if depth > 0 then depth - 1 else depth) else depth
      collect a f depth' (i + 1) s
    else if t.kind != .ident then collect a f depth (i + 1) s
    else if kwDecl.contains t.val then
      let (j, tg) := declLoop a n (i + 1) (if depth == 0 then s.fs else s.loc)
      -- `i--` after the inner loop, then the outer `i++`
      collect a f depth (j - 1 + 1) (if depth == 0 then { s with fs := tg } else { s with loc := tg })
    else if kwFunc.contains t.val then
      let j := skipWs a n (i + 1)
      if j ≥ n then s else
      let nm := a.getD j wsTok
      let named := isIdentTok nm && !isReserved nm.val
      let s := if named && depth == 0 then { s with fs := ins s.fs nm.val } else s
      let j := if named then skipWs a n (j + 1) else j
      if j < n && isP (a.getD j wsTok) 40 then
        let (k, l) := collectParams a n 1 (j + 1) s.loc
        collect a f depth (k - 1 + 1) { s with loc := l }
      else collect a f depth (j + 1) s
    else collect a f depth (i + 1) s

/-- Go `collectLocals` -/
def collectLocals (ts : List Tok) : Sets :=
  let a := ts.toArray
  collect a (a.size + 1) 0 0 ⟨[], []⟩

/-- the identifier-shaped words of a template literal (patched loop in `renameLocals`):
    maximal runs of `isIdentCont` bytes -/
def wordsAux : List Nat → List Nat → List Name
  | cur, [] => if cur.isEmpty then [] else [cur.reverse]
  | cur, c :: t =>
    if isIdentCont c then wordsAux (c :: cur) t
    else (if cur.isEmpty then [] else [cur.reverse]) ++ wordsAux [] t

def templateWords (ts : List Tok) : List Name :=
  ts.flatMap fun t => if t.kind == .tpl then wordsAux [] t.val else []

/-- `locals` after the `delete` loops of `renameLocals`: the names that will be renamed -/
def renameSet (ts : List Tok) : List Name :=
  let s := collectLocals ts
  let tw := templateWords ts
  s.loc.filter fun x => !s.fs.contains x && !tw.contains x

/-- Go `existing`: every identifier token of the source -/
def identsOf (ts : List Tok) : List Name := (ts.filter isIdentTok).map (·.val)

/-- decimal digits of `n` (`%d`) -/
def digits (n : Nat) : List Nat :=
  if h : n < 10 then [48 + n] else digits (n / 10) ++ [48 + n % 10]
termination_by n
decreasing_by omega

/-- the n-th value of Go `nameGen`: a…z, a1…z1, a2… -/
def nameAt (n : Nat) : Name :=
  if n < 26 then [97 + n] else (97 + (n - 26) % 26) :: digits ((n - 26) / 26 + 1)

/-- `short := next(); for existing[short] { short = next() }` with fuel; returns the name and
    the generator's next counter -/
def pick (existing : List Name) : Nat → Nat → Option (Name × Nat)
  | 0, _ => none
  | f + 1, n => if existing.contains (nameAt n) then pick existing f (n + 1) else some (nameAt n, n + 1)

/-- the `for name := range locals` loop building `rename`; `order` is the iteration order -/
def buildMap (fuel : Nat) : List Name → List Name → Nat → Option (List (Name × Name))
  | [], _, _ => some []
  | x :: xs, existing, n =>
    match pick existing fuel n with
    | none => none
    | some (s, n') => (buildMap fuel xs (s :: existing) n').map ((x, s) :: ·)

def lookup (m : List (Name × Name)) (x : Name) : Option Name := (m.find? (·.1 == x)).map (·.2)

/-- first non-whitespace token of a list (Go `prevNonWS` on the reversed result, `nextNonWS`
    on the remaining input) -/
def firstSig : List Tok → Option Tok
  | [] => none
  | t :: r => if t.kind == .ws then firstSig r else some t

def optIsP (o : Option Tok) (v : List Nat) : Bool :=
  match o with | some t => t.kind == .punct && t.val == v | none => false

def colonTok : Tok := ⟨.punct, [58]⟩

/-- context-stack update at a token (`{ ( [` push, `} ) ]` pop) -/
def ctxStep (ctx : List Nat) (t : Tok) : List Nat :=
  if isP t 123 || isP t 40 || isP t 91 then t.val.headD 0 :: ctx
  else if isP t 125 || isP t 41 || isP t 93 then ctx.drop 1 else ctx

/-- what one identifier token that has a rename entry `short` becomes, given the previous
    non-whitespace output token, the next non-whitespace input token and the bracket context -/
def renameIdent (t : Tok) (short : Name) (prev next : Option Tok) (ctx : List Nat) : List Tok :=
  if optIsP prev [46] || optIsP prev [63, 46] then [t]                         -- after `.` / `?.`
  else if ctx.head? == some 123 && (optIsP prev [123] || optIsP prev [44]) then
    if optIsP next [58] then [t]                                               -- `{key: …}`
    else if optIsP next [44] || optIsP next [125] then [t, colonTok, ⟨.ident, short⟩]  -- shorthand
    else [⟨.ident, short⟩]
  else [⟨.ident, short⟩]

/-- one token of the apply loop of `renameLocals`: the output segment -/
def applyTok (m : List (Name × Name)) (t : Tok) (prev next : Option Tok) (ctx : List Nat) : List Tok :=
  if t.kind != .ident then [t] else
  match lookup m t.val with
  | none => [t]
  | some short => renameIdent t short prev next ctx

/-- the apply loop; `res` is the output so far, REVERSED -/
def applyGo (m : List (Name × Name)) : List Nat → List Tok → List Tok → List Tok
  | _, res, [] => res.reverse
  | ctx, res, t :: rest =>
    let ctx' := ctxStep ctx t
    applyGo m ctx' ((applyTok m t (firstSig res) (firstSig rest) ctx').reverse ++ res) rest

/-- Go `renameLocals` for a given iteration order of the rename set -/
def renameWith (order : List Name) (ts : List Tok) : Option (List Tok) :=
  if order.isEmpty then some ts else
  let ex := identsOf ts
  (buildMap (ex.length + order.length + 1) order ex 0).map fun m => applyGo m [] [] ts

/-- `Minify(src, true)` for a given iteration order -/
def minify1 (order : List Name) (src : List Nat) : Option (List Nat) :=
  (renameWith order (stripComments (tokenize src))).map emit

end EgoVerif.C33
