import EgoVerif.Common.Drv
import EgoVerif.C33.Model
import EgoVerif.C33.Wf
/- line protocol (all byte strings hex, "-" = empty):
   `tok <src>`          → tokens `k:hex,k:hex,…` of `tokenize`
   `min <src>`          → `Minify(src,false)`
   `col <src>`          → `locals|fileScope` of `collectLocals`, each sorted, names joined by `,`
   `ren <src> <order>`  → `Minify(src,true)` when the map iteration order is `order`
                          (`bad-order` unless `order` is a permutation of the rename set)
   `wf <src>`           → `wf=<0|1> relex=<0|1>`
   `reserved`           → the reserved words, sorted -/
namespace EgoVerif.C33

def toNats (bs : List UInt8) : List Nat := bs.map (·.toNat)
def hexN (l : List Nat) : String := if l.isEmpty then "-" else hexOfBytes (l.map UInt8.ofNat)
def srcOf (h : String) : Option (List Nat) := if h == "-" then some [] else (bytesOfHex h).map toNats

def kindNo : Kind → Nat
  | .ws => 0 | .lineC => 1 | .blockC => 2 | .str => 3 | .tpl => 4 | .regex => 5 | .num => 6 | .ident => 7 | .punct => 8

def joinC (l : List String) : String := if l.isEmpty then "-" else ",".intercalate l

def nameLt : List Nat → List Nat → Bool
  | [], [] => false
  | [], _ :: _ => true
  | _ :: _, [] => false
  | a :: x, b :: y => a < b || (a == b && nameLt x y)

def insSorted (x : Name) : List Name → List Name
  | [] => [x]
  | y :: r => if nameLt x y then x :: y :: r else y :: insSorted x r

def sortNames (l : List Name) : List Name := l.foldl (fun acc x => insSorted x acc) []
def namesS (l : List Name) : String := joinC ((sortNames l).map hexN)

def parseOrder (s : String) : Option (List Name) :=
  if s == "-" then some [] else (s.splitOn ",").mapM fun h => (bytesOfHex h).map toNats

def handle (line : String) : String :=
  match fields line with
  | ["tok", h] =>
    match srcOf h with
    | some s => joinC ((tokenize s).map fun t => toString (kindNo t.kind) ++ ":" ++ hexN t.val)
    | none => "bad-input"
  | ["min", h] =>
    match srcOf h with
    | some s => hexN (minify0 s)
    | none => "bad-input"
  | ["col", h] =>
    match srcOf h with
    | some s =>
      let ts := stripComments (tokenize s)
      let c := collectLocals ts
      namesS c.loc ++ "|" ++ namesS c.fs
    | none => "bad-input"
  | ["ren", h, o] =>
    match srcOf h, parseOrder o with
    | some s, some order =>
      let ts := stripComments (tokenize s)
      if sortNames order != sortNames (renameSet ts) || order.length != (renameSet ts).length then "bad-order"
      else match minify1 order s with
        | some out => hexN out
        | none => "fuel"
    | _, _ => "bad-input"
  | ["wf", h] =>
    match srcOf h with
    | some s =>
      let ts := stripComments (tokenize s)
      let w := wf ts
      let r := sig (tokenize (emit ts)) == sig ts
      "wf=" ++ (if w then "1" else "0") ++ " relex=" ++ (if r then "1" else "0")
    | none => "bad-input"
  | ["reserved"] => namesS reservedWords
  | _ => "bad-op"

def drv : Drv := Drv.pure handle

end EgoVerif.C33
