/-
C33 — scanner lemmas: every inner loop of `tokenize` consumes exactly a complete lexeme,
whatever follows it, provided the following byte does not extend it.
-/
import EgoVerif.C33.Wf
namespace EgoVerif.C33

/-- the first byte of `R` (if any) fails `p` -/
def hdNot (p : Nat → Bool) (R : List Nat) : Bool :=
  match R with
  | [] => true
  | c :: _ => !p c

theorem takeWhile_app (p : Nat → Bool) (v R : List Nat) (hv : v.all p = true) (hR : hdNot p R = true) :
    (v ++ R).takeWhile p = v ∧ (v ++ R).dropWhile p = R := by
  induction v with
  | nil =>
    cases R with
    | nil => simp
    | cons c R' =>
      have : p c = false := by simpa [hdNot] using hR
      simp [List.takeWhile_cons, List.dropWhile_cons, this]
  | cons a v ih =>
    have ha : p a = true := by simp [List.all_cons] at hv; exact hv.1
    have hv' : v.all p = true := by simp [List.all_cons] at hv; simpa using hv.2
    have := ih hv'
    simp [List.takeWhile_cons, List.dropWhile_cons, ha, this.1, this.2]

theorem closedStr_cons (q c : Nat) (t : List Nat) : closedStr q (c :: t) =
    (if c == 92 then (match t with | [] => false | _ :: t' => closedStr q t')
     else if c == q then t.isEmpty else closedStr q t) := by
  cases t <;> simp [closedStr]

theorem scanStr_cons (q c : Nat) (t : List Nat) : scanStr q (c :: t) =
    (if c == 92 then (match t with | [] => ([92], []) | d :: t' => cons2 92 d (scanStr q t'))
     else if c == q then ([c], t) else cons1 c (scanStr q t)) := by
  cases t <;> simp [scanStr]

theorem closedRe_cons (ic : Bool) (c : Nat) (t : List Nat) : closedRe ic (c :: t) =
    (if c == 92 then (match t with | [] => false | _ :: t' => closedRe ic t')
     else if c == 91 then closedRe true t
     else if c == 93 then closedRe false t
     else if c == 47 && !ic then t.all isIdentCont
     else closedRe ic t) := by
  cases t <;> simp [closedRe]

theorem scanRe_cons (ic : Bool) (c : Nat) (t : List Nat) : scanRe ic (c :: t) =
    (if c == 92 then (match t with | [] => ([92], []) | d :: t' => cons2 92 d (scanRe ic t'))
     else if c == 91 then cons1 c (scanRe true t)
     else if c == 93 then cons1 c (scanRe false t)
     else if c == 47 && !ic then (47 :: t.takeWhile isIdentCont, t.dropWhile isIdentCont)
     else cons1 c (scanRe ic t)) := by
  cases t <;> simp [scanRe]

theorem scanStr_closed_aux (q : Nat) (R : List Nat) : ∀ (n : Nat) (body : List Nat), body.length ≤ n →
    closedStr q body = true → scanStr q (body ++ R) = (body, R) := by
  intro n
  induction n with
  | zero =>
    intro body hl h
    have : body = [] := List.eq_nil_of_length_eq_zero (by omega)
    subst this; simp [closedStr] at h
  | succ n ih =>
    intro body hl h
    cases body with
    | nil => simp [closedStr] at h
    | cons c t =>
      by_cases hc : c = 92
      · subst hc
        cases t with
        | nil => simp [closedStr] at h
        | cons d t' =>
          have h' : closedStr q t' = true := by simpa [closedStr_cons] using h
          have := ih t' (by simp at hl; omega) h'
          simp [scanStr_cons, cons2, this]
      · by_cases hq : c = q
        · subst hq
          have ht : t = [] := by simpa [closedStr_cons, hc] using h
          subst ht
          simp [scanStr_cons, hc]
        · have h' : closedStr q t = true := by simpa [closedStr_cons, hc, hq] using h
          have := ih t (by simp at hl; omega) h'
          simp [scanStr_cons, hc, hq, cons1, this]

theorem scanStr_closed (q : Nat) (body R : List Nat) (h : closedStr q body = true) :
    scanStr q (body ++ R) = (body, R) :=
  scanStr_closed_aux q R body.length body (Nat.le_refl _) h

theorem scanRe_closed_aux (R : List Nat) (hR : hdNot isIdentCont R = true) : ∀ (n : Nat) (ic : Bool) (body : List Nat),
    body.length ≤ n → closedRe ic body = true → scanRe ic (body ++ R) = (body, R) := by
  intro n
  induction n with
  | zero =>
    intro ic body hl h
    have : body = [] := List.eq_nil_of_length_eq_zero (by omega)
    subst this; simp [closedRe] at h
  | succ n ih =>
    intro ic body hl h
    cases body with
    | nil => simp [closedRe] at h
    | cons c t =>
      have hl' : t.length ≤ n := by simp at hl; omega
      by_cases hc : c = 92
      · subst hc
        cases t with
        | nil => simp [closedRe] at h
        | cons d t' =>
          have h' : closedRe ic t' = true := by simpa [closedRe_cons] using h
          have := ih ic t' (by simp at hl; omega) h'
          simp [scanRe_cons, cons2, this]
      · by_cases h91 : c = 91
        · subst h91
          have h' : closedRe true t = true := by simpa [closedRe_cons] using h
          simp [scanRe_cons, cons1, ih true t hl' h']
        · by_cases h93 : c = 93
          · subst h93
            have h' : closedRe false t = true := by simpa [closedRe_cons] using h
            simp [scanRe_cons, cons1, ih false t hl' h']
          · by_cases hend : (c == 47 && !ic) = true
            · have hfl : t.all isIdentCont = true := by simpa [closedRe_cons, hc, h91, h93, hend] using h
              have hc47 : c = 47 := by simp at hend; exact hend.1
              have hic : ic = false := by simp at hend; exact hend.2
              have := takeWhile_app isIdentCont t R hfl hR
              subst hc47; subst hic
              simp [scanRe_cons, this.1, this.2]
            · have h' : closedRe ic t = true := by simpa [closedRe_cons, hc, h91, h93, hend] using h
              simp [scanRe_cons, hc, h91, h93, hend, cons1, ih ic t hl' h']

theorem scanRe_closed (ic : Bool) (body R : List Nat) (hR : hdNot isIdentCont R = true)
    (h : closedRe ic body = true) : scanRe ic (body ++ R) = (body, R) :=
  scanRe_closed_aux R hR body.length ic body (Nat.le_refl _) h

/-- the byte after the number does not continue it -/
def numStop (prev : Nat) (R : List Nat) : Bool :=
  match R with
  | [] => true
  | c :: _ => !numCont prev c

theorem scanNum_all (v R : List Nat) : ∀ (prev : Nat), numAll prev v = true →
    numStop (lastD (prev :: v)) R = true → scanNum prev (v ++ R) = (v, R) := by
  induction v with
  | nil =>
    intro prev _ hs
    cases R with
    | nil => simp [scanNum]
    | cons c R' =>
      have : numCont prev c = false := by simpa [numStop, lastD] using hs
      simp [scanNum, this]
  | cons a v ih =>
    intro prev ha hs
    have h1 : numCont prev a = true := by simp [numAll] at ha; exact ha.1
    have h2 : numAll a v = true := by simp [numAll] at ha; exact ha.2
    have hs' : numStop (lastD (a :: v)) R = true := by
      simpa [lastD, List.getLastD_cons] using hs
    simp [scanNum, h1, cons1, ih a h2 hs']

end EgoVerif.C33
