/-
C33 — lexical half of the model of `javascript.Minify` (internal/util/javascript/minify.go),
core Lean only.  The model mirrors the code WITH fixes/C33.patch applied (see Model.lean).

Bytes are `Nat` (the driver maps every `UInt8` to its value); `src[i:]` is the remaining
input list.  Each Go inner loop is one structurally recursive scanner that returns
(consumed bytes, rest).  `lex1` is one iteration of the `for i < n` loop of `tokenize`;
`tokF` runs it with fuel (every iteration consumes ≥ 1 byte, so `len` is enough).
The only state `tokenize` reads back from `out` is the last non-whitespace token
(`isRegexContext`), carried as `last`.
-/
namespace EgoVerif.C33

/-- Go `tokenKind` -/
inductive Kind where
  | ws | lineC | blockC | str | tpl | regex | num | ident | punct
  deriving DecidableEq, Repr

structure Tok where
  kind : Kind
  val : List Nat
  deriving DecidableEq, Repr

/-- Go `isIdentStart` (patched: bytes ≥ 0x80, i.e. UTF-8 encoded letters, belong to identifiers) -/
def isIdentStart (b : Nat) : Bool :=
  (97 ≤ b && b ≤ 122) || (65 ≤ b && b ≤ 90) || b == 95 || b == 36 || 128 ≤ b
def isDigit (b : Nat) : Bool := 48 ≤ b && b ≤ 57
def isIdentCont (b : Nat) : Bool := isIdentStart b || isDigit b
/-- space, tab, CR, LF -/
def isWs (b : Nat) : Bool := b == 32 || b == 9 || b == 13 || b == 10

/-- keywords after which `/` starts a regex (Go `isRegexContext`, identifier arm; patched list) -/
def kwRegex : List (List Nat) := [
  [114,101,116,117,114,110]  /- return -/,
  [116,121,112,101,111,102]  /- typeof -/,
  [105,110,115,116,97,110,99,101,111,102]  /- instanceof -/,
  [105,110]  /- in -/,
  [111,102]  /- of -/,
  [110,101,119]  /- new -/,
  [100,101,108,101,116,101]  /- delete -/,
  [116,104,114,111,119]  /- throw -/,
  [118,111,105,100]  /- void -/,
  [99,97,115,101]  /- case -/,
  [101,108,115,101]  /- else -/,
  [100,111]  /- do -/,
  [121,105,101,108,100]  /- yield -/,
  [97,119,97,105,116]  /- await -/]

/-- `)` `]` `++` `--` : the punctuators after which `/` is a division (patched rule) -/
def valueEnd : List (List Nat) := [[41], [93], [43,43], [45,45]]

/-- `=== !== >>> **= >>= <<= &&= ||= ??= ...` -/
def ops3 : List (List Nat) := [[61,61,61], [33,61,61], [62,62,62], [42,42,61], [62,62,61], [60,60,61],
  [38,38,61], [124,124,61], [63,63,61], [46,46,46]]
/-- `== != >= <= && || ++ -- += -= *= /= %= ** >> << ?? => ?.` -/
def ops2 : List (List Nat) := [[61,61], [33,61], [62,61], [60,61], [38,38], [124,124], [43,43], [45,45],
  [43,61], [45,61], [42,61], [47,61], [37,61], [42,42], [62,62], [60,60], [63,63], [61,62], [63,46]]

/-- Go `isRegexContext`; `last` = the last token collected so far that is neither whitespace nor a comment -/
def isRegexCtx : Option Tok → Bool
  | none => true
  | some t =>
    match t.kind with
    | .ident => kwRegex.contains t.val
    | .punct => !valueEnd.contains t.val
    | _ => false

def cons1 (c : Nat) (p : List Nat × List Nat) : List Nat × List Nat := (c :: p.1, p.2)
def cons2 (c d : Nat) (p : List Nat × List Nat) : List Nat × List Nat := (c :: d :: p.1, p.2)

/-- string / template loop: argument is the input after the opening quote `q`.
    (`\` as the very last byte: Go's `j += 2` overruns and the slice expression panics;
    the model stops at the end of input.) -/
def scanStr (q : Nat) : List Nat → List Nat × List Nat
  | [] => ([], [])
  | c :: t =>
    if c == 92 then
      match t with
      | [] => ([92], [])
      | d :: t' => cons2 92 d (scanStr q t')
    else if c == q then ([c], t)
    else cons1 c (scanStr q t)

/-- regex loop: argument is the input after the opening `/` -/
def scanRe (inClass : Bool) : List Nat → List Nat × List Nat
  | [] => ([], [])
  | c :: t =>
    if c == 92 then
      match t with
      | [] => ([92], [])
      | d :: t' => cons2 92 d (scanRe inClass t')
    else if c == 91 then cons1 c (scanRe true t)
    else if c == 93 then cons1 c (scanRe false t)
    else if c == 47 && !inClass then (47 :: t.takeWhile isIdentCont, t.dropWhile isIdentCont)
    else cons1 c (scanRe inClass t)

/-- the byte classes the number loop accepts unconditionally -/
def numChar (c : Nat) : Bool :=
  isDigit c || c == 46 || c == 95 || c == 101 || c == 69 || c == 120 || c == 88 || c == 98 || c == 66 ||
  c == 111 || c == 79 || c == 110 || (97 ≤ c && c ≤ 102) || (65 ≤ c && c ≤ 70)

/-- does `c` continue a number whose previous byte is `prev`? -/
def numCont (prev c : Nat) : Bool :=
  numChar c || ((c == 43 || c == 45) && (prev == 101 || prev == 69))

/-- number loop: argument is the input after the first byte, `prev` = `src[j-1]` -/
def scanNum (prev : Nat) : List Nat → List Nat × List Nat
  | [] => ([], [])
  | c :: t => if numCont prev c then cons1 c (scanNum c t) else ([], c :: t)

/-- block comment loop: argument is the input after `/*`.  An unterminated comment stops one
    byte short of the end (`for j+1 < n`), exactly like the Go code. -/
def scanBlock : List Nat → List Nat × List Nat
  | [] => ([], [])
  | c :: rest =>
    match rest with
    | [] => ([], [c])
    | d :: t => if c == 42 && d == 47 then ([42, 47], t) else cons1 c (scanBlock rest)

/-- length of the punctuator at the head of `s` (3-byte table, 2-byte table, else 1) -/
def lexPunct (s : List Nat) : Nat :=
  if ops3.contains (s.take 3) then 3 else if ops2.contains (s.take 2) then 2 else 1

def hdIs (t : List Nat) (c : Nat) : Bool := t.head? == some c
def hdDigit (t : List Nat) : Bool := match t with | [] => false | c :: _ => isDigit c

def mk (k : Kind) (b : Nat) (p : List Nat × List Nat) : Option (Tok × List Nat) := some (⟨k, b :: p.1⟩, p.2)

/-- one iteration of `for i < n` in `tokenize` on `src[i:] = b :: t` -/
def lex1 (last : Option Tok) : List Nat → Option (Tok × List Nat)
  | [] => none
  | b :: t =>
    if isWs b then mk .ws b (t.takeWhile isWs, t.dropWhile isWs)
    else if b == 47 && hdIs t 47 then
      mk .lineC b (cons1 47 ((t.drop 1).takeWhile (· != 10), (t.drop 1).dropWhile (· != 10)))
    else if b == 47 && hdIs t 42 then mk .blockC b (cons1 42 (scanBlock (t.drop 1)))
    else if b == 39 || b == 34 then mk .str b (scanStr b t)
    else if b == 96 then mk .tpl b (scanStr 96 t)
    else if b == 47 && isRegexCtx last then mk .regex b (scanRe false t)
    else if isDigit b || (b == 46 && hdDigit t) then mk .num b (scanNum b t)
    else if isIdentStart b then mk .ident b (t.takeWhile isIdentCont, t.dropWhile isIdentCont)
    else
      let k := lexPunct (b :: t)
      some (⟨.punct, (b :: t).take k⟩, (b :: t).drop k)

/-- `isRegexContext` skips whitespace and (patched) comment tokens -/
def nextLast (last : Option Tok) (t : Tok) : Option Tok :=
  if t.kind == .ws || t.kind == .lineC || t.kind == .blockC then last else some t

def tokF : Nat → Option Tok → List Nat → List Tok
  | 0, _, _ => []
  | n + 1, last, s =>
    match lex1 last s with
    | none => []
    | some (t, r) => t :: tokF n (nextLast last t) r

/-- Go `tokenize` -/
def tokenize (s : List Nat) : List Tok := tokF s.length none s

/-- Go `stripComments` -/
def stripComments (ts : List Tok) : List Tok :=
  ts.filter fun t => t.kind != .lineC && t.kind != .blockC

def lastD (l : List Nat) : Nat := l.getLastD 0

def startsNumber (l : List Nat) : Bool :=
  match l with
  | [] => false
  | c :: r => isDigit c || (c == 46 && hdDigit r)

/-- Go `needsSep` (patched: `/ /`, `< !`, number followed by `.`) -/
def needsSep (left right : List Nat) : Bool :=
  match right with
  | [] => false
  | r :: _ =>
    if left.isEmpty then false else
    let l := lastD left
    (isIdentCont l && isIdentCont r) || (l == 43 && r == 43) || (l == 45 && r == 45) ||
    (l == 47 && (r == 42 || r == 47)) || (l == 60 && r == 33) ||
    (r == 46 && startsNumber left)

/-- Go `emit`; `lv` = `lastVal` -/
def emitFrom (lv : List Nat) : List Tok → List Nat
  | [] => []
  | t :: ts =>
    if t.kind == .ws then emitFrom lv ts
    else (if needsSep lv t.val then [32] else []) ++ t.val ++ emitFrom t.val ts

def emit (ts : List Tok) : List Nat := emitFrom [] ts

/-- `Minify(src, false)` -/
def minify0 (src : List Nat) : List Nat := emit (stripComments (tokenize src))

/-- the significant tokens: everything but whitespace -/
def sig (ts : List Tok) : List Tok := ts.filter fun t => t.kind != .ws

end EgoVerif.C33
