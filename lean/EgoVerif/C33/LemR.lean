/-
C33 — lemmas about the renaming half: fresh short names, the rename map, the apply loop.
-/
import EgoVerif.C33.Model
namespace EgoVerif.C33

theorem digits_head (n : Nat) : ∃ d r, digits n = d :: r ∧ isDigit d = true := by
  induction n using Nat.strongRecOn with
  | _ n ih =>
    rw [digits]
    by_cases h : n < 10
    · refine ⟨48 + n, [], by simp [h], ?_⟩
      simp [isDigit]; omega
    · obtain ⟨d, r, e, hd⟩ := ih (n / 10) (by omega)
      exact ⟨d, r ++ [48 + n % 10], by simp [h, e], hd⟩

/-- a generated name is one letter, or a letter followed by a digit -/
def shortShape (s : Name) : Bool :=
  match s with
  | [_] => true
  | _ :: d :: _ => isDigit d
  | [] => false

theorem nameAt_shape (k : Nat) : shortShape (nameAt k) = true := by
  unfold nameAt
  by_cases h : k < 26
  · simp [h, shortShape]
  · obtain ⟨d, r, e, hd⟩ := digits_head ((k - 26) / 26 + 1)
    simp [h, e, shortShape, hd]

/-- no reserved word has the shape of a generated name -/
theorem reserved_not_short : reservedWords.all (fun w => !shortShape w) = true := by decide

theorem short_not_reserved (s : Name) (h : shortShape s = true) : isReserved s = false := by
  cases hr : isReserved s with
  | false => rfl
  | true =>
    have hm : s ∈ reservedWords := by simpa [isReserved] using hr
    have := List.all_eq_true.mp reserved_not_short s hm
    simp [h] at this

theorem pick_spec (ex : List Name) : ∀ (f n : Nat) (s : Name) (n' : Nat), pick ex f n = some (s, n') →
    ex.contains s = false ∧ shortShape s = true := by
  intro f
  induction f with
  | zero => intro n s n' h; simp [pick] at h
  | succ f ih =>
    intro n s n' h
    by_cases hc : ex.contains (nameAt n) = true
    · simp only [pick, hc, if_true] at h
      exact ih (n + 1) s n' h
    · simp only [pick, hc] at h
      simp at h
      obtain ⟨h1, _⟩ := h
      subst h1
      exact ⟨by simpa using hc, nameAt_shape n⟩

/-- the facts about a finished rename map -/
structure MapOK (order ex : List Name) (m : List (Name × Name)) : Prop where
  keys : m.map (·.1) = order
  fresh : ∀ p ∈ m, ex.contains p.2 = false
  shape : ∀ p ∈ m, shortShape p.2 = true
  nodup : (m.map (·.2)).Nodup

theorem buildMap_spec (fuel : Nat) : ∀ (order ex : List Name) (n : Nat) (m : List (Name × Name)),
    buildMap fuel order ex n = some m → MapOK order ex m := by
  intro order
  induction order with
  | nil =>
    intro ex n m h
    simp [buildMap] at h
    subst h
    exact ⟨rfl, by simp, by simp, by simp⟩
  | cons x xs ih =>
    intro ex n m h
    simp only [buildMap] at h
    cases hp : pick ex fuel n with
    | none => simp [hp] at h
    | some r =>
      obtain ⟨s, n'⟩ := r
      simp only [hp] at h
      cases hb : buildMap fuel xs (s :: ex) n' with
      | none => simp [hb] at h
      | some m' =>
        simp [hb] at h
        subst h
        obtain ⟨hf, hs⟩ := pick_spec ex fuel n s n' hp
        have ok := ih (s :: ex) n' m' hb
        refine ⟨by simp [ok.keys], ?_, ?_, ?_⟩
        · intro p hp'
          simp at hp'
          rcases hp' with rfl | hp'
          · exact hf
          · have := ok.fresh p hp'
            simp [List.contains_cons] at this ⊢
            exact this.2
        · intro p hp'
          simp at hp'
          rcases hp' with rfl | hp'
          · exact hs
          · exact ok.shape p hp'
        · simp only [List.map_cons, List.nodup_cons]
          refine ⟨?_, ok.nodup⟩
          intro hmem
          obtain ⟨p, hp', e⟩ := List.mem_map.mp hmem
          have := ok.fresh p hp'
          simp [List.contains_cons, e] at this


/-- what one input token may become in the output of the apply loop -/
def Seg (m : List (Name × Name)) (t : Tok) (seg : List Tok) : Prop :=
  seg = [t] ∨ (t.kind = .ident ∧ ∃ s, lookup m t.val = some s ∧
    (seg = [⟨.ident, s⟩] ∨ seg = [t, colonTok, ⟨.ident, s⟩]))

/-- token-by-token: the i-th segment is what the i-th input token became -/
inductive SegList (m : List (Name × Name)) : List Tok → List (List Tok) → Prop
  | nil : SegList m [] []
  | cons {t ts seg segs} : Seg m t seg → SegList m ts segs → SegList m (t :: ts) (seg :: segs)

theorem renameIdent_seg (m : List (Name × Name)) (t : Tok) (s : Name) (prev next : Option Tok) (ctx : List Nat)
    (hk : t.kind = .ident) (hl : lookup m t.val = some s) : Seg m t (renameIdent t s prev next ctx) := by
  unfold renameIdent
  split
  · exact Or.inl rfl
  · split
    · split
      · exact Or.inl rfl
      · split
        · exact Or.inr ⟨hk, s, hl, Or.inr rfl⟩
        · exact Or.inr ⟨hk, s, hl, Or.inl rfl⟩
    · exact Or.inr ⟨hk, s, hl, Or.inl rfl⟩

theorem applyTok_seg (m : List (Name × Name)) (t : Tok) (prev next : Option Tok) (ctx : List Nat) :
    Seg m t (applyTok m t prev next ctx) := by
  unfold applyTok
  by_cases hk : t.kind = .ident
  · simp only [hk, bne_self_eq_false, Bool.false_eq_true, if_false]
    cases hl : lookup m t.val with
    | none => exact Or.inl rfl
    | some s => exact renameIdent_seg m t s prev next ctx hk hl
  · have : (t.kind != Kind.ident) = true := by simp [hk]
    simp only [this, if_true]
    exact Or.inl rfl

theorem applyGo_shape (m : List (Name × Name)) : ∀ (ts : List Tok) (ctx : List Nat) (res : List Tok),
    ∃ segs, SegList m ts segs ∧ applyGo m ctx res ts = res.reverse ++ segs.flatten := by
  intro ts
  induction ts with
  | nil => intro ctx res; exact ⟨[], SegList.nil, by simp [applyGo]⟩
  | cons t rest ih =>
    intro ctx res
    obtain ⟨segs, hf, he⟩ := ih (ctxStep ctx t)
      ((applyTok m t (firstSig res) (firstSig rest) (ctxStep ctx t)).reverse ++ res)
    refine ⟨applyTok m t (firstSig res) (firstSig rest) (ctxStep ctx t) :: segs,
      SegList.cons (applyTok_seg m t _ _ _) hf, ?_⟩
    simp [applyGo, he]

end EgoVerif.C33
