/-
C33 — the re-lexing induction over the token list.
-/
import EgoVerif.C33.LemE
namespace EgoVerif.C33

theorem emitFrom_cons (lv : List Nat) (t : Tok) (ts : List Tok) (hk : t.kind ≠ .ws) :
    emitFrom lv (t :: ts) = (if needsSep lv t.val then [32] else []) ++ t.val ++ emitFrom t.val ts := by
  simp [emitFrom, hk]

/-- the first byte of what `emit` writes after `t` is `nextByte t ts` -/
theorem emitFrom_head (t : Tok) (ts : List Tok) (h : wfFrom (some t) ts = true) :
    (emitFrom t.val ts).head? = nextByte t ts := by
  cases ts with
  | nil => simp [emitFrom, nextByte]
  | cons u ts' =>
    have hv : validTok u = true := by
      simp only [wfFrom, Bool.and_eq_true] at h; exact h.1.1.1
    obtain ⟨c, r, hval, _, hk, _, _⟩ := validTok_head u hv
    rw [emitFrom_cons _ _ _ hk]
    by_cases hs : needsSep t.val u.val = true
    · simp [nextByte, hs]
    · have hs' : needsSep t.val u.val = false := by simpa using hs
      simp only [nextByte, hs']
      simp [hval]

theorem lex1_space (last : Option Tok) (c : Nat) (s : List Nat) (hc : isWs c = false) :
    lex1 last (32 :: c :: s) = some (⟨.ws, [32]⟩, c :: s) := by
  have h32 : isWs 32 = true := by decide
  simp [lex1, mk, h32, List.takeWhile_cons, List.dropWhile_cons, hc]

theorem relex_aux : ∀ (ts : List Tok) (last : Option Tok) (lv : List Nat) (n : Nat),
    wfFrom last ts = true → (emitFrom lv ts).length ≤ n →
    sig (tokF n last (emitFrom lv ts)) = ts := by
  intro ts
  induction ts with
  | nil =>
    intro last lv n _ _
    cases n <;> simp [emitFrom, tokF, lex1, sig]
  | cons t ts ih =>
    intro last lv n hw hn
    simp only [wfFrom, Bool.and_eq_true] at hw
    obtain ⟨⟨⟨hv, hc⟩, hb⟩, hw'⟩ := hw
    obtain ⟨c, r, hval, hcw, hk, hk1, hk2⟩ := validTok_head t hv
    have hnl : nextLast last t = some t := by simp [nextLast, hk, hk1, hk2]
    have hsig : (t.kind != Kind.ws) = true := by simp [hk]
    rw [emitFrom_cons _ _ _ hk] at hn ⊢
    have hb' : bnd t (emitFrom t.val ts).head? = true := by rw [emitFrom_head t ts hw']; exact hb
    have hlex := lex1_spec last t (emitFrom t.val ts) hv hc hb'
    have hpos : 1 ≤ t.val.length := by simp [hval]
    -- the token itself, with fuel m + 1
    have step : ∀ m, (t.val ++ emitFrom t.val ts).length ≤ m + 1 →
        sig (tokF (m + 1) last (t.val ++ emitFrom t.val ts)) = t :: ts := by
      intro m hm
      have : (emitFrom t.val ts).length ≤ m := by
        simp only [List.length_append] at hm; omega
      simp only [tokF, hlex, hnl]
      simp only [sig, List.filter_cons, hsig, if_true]
      have := ih (some t) t.val m hw' this
      simpa [sig] using this
    by_cases hs : needsSep lv t.val = true
    · have e1 : (if needsSep lv t.val = true then [32] else []) ++ t.val ++ emitFrom t.val ts =
          32 :: c :: (r ++ emitFrom t.val ts) := by
        rw [if_pos hs, hval]; simp
      have e2 : t.val ++ emitFrom t.val ts = c :: (r ++ emitFrom t.val ts) := by simp [hval]
      rw [e1] at hn ⊢
      cases n with
      | zero => simp only [List.length_cons] at hn; omega
      | succ n =>
        cases n with
        | zero => simp only [List.length_cons] at hn; omega
        | succ m =>
          rw [tokF, lex1_space last c _ hcw]
          have hws : nextLast last ⟨.ws, [32]⟩ = last := by simp [nextLast]
          simp only [hws]
          have := step m (by rw [e2]; simp only [List.length_cons] at hn ⊢; omega)
          rw [e2] at this
          simpa [sig] using this
    · have e1 : (if needsSep lv t.val = true then [32] else []) ++ t.val ++ emitFrom t.val ts =
          t.val ++ emitFrom t.val ts := by simp [hs]
      rw [e1] at hn ⊢
      cases n with
      | zero => simp only [List.length_append] at hn; omega
      | succ m => exact step m hn

end EgoVerif.C33
