/-
C33 — `lex1` on a complete lexeme followed by a non-extending byte returns that lexeme.
-/
import EgoVerif.C33.LemB
namespace EgoVerif.C33

theorem identStart_facts (c : Nat) (h : isIdentStart c = true) :
    isWs c = false ∧ (c == 47) = false ∧ (c == 39) = false ∧ (c == 34) = false ∧ (c == 96) = false ∧
    isDigit c = false ∧ (c == 46) = false := by
  simp only [isIdentStart, isWs, isDigit, Bool.or_eq_true, Bool.and_eq_true, decide_eq_true_eq, beq_iff_eq,
    Bool.or_eq_false_iff, Bool.and_eq_false_iff, decide_eq_false_iff_not, beq_eq_false_iff_ne, ne_eq] at *
  omega

theorem digit_facts (c : Nat) (h : isDigit c = true) :
    isWs c = false ∧ (c == 47) = false ∧ (c == 39) = false ∧ (c == 34) = false ∧ (c == 96) = false := by
  simp only [isWs, isDigit, Bool.or_eq_true, Bool.and_eq_true, decide_eq_true_eq, beq_iff_eq,
    Bool.or_eq_false_iff, Bool.and_eq_false_iff, decide_eq_false_iff_not, beq_eq_false_iff_ne, ne_eq] at *
  omega

theorem punctChar_facts (c : Nat) (h : punctChar c = true) :
    isWs c = false ∧ (c == 39) = false ∧ (c == 34) = false ∧ (c == 96) = false ∧
    isDigit c = false ∧ isIdentStart c = false := by
  simp only [punctChar, Bool.and_eq_true, Bool.not_eq_true', bne_iff_ne, ne_eq] at h
  simp only [beq_eq_false_iff_ne, ne_eq]
  exact ⟨h.1.1.1.1.1, h.1.1.1.1.2, h.1.1.1.2, h.1.1.2, h.1.2, h.2⟩

theorem hdNot_of_head (p : Nat → Bool) (R : List Nat)
    (h : ∀ c, R.head? = some c → p c = false) : hdNot p R = true := by
  cases R with
  | nil => rfl
  | cons c R' => simp [hdNot, h c rfl]

theorem lex1_ident (last : Option Tok) (c : Nat) (r R : List Nat) (hc : isIdentStart c = true)
    (hr : r.all isIdentCont = true) (hR : hdNot isIdentCont R = true) :
    lex1 last (c :: r ++ R) = some (⟨.ident, c :: r⟩, R) := by
  obtain ⟨h1, h2, h3, h4, h5, h6, h7⟩ := identStart_facts c hc
  have tw := takeWhile_app isIdentCont r R hr hR
  simp [lex1, mk, h1, h2, h3, h4, h5, h6, h7, hc, tw.1, tw.2]

theorem hdDigit_app (r R : List Nat) (h : hdDigit r = true) : hdDigit (r ++ R) = true := by
  cases r with
  | nil => simp [hdDigit] at h
  | cons a r' => simpa [hdDigit] using h

theorem lex1_num (last : Option Tok) (c : Nat) (r R : List Nat)
    (hc : (isDigit c || (c == 46 && hdDigit r)) = true) (hr : numAll c r = true)
    (hR : numStop (lastD (c :: r)) R = true) :
    lex1 last (c :: r ++ R) = some (⟨.num, c :: r⟩, R) := by
  have sc := scanNum_all r R c hr hR
  rcases Bool.or_eq_true _ _ |>.mp hc with hd | hdot
  · obtain ⟨h1, h2, h3, h4, h5⟩ := digit_facts c hd
    simp [lex1, mk, h1, h2, h3, h4, h5, hd, sc]
  · have h46 : c = 46 := by simp at hdot; exact hdot.1
    have hdr : hdDigit (r ++ R) = true := hdDigit_app r R (by simp at hdot; exact hdot.2)
    subst h46
    simp [lex1, mk, isWs, hdr, sc]

theorem lex1_str (last : Option Tok) (q : Nat) (body R : List Nat) (hq : (q == 39 || q == 34) = true)
    (hb : closedStr q body = true) : lex1 last (q :: body ++ R) = some (⟨.str, q :: body⟩, R) := by
  have sc := scanStr_closed q body R hb
  rcases Bool.or_eq_true _ _ |>.mp hq with h | h
  · have : q = 39 := by simpa using h
    subst this
    simp [lex1, mk, isWs, sc]
  · have : q = 34 := by simpa using h
    subst this
    simp [lex1, mk, isWs, sc]

theorem lex1_tpl (last : Option Tok) (body R : List Nat) (hb : closedStr 96 body = true) :
    lex1 last (96 :: body ++ R) = some (⟨.tpl, 96 :: body⟩, R) := by
  have sc := scanStr_closed 96 body R hb
  simp [lex1, mk, isWs, sc]

theorem hdIs_app (body R : List Nat) (c : Nat) (hne : body ≠ []) : hdIs (body ++ R) c = hdIs body c := by
  cases body with
  | nil => exact absurd rfl hne
  | cons a b => simp [hdIs]

theorem lex1_regex (last : Option Tok) (body R : List Nat) (hctx : isRegexCtx last = true)
    (h47 : hdIs body 47 = false) (h42 : hdIs body 42 = false) (hb : closedRe false body = true)
    (hR : hdNot isIdentCont R = true) :
    lex1 last (47 :: body ++ R) = some (⟨.regex, 47 :: body⟩, R) := by
  have hne : body ≠ [] := by
    intro h; subst h; simp [closedRe] at hb
  have sc := scanRe_closed false body R hR hb
  simp [lex1, mk, isWs, hdIs_app body R _ hne, h47, h42, hctx, sc]

end EgoVerif.C33
