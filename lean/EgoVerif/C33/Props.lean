/-
C33 — property theorems (see checks/C33.py for how they are tied to the Go code).

Lexical:  `C33_relex`, `C33_minify_relex`, `C33_context_preserved`, `C33_minify_relex_lex`, `C33_sep_words`, `C33_sep_sign`, `C33_sep_slash`,
          `C33_sep_number_dot`.
Hygiene:  `C33_rename_hygiene`, `C33_rename_domain`, `C33_rename_shape`,
          `C33_rename_after_dot`, `C33_rename_object_key`, `C33_rename_shorthand`.
JavaScript semantics is NOT modelled: that a consistent renaming of locally declared names to
fresh names outside property positions preserves behaviour is a meta-assumption.
-/
import EgoVerif.C33.LemG
import EgoVerif.C33.LemR
namespace EgoVerif.C33

theorem getLastD_mem (l : List Nat) : ∀ a, l.getLastD a ∈ a :: l := by
  induction l with
  | nil => intro a; simp
  | cons b l ih =>
    intro a
    have := ih b
    simp only [List.getLastD_cons]
    exact List.mem_cons_of_mem _ this

theorem emitFrom_sig (lv : List Nat) (ts : List Tok) : emitFrom lv (sig ts) = emitFrom lv ts := by
  induction ts generalizing lv with
  | nil => rfl
  | cons t ts ih =>
    by_cases hk : t.kind = .ws
    · simp [sig, emitFrom, hk] at ih ⊢
      exact ih lv
    · have : (t.kind != Kind.ws) = true := by simp [hk]
      simp only [sig, List.filter_cons, this, if_true]
      simp only [emitFrom, hk, beq_iff_eq, if_false]
      have := ih t.val
      simp only [sig] at this
      rw [this]

/-- MAIN LEXICAL THEOREM.  For EVERY token list that meets the well-formedness predicate `wf`
    (Wf.lean), lexing the emitted text again yields exactly the same significant tokens:
    no two tokens glue, no separator is missing, regex/division context is unchanged. -/
theorem C33_relex (ts : List Tok) (h : wf ts = true) : sig (tokenize (emit ts)) = sig ts := by
  unfold tokenize emit
  rw [← emitFrom_sig]
  exact relex_aux (sig ts) none [] _ h (Nat.le_refl _)

/-- the same for `Minify(src, false)` -/
theorem C33_minify_relex (src : List Nat) (h : wf (stripComments (tokenize src)) = true) :
    sig (tokenize (minify0 src)) = sig (stripComments (tokenize src)) :=
  C33_relex _ h

/-- REGEX/DIVISION CONTEXT IS PRESERVED, for EVERY source text: each token of `tokenize src` that
    survives `stripComments` and is not whitespace stands — in the stripped list, where `emit` and a
    second `tokenize` see it — in exactly the context (`isRegexContext` of the preceding code token)
    in which it was lexed: a regex token after a regex context, a `/` or `/=` after a value. -/
theorem C33_context_preserved (src : List Nat) :
    ctxAll none (sig (stripComments (tokenize src))) = true := by
  rw [sig_strip]
  exact ctxAll_filter _ none (tokF_ctx _ none src)

/-- Hence, for a minified SOURCE, the context part of `wf` is automatic: it is enough that the
    tokens are complete lexemes and that no following byte extends a token (`wfLex`). -/
theorem C33_minify_relex_lex (src : List Nat) (h : wfLex (sig (stripComments (tokenize src))) = true) :
    sig (tokenize (minify0 src)) = sig (stripComments (tokenize src)) := by
  apply C33_minify_relex
  unfold wf
  exact wfFrom_split _ none h (C33_context_preserved src)

/-- `wf` is met by a real token list (non-vacuity): `a + +b - -c / 2 ; r = /x y/g . test ( 5 .k )` -/
example : wf [⟨.ident, [97]⟩, ⟨.ws, [32]⟩, ⟨.punct, [43]⟩, ⟨.punct, [43]⟩, ⟨.ident, [98]⟩, ⟨.punct, [45]⟩, ⟨.punct, [45]⟩,
    ⟨.ident, [99]⟩, ⟨.punct, [47]⟩, ⟨.num, [50]⟩, ⟨.punct, [59]⟩, ⟨.ident, [114]⟩, ⟨.punct, [61]⟩,
    ⟨.regex, [47, 120, 32, 121, 47, 103]⟩, ⟨.punct, [46]⟩, ⟨.ident, [116]⟩, ⟨.punct, [40]⟩, ⟨.num, [53]⟩, ⟨.punct, [46]⟩,
    ⟨.ident, [107]⟩, ⟨.punct, [41]⟩] = true := by decide

/-- …and the emitted text of that list keeps the separators: `a+ +b- -c/2;r=/x y/g.t(5 .k)` -/
example : emit [⟨.ident, [97]⟩, ⟨.punct, [43]⟩, ⟨.punct, [43]⟩, ⟨.ident, [98]⟩, ⟨.punct, [45]⟩, ⟨.punct, [45]⟩, ⟨.ident, [99]⟩,
    ⟨.num, [53]⟩, ⟨.punct, [46]⟩, ⟨.ident, [107]⟩] = [97, 43, 32, 43, 98, 45, 32, 45, 99, 32, 53, 32, 46, 107] := by decide

/-- Separator rule, words: after an identifier/keyword the next byte `emit` writes never extends
    it, whatever token follows (so `bnd` holds automatically for identifiers). -/
theorem C33_sep_words (a u : Tok) (ts : List Tok) (ha : validTok a = true) (hk : a.kind = .ident) :
    bnd a (nextByte a (u :: ts)) = true := by
  obtain ⟨k, v⟩ := a
  simp only at hk; subst hk
  cases v with
  | nil => simp [validTok] at ha
  | cons c r =>
    simp only [nextByte]
    by_cases hs : needsSep (c :: r) u.val = true
    · simp [hs, bnd, isIdentCont, isIdentStart, isDigit]
    · simp only [hs]
      cases hu : u.val with
      | nil => simp [bnd]
      | cons x xs =>
        have hl : isIdentCont (lastD (c :: r)) = true := by
          simp only [validTok, Bool.and_eq_true] at ha
          have hall : ∀ y ∈ c :: r, isIdentCont y = true := by
            intro y hy
            simp at hy
            rcases hy with rfl | hy
            · simp [isIdentCont, ha.1]
            · exact List.all_eq_true.mp ha.2 y hy
          have hm : lastD (c :: r) ∈ c :: r := by
            unfold lastD; rw [List.getLastD_cons]; exact getLastD_mem r c
          exact hall _ hm
        simp only [hu, needsSep, List.isEmpty_cons, Bool.false_eq_true, if_false, hl, Bool.true_and,
          Bool.or_eq_true, not_or] at hs
        simp [bnd, hs.1.1.1.1.1]

/-- Separator rule, signs: `+` before `+…`/`++…` and `-` before `-…`/`--…` are always kept apart. -/
theorem C33_sep_sign (l r : List Nat) (c : Nat) (hl : l ≠ []) (hc : c = 43 ∨ c = 45)
    (h : lastD l = c) : needsSep l (c :: r) = true := by
  cases l with
  | nil => exact absurd rfl hl
  | cons a l' =>
    rcases hc with rfl | rfl <;> simp [needsSep, h]

/-- Separator rule, slashes: a token ending in `/` is never followed directly by `/` or `*`
    (no comment can appear), and `<` never directly by `!`. -/
theorem C33_sep_slash (l r : List Nat) (c : Nat) (hl : l ≠ [])
    (h : (lastD l = 47 ∧ (c = 47 ∨ c = 42)) ∨ (lastD l = 60 ∧ c = 33)) : needsSep l (c :: r) = true := by
  cases l with
  | nil => exact absurd rfl hl
  | cons a l' =>
    rcases h with ⟨h1, rfl | rfl⟩ | ⟨h1, rfl⟩ <;> simp [needsSep, h1]

/-- Separator rule, `5 .x`: a number literal is never followed directly by `.`. -/
theorem C33_sep_number_dot (c : Nat) (l r : List Nat) (h : startsNumber (c :: l) = true) :
    needsSep (c :: l) (46 :: r) = true := by
  simp [needsSep, h]

/-! ### renaming hygiene -/

/-- RENAME HYGIENE.  Whatever order Go's map iteration takes (`order`), a finished rename map
    (1) has exactly `order` as its keys, (2) is injective — the short names are pairwise distinct,
    (3) uses no identifier that occurs anywhere in the source (so no file-scope name, no
    undeclared global, no property name), and (4) uses no reserved word. -/
theorem C33_rename_hygiene (fuel : Nat) (order : List Name) (ts : List Tok) (m : List (Name × Name))
    (h : buildMap fuel order (identsOf ts) 0 = some m) :
    m.map (·.1) = order ∧ (m.map (·.2)).Nodup ∧
    (∀ p ∈ m, p.2 ∉ identsOf ts) ∧ (∀ p ∈ m, isReserved p.2 = false) := by
  have ok := buildMap_spec fuel order (identsOf ts) 0 m h
  refine ⟨ok.keys, ok.nodup, ?_, ?_⟩
  · intro p hp hm
    have := ok.fresh p hp
    simp [hm] at this
  · intro p hp
    exact short_not_reserved _ (ok.shape p hp)

/-- non-vacuity: a map is built, and it skips the names already in use (`a`, `b`) -/
example : buildMap 10 [[120], [121]] [[97], [98], [120], [121]] 0 = some [([120], [99]), ([121], [100])] := by decide

/-- Only names that `collectLocals` found below file scope, that are not ALSO bound at file scope
    and that are not spelled inside a template literal are ever renamed; reserved words are
    never among them as soon as `collectLocals` did not collect them (it tests `reserved` at
    every insertion). -/
theorem C33_rename_domain (ts : List Tok) (x : Name) (h : x ∈ renameSet ts) :
    x ∈ (collectLocals ts).loc ∧ x ∉ (collectLocals ts).fs ∧ x ∉ templateWords ts := by
  simp only [renameSet, List.mem_filter, Bool.and_eq_true, Bool.not_eq_true'] at h
  refine ⟨h.1, ?_, ?_⟩
  · intro hm
    have := h.2.1
    simp [hm] at this
  · intro hm
    have := h.2.2
    simp [hm] at this

/-- The output of the apply loop is the input token by token: every token is kept, or — only
    if it is an identifier with a rename entry `s` — replaced by `s`, or expanded to `key : s`.
    Nothing else is inserted, dropped or reordered. -/
theorem C33_rename_shape (m : List (Name × Name)) (ts : List Tok) :
    ∃ segs, SegList m ts segs ∧ applyGo m [] [] ts = segs.flatten := by
  obtain ⟨segs, hf, he⟩ := applyGo_shape m ts [] []
  exact ⟨segs, hf, by simpa using he⟩

/-- An identifier directly after `.` or `?.` (a property read) is never renamed. -/
theorem C33_rename_after_dot (m : List (Name × Name)) (t : Tok) (prev next : Option Tok) (ctx : List Nat)
    (h : optIsP prev [46] = true ∨ optIsP prev [63, 46] = true) : applyTok m t prev next ctx = [t] := by
  unfold applyTok
  split
  · rfl
  · split
    · rfl
    · unfold renameIdent
      rcases h with h | h <;> simp [h]

/-- An explicit object key `{ key : … }` / `, key : …` inside braces is never renamed. -/
theorem C33_rename_object_key (m : List (Name × Name)) (t : Tok) (prev next : Option Tok) (ctx : List Nat)
    (hc : ctx.head? = some 123) (hp : optIsP prev [123] = true ∨ optIsP prev [44] = true)
    (hn : optIsP next [58] = true) : applyTok m t prev next ctx = [t] := by
  unfold applyTok
  split
  · rfl
  · split
    · rfl
    · unfold renameIdent
      split
      · rfl
      · rcases hp with hp | hp <;> simp [hc, hp, hn]

/-- A shorthand property `{ name }` / `{ name , …` keeps its KEY: it is either untouched or
    expanded to `name : short`. -/
theorem C33_rename_shorthand (m : List (Name × Name)) (t : Tok) (prev next : Option Tok) (ctx : List Nat)
    (hc : ctx.head? = some 123) (hp : optIsP prev [123] = true ∨ optIsP prev [44] = true)
    (hn : optIsP next [44] = true ∨ optIsP next [125] = true) :
    applyTok m t prev next ctx = [t] ∨
    ∃ s, lookup m t.val = some s ∧ applyTok m t prev next ctx = [t, colonTok, ⟨.ident, s⟩] := by
  unfold applyTok
  split
  · exact Or.inl rfl
  · cases hl : lookup m t.val with
    | none => exact Or.inl rfl
    | some s =>
      simp only
      unfold renameIdent
      split
      · exact Or.inl rfl
      · split
        · split
          · exact Or.inl rfl
          · split
            · exact Or.inr ⟨s, rfl, rfl⟩
            · rename_i h1 h2 h3
              rcases hn with hn | hn <;> simp [hn] at h3
        · rename_i h1 h2
          rcases hp with hp | hp <;> simp [hc, hp] at h2

/-- non-vacuity of the three position rules on `function f(v){return {v, k: o.v};}` with v ↦ a -/
example :
    applyGo [([118], [97])] [] []
      [⟨.punct, [123]⟩, ⟨.ident, [118]⟩, ⟨.punct, [44]⟩, ⟨.ident, [107]⟩, ⟨.punct, [58]⟩, ⟨.ident, [111]⟩, ⟨.punct, [46]⟩,
       ⟨.ident, [118]⟩, ⟨.punct, [44]⟩, ⟨.ident, [118]⟩, ⟨.punct, [43]⟩, ⟨.num, [49]⟩, ⟨.punct, [125]⟩] =
      [⟨.punct, [123]⟩, ⟨.ident, [118]⟩, ⟨.punct, [58]⟩, ⟨.ident, [97]⟩, ⟨.punct, [44]⟩, ⟨.ident, [107]⟩, ⟨.punct, [58]⟩,
       ⟨.ident, [111]⟩, ⟨.punct, [46]⟩, ⟨.ident, [118]⟩, ⟨.punct, [44]⟩, ⟨.ident, [97]⟩, ⟨.punct, [43]⟩, ⟨.num, [49]⟩,
       ⟨.punct, [125]⟩] := by decide

end EgoVerif.C33
