/-
C33 — the regex/division context of every token produced by `tokenize` is the one
`isRegexContext` computes again after comments and whitespace are gone.
-/
import EgoVerif.C33.LemF
namespace EgoVerif.C33

/-- every token stands in the context it was lexed in; `last` is threaded exactly as `tokenize` does -/
def ctxAll (last : Option Tok) : List Tok → Bool
  | [] => true
  | t :: ts => ctxOK last t && ctxAll (nextLast last t) ts

/-- tokens `emit` sees and `isRegexContext` does not skip -/
def isCode (t : Tok) : Bool := t.kind != .ws && t.kind != .lineC && t.kind != .blockC

theorem lexPunct_pos (s : List Nat) : 1 ≤ lexPunct s := by
  unfold lexPunct; split
  · omega
  · split <;> omega

theorem lex1_ctx (last : Option Tok) (s : List Nat) (t : Tok) (r : List Nat)
    (h : lex1 last s = some (t, r)) : ctxOK last t = true := by
  cases s with
  | nil => simp [lex1] at h
  | cons b tl =>
    by_cases c1 : isWs b = true
    · simp [lex1, mk, c1] at h; obtain ⟨h1, _⟩ := h; subst h1; simp [ctxOK]
    by_cases c2 : (b == 47 && hdIs tl 47) = true
    · simp only [lex1, mk, c1, c2, if_true, if_false, Bool.false_eq_true] at h
      simp only [Option.some.injEq, Prod.mk.injEq] at h; obtain ⟨h1, _⟩ := h; subst h1; simp [ctxOK]
    by_cases c3 : (b == 47 && hdIs tl 42) = true
    · simp only [lex1, mk, c1, c2, c3, if_true, if_false, Bool.false_eq_true] at h
      simp only [Option.some.injEq, Prod.mk.injEq] at h; obtain ⟨h1, _⟩ := h; subst h1; simp [ctxOK]
    by_cases c4 : (b == 39 || b == 34) = true
    · simp only [lex1, mk, c1, c2, c3, c4, if_true, if_false, Bool.false_eq_true] at h
      simp only [Option.some.injEq, Prod.mk.injEq] at h; obtain ⟨h1, _⟩ := h; subst h1; simp [ctxOK]
    by_cases c5 : (b == 96) = true
    · simp only [lex1, mk, c1, c2, c3, c4, c5, if_true, if_false, Bool.false_eq_true] at h
      simp only [Option.some.injEq, Prod.mk.injEq] at h; obtain ⟨h1, _⟩ := h; subst h1; simp [ctxOK]
    by_cases c6 : (b == 47 && isRegexCtx last) = true
    · simp only [lex1, mk, c1, c2, c3, c4, c5, c6, if_true, if_false, Bool.false_eq_true] at h
      simp only [Option.some.injEq, Prod.mk.injEq] at h; obtain ⟨h1, _⟩ := h; subst h1
      simp at c6
      simp [ctxOK, c6.2]
    by_cases c7 : (isDigit b || (b == 46 && hdDigit tl)) = true
    · simp only [lex1, mk, c1, c2, c3, c4, c5, c6, c7, if_true, if_false, Bool.false_eq_true] at h
      simp only [Option.some.injEq, Prod.mk.injEq] at h; obtain ⟨h1, _⟩ := h; subst h1; simp [ctxOK]
    by_cases c8 : isIdentStart b = true
    · simp only [lex1, mk, c1, c2, c3, c4, c5, c6, c7, c8, if_true, if_false, Bool.false_eq_true] at h
      simp only [Option.some.injEq, Prod.mk.injEq] at h; obtain ⟨h1, _⟩ := h; subst h1; simp [ctxOK]
    simp only [lex1, mk, c1, c2, c3, c4, c5, c6, c7, c8, if_true, if_false, Bool.false_eq_true] at h
    simp only [Option.some.injEq, Prod.mk.injEq] at h
    obtain ⟨h1, _⟩ := h; subst h1
    have hp := lexPunct_pos (b :: tl)
    have hh : hdIs (List.take (lexPunct (b :: tl)) (b :: tl)) 47 = (b == 47) := by
      cases hk : lexPunct (b :: tl) with
      | zero => omega
      | succ k => simp [hdIs]
    simp only [ctxOK, hh]
    by_cases hb : b = 47
    · subst hb; simp at c6; simp [c6]
    · simp [hb]

theorem tokF_ctx : ∀ (n : Nat) (last : Option Tok) (s : List Nat), ctxAll last (tokF n last s) = true := by
  intro n
  induction n with
  | zero => intro last s; simp [tokF, ctxAll]
  | succ n ih =>
    intro last s
    unfold tokF
    cases h : lex1 last s with
    | none => simp [ctxAll]
    | some p =>
      obtain ⟨t, r⟩ := p
      simp only [ctxAll, lex1_ctx last s t r h, ih, Bool.and_self]

theorem ctxOK_skip (last : Option Tok) (t : Tok) (h : isCode t = false) : nextLast last t = last := by
  unfold isCode at h
  unfold nextLast
  cases hk : t.kind <;> simp [hk] at h ⊢

theorem ctxAll_filter : ∀ (ts : List Tok) (last : Option Tok), ctxAll last ts = true →
    ctxAll last (ts.filter isCode) = true := by
  intro ts
  induction ts with
  | nil => intro last _; simp [ctxAll]
  | cons t ts ih =>
    intro last h
    simp only [ctxAll, Bool.and_eq_true] at h
    by_cases hc : isCode t = true
    · simp only [List.filter_cons, hc, if_true, ctxAll, h.1, Bool.true_and]
      exact ih _ h.2
    · have hc' : isCode t = false := by simpa using hc
      simp only [List.filter_cons, hc', Bool.false_eq_true, if_false]
      rw [ctxOK_skip last t hc'] at h
      exact ih _ h.2

theorem sig_strip (ts : List Tok) : sig (stripComments ts) = ts.filter isCode := by
  simp only [sig, stripComments, List.filter_filter]
  congr 1
  funext t
  simp only [isCode, Bool.and_assoc]

/-- the lexeme part of `wf`: complete lexemes whose following byte does not extend them -/
def wfLex : List Tok → Bool
  | [] => true
  | t :: ts => validTok t && bnd t (nextByte t ts) && wfLex ts

theorem wfFrom_split : ∀ (ts : List Tok) (last : Option Tok), wfLex ts = true → ctxAll last ts = true →
    wfFrom last ts = true := by
  intro ts
  induction ts with
  | nil => intro last _ _; rfl
  | cons t ts ih =>
    intro last hl hc
    simp only [wfLex, Bool.and_eq_true] at hl
    simp only [ctxAll, Bool.and_eq_true] at hc
    obtain ⟨_, _, _, _, hk, hk1, hk2⟩ := validTok_head t hl.1.1
    have hnl : nextLast last t = some t := by simp [nextLast, hk, hk1, hk2]
    rw [hnl] at hc
    simp only [wfFrom, hl.1.1, hc.1, hl.1.2, ih (some t) hl.2 hc.2, Bool.and_self]

end EgoVerif.C33
