/-
C33 — the well-formedness predicate of the re-lexing theorem (core Lean only, decidable,
evaluated by the driver on every generated case).

`wf ts` speaks about the significant tokens of `ts` (whitespace is ignored by `emit`):
  * `validTok`  every token is a complete lexeme of its kind (strings/templates/regexes
                are closed; no comment tokens — `stripComments` ran);
  * `ctxOK`     a regex token stands where `isRegexContext` says regex, a `/` or `/=`
                punctuator where it says division (this fails e.g. when a COMMENT stood
                between `=` and `/re/` in the source: the context changes once it is stripped);
  * `bnd`       the byte that `emit` writes after the token (a space when `needsSep`, else the
                first byte of the next token) does not extend the token: e.g. a number
                ending in `e` followed by `+`, a regex followed by an identifier (`/x/ in o`),
                `?` followed by `.5`, `=` followed by `=`.
-/
import EgoVerif.C33.Lex
namespace EgoVerif.C33

/-- body of a string/template after the opening quote: ends at the first unescaped `q`, nothing after -/
def closedStr (q : Nat) : List Nat → Bool
  | [] => false
  | c :: t =>
    if c == 92 then
      match t with
      | [] => false
      | _ :: t' => closedStr q t'
    else if c == q then t.isEmpty
    else closedStr q t

/-- body of a regex after the opening `/`: ends at the first `/` outside a class, then flags -/
def closedRe (inClass : Bool) : List Nat → Bool
  | [] => false
  | c :: t =>
    if c == 92 then
      match t with
      | [] => false
      | _ :: t' => closedRe inClass t'
    else if c == 91 then closedRe true t
    else if c == 93 then closedRe false t
    else if c == 47 && !inClass then t.all isIdentCont
    else closedRe inClass t

/-- every byte continues the number -/
def numAll (prev : Nat) : List Nat → Bool
  | [] => true
  | c :: t => numCont prev c && numAll c t

/-- a byte that reaches the punctuator arm of `lex1` (apart from `/` and `.`, see `ctxOK`/`bnd`) -/
def punctChar (c : Nat) : Bool :=
  !isWs c && c != 39 && c != 34 && c != 96 && !isDigit c && !isIdentStart c

def validTok (t : Tok) : Bool :=
  match t.kind, t.val with
  | .ident, c :: r => isIdentStart c && r.all isIdentCont
  | .num, c :: r => (isDigit c || (c == 46 && hdDigit r)) && numAll c r
  | .str, q :: body => (q == 39 || q == 34) && closedStr q body
  | .tpl, q :: body => q == 96 && closedStr 96 body
  | .regex, s :: body => s == 47 && !hdIs body 47 && !hdIs body 42 && closedRe false body
  | .punct, [c] => punctChar c
  | .punct, v => ops3.contains v || ops2.contains v
  | _, _ => false

def ctxOK (last : Option Tok) (t : Tok) : Bool :=
  if t.kind == .regex then isRegexCtx last
  else if t.kind == .punct && hdIs t.val 47 then !isRegexCtx last
  else true

/-- `v ++ [c]` is not the beginning of a longer punctuator -/
def noExt (v : List Nat) (c : Nat) : Bool :=
  !(ops3 ++ ops2).any fun o => (v ++ [c]).isPrefixOf o

/-- the byte `nx` following token `t` in the output does not change how `t` is lexed -/
def bnd (t : Tok) (nx : Option Nat) : Bool :=
  match nx with
  | none => true
  | some c =>
    match t.kind with
    | .ident => !isIdentCont c
    | .num => !numCont (lastD t.val) c
    | .regex => !isIdentCont c
    | .punct => noExt t.val c && !(t.val == [47] && (c == 47 || c == 42)) && !(t.val == [46] && isDigit c)
    | _ => true

/-- the byte `emit` writes after `t` when the next significant token is the head of `ts` -/
def nextByte (t : Tok) (ts : List Tok) : Option Nat :=
  match ts with
  | [] => none
  | u :: _ => if needsSep t.val u.val then some 32 else u.val.head?

def wfFrom (last : Option Tok) : List Tok → Bool
  | [] => true
  | t :: ts => validTok t && ctxOK last t && bnd t (nextByte t ts) && wfFrom (some t) ts

def wf (ts : List Tok) : Bool := wfFrom none (sig ts)

end EgoVerif.C33
