/-
C33 — the punctuator arm of `tokenize`: longest-match over the 3-byte and 2-byte tables.
-/
import EgoVerif.C33.LemA
namespace EgoVerif.C33

theorem contains_iff (l : List (List Nat)) (v : List Nat) : l.contains v = true ↔ v ∈ l := by
  simp

theorem ops3_len (v : List Nat) (h : v ∈ ops3) : v.length = 3 := by
  simp [ops3] at h
  rcases h with h | h | h | h | h | h | h | h | h | h <;> subst h <;> rfl

theorem ops2_len (v : List Nat) (h : v ∈ ops2) : v.length = 2 := by
  simp [ops2] at h
  rcases h with h | h | h | h | h | h | h | h | h | h | h | h | h | h | h | h | h | h | h <;> subst h <;> rfl

theorem noExt_iff (v : List Nat) (c : Nat) :
    noExt v c = true ↔ ∀ o, o ∈ ops3 ∨ o ∈ ops2 → ¬ (v ++ [c]) <+: o := by
  simp only [noExt, Bool.not_eq_true', List.any_eq_false, List.isPrefixOf_iff_prefix, List.mem_append]

/-- what follows a punctuator: nothing, or a byte that does not extend it -/
def punctStop (v R : List Nat) : Bool :=
  match R with
  | [] => true
  | c :: _ => noExt v c

theorem lexPunct_three (v R : List Nat) (h : v ∈ ops3) : lexPunct (v ++ R) = 3 := by
  have hl := ops3_len v h
  have : (v ++ R).take 3 = v := by
    rw [List.take_append_of_le_length (by omega)]
    exact List.take_of_length_le (by omega)
  simp [lexPunct, this, h]

theorem lexPunct_two (v R : List Nat) (h : v ∈ ops2) (hs : punctStop v R = true) : lexPunct (v ++ R) = 2 := by
  have hl := ops2_len v h
  have h2 : (v ++ R).take 2 = v := by
    rw [List.take_append_of_le_length (by omega)]
    exact List.take_of_length_le (by omega)
  have h3 : ¬ (v ++ R).take 3 ∈ ops3 := by
    intro hm
    have hl3 := ops3_len _ hm
    cases R with
    | nil => simp at hl3; omega
    | cons c R' =>
      have hne := (noExt_iff v c).mp (by simpa [punctStop] using hs) _ (Or.inl hm)
      apply hne
      have : (v ++ c :: R').take 3 = v ++ [c] := by
        rw [List.take_append]
        have h1 : 3 - v.length = 1 := by omega
        rw [h1, List.take_of_length_le (by omega)]
        simp
      rw [this]
      exact List.prefix_refl _
  simp [lexPunct, h2, h, h3]

theorem lexPunct_one (p : Nat) (R : List Nat) (hs : punctStop [p] R = true) : lexPunct (p :: R) = 1 := by
  have h3 : ¬ (p :: R).take 3 ∈ ops3 := by
    intro hm
    have hl3 := ops3_len _ hm
    cases R with
    | nil => simp at hl3
    | cons c R' =>
      have hne := (noExt_iff [p] c).mp (by simpa [punctStop] using hs) _ (Or.inl hm)
      apply hne
      cases R' with
      | nil => simp at hl3
      | cons d R'' => exact ⟨[d], by simp⟩
  have h2 : ¬ (p :: R).take 2 ∈ ops2 := by
    intro hm
    have hl2 := ops2_len _ hm
    cases R with
    | nil => simp at hl2
    | cons c R' =>
      have hne := (noExt_iff [p] c).mp (by simpa [punctStop] using hs) _ (Or.inr hm)
      apply hne
      exact ⟨[], by simp⟩
  have h3' : ¬ p :: List.take 2 R ∈ ops3 := by simpa using h3
  have h2' : ¬ p :: List.take 1 R ∈ ops2 := by simpa using h2
  simp [lexPunct, h2', h3']

end EgoVerif.C33
