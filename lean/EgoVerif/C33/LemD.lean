/-
C33 — punctuator case of the `lex1` specification, and the assembled `lex1_spec`.
-/
import EgoVerif.C33.LemC
namespace EgoVerif.C33

/-- every multi-byte operator starts with a punctuation byte; its second byte is not a digit
    and does not open a comment -/
theorem op_head (v : List Nat) (h : v ∈ ops3 ∨ v ∈ ops2) :
    ∃ b d v', v = b :: d :: v' ∧ punctChar b = true ∧ isDigit d = false ∧
      (b == 47 && d == 47) = false ∧ (b == 47 && d == 42) = false := by
  rcases h with h | h
  · simp [ops3] at h
    rcases h with h | h | h | h | h | h | h | h | h | h <;> subst h <;> exact ⟨_, _, _, rfl, by decide⟩
  · simp [ops2] at h
    rcases h with h | h | h | h | h | h | h | h | h | h | h | h | h | h | h | h | h | h | h <;> subst h <;>
      exact ⟨_, _, _, rfl, by decide⟩

theorem lex1_op (last : Option Tok) (v R : List Nat) (h : v ∈ ops3 ∨ v ∈ ops2)
    (hctx : hdIs v 47 = true → isRegexCtx last = false) (hs : punctStop v R = true) :
    lex1 last (v ++ R) = some (⟨.punct, v⟩, R) := by
  obtain ⟨b, d, v', hv, hp, hd, h47, h42⟩ := op_head v h
  obtain ⟨p1, p2, p3, p4, p5, p6⟩ := punctChar_facts b hp
  have hlen : lexPunct (v ++ R) = v.length := by
    rcases h with h | h
    · rw [lexPunct_three v R h, ops3_len v h]
    · rw [lexPunct_two v R h hs, ops2_len v h]
  have hctx' : (b == 47 && isRegexCtx last) = false := by
    by_cases hb : b = 47
    · subst hb
      have := hctx (by simp [hv, hdIs])
      simp [this]
    · simp [hb]
  have e : b :: d :: (v' ++ R) = v ++ R := by simp [hv]
  have hd' : hdDigit (d :: (v' ++ R)) = false := by simpa [hdDigit] using hd
  have h47' : (b == 47 && hdIs (d :: (v' ++ R)) 47) = false := by simpa [hdIs] using h47
  have h42' : (b == 47 && hdIs (d :: (v' ++ R)) 42) = false := by simpa [hdIs] using h42
  have : lex1 last (b :: d :: (v' ++ R)) =
      some (⟨.punct, (b :: d :: (v' ++ R)).take (lexPunct (b :: d :: (v' ++ R)))⟩,
        (b :: d :: (v' ++ R)).drop (lexPunct (b :: d :: (v' ++ R)))) := by
    simp only [lex1, p1, p2, p3, p4, p5, p6, hd', h47', h42', hctx', Bool.and_false, Bool.or_false, Bool.false_eq_true,
      if_false, ite_false]
  rw [← e, this, e, hlen]
  simp

theorem lex1_single (last : Option Tok) (c : Nat) (R : List Nat) (hp : punctChar c = true)
    (hctx : c = 47 → isRegexCtx last = false) (hs : punctStop [c] R = true)
    (hcm : c = 47 → hdIs R 47 = false ∧ hdIs R 42 = false) (hdot : c = 46 → hdDigit R = false) :
    lex1 last (c :: R) = some (⟨.punct, [c]⟩, R) := by
  obtain ⟨p1, p2, p3, p4, p5, p6⟩ := punctChar_facts c hp
  have hlen := lexPunct_one c R hs
  have hctx' : (c == 47 && isRegexCtx last) = false := by
    by_cases hb : c = 47
    · simp [hctx hb]
    · simp [hb]
  have a47 : (c == 47 && hdIs R 47) = false := by
    by_cases hb : c = 47
    · simp [(hcm hb).1]
    · simp [hb]
  have a42 : (c == 47 && hdIs R 42) = false := by
    by_cases hb : c = 47
    · simp [(hcm hb).2]
    · simp [hb]
  have a46 : (c == 46 && hdDigit R) = false := by
    by_cases hb : c = 46
    · simp [hdot hb]
    · simp [hb]
  simp only [lex1, p1, p2, p3, p4, p5, p6, a47, a42, a46, hctx', Bool.or_false, Bool.false_eq_true, if_false, ite_false, hlen]
  simp

end EgoVerif.C33
