/-
C12 — diagnostics modes do not change behaviour.

Executable model of the dispatch loop of internal/language/bytecode/run.go
(`(*Context).RunFromAddress`) with its three diagnostic hooks, over a small subset of the
real opcodes.  The machine state is split into

  * `Core`  — what the program can observe / what decides its outcome:
              programCounter, stack, symbols, the output writer `c.output`, tryStack, `c.line`,
              and the final status (nil / error class) of the run;
  * `Diag`  — what only the diagnostics read or write: trace-logger lines, profile slots
              (`ByteCode.profile`, `c.profileSlot`), `c.lastLine`, `c.singleStep`, the debugger's
              position in its command stream, the number of prompts shown.

One `step` is one iteration of the `for c.running.Load() && c.programCounter < len(...)` loop,
*including* — when the context is being debugged — the round trip through
internal/language/debugger/debugger.go `runFrom` (RunFromAddress returns ErrSignalDebugger,
`debuggerPrompt` consults the command stream, `c.Resume()` re-enters the loop at the same pc).

Hooks, in the order the code runs them (file:function):
  run.go:RunFromAddress        `if c.Tracing() { traceInstruction(c, i) }`      before dispatch
  trace.go:traceInstruction    writes ONE line to `c.output` (the program's own writer — it is never nil,
                               context.go:NewContext sets it to os.Stdout) → modelled as a `Chunk.trace`
                               appended to `Core.out`; `proj` drops trace chunks (the harness drops the
                               lines that carry the TRACE logger prefix)
  flow.go:atLineByteCode       `if profilingActive.Load() {…}` credits the pending slot, bumps the slot of pc-1
                               `if c.line != 0 && c.debugging { return ErrSignalDebugger }`
                               `if c.Tracing() && c.tokenizer != nil && c.line != c.lastLine {…traceLine…}`
                               `c.lastLine = c.line`
  print.go:printByteCode       `if c.captureBuffer == nil && c.Tracing() { fmt.Fprintln(c.output) }`
                               — a deliberate formatting aid that DOES change program output when the
                               output is not captured (known finding `trace-print-newline`)
  catch.go:handleCatch         with fixes/C12.patch: ErrSignalDebugger passes through untouched.
                               `Cfg.sigCaught = true` is the code BEFORE the patch (the signal is an
                               ordinary error and a live try/catch catches it).
  debugger/commands.go:debuggerPrompt   singleStep ⇒ prompt; `continue`/`go` ⇒ SetSingleStep(false);
                               `step`/empty ⇒ SetSingleStep(true); `exit` ⇒ ErrStop.
                               (breakpoints: none are set, evaluationBreakpoint returns false)
-/
namespace EgoVerif.C12

inductive Val where
  | int (n : Int)
  | mark                      -- StackMarker "try"
  deriving DecidableEq, Repr

/-- error classes (keys of internal/errors), never message text -/
inductive Err where
  | underflow      -- ErrStackUnderflow
  | divZero        -- ErrDivisionByZero
  | unknownId      -- ErrUnknownIdentifier
  | printItems     -- ErrMissingPrintItems
  | void           -- ErrFunctionReturnedVoid (printing a marker)
  | tryMismatch    -- ErrTryCatchMismatch
  | badOperand     -- (unused: arithmetic on a marker is ErrFunctionReturnedVoid)
  | signal         -- ErrSignalDebugger
  deriving DecidableEq, Repr

inductive Op where
  | push (n : Int) | pushMark | add | sub | div
  | store (x : Nat)            -- StoreAlways "v<x>"
  | load (x : Nat)             -- Load "v<x>"
  | print                      -- Print (one item)
  | atLine (l : Nat)
  | branch (a : Nat)
  | try_ (a : Nat)             -- Try @a
  | tryPop
  | stop
  | nop                        -- an opcode whose dispatchTable entry is nil
  deriving DecidableEq, Repr

inductive Chunk where
  | prog (s : String)          -- written by the program (Print)
  | trace                      -- one TRACE line written by traceInstruction / traceLine
  deriving DecidableEq, Repr

/-- `none` = still running; `some none` = ended with nil error; `some (some e)` = ended with error e -/
abbrev Status := Option (Option Err)

structure Core where
  pc : Nat
  stack : List Val             -- head = top of stack
  syms : List (Nat × Val)
  out : List Chunk             -- c.output, oldest first
  tryStack : List Nat          -- head = innermost; addr 0 = spent
  line : Nat
  status : Status
  deriving DecidableEq, Repr

structure Diag where
  logLines : Nat               -- lines sent through ui.Log(TraceLogger, …)
  prof : List (Nat × Nat)      -- slot pc ↦ hit count
  profSlot : Option Nat        -- c.profileSlot (pending timer)
  lastLine : Nat
  singleStep : Bool
  cmdIdx : Nat                 -- commands consumed from the debugger's input
  prompts : Nat
  deriving DecidableEq, Repr

structure State where
  core : Core
  diag : Diag
  deriving DecidableEq, Repr

structure Flags where
  tracing : Bool
  profiling : Bool
  debugging : Bool
  captured : Bool              -- EnableConsoleOutput(false): c.captureBuffer != nil
  deriving DecidableEq, Repr

/-- the plain run with the same output routing -/
def Flags.plain (f : Flags) : Flags :=
  { tracing := false, profiling := false, debugging := false, captured := f.captured }

inductive Cmd where
  | cont | step | exit
  deriving DecidableEq, Repr

structure Cfg where
  sigCaught : Bool             -- true: handleCatch as it was BEFORE fixes/C12.patch
  deriving DecidableEq, Repr

def fixed : Cfg := { sigCaught := false }
def unfixed : Cfg := { sigCaught := true }

/-! ### core instruction semantics -/

def lookup (x : Nat) : List (Nat × Val) → Option Val
  | [] => none
  | (k, v) :: r => if k = x then some v else lookup x r

def setSym (x : Nat) (v : Val) : List (Nat × Val) → List (Nat × Val)
  | [] => [(x, v)]
  | (k, w) :: r => if k = x then (k, v) :: r else (k, w) :: setSym x v r

def arith (f : Int → Int → Option Int) (c : Core) : Core × Option Err :=
  match c.stack with
  | b :: a :: rest =>
    match a, b with
    | .int x, .int y =>
      match f x y with
      | some r => ({ c with stack := .int r :: rest }, none)
      | none => ({ c with stack := rest }, some .divZero)
    | _, _ => ({ c with stack := rest }, some .void)   -- math.go: isStackMarker(v1) || isStackMarker(v2) ⇒ ErrFunctionReturnedVoid
  | [_] => ({ c with stack := [] }, some .underflow)
  | [] => (c, some .underflow)

def showInt (n : Int) : String := toString n

/-- the tokenizer installed by the harness has text on lines 1..9 only -/
def lineHasText (l : Nat) : Bool := 1 ≤ l && l ≤ 9

def bump (pc : Nat) : List (Nat × Nat) → List (Nat × Nat)
  | [] => [(pc, 1)]
  | (k, n) :: r => if k = pc then (k, n + 1) :: r else (k, n) :: bump pc r

/-- append one TRACE line to the writer when `b` -/
def traceIf (b : Bool) (o : List Chunk) : List Chunk := if b then o ++ [.trace] else o

/-- flow.go:atLineByteCode `if profilingActive.Load() {…}`: writes ByteCode.profile slots,
    c.profileSlot, c.profileStart only -/
def profHook (fl : Flags) (l pc : Nat) (d : Diag) : Diag :=
  if fl.profiling then
    (if l > 0 then { d with prof := bump (pc - 1) d.prof, profSlot := some (pc - 1) }
     else { d with profSlot := none })
  else d

/-- flow.go:atLineByteCode.  Returns the new state and the error it returns. -/
def atLine (fl : Flags) (l : Nat) (s : State) : State × Option Err :=
  let d := profHook fl l s.core.pc s.diag
  if l ≠ 0 ∧ fl.debugging then ({ core := { s.core with line := l }, diag := d }, some .signal)
  else
    -- trace hook: traceLine writes one line to c.output; then `c.lastLine = c.line`
    ({ core := { s.core with line := l,
                             out := traceIf (fl.tracing && decide (l ≠ d.lastLine) && lineHasText l) s.core.out },
       diag := { d with lastLine := l } }, none)

/-- the opcode implementations (`imp(c, i.Operand)`), after `c.programCounter++` -/
def exec (fl : Flags) (op : Op) (s : State) : State × Option Err :=
  let c := s.core
  let ret (c' : Core) (e : Option Err) : State × Option Err := ({ s with core := c' }, e)
  match op with
  | .push n => ret { c with stack := .int n :: c.stack } none
  | .pushMark => ret { c with stack := .mark :: c.stack } none
  | .add => let (c', e) := arith (fun x y => some (x + y)) c; ret c' e
  | .sub => let (c', e) := arith (fun x y => some (x - y)) c; ret c' e
  | .div => let (c', e) := arith (fun x y => if y = 0 then none else some (Int.tdiv x y)) c; ret c' e
  | .store x =>
    match c.stack with
    | .mark :: rest => ret { c with stack := rest } (some .void)   -- store.go: isStackMarker(v) ⇒ ErrFunctionReturnedVoid
    | v :: rest => ret { c with stack := rest, syms := setSym x v c.syms } none
    | [] => ret c (some .underflow)
  | .load x =>
    match lookup x c.syms with
    | some v => ret { c with stack := v :: c.stack } none
    | none => ret c (some .unknownId)
  | .print =>
    match c.stack with
    | [] => ret c (some .printItems)
    | .mark :: rest => ret { c with stack := rest } (some .void)
    | .int n :: rest =>
      let out := c.out ++ [.prog (showInt n)]
      -- print.go: `if c.captureBuffer == nil && c.Tracing() { fmt.Fprintln(c.output) }`
      let out := if !fl.captured && fl.tracing then out ++ [.prog "\n"] else out
      ret { c with stack := rest, out := out } none
  | .atLine l => atLine fl l s
  | .branch a =>
    ret { c with pc := a } none      -- branch.go:validateBranchAddress: generated addresses are valid (≤ len)
  | .try_ a => ret { c with tryStack := a :: c.tryStack } none
  | .tryPop =>
    match c.tryStack with
    | [] => ret c (some .tryMismatch)
    | _ :: r => ret { c with tryStack := r } none
  | .stop => ret c none      -- handled in `step` (running := false, ErrStop)
  | .nop => ret c none

/-- pop until the "try" marker (catch.go:handleCatch unwinding loop); `none` = stack ran out -/
def unwind : List Val → Option (List Val)
  | [] => none
  | .mark :: rest => some rest
  | .int _ :: rest => unwind rest

/-- split tryStack at the innermost live entry: (live addr, entries below it) -/
def findTry : List Nat → Option (Nat × List Nat)
  | [] => none
  | a :: r => if a > 0 then some (a, r) else findTry r

/-- catch.go:handleCatch for an error that is subject to try/catch -/
def handleCatch (c : Core) (e : Err) : Core :=
  match findTry c.tryStack with
  | none => { c with status := some (some e) }
  | some (addr, below) =>
    match unwind c.stack with
    | none => { c with stack := [], status := some (some .underflow) }
    | some st => { c with stack := st, pc := addr, tryStack := 0 :: below }

/-- debugger/debugger.go:runFrom + commands.go:debuggerPrompt after RunFromAddress returned ErrSignalDebugger -/
def debuggerStop (cmds : Nat → Cmd) (s : State) : State :=
  if s.diag.singleStep then
    let d := { s.diag with prompts := s.diag.prompts + 1, cmdIdx := s.diag.cmdIdx + 1 }
    match cmds s.diag.cmdIdx with
    | .cont => { s with diag := { d with singleStep := false } }
    | .step => { s with diag := { d with singleStep := true } }
    | .exit => { core := { s.core with status := some none }, diag := d }
  else s

/-- run.go: `if c.Tracing() { traceInstruction(c, i) }` then `c.programCounter = c.programCounter + 1` -/
def advance (fl : Flags) (c : Core) : Core := { c with out := traceIf fl.tracing c.out, pc := c.pc + 1 }

/-- run.go: `err = handleCatch(c, imp(c, i.Operand))` and what the loop / the debugger do with err -/
def afterExec (cfg : Cfg) (cmds : Nat → Cmd) (r : State × Option Err) : State :=
  match r.2 with
  | none => r.1
  | some .signal =>
    if cfg.sigCaught ∧ (findTry r.1.core.tryStack).isSome then
      { r.1 with core := handleCatch r.1.core .signal }
    else debuggerStop cmds r.1
  | some err => { r.1 with core := handleCatch r.1.core err }

def dispatch (cfg : Cfg) (fl : Flags) (cmds : Nat → Cmd) (op : Op) (s1 : State) : State :=
  match op with
  | .nop => s1                                               -- `if imp == nil { continue }`
  | .stop => { s1 with core := { s1.core with status := some none } }   -- running := false, ErrStop → nil
  | _ => afterExec cfg cmds (exec fl op s1)

/-- one iteration of the dispatch loop of run.go:RunFromAddress -/
def step (cfg : Cfg) (fl : Flags) (cmds : Nat → Cmd) (prog : List Op) (s : State) : State :=
  match s.core.status with
  | some _ => s
  | none =>
    match prog[s.core.pc]? with
    | none => { s with core := { s.core with status := some none } }
    | some op => dispatch cfg fl cmds op { s with core := advance fl s.core }

def run (cfg : Cfg) (fl : Flags) (cmds : Nat → Cmd) (prog : List Op) (s : State) : Nat → State
  | 0 => s
  | n + 1 => run cfg fl cmds prog (step cfg fl cmds prog s) n

/-- what the program and its user can observe: everything in `Core`, with the TRACE lines removed -/
def projOut (o : List Chunk) : List Chunk := o.filter (· ≠ .trace)

def proj (s : State) : Core := { s.core with out := projOut s.core.out }

def initDiag : Diag :=
  { logLines := 0, prof := [], profSlot := none, lastLine := 0, singleStep := false, cmdIdx := 0, prompts := 0 }

def initCore : Core :=
  { pc := 0, stack := [], syms := [], out := [], tryStack := [], line := 0, status := none }

/-- bytecode.NewContext(...).SetDebug(fl.debugging): singleStep starts equal to debugging -/
def initState (fl : Flags) : State :=
  { core := initCore, diag := { initDiag with singleStep := fl.debugging } }

/-- instruction opcodes that print (for the known finding `trace-print-newline`) -/
def hasPrint (prog : List Op) : Bool := prog.any (· = .print)

/-! ### T1: which Context fields the hook code may write (checked against go/ast extraction) -/

inductive Field where
  -- diagnostic state
  | lastLine | profileSlot | profileStart | singleStep | stepOver | breakOnReturn | tracing
  | debugging | fullStackTrace | bcProfile | sessionLine
  -- the shared output writer: hooks may only APPEND trace lines / drain the capture buffer
  | output | captureBuffer
  -- core state (a hook writing any of these breaks the obligation)
  | programCounter | stack | stackPointer | framePointer | symbols | running | tryStack | line
  | source | result | bc | name | module | pkg | tokenizer | deferStack | receiverStack | other
  deriving DecidableEq, Repr

inductive How where
  | assign                     -- `c.f = …`, `c.f[i] = …`, `c.f++`, `&c.f`
  | call (method : String)     -- `c.f.M(…)` with M not known to be read-only
  deriving DecidableEq, Repr

def Field.diagnostic : Field → Bool
  | .lastLine | .profileSlot | .profileStart | .singleStep | .stepOver | .breakOnReturn | .tracing
  | .debugging | .fullStackTrace | .bcProfile | .sessionLine => true
  | _ => false

/-- a write the model accounts for: any write to a diagnostic field; `c.output.Write` (a trace chunk);
    draining the capture buffer into the debugger session (`ClearOutput`, the harness observes the
    concatenation of the drained pieces) -/
def allowedWrite : Field × How → Bool
  | (.output, .call m) => m == "Write"
  | (.captureBuffer, .call m) => m == "Reset"
  | (f, _) => f.diagnostic

def writesAllowed (ws : List (Field × How)) : Bool := ws.all allowedWrite

end EgoVerif.C12
