import EgoVerif.C12.Model
/-!
C12 — theorems.  `C12_noninterference`: for EVERY program, start state, diagnostic flag
combination, debugger command stream without `exit`, and step count, the observable projection of
the diagnosed run equals the plain run from the projected state.  Proof: a one-step simulation
lemma (`step_proj`: hooks write only `Diag` fields and trace chunks) + induction on the step count.
-/
namespace EgoVerif.C12

theorem projOut_append (a b : List Chunk) : projOut (a ++ b) = projOut a ++ projOut b := by
  simp [projOut]

@[simp] theorem projOut_trace (a : List Chunk) : projOut (a ++ [.trace]) = projOut a := by
  simp [projOut]

@[simp] theorem projOut_prog (a : List Chunk) (s : String) :
    projOut (a ++ [.prog s]) = projOut a ++ [.prog s] := by
  simp [projOut]

@[simp] theorem projOut_traceIf (b : Bool) (a : List Chunk) : projOut (traceIf b a) = projOut a := by
  cases b <;> simp [traceIf]

@[simp] theorem traceIf_false (a : List Chunk) : traceIf false a = a := rfl

@[simp] theorem projOut_idem (a : List Chunk) : projOut (projOut a) = projOut a := by
  simp [projOut]

/-- the only instruction whose core effect depends on a diagnostic flag is Print when tracing with
    uncaptured output -/
def printSafe (fl : Flags) (prog : List Op) : Prop :=
  (!fl.captured && fl.tracing) = true → hasPrint prog = false

theorem not_print_of_safe {fl : Flags} {prog : List Op} (h : printSafe fl prog)
    (hf : (!fl.captured && fl.tracing) = true) {i : Nat} : prog[i]? ≠ some .print := by
  intro hi
  have := h hf
  simp [hasPrint] at this
  exact this _ (List.mem_of_getElem? hi) rfl

def projC (c : Core) : Core := { c with out := projOut c.out }

theorem handleCatch_projC (c : Core) (e : Err) : projC (handleCatch c e) = handleCatch (projC c) e := by
  unfold handleCatch projC
  cases findTry c.tryStack with
  | none => simp
  | some p =>
    obtain ⟨addr, below⟩ := p
    cases unwind c.stack <;> simp

theorem arith_projC (f : Int → Int → Option Int) (c : Core) :
    projC (arith f c).1 = (arith f (projC c)).1 ∧ (arith f c).2 = (arith f (projC c)).2 ∧ (arith f c).2 ≠ some .signal := by
  obtain ⟨pc, stack, syms, out, ts, line, status⟩ := c
  rcases stack with _ | ⟨b, _ | ⟨a, rest⟩⟩
  · simp [arith, projC]
  · simp [arith, projC]
  · cases a <;> cases b <;> simp [arith, projC]
    rename_i x y
    cases f x y <;> simp

theorem exec_projC (fl : Flags) (op : Op) (hop : ∀ l, op ≠ .atLine l)
    (hpr : op = .print → (!fl.captured && fl.tracing) = false) (s : State) (d' : Diag) :
    projC (exec fl op s).1.core = (exec fl.plain op ⟨projC s.core, d'⟩).1.core
    ∧ (exec fl op s).2 = (exec fl.plain op ⟨projC s.core, d'⟩).2
    ∧ (exec fl op s).2 ≠ some .signal
    ∧ (exec fl op s).1.diag = s.diag := by
  obtain ⟨c, d⟩ := s
  cases op with
  | atLine l => exact absurd rfl (hop l)
  | push n => simp [exec, projC]
  | pushMark => simp [exec, projC]
  | add =>
    have := arith_projC (fun x y => some (x + y)) c
    simp only [exec]; exact ⟨this.1, this.2.1, this.2.2, trivial⟩
  | sub =>
    have := arith_projC (fun x y => some (x - y)) c
    simp only [exec]; exact ⟨this.1, this.2.1, this.2.2, trivial⟩
  | div =>
    have := arith_projC (fun x y => if y = 0 then none else some (Int.tdiv x y)) c
    simp only [exec]; exact ⟨this.1, this.2.1, this.2.2, trivial⟩
  | store x =>
    obtain ⟨pc, stack, syms, out, ts, line, status⟩ := c
    rcases stack with _ | ⟨v, rest⟩
    · simp [exec, projC]
    · cases v <;> simp [exec, projC]
  | load x =>
    obtain ⟨pc, stack, syms, out, ts, line, status⟩ := c
    simp only [exec, projC]
    cases lookup x syms <;> simp
  | print =>
    have h := hpr rfl
    obtain ⟨pc, stack, syms, out, ts, line, status⟩ := c
    rcases stack with _ | ⟨v, rest⟩
    · simp [exec, projC]
    · cases v <;> simp [exec, projC, h, Flags.plain]
  | branch a => simp [exec, projC]
  | try_ a => simp [exec, projC]
  | tryPop =>
    obtain ⟨pc, stack, syms, out, ts, line, status⟩ := c
    cases ts <;> simp [exec, projC]
  | stop => simp [exec, projC]
  | nop => simp [exec, projC]

theorem atLine_plain (fl : Flags) (l : Nat) (s : State) (d' : Diag) (h : ¬ (l ≠ 0 ∧ fl.debugging = true)) :
    projC (atLine fl l s).1.core = (atLine fl.plain l ⟨projC s.core, d'⟩).1.core
    ∧ (atLine fl l s).2 = none ∧ (atLine fl.plain l ⟨projC s.core, d'⟩).2 = none := by
  obtain ⟨c, d⟩ := s
  simp [atLine, Flags.plain, h, projC]

theorem atLine_debug (fl : Flags) (l : Nat) (s : State) (d' : Diag) (h : l ≠ 0 ∧ fl.debugging = true) :
    projC (atLine fl l s).1.core = (atLine fl.plain l ⟨projC s.core, d'⟩).1.core
    ∧ (atLine fl l s).2 = some .signal ∧ (atLine fl.plain l ⟨projC s.core, d'⟩).2 = none := by
  obtain ⟨c, d⟩ := s
  simp [atLine, Flags.plain, h, projC]

theorem debuggerStop_core (cmds : Nat → Cmd) (hc : ∀ i, cmds i ≠ .exit) (s : State) :
    (debuggerStop cmds s).core = s.core := by
  unfold debuggerStop
  split
  · have := hc s.diag.cmdIdx
    cases h : cmds s.diag.cmdIdx <;> simp_all
  · rfl

theorem advance_projC (fl : Flags) (c : Core) : projC (advance fl c) = advance fl.plain (projC c) := by
  simp [advance, projC, Flags.plain]

theorem dispatch_proj (fl : Flags) (cmds cmds' : Nat → Cmd) (hc : ∀ i, cmds i ≠ .exit) (op : Op)
    (hpr : op = .print → (!fl.captured && fl.tracing) = false) (s1 : State) (d' : Diag) :
    projC (dispatch fixed fl cmds op s1).core = (dispatch fixed fl.plain cmds' op ⟨projC s1.core, d'⟩).core := by
  by_cases hat : ∃ l, op = .atLine l
  · obtain ⟨l, rfl⟩ := hat
    simp only [dispatch, exec]
    by_cases hd : l ≠ 0 ∧ fl.debugging = true
    · obtain ⟨h1, h2, h3⟩ := atLine_debug fl l s1 d' hd
      simp only [afterExec, h2, h3, fixed]
      simp [debuggerStop_core cmds hc, h1]
    · obtain ⟨h1, h2, h3⟩ := atLine_plain fl l s1 d' hd
      simp only [afterExec, h2, h3]
      exact h1
  · have hop : ∀ l, op ≠ .atLine l := fun l h => hat ⟨l, h⟩
    obtain ⟨h1, h2, h3, _⟩ := exec_projC fl op hop hpr s1 d'
    cases op with
    | nop => simp [dispatch]
    | stop => simp [dispatch, projC]
    | atLine l => exact absurd rfl (hop l)
    | _ =>
      simp only [dispatch, afterExec]
      rw [← h2]
      cases he : (exec fl _ s1).2 with
      | none => simpa using h1
      | some e =>
        cases e <;> first | (exact absurd he h3) | (simp only []; rw [handleCatch_projC, h1])

/-- ONE-STEP LEMMA: every hook writes only `Diag` fields and TRACE chunks -/
theorem C12_step_proj (fl : Flags) (cmds cmds' : Nat → Cmd) (hc : ∀ i, cmds i ≠ .exit) (prog : List Op)
    (hp : printSafe fl prog) (s : State) (d' : Diag) :
    proj (step fixed fl cmds prog s) = (step fixed fl.plain cmds' prog ⟨proj s, d'⟩).core := by
  have hproj : ∀ t : State, proj t = projC t.core := fun _ => rfl
  unfold step
  cases hst : s.core.status with
  | some st => simp [proj, hst]
  | none =>
    have e1 : (proj s).status = none := by simp [proj, hst]
    have e2 : (proj s).pc = s.core.pc := rfl
    simp only [e1, e2]
    cases hop : prog[s.core.pc]? with
    | none => simp [proj]
    | some op =>
      simp only []
      have hpr : op = .print → (!fl.captured && fl.tracing) = false := by
        intro h; subst h
        cases hf : (!fl.captured && fl.tracing) with
        | false => rfl
        | true => exact absurd hop (not_print_of_safe hp hf)
      have := dispatch_proj fl cmds cmds' hc op hpr { s with core := advance fl s.core } d'
      rw [hproj, this, advance_projC]
      rfl


/-- MAIN THEOREM (excluded class explicit: `printSafe`).  For every program, start state, flag
    combination, command stream that never says `exit`, and number of loop iterations. -/
theorem C12_noninterference_partial (fl : Flags) (cmds cmds' : Nat → Cmd) (hc : ∀ i, cmds i ≠ .exit)
    (prog : List Op) (hp : printSafe fl prog) (s : State) (d' : Diag) (n : Nat) :
    proj (run fixed fl cmds prog s n) = (run fixed fl.plain cmds' prog ⟨proj s, d'⟩ n).core := by
  induction n generalizing s d' with
  | zero => rfl
  | succ n ih =>
    simp only [run]
    have h1 := C12_step_proj fl cmds cmds' hc prog hp s d'
    have := ih (step fixed fl cmds prog s) (step fixed fl.plain cmds' prog ⟨proj s, d'⟩).diag
    rw [this, h1]

/-- Full strength whenever the Print formatting aid cannot fire: profiling, debugging with any
    `continue`/`step` stream, and tracing with captured output — for ALL programs. -/
theorem C12_noninterference (fl : Flags) (hf : fl.tracing = true → fl.captured = true)
    (cmds cmds' : Nat → Cmd) (hc : ∀ i, cmds i ≠ .exit) (prog : List Op) (s : State) (d' : Diag) (n : Nat) :
    proj (run fixed fl cmds prog s n) = (run fixed fl.plain cmds' prog ⟨proj s, d'⟩ n).core := by
  apply C12_noninterference_partial fl cmds cmds' hc prog _ s d' n
  intro h
  cases ht : fl.tracing <;> simp_all

/-- the outcome (final error class) in particular -/
theorem C12_same_outcome (fl : Flags) (hf : fl.tracing = true → fl.captured = true)
    (cmds : Nat → Cmd) (hc : ∀ i, cmds i ≠ .exit) (prog : List Op) (n : Nat) :
    (run fixed fl cmds prog (initState fl) n).core.status
      = (run fixed fl.plain cmds prog (initState fl.plain) n).core.status := by
  have := C12_noninterference fl hf cmds cmds hc prog (initState fl) (initState fl.plain).diag n
  have h2 : (⟨proj (initState fl), (initState fl.plain).diag⟩ : State) = initState fl.plain := rfl
  rw [h2] at this
  rw [← this]; rfl

/-- the plain run never writes a TRACE chunk: its output is already its own projection -/
theorem C12_plain_step_trace_free (fl : Flags) (cmds : Nat → Cmd) (hc : ∀ i, cmds i ≠ .exit) (prog : List Op)
    (s : State) (n : Nat) :
    proj (run fixed fl.plain cmds prog ⟨proj s, s.diag⟩ n) = (run fixed fl.plain cmds prog ⟨proj s, s.diag⟩ n).core := by
  have h := C12_noninterference_partial fl.plain cmds cmds hc prog (by intro h; simp [Flags.plain] at h)
    ⟨proj s, s.diag⟩ s.diag n
  have e : proj (⟨proj s, s.diag⟩ : State) = proj s := by simp [proj]
  rw [e] at h
  exact h

/-! ### the code BEFORE fixes/C12.patch violates the property -/

def always (c : Cmd) : Nat → Cmd := fun _ => c
def dbg : Flags := { tracing := false, profiling := false, debugging := true, captured := true }
def trc : Flags := { tracing := true, profiling := false, debugging := false, captured := false }

/-- `try { <line 1> stop } catch { print 7 }`: under the debugger the unpatched handleCatch catches the
    debugger's own signal and runs the catch block -/
def witnessTry : List Op := [.try_ 4, .pushMark, .atLine 1, .stop, .push 7, .print]

theorem C12_unfixed_counterexample :
    (proj (run unfixed dbg (always .cont) witnessTry (initState dbg) 10)).out.length = 1
    ∧ (run unfixed dbg.plain (always .cont) witnessTry (initState dbg.plain) 10).core.out.length = 0 := by
  decide

/-- with the patch the same witness agrees (instance of the main theorem, checked by evaluation too) -/
example : (proj (run fixed dbg (always .cont) witnessTry (initState dbg) 10)).out.length = 0 := by decide

/-- known finding `trace-print-newline`: tracing with uncaptured output makes Print add a newline -/
theorem C12_trace_print_counterexample :
    (proj (run fixed trc (always .cont) [.push 1, .print] (initState trc) 5)).out.length = 2
    ∧ (run fixed trc.plain (always .cont) [.push 1, .print] (initState trc.plain) 5).core.out.length = 1 := by
  decide

/-! ### non-vacuity: the hypotheses are met by non-trivial instances -/
example : ∀ i, always Cmd.cont i ≠ .exit := by intro i; simp [always]
example : printSafe dbg witnessTry := by intro h; simp [dbg] at h
example : printSafe trc [.push 1, .atLine 3, .store 0] := by intro _; decide
example : dbg.tracing = true → dbg.captured = true := by decide
/-- the debugger really is consulted (one prompt, one command consumed) and tracing really writes -/
example : (run fixed dbg (always .cont) witnessTry (initState dbg) 10).diag.prompts = 1 := by decide
example : (run fixed { trc with captured := true } (always .cont) witnessTry
    (initState trc) 10).core.out.length = 5 := by decide

/-! ### T1 -/
/-- the declared write-set of the hook code, as extracted on the tree the model was written against -/
def declaredWrites : List (Field × How) :=
  [(.output, .call "Write"), (.lastLine, .assign), (.profileSlot, .assign), (.profileStart, .assign),
   (.bcProfile, .assign), (.singleStep, .assign), (.stepOver, .assign), (.captureBuffer, .call "Reset"),
   (.sessionLine, .assign)]
theorem C12_declared_writes_allowed : writesAllowed declaredWrites = true := by decide
/-- a hook that starts writing the stack / pc / symbols is rejected -/
example : writesAllowed [(.programCounter, .assign)] = false := by decide
example : writesAllowed [(.symbols, .call "SetAlways")] = false := by decide
example : writesAllowed [(.stack, .assign)] = false := by decide

end EgoVerif.C12
