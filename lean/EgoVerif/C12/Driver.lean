import EgoVerif.Common.Drv
import EgoVerif.C12.Model
/- line protocol:
   `run <t><p><d><c> <cmds|-> <fuel> <op>…`  (flags 0/1: tracing profiling debugging captured;
        cmds: letters c=continue s=step x=exit, then `continue` forever; ops: p<int> m a s d S<x> L<x> P l<n> b<a> t<a> T x n)
     → `<status> <hex of program output> tr=<TRACE lines in the writer> prof=<sum of hit counts> prompts=<n>`
 -/
namespace EgoVerif.C12

def parseOp (t : String) : Option Op :=
  match t.toList with
  | ['m'] => some .pushMark
  | ['a'] => some .add
  | ['s'] => some .sub
  | ['d'] => some .div
  | ['P'] => some .print
  | ['T'] => some .tryPop
  | ['x'] => some .stop
  | ['n'] => some .nop
  | 'p' :: r => (String.ofList r).toInt?.map .push
  | 'S' :: r => (String.ofList r).toNat?.map .store
  | 'L' :: r => (String.ofList r).toNat?.map .load
  | 'l' :: r => (String.ofList r).toNat?.map .atLine
  | 'b' :: r => (String.ofList r).toNat?.map .branch
  | 't' :: r => (String.ofList r).toNat?.map .try_
  | _ => none

def parseOps : List String → Option (List Op)
  | [] => some []
  | t :: r => match parseOp t, parseOps r with
    | some o, some os => some (o :: os)
    | _, _ => none

def parseFlags (s : String) : Option Flags :=
  match s.toList with
  | [t, p, d, c] => some { tracing := t == '1', profiling := p == '1', debugging := d == '1', captured := c == '1' }
  | _ => none

def cmdStream (s : String) : Nat → Cmd := fun i =>
  match (if s == "-" then [] else s.toList)[i]? with
  | some 's' => .step
  | some 'x' => .exit
  | _ => .cont

def errName : Err → String
  | .underflow => "underflow" | .divZero => "divzero" | .unknownId => "unknownid" | .printItems => "printitems"
  | .void => "void" | .tryMismatch => "trymismatch" | .badOperand => "badoperand" | .signal => "signal"

def statusName : Status → String
  | none => "running" | some none => "ok" | some (some e) => errName e

def progText : List Chunk → String
  | [] => ""
  | .prog s :: r => s ++ progText r
  | .trace :: r => progText r

def handle (line : String) : String :=
  match fields line with
  | "run" :: fl :: cm :: fuel :: ops =>
    match parseFlags fl, fuel.toNat?, parseOps ops with
    | some f, some n, some prog =>
      let s := run fixed f (cmdStream cm) prog (initState f) n
      let tr := (s.core.out.filter (· = .trace)).length
      let pr := (s.diag.prof.map (·.2)).foldl (· + ·) 0
      s!"{statusName s.core.status} {hexOfString (progText s.core.out)} tr={tr} prof={pr} prompts={s.diag.prompts}"
    | _, _, _ => "bad-input"
  | _ => "bad-op"

def drv : Drv := Drv.pure handle

end EgoVerif.C12
