/-
C26 — model of `util.SandboxJoin` / `resolveWithinSandbox` / `withinRoot`
(internal/util/sandbox.go, with fixes/C26.patch applied), core Lean only.

Paths are `(abs, segs)`: `abs` = the string starts with '/', `segs` = the string split on '/'
(raw segments: may be "", ".", ".."; every spelling of a path is some raw segment list).
The file system is a function from PHYSICAL absolute paths (segment lists, `[]` = "/") to
the kind of node found there.  `walk` is the component-by-component resolution shared by
`filepath.EvalSymlinks` (Go, path/filepath/symlink.go `walkSymlinks`) and `os.Lstat`; fuel is
a step budget (loops and over-long link chains exhaust it = the Go error return).
-/
namespace EgoVerif.C26

abbrev Seg := String

/-- a segment that names a directory entry (not "", ".", "..") -/
def plain (s : Seg) : Bool := s != "" && s != "." && s != ".."

/-! ## path algebra: filepath.Clean / Join / Rel, withinRoot -/

/-- `filepath.Clean` on segments; `st` is the output stack, reversed.
Go (path/filepath/path.go → internal/filepathlite.Clean): "" and "." are skipped; ".." removes
the last real element, is kept when the path is not rooted, is dropped at the root. -/
def cleanAux (abs : Bool) : List Seg → List Seg → List Seg
  | [], st => st.reverse
  | s :: rest, st =>
    if s == "" || s == "." then cleanAux abs rest st
    else if s == ".." then
      match st with
      | [] => if abs then cleanAux abs rest [] else cleanAux abs rest [".."]
      | t :: st' => if t == ".." then cleanAux abs rest (".." :: t :: st') else cleanAux abs rest st'
    else cleanAux abs rest (s :: st)

def clean (abs : Bool) (segs : List Seg) : List Seg := cleanAux abs segs []

/-- `withinRoot(cleanPath, root)` (sandbox.go): equal, or `filepath.Rel(root, cleanPath)` exists and does
not start with "..".  For cleaned paths Rel strips the common prefix; it fails or starts with ".." exactly when
a root element is left over, so the test is: same rootedness, root's segments are a prefix, and the
remainder does not start with "..". -/
def within (pAbs : Bool) (p : List Seg) (rAbs : Bool) (r : List Seg) : Bool :=
  pAbs == rAbs && r.isPrefixOf p && (p.drop r.length).head? != some ".."

/-! ## file system -/

inductive Kind where
  | file
  | dir
  | link (abs : Bool) (tgt : List Seg)
  deriving Repr, DecidableEq

abbrev FS := List Seg → Option Kind

/-- "/" is always a directory -/
def look (fs : FS) (p : List Seg) : Option Kind := if p = [] then some Kind.dir else fs p

/-- Resolve `rest` starting in the (physical) directory `cur`.  Returns the physical location the
path denotes: an existing node, or a not-yet-existing last component of an existing directory.
`none` = error (ENOENT in the middle, ENOTDIR, fuel exhausted = ELOOP / "too many links"). -/
def walk (fs : FS) : Nat → List Seg → List Seg → Option (List Seg)
  | _, cur, [] => some cur
  | 0, _, _ :: _ => none
  | fuel + 1, cur, s :: rest =>
    if s == "" || s == "." then walk fs fuel cur rest
    else if s == ".." then walk fs fuel cur.dropLast rest
    else
      match look fs (cur ++ [s]) with
      | none => if rest.isEmpty then some (cur ++ [s]) else none
      | some Kind.file => if rest.isEmpty then some (cur ++ [s]) else none
      | some Kind.dir => walk fs fuel (cur ++ [s]) rest
      | some (Kind.link a t) => walk fs fuel (if a then [] else cur) (t ++ rest)

/-- `filepath.EvalSymlinks(p)` for an absolute path: the resolved location, which must exist. -/
def evalSymlinks (fs : FS) (fuel : Nat) (p : List Seg) : Option (List Seg) :=
  match walk fs fuel [] p with
  | some l => if (look fs l).isSome then some l else none
  | none => none

/-- `os.Lstat(p)` succeeds: the parent resolves to a directory and the last component is present
(a symlink in the last position is not followed). -/
def lstatOk (fs : FS) (fuel : Nat) (p : List Seg) : Bool :=
  match p.getLast? with
  | none => true
  | some last =>
    match walk fs fuel [] p.dropLast with
    | some d => look fs d == some Kind.dir && (look fs (d ++ [last])).isSome
    | none => false

/-- the `for { Lstat(existing); existing = Dir(existing) }` loop of resolveWithinSandbox:
length of the longest prefix of `c` (at most `k` segments) that Lstat accepts. -/
def findExisting (fs : FS) (fuel : Nat) (c : List Seg) : Nat → Nat
  | 0 => 0
  | k + 1 => if lstatOk fs fuel (c.take (k + 1)) then k + 1 else findExisting fs fuel c k

/-- `resolveWithinSandbox(candidate, sandboxRoot)` for an absolute root.  `cand` and `root` are
cleaned segment lists.  (fixes/C26.patch: a failing EvalSymlinks(existing) — dangling link, loop —
clamps to the root; the unpatched code returned `candidate`.) -/
def resolveWithin (fs : FS) (fuel : Nat) (cand root : List Seg) : List Seg :=
  match evalSymlinks fs fuel root with
  | none => cand
  | some rroot =>
    let k := findExisting fs fuel cand cand.length
    match evalSymlinks fs fuel (cand.take k) with
    | none => root
    | some res => if rroot.isPrefixOf res then res ++ cand.drop k else root

/-- the unpatched variant (returns the candidate when the existing prefix does not resolve) -/
def resolveWithinOld (fs : FS) (fuel : Nat) (cand root : List Seg) : List Seg :=
  match evalSymlinks fs fuel root with
  | none => cand
  | some rroot =>
    let k := findExisting fs fuel cand cand.length
    match evalSymlinks fs fuel (cand.take k) with
    | none => cand
    | some res => if rroot.isPrefixOf res then res ++ cand.drop k else root

/-- `SandboxJoin(sandboxRoot, path)` for a non-empty root string.  A relative root has no
physical meaning without a working directory; the model then keeps the string candidate
(= the code's behaviour when the root does not exist). -/
def sandboxJoinWith (rw : List Seg → List Seg → List Seg)
    (rAbs : Bool) (rSegs : List Seg) (pAbs : Bool) (pSegs : List Seg) : List Seg :=
  let r := clean rAbs rSegs
  let cp := clean pAbs pSegs
  if within pAbs cp rAbs r then (if rAbs then rw cp r else cp)
  else
    let j := clean rAbs (r ++ pSegs)
    if within rAbs j rAbs r then (if rAbs then rw j r else j) else r

def sandboxJoin (fs : FS) (fuel : Nat) := sandboxJoinWith (resolveWithin fs fuel)
def sandboxJoinOld (fs : FS) (fuel : Nat) := sandboxJoinWith (resolveWithinOld fs fuel)

/-! ## routing table (filled by tools/extract_c26 from the current source) -/

/-- one file-system sink reached from a runtime function with a program-controlled path -/
structure Route where
  fn : String       -- "<package>.<go function>" or "<package>.<Ego name> (native)"
  sink : String     -- e.g. "os.Open"
  routed : Bool     -- the path argument is the result of the sandbox helper
  deriving Repr, DecidableEq

/-- functions known to pass a program-controlled path to a sink without the helper
(known_findings.d/C26.json) -/
def knownUnrouted : List String := ["sql.openDatabase"]

def allRouted (tbl : List Route) : Bool :=
  tbl.all fun e => e.routed || knownUnrouted.contains e.fn

end EgoVerif.C26
