import EgoVerif.C26.Model
/-
C26 — theorems about the model of util.SandboxJoin (Model.lean).

`Walk fs cur rest l` is the KERNEL's path resolution as a relation (no fuel: a looping path simply
has no derivation): an operation on path `rest`, started in the physical directory `cur`, acts on
the physical location `l` (an existing node, or a not-yet-existing last component that a creating
call would create).  `walk` (Model.lean, Go's EvalSymlinks/Lstat) is sound for it.  The main theorem
says: wherever the kernel ends up when handed the result of `sandboxJoin`, that location is at or
below the place the sandbox root physically is.  It quantifies over every file system (any
arrangement of directories, files and symlinks, inside or outside the root), every spelling of the
requested path, and every fuel.
-/
namespace EgoVerif.C26

/-- segments the kernel ignores -/
def dots (rest : List Seg) : Prop := ∀ x ∈ rest, x = "" ∨ x = "."

inductive Walk (fs : FS) : List Seg → List Seg → List Seg → Prop
  | done (cur) : Walk fs cur [] cur
  | skip {cur s rest l} : (s = "" ∨ s = ".") → Walk fs cur rest l → Walk fs cur (s :: rest) l
  | up {cur rest l} : Walk fs cur.dropLast rest l → Walk fs cur (".." :: rest) l
  | missing {cur s rest} : plain s = true → look fs (cur ++ [s]) = none → dots rest →
      Walk fs cur (s :: rest) (cur ++ [s])
  | file {cur s rest} : plain s = true → look fs (cur ++ [s]) = some Kind.file → dots rest →
      Walk fs cur (s :: rest) (cur ++ [s])
  | dir {cur s rest l} : plain s = true → look fs (cur ++ [s]) = some Kind.dir →
      Walk fs (cur ++ [s]) rest l → Walk fs cur (s :: rest) l
  | link {cur s rest l a t} : plain s = true → look fs (cur ++ [s]) = some (Kind.link a t) →
      Walk fs (if a then [] else cur) (t ++ rest) l → Walk fs cur (s :: rest) l

theorem plain_iff {s : Seg} : plain s = true ↔ s ≠ "" ∧ s ≠ "." ∧ s ≠ ".." := by
  simp [plain, and_assoc]

theorem not_plain_dots {s : Seg} (h : s = "" ∨ s = ".") : plain s = false := by
  rcases h with h | h <;> subst h <;> decide

theorem not_plain_dotdot : plain ".." = false := by decide

/-! ### `walk` (Go) is sound for `Walk` (kernel) -/

theorem walk_sound (fs : FS) : ∀ fuel cur rest l, walk fs fuel cur rest = some l → Walk fs cur rest l := by
  intro fuel
  induction fuel with
  | zero =>
    intro cur rest l h
    cases rest with
    | nil => simp [walk] at h; subst h; exact Walk.done _
    | cons s rest => simp [walk] at h
  | succ f ih =>
    intro cur rest l h
    cases rest with
    | nil => simp [walk] at h; subst h; exact Walk.done _
    | cons s rest =>
      simp only [walk] at h
      by_cases hd : (s == "" || s == ".") = true
      · rw [if_pos hd] at h
        have : s = "" ∨ s = "." := by simpa using hd
        exact Walk.skip this (ih _ _ _ h)
      · rw [if_neg hd] at h
        by_cases hu : (s == "..") = true
        · rw [if_pos hu] at h
          have : s = ".." := by simpa using hu
          subst this
          exact Walk.up (ih _ _ _ h)
        · rw [if_neg hu] at h
          have hp : plain s = true := by
            simp only [Bool.or_eq_true, beq_iff_eq, not_or] at hd
            simp only [beq_iff_eq] at hu
            exact plain_iff.mpr ⟨hd.1, hd.2, hu⟩
          cases hl : look fs (cur ++ [s]) with
          | none =>
            rw [hl] at h
            cases rest with
            | nil => simp at h; subst h; exact Walk.missing hp hl (by intro x hx; cases hx)
            | cons a b => simp at h
          | some k =>
            rw [hl] at h
            cases k with
            | file =>
              cases rest with
              | nil => simp at h; subst h; exact Walk.file hp hl (by intro x hx; cases hx)
              | cons a b => simp at h
            | dir => exact Walk.dir hp hl (ih _ _ _ h)
            | link a t => exact Walk.link hp hl (ih _ _ _ h)

/-! ### the kernel relation is deterministic -/

theorem Walk.det {fs : FS} {c r l₁ l₂ : List Seg} (h1 : Walk fs c r l₁) (h2 : Walk fs c r l₂) : l₁ = l₂ := by
  induction h1 generalizing l₂ with
  | done cur => cases h2; rfl
  | skip hs _ ih =>
    have hn := not_plain_dots hs
    cases h2 with
    | skip _ h => exact ih h
    | up h => rcases hs with hs | hs <;> simp at hs
    | missing hp _ _ => simp [hn] at hp
    | file hp _ _ => simp [hn] at hp
    | dir hp _ _ => simp [hn] at hp
    | link hp _ _ => simp [hn] at hp
  | up _ ih =>
    cases h2 with
    | skip hs _ => rcases hs with hs | hs <;> simp at hs
    | up h => exact ih h
    | missing hp _ _ => simp [not_plain_dotdot] at hp
    | file hp _ _ => simp [not_plain_dotdot] at hp
    | dir hp _ _ => simp [not_plain_dotdot] at hp
    | link hp _ _ => simp [not_plain_dotdot] at hp
  | missing hp hl _ =>
    cases h2 with
    | skip hs _ => simp [not_plain_dots hs] at hp
    | up _ => simp [not_plain_dotdot] at hp
    | missing _ _ _ => rfl
    | file _ _ _ => rfl
    | dir _ hl' _ => simp [hl] at hl'
    | link _ hl' _ => simp [hl] at hl'
  | file hp hl _ =>
    cases h2 with
    | skip hs _ => simp [not_plain_dots hs] at hp
    | up _ => simp [not_plain_dotdot] at hp
    | missing _ _ _ => rfl
    | file _ _ _ => rfl
    | dir _ hl' _ => simp [hl] at hl'
    | link _ hl' _ => simp [hl] at hl'
  | dir hp hl _ ih =>
    cases h2 with
    | skip hs _ => simp [not_plain_dots hs] at hp
    | up _ => simp [not_plain_dotdot] at hp
    | missing _ hl' _ => simp [hl] at hl'
    | file _ hl' _ => simp [hl] at hl'
    | dir _ _ h => exact ih h
    | link _ hl' _ => simp [hl] at hl'
  | link hp hl _ ih =>
    cases h2 with
    | skip hs _ => simp [not_plain_dots hs] at hp
    | up _ => simp [not_plain_dotdot] at hp
    | missing _ hl' _ => simp [hl] at hl'
    | file _ hl' _ => simp [hl] at hl'
    | dir _ hl' _ => simp [hl] at hl'
    | link _ hl' h =>
      rw [hl] at hl'
      injection hl' with hk
      injection hk with ha ht
      subst ha; subst ht
      exact ih h

/-! ### physical paths: chains of real directories -/

/-- `c` is a chain of directories from "/" with no symlink in it -/
inductive Phys (fs : FS) : List Seg → Prop
  | root : Phys fs []
  | snoc {c s} : Phys fs c → plain s = true → look fs (c ++ [s]) = some Kind.dir → Phys fs (c ++ [s])

theorem Phys.dropLast {fs : FS} {c : List Seg} (h : Phys fs c) : Phys fs c.dropLast := by
  cases h with
  | root => exact Phys.root
  | snoc h _ _ => simpa using h

theorem Phys.look_dir {fs : FS} {c : List Seg} (h : Phys fs c) : look fs c = some Kind.dir := by
  cases h with
  | root => simp [look]
  | snoc _ _ hl => exact hl

/-- what the kernel can end up at: a directory chain, or a file / a missing name in one -/
def PhysLoc (fs : FS) (l : List Seg) : Prop :=
  Phys fs l ∨ ∃ d s, l = d ++ [s] ∧ Phys fs d ∧ plain s = true ∧
    (look fs l = none ∨ look fs l = some Kind.file)

theorem Walk.physLoc {fs : FS} {c r l : List Seg} (h : Walk fs c r l) (hc : Phys fs c) : PhysLoc fs l := by
  induction h with
  | done cur => exact Or.inl hc
  | skip _ _ ih => exact ih hc
  | up _ ih => exact ih hc.dropLast
  | missing hp hl _ => exact Or.inr ⟨_, _, rfl, hc, hp, Or.inl hl⟩
  | file hp hl _ => exact Or.inr ⟨_, _, rfl, hc, hp, Or.inr hl⟩
  | dir hp hl _ ih => exact ih (Phys.snoc hc hp hl)
  | link _ _ _ ih =>
    apply ih
    split
    · exact Phys.root
    · exact hc

/-- the kernel walks a physical directory chain component by component -/
theorem Walk.through {fs : FS} {d : List Seg} (hd : Phys fs d) :
    ∀ rest l, Walk fs [] (d ++ rest) l → Walk fs d rest l := by
  induction hd with
  | root => intro rest l h; simpa using h
  | snoc hc hp hl ih =>
    rename_i c s
    intro rest l h
    have h' : Walk fs [] (c ++ (s :: rest)) l := by simpa using h
    have h2 := ih _ _ h'
    cases h2 with
    | skip hs _ => simp [not_plain_dots hs] at hp
    | up _ => simp [not_plain_dotdot] at hp
    | missing _ hl' _ => simp [hl] at hl'
    | file _ hl' _ => simp [hl] at hl'
    | dir _ _ h3 => exact h3
    | link _ hl' _ => simp [hl] at hl'

/-! ### the existing-prefix search -/

theorem findExisting_le (fs : FS) (fuel : Nat) (c : List Seg) : ∀ n, findExisting fs fuel c n ≤ n := by
  intro n
  induction n with
  | zero => simp [findExisting]
  | succ k ih =>
    simp only [findExisting]
    split
    · exact Nat.le_refl _
    · exact Nat.le_succ_of_le ih

/-- the prefix one longer than the one found was rejected by Lstat -/
theorem findExisting_next (fs : FS) (fuel : Nat) (c : List Seg) :
    ∀ n, findExisting fs fuel c n < n → lstatOk fs fuel (c.take (findExisting fs fuel c n + 1)) = false := by
  intro n
  induction n with
  | zero => intro h; simp [findExisting] at h
  | succ k ih =>
    intro h
    simp only [findExisting] at h ⊢
    by_cases hl : lstatOk fs fuel (c.take (k + 1)) = true
    · rw [if_pos hl] at h; exact absurd h (Nat.lt_irrefl _)
    · rw [if_neg hl] at h ⊢
      have hle := findExisting_le fs fuel c k
      by_cases heq : findExisting fs fuel c k = k
      · rw [heq]; simpa using hl
      · exact ih (Nat.lt_of_le_of_ne hle heq)

/-! ### resolveWithinSandbox keeps the kernel inside the resolved root -/

theorem evalSymlinks_spec {fs : FS} {fuel : Nat} {p l : List Seg} (h : evalSymlinks fs fuel p = some l) :
    walk fs fuel [] p = some l ∧ (look fs l).isSome = true := by
  unfold evalSymlinks at h
  cases hw : walk fs fuel [] p with
  | none => simp [hw] at h
  | some l' =>
    simp only [hw] at h
    by_cases hx : (look fs l').isSome = true
    · rw [if_pos hx] at h
      injection h with h
      subst h
      exact ⟨rfl, hx⟩
    · rw [if_neg hx] at h
      cases h

/-- clamping to the root: the kernel resolves the root path to the resolved root -/
theorem root_contained {fs : FS} {fuel : Nat} {r R L : List Seg}
    (hr : evalSymlinks fs fuel r = some R) (hk : Walk fs [] r L) : R <+: L := by
  have := (walk_sound fs _ _ _ _ (evalSymlinks_spec hr).1).det hk
  subst this
  exact List.prefix_refl _

theorem resolveWithin_contained {fs : FS} {fuel : Nat} {cand r R L : List Seg}
    (hplain : ∀ s ∈ cand, plain s = true)
    (hr : evalSymlinks fs fuel r = some R)
    (hk : Walk fs [] (resolveWithin fs fuel cand r) L) : R <+: L := by
  unfold resolveWithin at hk
  simp only [hr] at hk
  generalize hkdef : findExisting fs fuel cand cand.length = k at hk
  cases he : evalSymlinks fs fuel (cand.take k) with
  | none => simp only [he] at hk; exact root_contained hr hk
  | some res =>
    simp only [he] at hk
    by_cases hpre : R.isPrefixOf res = true
    · rw [if_pos hpre] at hk
      have hRres : R <+: res := List.isPrefixOf_iff_prefix.mp hpre
      obtain ⟨hw, hex⟩ := evalSymlinks_spec he
      have hloc := (walk_sound fs _ _ _ _ hw).physLoc Phys.root
      rcases hloc with hphys | ⟨d, s, hres, hd, hp, hmf⟩
      · -- the existing prefix resolves to a directory chain
        have h2 := Walk.through hphys _ _ hk
        by_cases hlt : k < cand.length
        · have hdrop := List.drop_eq_getElem_cons hlt
          rw [hdrop] at h2
          have hcp : plain cand[k] = true := hplain _ (List.getElem_mem hlt)
          have hnext := findExisting_next fs fuel cand cand.length (by rw [hkdef]; exact hlt)
          rw [hkdef, List.take_succ_eq_append_getElem hlt] at hnext
          have hmiss : look fs (res ++ [cand[k]]) = none := by
            unfold lstatOk at hnext
            simp only [List.getLast?_concat, List.dropLast_concat, hw, hphys.look_dir] at hnext
            simpa using hnext
          generalize cand[k] = c at h2 hcp hmiss
          cases h2 with
          | skip hs _ => simp [not_plain_dots hs] at hcp
          | up _ => simp [not_plain_dotdot] at hcp
          | missing _ _ _ => exact hRres.trans (List.prefix_append _ _)
          | file _ hl' _ => simp [hmiss] at hl'
          | dir _ hl' _ => simp [hmiss] at hl'
          | link _ hl' _ => simp [hmiss] at hl'
        · have : cand.drop k = [] := List.drop_eq_nil_of_le (Nat.le_of_not_lt hlt)
          rw [this] at h2
          cases h2
          exact hRres
      · -- the existing prefix resolves to a file (a missing location is excluded by EvalSymlinks)
        have hfile : look fs (d ++ [s]) = some Kind.file := by
          rcases hmf with hm | hf
          · rw [hm] at hex; cases hex
          · rw [← hres]; exact hf
        rw [hres, List.append_assoc] at hk
        have h2 := Walk.through hd _ _ hk
        simp only [List.singleton_append] at h2
        rw [hres] at hRres
        cases h2 with
        | skip hs _ => simp [not_plain_dots hs] at hp
        | up _ => simp [not_plain_dotdot] at hp
        | missing _ hl' _ => simp [hfile] at hl'
        | file _ _ _ => exact hRres
        | dir _ hl' _ => simp [hfile] at hl'
        | link _ hl' _ => simp [hfile] at hl'
    · rw [if_neg hpre] at hk
      exact root_contained hr hk

/-! ### filepath.Clean of a rooted path leaves only entry names -/

theorem cleanAux_abs_plain : ∀ (segs st : List Seg), (∀ s ∈ st, plain s = true) →
    ∀ s ∈ cleanAux true segs st, plain s = true := by
  intro segs
  induction segs with
  | nil => intro st hst s hs; simp [cleanAux] at hs; exact hst s hs
  | cons x rest ih =>
    intro st hst
    simp only [cleanAux]
    by_cases hd : (x == "" || x == ".") = true
    · rw [if_pos hd]; exact ih st hst
    · rw [if_neg hd]
      by_cases hu : (x == "..") = true
      · rw [if_pos hu]
        cases st with
        | nil => simpa using ih [] (by intro s hs; cases hs)
        | cons t st' =>
          have ht : plain t = true := hst t (List.mem_cons_self)
          have htn : (t == "..") = false := by
            have := (plain_iff.mp ht).2.2
            simpa using this
          simp only [htn]
          exact ih st' (fun s hs => hst s (List.mem_cons_of_mem _ hs))
      · rw [if_neg hu]
        apply ih
        intro s hs
        rcases List.mem_cons.mp hs with h | h
        · subst h
          simp only [Bool.or_eq_true, beq_iff_eq, not_or] at hd
          simp only [beq_iff_eq] at hu
          exact plain_iff.mpr ⟨hd.1, hd.2, hu⟩
        · exact hst s h

theorem clean_abs_plain (segs : List Seg) : ∀ s ∈ clean true segs, plain s = true :=
  cleanAux_abs_plain segs [] (by intro s hs; cases hs)

/-! ## C26: the theorems -/

/-- **Containment.**  For EVERY file system `fs` (any arrangement of directories, files and symlinks —
escaping, dangling, looping, chained — inside or outside the root), every absolute sandbox root
that Go can resolve (`EvalSymlinks(root) = R`), every spelling of the requested path (`pAbs`,
`pSegs`: relative, absolute, "..", repeated separators, anything) and every fuel: whatever physical
location `L` the kernel acts on when given `SandboxJoin(root, path)` — an existing node or a
name it would create — lies at or below the physical root `R`. -/
theorem C26_contained (fs : FS) (fuel : Nat) (rSegs : List Seg) (pAbs : Bool) (pSegs : List Seg)
    (R L : List Seg)
    (hroot : evalSymlinks fs fuel (clean true rSegs) = some R)
    (hk : Walk fs [] (sandboxJoin fs fuel true rSegs pAbs pSegs) L) :
    R <+: L := by
  unfold sandboxJoin sandboxJoinWith at hk
  simp only [if_true] at hk
  split at hk
  · rename_i hw
    have hp : pAbs = true := by
      unfold within at hw
      simp only [Bool.and_eq_true, beq_iff_eq] at hw
      exact hw.1.1
    subst hp
    exact resolveWithin_contained (clean_abs_plain _) hroot hk
  · split at hk
    · exact resolveWithin_contained (clean_abs_plain _) hroot hk
    · exact root_contained hroot hk

/-- the resolved root used in `C26_contained` is where the kernel itself finds the root -/
theorem C26_root_is_kernel_root (fs : FS) (fuel : Nat) (r R : List Seg)
    (h : evalSymlinks fs fuel r = some R) : Walk fs [] r R :=
  walk_sound fs _ _ _ _ (evalSymlinks_spec h).1

theorem within_self (a : Bool) (r : List Seg) : within a r a r = true := by
  simp [within]

/-- **String containment.**  When the root cannot be resolved (it does not exist yet) or is relative,
`SandboxJoin` is its pure-string self, and the result is lexically the root or below it
(`withinRoot(result, Clean(root))`), for every spelling of the path. -/
theorem C26_string_contained (fs : FS) (fuel : Nat) (rAbs : Bool) (rSegs : List Seg) (pAbs : Bool)
    (pSegs : List Seg)
    (h : rAbs = false ∨ evalSymlinks fs fuel (clean rAbs rSegs) = none) :
    within rAbs (sandboxJoin fs fuel rAbs rSegs pAbs pSegs) rAbs (clean rAbs rSegs) = true := by
  have hpa : ∀ {a b : Bool} {x y : List Seg}, within a x b y = true → a = b := by
    intro a b x y hw
    unfold within at hw
    simp only [Bool.and_eq_true, beq_iff_eq] at hw
    exact hw.1.1
  cases rAbs with
  | false =>
    unfold sandboxJoin sandboxJoinWith
    simp only [Bool.false_eq_true, if_false]
    split
    · rename_i hw
      have := hpa hw
      subst this
      exact hw
    · split
      · assumption
      · exact within_self _ _
  | true =>
    have he : evalSymlinks fs fuel (clean true rSegs) = none := by
      rcases h with h | h
      · cases h
      · exact h
    have hrw : ∀ c, resolveWithin fs fuel c (clean true rSegs) = c := by
      intro c; unfold resolveWithin; rw [he]
    unfold sandboxJoin sandboxJoinWith
    simp only [if_true, hrw]
    split
    · rename_i hw
      have := hpa hw
      subst this
      exact hw
    · split
      · assumption
      · exact within_self _ _

/-! ### the unpatched code: a dangling symlink inside the root escapes -/

/-- "/sb" is the root; "/sb/esc" is a symlink to "/out/new", which does not exist; "/out" does -/
def cexFS : FS := fun p =>
  if p = ["sb"] then some Kind.dir
  else if p = ["out"] then some Kind.dir
  else if p = ["sb", "esc"] then some (Kind.link true ["", "out", "new"])
  else none

/-- **Counterexample for the unpatched resolveWithinSandbox** (`return candidate` when
EvalSymlinks of the existing prefix fails): `SandboxJoin("/sb", "esc")` = "/sb/esc", and a creating
open of that path makes the kernel create "/out/new" — outside the root "/sb". -/
theorem C26_dangling_counterexample :
    sandboxJoinOld cexFS 50 true ["", "sb"] false ["esc"] = ["sb", "esc"] ∧
    evalSymlinks cexFS 50 (clean true ["", "sb"]) = some ["sb"] ∧
    Walk cexFS [] ["sb", "esc"] ["out", "new"] ∧ ¬ (["sb"] <+: ["out", "new"]) := by
  refine ⟨by decide, by decide, ?_, by decide⟩
  refine Walk.dir (by decide) (by decide) ?_
  refine Walk.link (a := true) (t := ["", "out", "new"]) (by decide) (by decide) ?_
  refine Walk.skip (Or.inl rfl) ?_
  refine Walk.dir (by decide) (by decide) ?_
  exact Walk.missing (by decide) (by decide) (by intro x hx; cases hx)

/-- the patched code clamps the same request to the root -/
example : sandboxJoin cexFS 50 true ["", "sb"] false ["esc"] = ["sb"] := by decide

/-- **Partial theorem for the unpatched code**: with the class "the existing prefix of the candidate
does not resolve" (dangling link, loop) excluded — i.e. whenever the old and the new function agree —
the old result is contained as well. -/
theorem C26_contained_old_partial (fs : FS) (fuel : Nat) (rSegs : List Seg) (pAbs : Bool) (pSegs : List Seg)
    (R L : List Seg)
    (hroot : evalSymlinks fs fuel (clean true rSegs) = some R)
    (hclass : sandboxJoinOld fs fuel true rSegs pAbs pSegs = sandboxJoin fs fuel true rSegs pAbs pSegs)
    (hk : Walk fs [] (sandboxJoinOld fs fuel true rSegs pAbs pSegs) L) :
    R <+: L := by
  rw [hclass] at hk
  exact C26_contained fs fuel rSegs pAbs pSegs R L hroot hk

/-! ### non-vacuity: the hypotheses of `C26_contained` are met by interesting instances -/

/-- root "/sb" with a directory "d", a symlink "l" to "/out" (outside), "/out/c" a file -/
def exFS : FS := fun p =>
  if p = ["sb"] then some Kind.dir
  else if p = ["sb", "d"] then some Kind.dir
  else if p = ["out"] then some Kind.dir
  else if p = ["out", "c"] then some Kind.file
  else if p = ["sb", "l"] then some (Kind.link true ["", "out"])
  else if p = ["sb", "d", "up"] then some (Kind.link false ["..", "..", "out", "c"])
  else none

example : evalSymlinks exFS 50 (clean true ["", "sb"]) = some ["sb"] := by decide
-- through an escaping symlink: clamped to the root
example : sandboxJoin exFS 50 true ["", "sb"] false ["l", "c"] = ["sb"] := by decide
-- through a relative symlink climbing out with "..": clamped
example : sandboxJoin exFS 50 true ["", "sb"] false ["d", ".", "", "up"] = ["sb"] := by decide
-- ".." spelling that stays inside, new file in an existing directory: kept, and the kernel creates it there
example : sandboxJoin exFS 50 true ["", "sb"] false ["d", "..", "d", "new"] = ["sb", "d", "new"] := by decide
example : Walk exFS [] ["sb", "d", "new"] ["sb", "d", "new"] :=
  Walk.dir (by decide) (by decide) (Walk.dir (by decide) (by decide)
    (Walk.missing (by decide) (by decide) (by intro x hx; cases hx)))
-- absolute path elsewhere: re-rooted under the sandbox
example : sandboxJoin exFS 50 true ["", "sb"] true ["", "out", "c"] = ["sb", "out", "c"] := by decide
-- lexical escape: clamped
example : sandboxJoin exFS 50 true ["", "sb"] false ["..", "out", "c"] = ["sb"] := by decide

/-! ### the routing table -/

/-- what the generated obligation `allRouted table = true` (by `decide`) means -/
theorem C26_all_routed_meaning (tbl : List Route) (h : allRouted tbl = true) :
    ∀ e ∈ tbl, e.routed = true ∨ e.fn ∈ knownUnrouted := by
  intro e he
  have := List.all_eq_true.mp h e he
  simpa using this

end EgoVerif.C26
