import EgoVerif.Common.Drv
import EgoVerif.C26.Model
/- line protocol (state = the current file-system layout):
   `fs <hex layout>`            → `ok <n entries>`   layout = entries joined by ';':
                                   `D/abs/path`  `F/abs/path`  `L/abs/path>target`
   `sj <hex root> <hex path>`   → hex of SandboxJoin(root, path) on the current layout
   `sjold <hex root> <hex path>`→ same for the unpatched resolveWithinSandbox
   `wr <hex cleanPath> <hex root>` → `1` | `0`       withinRoot
   `clean <hex path>`           → hex of filepath.Clean(path) -/
namespace EgoVerif.C26

def driverFuel : Nat := 3000

/-- string → (abs, raw segments) -/
def parsePath (s : String) : Bool × List Seg :=
  (s.startsWith "/", s.splitOn "/")

def render (abs : Bool) (segs : List Seg) : String :=
  if abs then "/" ++ "/".intercalate segs
  else if segs.isEmpty then "." else "/".intercalate segs

def physOf (s : String) : List Seg := (s.splitOn "/").filter (· ≠ "")

def parseEntry (e : String) : Option (List Seg × Kind) :=
  match e.toList with
  | 'D' :: r => some (physOf (String.ofList r), Kind.dir)
  | 'F' :: r => some (physOf (String.ofList r), Kind.file)
  | 'L' :: r =>
    match (String.ofList r).splitOn ">" with
    | [p, t] => some (physOf p, Kind.link (t.startsWith "/") (t.splitOn "/"))
    | _ => none
  | _ => none

def parseLayout (s : String) : List (List Seg × Kind) :=
  (s.splitOn ";").filterMap parseEntry

def fsOf (tbl : List (List Seg × Kind)) : FS := fun p => tbl.lookup p

def doJoin (old : Bool) (tbl : List (List Seg × Kind)) (root path : String) : String :=
  if root.isEmpty then path
  else
    let (ra, rs) := parsePath root
    let (pa, ps) := parsePath path
    let fs := fsOf tbl
    let out := if old then sandboxJoinOld fs driverFuel ra rs pa ps else sandboxJoin fs driverFuel ra rs pa ps
    render ra out

def handle (tbl : List (List Seg × Kind)) (line : String) : List (List Seg × Kind) × String :=
  match fields line with
  | ["fs", h] =>
    match stringOfHex h with
    | some s => let t := parseLayout s; (t, s!"ok {t.length}")
    | none => (tbl, "bad-input")
  | ["sj", r, p] =>
    match stringOfHex r, stringOfHex p with
    | some r, some p => (tbl, hexOfString (doJoin false tbl r p))
    | _, _ => (tbl, "bad-input")
  | ["sjold", r, p] =>
    match stringOfHex r, stringOfHex p with
    | some r, some p => (tbl, hexOfString (doJoin true tbl r p))
    | _, _ => (tbl, "bad-input")
  | ["wr", p, r] =>
    match stringOfHex p, stringOfHex r with
    | some p, some r =>
      let (pa, ps) := parsePath p
      let (ra, rs) := parsePath r
      (tbl, if within pa (clean pa ps) ra (clean ra rs) then "1" else "0")
    | _, _ => (tbl, "bad-input")
  | ["clean", p] =>
    match stringOfHex p with
    | some p => let (pa, ps) := parsePath p; (tbl, hexOfString (render pa (clean pa ps)))
    | none => (tbl, "bad-input")
  | _ => (tbl, "bad-op")

def drv : Drv := { σ := List (List Seg × Kind), init := [], step := handle }

end EgoVerif.C26
