import EgoVerif.Common.Drv
import EgoVerif.C03.Driver
import EgoVerif.C04.Model
/-
line protocol (state = the dispatch sets extracted from math.go, sent first, as in C03):
  D <add|sub|mul|div|mod|neg|incr> <k1,k2,…>            → ok
  arg <mode> <validated 0|1> <kind|iface> <A>             → ok <kind> <n> | wrapped <kind> <n> | float | nil | err <e>
  ret <mode> <kind|iface> <A>                             → …
  retnil <mode> <mapOrSlice 0|1>                          → nil | err <e>
  retref <mode> <arr|map|struct|ptr> <vIsT 0|1> <tIsV 0|1> → same | rebuilt | err <e>
  sto <mode> <kind> <A>                                   → ok <kind> <n> | float | err <e>      (storeOp)
  prog <mode> <tok,tok,…>                                 → out <kind>:<n> … | stop err | stop outside | stop unknownVar
operands as in C03:  v:<kind>:<n>   c:<kind>:<n>   f:<w>:<0|1>
program tokens (prefix form, statements one after the other):
  expr  := v<x> | l<n> | f<w>:<0|1> | t<kind>:<n> | b<op>,expr,expr | n,expr
  stmt  := D<x>,expr | A<x>,expr | O<x>,<op>,expr | I<x>,expr(atom) | C<x>,<validated>,<kp>,<kr>,expr(body),expr(arg) | P,expr | R
-/
namespace EgoVerif.C04
open EgoVerif.C03

def BErr.name : BErr → String
  | .argumentType => "argumentType" | .typeMismatch => "typeMismatch" | .lossOfPrecision => "lossOfPrecision"
  | .invalidType => "invalidType" | .arith e => e.name

def BRes.show : BRes → String
  | .ok k n => s!"ok {k.name} {n}"
  | .wrapped k n => s!"wrapped {k.name} {n}"
  | .nil => "nil"
  | .float => "float"
  | .err e => s!"err {e.name}"

def RefRes.show : RefRes → String
  | .same => "same"
  | .rebuilt => "rebuilt"
  | .err e => s!"err {e.name}"

def parseRefKind : String → Option RefKind
  | "arr" => some .arr | "map" => some .map | "struct" => some .struct | "ptr" => some .ptr
  | _ => none

def dropFirst (s : String) : String := String.ofList (s.toList.drop 1)

def parseAtomTok (t : String) : Option Atom :=
  match t.toList with
  | 'v' :: r => (String.ofList r).toNat?.map Atom.v
  | 'l' :: r => (String.ofList r).toInt?.map Atom.lit
  | 'f' :: r =>
    match (String.ofList r).splitOn ":" with
    | [w, fr] => w.toNat?.map fun w => Atom.flit w (fr == "1")
    | _ => none
  | 't' :: r =>
    match (String.ofList r).splitOn ":" with
    | [k, n] => do let k ← Kind.parse k; let n ← n.toInt?; pure (Atom.typed k n)
    | _ => none
  | _ => none

/-- prefix expression parser with fuel -/
def parseE : Nat → List String → Option (Expr × List String)
  | 0, _ => none
  | _, [] => none
  | fuel + 1, t :: rest =>
    if t == "n" then
      match parseE fuel rest with
      | some (e, r) => some (.neg e, r)
      | none => none
    else if t.startsWith "b" then
      match parseOp (dropFirst t) with
      | none => none
      | some op =>
        match parseE fuel rest with
        | none => none
        | some (l, r1) =>
          match parseE fuel r1 with
          | none => none
          | some (r, r2) => some (.bin op l r, r2)
    else (parseAtomTok t).map fun a => (.atom a, rest)

def parseStmts : Nat → List String → Option (List Stmt)
  | 0, _ => none
  | _, [] => some []
  | fuel + 1, t :: rest =>
    let n := rest.length + 1
    let x? := (dropFirst t).toNat?
    match t.toList.head? with
    | some 'D' => do
      let x ← x?; let (e, r) ← parseE n rest; let tl ← parseStmts fuel r; pure (.declare x e :: tl)
    | some 'A' => do
      let x ← x?; let (e, r) ← parseE n rest; let tl ← parseStmts fuel r; pure (.assign x e :: tl)
    | some 'O' =>
      match rest with
      | o :: rest2 => do
        let x ← x?; let op ← parseOp o; let (e, r) ← parseE n rest2; let tl ← parseStmts fuel r
        pure (.opAssign x op e :: tl)
      | [] => none
    | some 'I' =>
      match rest with
      | a :: r => do let x ← x?; let a ← parseAtomTok a; let tl ← parseStmts fuel r; pure (.incr x a :: tl)
      | [] => none
    | some 'C' =>
      match rest with
      | v :: kp :: kr :: rest2 => do
        let x ← x?; let kp ← Kind.parse kp; let kr ← Kind.parse kr
        let (body, r1) ← parseE n rest2; let (arg, r2) ← parseE n r1; let tl ← parseStmts fuel r2
        pure (.call x { validated := v == "1", kp := kp, kr := kr, body := body } arg :: tl)
      | _ => none
    | some 'P' => do let (e, r) ← parseE n rest; let tl ← parseStmts fuel r; pure (.print e :: tl)
    | some 'R' => do let tl ← parseStmts fuel rest; pure (.ret :: tl)
    | _ => none

def showOutcome : Outcome → String
  | .finished s => " ".intercalate ("out" :: s.out.map fun (k, n) => s!"{k.name}:{n}")
  | .stopped (.err _) => "stop err"
  | .stopped .outside => "stop outside"
  | .stopped .unknownVar => "stop unknownVar"

def step' (D : Dispatch) (line : String) : Dispatch × String :=
  match fields line with
  | ["D", which, ks] =>
    let kinds := (ks.splitOn ",").filterMap Kind.parse
    match setD D which kinds with
    | some D' => (D', "ok")
    | none => (D, "bad-input")
  | ["arg", m, v, t, a] =>
    match parseMode m, parseOperand a with
    | some m, some a =>
      if t == "iface" then (D, (argIface m a).show)
      else match Kind.parse t with
        | some k => (D, (argK m (v == "1") k a).show)
        | none => (D, "bad-input")
    | _, _ => (D, "bad-input")
  | ["ret", m, t, a] =>
    match parseMode m, parseOperand a with
    | some m, some a =>
      if t == "iface" then (D, (retIface m a).show)
      else match Kind.parse t with
        | some k => (D, (retK m k a).show)
        | none => (D, "bad-input")
    | _, _ => (D, "bad-input")
  | ["retnil", m, b] =>
    match parseMode m with
    | some m => (D, (retNil m (b == "1")).show)
    | none => (D, "bad-input")
  | ["retref", m, k, a, b] =>
    match parseMode m, parseRefKind k with
    | some m, some k => (D, (retRef m k (a == "1") (b == "1")).show)
    | _, _ => (D, "bad-input")
  | ["sto", m, k, a] =>
    match parseMode m, Kind.parse k, parseOperand a with
    | some m, some k, some a => (D, (storeOp m k a).show)
    | _, _, _ => (D, "bad-input")
  | ["prog", m, toks] =>
    match parseMode m with
    | none => (D, "bad-input")
    | some m =>
      let ts := toks.splitOn ","
      match parseStmts (ts.length + 1) ts with
      | some p => (D, showOutcome (exec D m p State.init))
      | none => (D, "bad-input")
  | _ => (D, "bad-op")

def drv : Drv := { σ := Dispatch, init := emptyD, step := step' }

end EgoVerif.C04
