import EgoVerif.C04.Model
import EgoVerif.C03.Props
/-
C04 — property theorems: every coercion boundary is MONOTONE in the type mode — whenever the
strict-mode operation succeeds, the relaxed-mode operation succeeds with the same value and the
same type — for ALL operands; lifted by induction over statement lists to whole (straight-line)
programs: a program that finishes in strict mode finishes in relaxed mode in the same state with
the same output.  The dispatch sets `D` are arbitrary (no completeness hypothesis is needed:
both modes consult the same type switch).
-/
namespace EgoVerif.C04
open EgoVerif.C03

def resErr : Res → Bool
  | .err _ => true
  | _ => false

/-! ## per-operation monotonicity -/

theorem lossless_ok {k : Kind} {n c : Int} (h : coerceIntLossless k n = .ok c) :
    c = n ∧ coerceInt k n = n := by
  unfold coerceIntLossless at h
  split at h
  · rename_i hw
    simp only [Except.ok.injEq] at h
    exact ⟨h.symm, by simpa [coerceInt] using hw⟩
  · cases h

theorem inRange_wrap {k : Kind} {n : Int} (h : inRange k n = true) : coerceInt k n = n := by
  simpa [inRange, coerceInt] using h

/-- data.Normalize: a strict success is a relaxed success with the same operands -/
theorem normalize_mono (a b : Operand) (r : Norm) (h : normalize a b true = r) (hne : ∀ e, r ≠ .err e) :
    normalize a b false = r := by
  subst h
  cases a with
  | var kv nv =>
    cases b with
    | var k2 n2 => rfl
    | const kc nc =>
      simp only [normalize] at hne ⊢
      by_cases hk : (kc == kv) = true
      · simp [hk]
      · simp only [hk, Bool.false_eq_true, if_false, if_true] at hne ⊢
        cases hl : coerceIntLossless kv nc with
        | ok c => obtain ⟨rfl, hw⟩ := lossless_ok hl; simp [hw]
        | error e => simp [hl] at hne
    | constFlt w fr =>
      simp only [normalize] at hne ⊢
      by_cases hc : (fr || !inRange kv w) = true
      · simp [hc] at hne
      · simp [hc]
  | const kc nc =>
    cases b with
    | var kv nv =>
      simp only [normalize] at hne ⊢
      by_cases hk : (kc == kv) = true
      · simp [hk]
      · simp only [hk, Bool.false_eq_true, if_false, if_true] at hne ⊢
        cases hl : coerceIntLossless kv nc with
        | ok c => obtain ⟨rfl, hw⟩ := lossless_ok hl; simp [hw]
        | error e => simp [hl] at hne
    | const k2 n2 => rfl
    | constFlt w fr => rfl
  | constFlt w fr =>
    cases b with
    | var kv nv =>
      simp only [normalize] at hne ⊢
      by_cases hc : (fr || !inRange kv w) = true
      · simp [hc] at hne
      · simp [hc]
    | const k2 n2 => rfl
    | constFlt w2 fr2 => rfl

/-- **expression boundary.** add/sub/mul/div/mod: whatever strict mode computes without error,
relaxed mode computes identically (value AND type) — all operands, all operators, any dispatch sets. -/
theorem C04_mono_binop (D : Dispatch) (op : Op) (a b : Operand) (r : Res)
    (h : binop D true op a b = r) (hok : resErr r = false) : binop D false op a b = r := by
  subst h
  simp only [binop] at hok ⊢
  by_cases hg : (!(a.isConst || b.isConst) && true && a.kindOrd != b.kindOrd) = true
  · rw [if_pos hg] at hok; simp [resErr] at hok
  · have hg' : ¬ ((!(a.isConst || b.isConst) && false && a.kindOrd != b.kindOrd) = true) := by simp
    rw [if_neg hg] at hok
    rw [if_neg hg', if_neg hg]
    cases hn : normalize a b true with
    | err e => rw [hn] at hok; simp [resErr] at hok
    | floats => rw [normalize_mono a b _ hn (by simp)]
    | ints k x y => rw [normalize_mono a b _ hn (by simp)]

/-- the same statement in the `.ok` form used in the property text -/
theorem C04_mono_binop_ok (D : Dispatch) (op : Op) (a b : Operand) (k : Kind) (n : Int)
    (h : binop D true op a b = .ok k n) : binop D false op a b = .ok k n :=
  C04_mono_binop D op a b _ h rfl

/-- unary minus does not consult the type mode at all (negateByteCode) -/
theorem C04_mono_negate (D : Dispatch) (a : Operand) : ∀ _m₁ _m₂ : Mode, negate D a = negate D a :=
  fun _ _ => rfl

/-- **assignment boundary, computed value** (Context.checkTypeCore, non-constant) -/
theorem C04_mono_store (kx : Kind) (v r : Res) (h : store .strict kx v = r) (hok : resErr r = false) :
    store .relaxed kx v = r := by
  subst h
  cases v with
  | ok k n =>
    simp only [store] at hok ⊢
    by_cases hk : (k == kx) = true
    · simp [hk]
    · simp [hk, resErr] at hok
  | float => rfl
  | err e => rfl

/-- incrementByteCode as a function of the mode (definitionally C03's `increment`) -/
def incrCore (D : Dispatch) (m : Mode) (kx : Kind) (nx : Int) (c : Operand) : Res :=
  if m.isStrict && !c.isConst && (Operand.var kx nx).kindOrd != c.kindOrd then .err .typeMismatch
  else
    match normalize (.var kx nx) c m.isStrict with
    | .err e => .err e
    | .floats => .float
    | .ints k x y => if D.incr.contains k then store m kx (.ok k (wrap k (x + y))) else .err .invalidType

theorem increment_core (D : Dispatch) (m : Mode) (kx : Kind) (nx : Int) (c : Operand) :
    increment D m kx nx c = incrCore D m kx nx c := rfl

/-- **fused Increment.** -/
theorem C04_mono_increment (D : Dispatch) (kx : Kind) (nx : Int) (c : Operand) (r : Res)
    (h : increment D .strict kx nx c = r) (hok : resErr r = false) : increment D .relaxed kx nx c = r := by
  subst h
  rw [increment_core] at hok ⊢
  rw [increment_core]
  simp only [incrCore, Mode.isStrict, Bool.true_and, Bool.false_and, Bool.false_eq_true, if_false] at hok ⊢
  cases hg : (!c.isConst && (Operand.var kx nx).kindOrd != c.kindOrd)
  · simp only [hg, Bool.false_eq_true, if_false] at hok ⊢
    cases hn : normalize (.var kx nx) c true with
    | err e => rw [hn] at hok; simp [resErr] at hok
    | floats => rw [normalize_mono _ _ _ hn (by simp)]
    | ints k x y =>
      rw [hn] at hok
      rw [normalize_mono _ _ _ hn (by simp)]
      by_cases hc : D.incr.contains k = true
      · simp only [hc, if_true] at hok ⊢
        exact C04_mono_store kx _ _ rfl hok
      · have hm : ¬ k ∈ D.incr := by simpa using hc
        simp [hc, hm]
  · simp [hg, resErr] at hok

/-- **assignment boundary, constants included** -/
theorem C04_mono_storeOp (kx : Kind) (o : Operand) (r : Res) (h : storeOp .strict kx o = r)
    (hok : resErr r = false) : storeOp .relaxed kx o = r := by
  cases o with
  | var k n => exact C04_mono_store kx (.ok k n) r h hok
  | const k n =>
    subst h
    simp only [storeOp] at hok ⊢
    by_cases hk : (k == kx) = true
    · simp [hk]
    · simp only [hk, Bool.false_eq_true, if_false] at hok ⊢
      cases hl : coerceIntLossless kx n with
      | ok c => obtain ⟨rfl, hw⟩ := lossless_ok hl; simp [hw]
      | error e => simp [hl, resErr] at hok
  | constFlt w fr =>
    subst h
    simp only [storeOp] at hok ⊢
    by_cases hc : (fr || !inRange kx w) = true
    · simp [hc, resErr] at hok
    · simp only [hc, Bool.false_eq_true, if_false]
      have : inRange kx w = true := by
        cases hi : inRange kx w <;> simp [hi] at hc ⊢
      rw [inRange_wrap this]

/-- **argument boundary** (integer-kind parameter; callee validated or not) -/
theorem C04_mono_arg (validated : Bool) (kp : Kind) (o : Operand) (r : BRes)
    (h : argK .strict validated kp o = r) (hok : r.isErr = false) : argK .relaxed validated kp o = r := by
  subst h
  unfold argK at hok ⊢
  have hv : validateArg .relaxed validated kp o = true := by simp [validateArg, Mode.isStrict]
  rw [hv]; simp only [if_true]
  by_cases hs : validateArg .strict validated kp o = true
  · simp only [hs, if_true] at hok ⊢
    cases o with
    | var k n =>
      simp only [fetchArg] at hok ⊢
      by_cases hk : (k == kp) = true
      · simp [hk]
      · simp [hk, BRes.isErr] at hok
    | const k n =>
      simp only [fetchArg] at hok ⊢
      by_cases hk : (k == kp) = true
      · simp [hk]
      · simp only [hk, Bool.false_eq_true, if_false] at hok ⊢
        cases hnum : numericType kp with
        | false => simp [hnum, BRes.isErr] at hok
        | true =>
          simp only [hnum, Bool.not_true, Bool.false_eq_true, if_false] at hok ⊢
          cases hl : coerceIntLossless kp n with
          | ok c => obtain ⟨rfl, hw⟩ := lossless_ok hl; simp [hw]
          | error e => simp [hl, BRes.isErr] at hok
    | constFlt w fr =>
      simp only [fetchArg] at hok ⊢
      cases hnum : numericType kp with
      | false => simp [hnum, BRes.isErr] at hok
      | true =>
        simp only [hnum, Bool.not_true, Bool.false_eq_true, if_false] at hok ⊢
        by_cases hc : (fr || !inRange kp w) = true
        · simp [hc, BRes.isErr] at hok
        · simp only [hc, Bool.false_eq_true, if_false]
          have : inRange kp w = true := by
            cases hi : inRange kp w <;> simp [hi] at hc ⊢
          rw [inRange_wrap this]
  · simp [hs, BRes.isErr] at hok

/-- **return boundary** (integer-kind result type) -/
theorem C04_mono_ret (kr : Kind) (o : Operand) (r : BRes)
    (h : retK .strict kr o = r) (hok : r.isErr = false) : retK .relaxed kr o = r := by
  subst h
  cases o with
  | var k n =>
    simp only [retK] at hok ⊢
    by_cases hk : (k == kr) = true
    · simp [hk]
    · simp [hk, BRes.isErr] at hok
  | const k n =>
    simp only [retK] at hok ⊢
    cases hnum : numericType kr with
    | false => simp [hnum]
    | true =>
      simp only [hnum, if_true] at hok ⊢
      by_cases hk : (k == kr) = true
      · simp [hk]
      · simp only [hk, Bool.false_eq_true, if_false] at hok ⊢
        cases hl : coerceIntLossless kr n with
        | ok c => obtain ⟨rfl, hw⟩ := lossless_ok hl; simp [hw]
        | error e => simp [hl, BRes.isErr] at hok
  | constFlt w fr =>
    simp only [retK] at hok ⊢
    cases hnum : numericType kr with
    | false => simp [hnum]
    | true =>
      simp only [hnum, if_true] at hok ⊢
      by_cases hc : (fr || !inRange kr w) = true
      · simp [hc, BRes.isErr] at hok
      · simp only [hc, Bool.false_eq_true, if_false]
        have : inRange kr w = true := by
          cases hi : inRange kr w <;> simp [hi] at hc ⊢
        rw [inRange_wrap this]

/-! ## interface / nil boundaries -/

/-- **known finding (not fixed).** An `interface{}` parameter is NOT monotone: strict mode binds the
    bare value, relaxed mode binds a data.Interface wrapper (observable: `fmt.Println(x)` prints
    `5` in strict mode and `interface{ int 5 }` in relaxed mode). -/
theorem C04_argIface_counterexample :
    argIface .strict (.var .int 5) = .ok .int 5 ∧ argIface .relaxed (.var .int 5) = .wrapped .int 5 := by
  decide

/-- … and that is the only way the interface parameter differs: the carried value and kind agree -/
def BRes.payload : BRes → Option (Kind × Int)
  | .ok k n => some (k, n)
  | .wrapped k n => some (k, n)
  | _ => none

theorem C04_argIface_partial (o : Operand) :
    (argIface .strict o).payload = (argIface .relaxed o).payload ∧
    ((argIface .strict o).isErr = false ∧ (argIface .relaxed o).isErr = false) := by
  cases o <;> simp [argIface, BRes.payload, BRes.isErr]

theorem C04_mono_retIface (o : Operand) (r : BRes) (h : retIface .strict o = r) : retIface .relaxed o = r := by
  subst h; cases o <;> rfl

theorem C04_mono_retNil (b : Bool) (r : BRes) (h : retNil .strict b = r) : retNil .relaxed b = r := h

/-- the defect before fixes/C04.patch: `func f() map[string]int { return nil }` ran in strict mode
    and failed in relaxed mode -/
theorem C04_prefix_retNil_counterexample :
    retNilPre .strict true = .nil ∧ retNilPre .relaxed true = .err .invalidType := by decide

/-- reference values at the return boundary: when `IsType` answers the same in both directions for the
    operand (it does for every container the harness builds; the hypothesis is what the harness measures
    with the real `IsType`), a container that strict mode hands back AS ITSELF is handed back as itself in
    relaxed and dynamic mode too — so aliasing between the callee's name and the caller's name is the same
    in every type mode. -/
theorem C04_mono_retRef (m : Mode) (k : RefKind) (vIsT tIsV : Bool) (hsym : vIsT = true → tIsV = true)
    (r : RefRes) (h : retRef .strict k vIsT tIsV = r) (hok : ∀ e, r ≠ .err e) : retRef m k vIsT tIsV = r := by
  subst h
  cases vIsT with
  | false => exact absurd rfl (hok .typeMismatch)
  | true =>
    have ht : tIsV = true := hsym rfl
    subst ht
    cases m <;> cases k <;> rfl

/-- non-vacuity: a matching array is accepted by strict mode and stays the same object in relaxed mode -/
example : retRef .strict .arr true true = .same ∧ retRef .relaxed .arr true true = .same := by decide

/-- without the symmetry hypothesis the statement is false in the model: a value whose type matches the
    declared type in one direction only would be accepted by strict mode and rejected by relaxed mode
    (no such pair of types is known; the harness looks for one on every run) -/
theorem C04_retRef_asymmetric_counterexample :
    retRef .strict .map true false = .same ∧ retRef .relaxed .map true false = .err .invalidType := by decide

/-! ## lifting to programs -/

theorem ofRes_ok {r : Res} {o : Operand} (h : ofRes r = .ok o) : resErr r = false := by
  cases r <;> simp [ofRes, resErr] at h ⊢

theorem ofBRes_ok {r : BRes} {v : Kind × Int} (h : ofBRes r = .ok v) : r.isErr = false := by
  cases r <;> simp [ofBRes, BRes.isErr] at h ⊢

theorem storeRes_ok {r : Res} {v : Kind × Int} (h : storeRes r = .ok v) : resErr r = false := by
  cases r <;> simp [storeRes, resErr] at h ⊢

/-- expressions: a strict value is the relaxed value -/
theorem evalE_mono (D : Dispatch) (σ : Env) (e : Expr) (o : Operand)
    (h : evalE D .strict σ e = .ok o) : evalE D .relaxed σ e = .ok o := by
  induction e generalizing o with
  | atom a => simpa [evalE] using h
  | bin op l r ihl ihr =>
    simp only [evalE] at h ⊢
    cases hl : evalE D .strict σ l with
    | error s => simp [hl] at h
    | ok a =>
      cases hr : evalE D .strict σ r with
      | error s => simp [hl, hr] at h
      | ok b =>
        rw [ihl a hl, ihr b hr]
        simp only [hl, hr] at h
        have hb := C04_mono_binop D op a b _ rfl (ofRes_ok h)
        simp only [Mode.isStrict] at h ⊢
        rw [hb]; exact h
  | neg e ih =>
    simp only [evalE] at h ⊢
    cases he : evalE D .strict σ e with
    | error s => simp [he] at h
    | ok a => rw [ih a he]; simpa [he] using h

/-- one statement: a strict step is the relaxed step -/
theorem step_mono (D : Dispatch) (s : State) (st : Stmt) (r : Option State)
    (h : step D .strict s st = .ok r) : step D .relaxed s st = .ok r := by
  cases st with
  | declare x e =>
    simp only [step, bind, Except.bind] at h ⊢
    cases he : evalE D .strict s.env e with
    | error w => simp [he] at h
    | ok o => rw [evalE_mono D _ e o he]; simpa [he] using h
  | assign x e =>
    simp only [step, bind, Except.bind] at h ⊢
    cases he : evalE D .strict s.env e with
    | error w => simp [he] at h
    | ok o =>
      rw [evalE_mono D _ e o he]
      simp only [he] at h ⊢
      cases hx : s.env x with
      | none => simp [hx] at h
      | some c =>
        obtain ⟨kx, nx⟩ := c
        simp only [hx] at h ⊢
        cases hs : storeRes (storeOp .strict kx o) with
        | error w => simp [hs] at h
        | ok v =>
          rw [C04_mono_storeOp kx o _ rfl (storeRes_ok hs), hs]
          simpa [hs] using h
  | opAssign x op e =>
    simp only [step, bind, Except.bind] at h ⊢
    cases hx : s.env x with
    | none => simp [hx] at h
    | some c =>
      obtain ⟨kx, nx⟩ := c
      simp only [hx] at h ⊢
      cases he : evalE D .strict s.env e with
      | error w => simp [he] at h
      | ok o =>
        rw [evalE_mono D _ e o he]
        simp only [he] at h ⊢
        cases hs : storeRes (store .strict kx (binop D Mode.strict.isStrict op (.var kx nx) o)) with
        | error w => simp [hs] at h
        | ok v =>
          have h1 := storeRes_ok hs
          have hb : resErr (binop D true op (.var kx nx) o) = false := by
            cases hbb : binop D true op (.var kx nx) o with
            | err e2 =>
              have : Mode.strict.isStrict = true := rfl
              rw [this, hbb] at h1; simp [store, resErr] at h1
            | ok k n => rfl
            | float => rfl
          have hb2 := C04_mono_binop D op (.var kx nx) o _ rfl hb
          have : Mode.relaxed.isStrict = false := rfl
          rw [this, hb2]
          have : Mode.strict.isStrict = true := rfl
          rw [this] at hs h h1
          rw [C04_mono_store kx _ _ rfl h1, hs]
          simpa [hs] using h
  | incr x c =>
    simp only [step, bind, Except.bind] at h ⊢
    cases hx : s.env x with
    | none => simp [hx] at h
    | some cc =>
      obtain ⟨kx, nx⟩ := cc
      simp only [hx] at h ⊢
      cases he : evalAtom s.env c with
      | error w => simp [he] at h
      | ok o =>
        simp only [he] at h ⊢
        cases hs : storeRes (increment D .strict kx nx o) with
        | error w => simp [hs] at h
        | ok v =>
          rw [C04_mono_increment D kx nx o _ rfl (storeRes_ok hs), hs]
          simpa [hs] using h
  | call x f arg =>
    simp only [step, bind, Except.bind] at h ⊢
    cases he : evalE D .strict s.env arg with
    | error w => simp [he] at h
    | ok o =>
      rw [evalE_mono D _ arg o he]
      simp only [he] at h ⊢
      cases ha : ofBRes (argK .strict f.validated f.kp o) with
      | error w => simp [ha] at h
      | ok p =>
        obtain ⟨kp, np⟩ := p
        rw [C04_mono_arg f.validated f.kp o _ rfl (ofBRes_ok ha), ha]
        simp only [ha] at h ⊢
        cases hb : evalE D .strict (Env.empty.set 0 kp np) f.body with
        | error w => simp [hb] at h
        | ok rv =>
          rw [evalE_mono D _ f.body rv hb]
          simp only [hb] at h ⊢
          cases hr : ofBRes (retK .strict f.kr rv) with
          | error w => simp [hr] at h
          | ok q =>
            rw [C04_mono_ret f.kr rv _ rfl (ofBRes_ok hr), hr]
            simpa [hr] using h
  | print e =>
    simp only [step, bind, Except.bind] at h ⊢
    cases he : evalE D .strict s.env e with
    | error w => simp [he] at h
    | ok o => rw [evalE_mono D _ e o he]; simpa [he] using h
  | ret => simpa [step] using h

/-- **C04 (programs).** A statement list that runs to completion in strict mode runs to completion
in relaxed mode, leaving the same variables (values and types) and the same printed output —
for every program of the statement language, every start state, any dispatch sets. -/
theorem C04_strict_implies_relaxed (D : Dispatch) (p : List Stmt) (s s' : State)
    (h : exec D .strict p s = .finished s') : exec D .relaxed p s = .finished s' := by
  induction p generalizing s with
  | nil => simpa [exec] using h
  | cons st rest ih =>
    simp only [exec] at h ⊢
    cases hs : step D .strict s st with
    | error w => simp [hs] at h
    | ok r =>
      rw [step_mono D s st r hs]
      cases r with
      | none => simpa [hs] using h
      | some s2 => simp only [hs] at h; exact ih s2 h

/-- corollary on the observable: the printed output -/
def Outcome.out? : Outcome → Option (List (Kind × Int))
  | .finished s => some s.out
  | .stopped _ => none

theorem C04_same_output (D : Dispatch) (p : List Stmt) (s : State) (out : List (Kind × Int))
    (h : (exec D .strict p s).out? = some out) : (exec D .relaxed p s).out? = some out := by
  cases hx : exec D .strict p s with
  | stopped w => simp [hx, Outcome.out?] at h
  | finished s' =>
    rw [C04_strict_implies_relaxed D p s s' hx]
    simpa [hx, Outcome.out?] using h

/-! ## non-vacuity: concrete programs meeting the hypotheses -/

/-- `func f(p int8) int16 { return 300 }`, called through a declaration -/
def fConst : Callee := { validated := true, kp := .int8, kr := .int16, body := .atom (.lit 300) }
/-- `func g(p int32) int32 { return p * 2 }` -/
def gDouble : Callee := { validated := true, kp := .int32, kr := .int32, body := .bin .mul (.atom (.v 0)) (.atom (.lit 2)) }

/-- x := int8(100); x = x + 100; y := int32(7); y += 2; y++ (fused); z := f(x); w := g(y);
    x = 5; print x, y, z, w, -x; return; print 1 -/
def demo : List Stmt :=
  [ .declare 0 (.atom (.typed .int8 100)),
    .assign 0 (.bin .add (.atom (.v 0)) (.atom (.lit 100))),
    .declare 1 (.atom (.typed .int32 7)),
    .opAssign 1 .add (.atom (.lit 2)),
    .incr 1 (.lit 1),
    .call 2 fConst (.atom (.v 0)),
    .call 3 gDouble (.atom (.v 1)),
    .assign 0 (.atom (.lit 5)),
    .print (.atom (.v 0)), .print (.atom (.v 1)), .print (.atom (.v 2)), .print (.atom (.v 3)),
    .print (.neg (.atom (.v 0))),
    .ret,
    .print (.atom (.lit 1)) ]

example : (exec fullD .strict demo State.init).out? =
    some [(.int8, 5), (.int32, 10), (.int16, 300), (.int32, 20), (.int8, -5)] := by decide
example : (exec fullD .relaxed demo State.init).out? =
    some [(.int8, 5), (.int32, 10), (.int16, 300), (.int32, 20), (.int8, -5)] := by decide

/-- strict mode really removes programs: `x := int8(1); x = x + int16(2)` finishes only in relaxed mode -/
def mixed : List Stmt :=
  [ .declare 0 (.atom (.typed .int8 1)),
    .assign 0 (.bin .add (.atom (.v 0)) (.atom (.typed .int16 2))),
    .print (.atom (.v 0)) ]
example : (exec fullD .strict mixed State.init).out? = none := by decide
example : (exec fullD .relaxed mixed State.init).out? = some [(.int8, 3)] := by decide

/-- and so does the argument boundary: `f(5)` with an `int8` parameter (validated callee) -/
example : argK .strict true .int8 (.const .int 5) = .err .argumentType := by decide
example : argK .relaxed true .int8 (.const .int 5) = .ok .int8 5 := by decide
example : argK .strict false .int32 (.const .int 5) = .ok .int32 5 := by decide
example : argK .strict false .int8 (.const .int 5) = .err .argumentType := by decide   -- IsNumeric(int8 type) is false
example : retK .strict .int16 (.const .int 300) = .ok .int16 300 := by decide
example : retK .strict .byte (.const .int 300) = .err .lossOfPrecision := by decide
example : retK .strict .int8 (.const .int 300) = .ok .int8 44 := by decide            -- falls through: wraps even in strict mode
example : retK .relaxed .int8 (.const .int 300) = .ok .int8 44 := by decide
example : storeOp .strict .int8 (.constFlt 3 false) = .ok .int8 3 := by decide
example : storeOp .strict .int8 (.constFlt 3 true) = .err .lossOfPrecision := by decide
example : storeOp .relaxed .int8 (.constFlt 3 true) = .ok .int8 3 := by decide

/-- the per-operation hypotheses are met by ordinary operands -/
example : binop fullD true .add (.var .int8 100) (.const .int 100) = .ok .int8 (-56) := by decide
example : binop fullD true .mul (.var .uint16 300) (.constFlt 3 false) = .ok .uint16 900 := by decide
example : increment fullD .strict .int32 2147483647 (.const .int 1) = .ok .int32 (-2147483648) := by decide
example : store .strict .int8 (.ok .int8 5) = .ok .int8 5 := by decide
example : storeOp .strict .uint16 (.const .int 65535) = .ok .uint16 65535 := by decide
example : retIface .strict (.var .int8 3) = .ok .int8 3 := by decide
example : retK .strict .int64 (.var .int64 7) = .ok .int64 7 := by decide
example : argK .strict true .uint32 (.var .uint32 7) = .ok .uint32 7 := by decide

end EgoVerif.C04
