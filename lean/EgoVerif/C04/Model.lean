import EgoVerif.C03.Model
/-
C04 — "strict-mode programs mean the same under relaxed typing": model of the four coercion
boundaries as functions of the type mode (core Lean only), built ON C03's model.

  * expression boundary   : C03.binop / C03.negate / C03.increment      (bytecode/math.go)
  * assignment boundary   : C03.store (computed value) and `storeOp` below, which adds the
                            CONSTANT case of Context.checkTypeCore        (bytecode/context.go)
  * argument boundary     : `argK`  = validateStrictParameterTyping (bytecode/call.go) followed by
                            Context.fetchArgValue → requiredTypeByteCodeImpl → strictConformanceCheck /
                            relaxedConformanceCheck → data.Coerce          (bytecode/arg.go, types.go)
  * return boundary       : `retK`  = coerceByteCode / requireMatch        (bytecode/coerce.go)
  * `retRef`              : the return boundary for array / map / struct / pointer values — identity kept, rebuilt or error
  * `argB` / `retB`       : the same two boundaries for the declared types outside the integer
                            kinds that the code treats specially: `interface{}` and the nillable
                            types (map / slice / pointer), with `nil` as a value.
  * `exec`                : a straight-line statement language (declare, assign, op-assign, fused
                            increment, call-with-coercion, print, return) run in a type mode.
`ego.runtime.precision.error` is at its default (false).  Float VALUES are outside the value model
exactly as in C03 (`Res.float`); a statement that produces one stops the model run with `outside`.
-/
namespace EgoVerif.C04
open EgoVerif.C03

/-! ### assignment boundary, including constants -/

/-- Context.checkTypeCore for a value arriving as `o` (constant or not) at a variable whose
    current value has integer kind `kx`. -/
def storeOp (m : Mode) (kx : Kind) (o : Operand) : Res :=
  match o with
  | .var k n => store m kx (.ok k n)
  | .const k n =>
    if k == kx then .ok k n                                  -- reflect.TypeOf equal
    else match m with
      | .dynamic => .ok k n                                  -- checkType early-out
      | .relaxed => .ok kx (coerceInt kx n)                  -- data.Coerce
      | .strict =>                                           -- isConstant, both numeric: CoerceLossless
        match coerceIntLossless kx n with
        | .ok c => .ok kx c
        | .error e => .err e
  | .constFlt w fr =>
    match m with
    | .dynamic => .float
    | .relaxed => .ok kx (coerceInt kx w)                    -- data.Coerce truncates w.5 to w
    | .strict => if fr || !inRange kx w then .err .lossOfPrecision else .ok kx w

/-! ### argument boundary (integer-kind parameter) -/

/-- errors.ErrArgumentType is not in C03's enum; boundaries use their own error type -/
inductive BErr where
  | argumentType | typeMismatch | lossOfPrecision | invalidType | arith (e : Err)
  deriving DecidableEq, Repr

/-- a value delivered across a boundary -/
inductive BRes where
  | ok (k : Kind) (n : Int)          -- plain integer value
  | wrapped (k : Kind) (n : Int)     -- data.Interface{Value, BaseType} wrapper (data.Wrap)
  | nil
  | float                            -- some floating value (outside the value model)
  | err (e : BErr)
  deriving DecidableEq, Repr

def BRes.isErr : BRes → Bool
  | .err _ => true
  | _ => false

/-- validateStrictParameterTyping (call.go): runs only in strict mode and only when the callee
    is a data.Function with a declaration (`validated`); the argument has ALREADY lost its
    data.Immutable wrapper there, so a constant gets no leniency: TypeOf(arg).IsType(param). -/
def validateArg (m : Mode) (validated : Bool) (kp : Kind) (o : Operand) : Bool :=
  if m.isStrict && validated then
    match o with
    | .var k _ => k == kp
    | .const k _ => k == kp
    | .constFlt .. => false
  else true

/-- data.IsNumeric applied to a *data.Type (types.go): only these integer kinds count as numeric
    TARGET types — int8, int16, uint16, uint32, uint, uint64 are missing from its list, so the
    strict-mode constant leniency (BUG-67 / BUG-68) does not apply to them. -/
def numericType : Kind → Bool
  | .byte | .int | .int32 | .int64 => true
  | _ => false

/-- fetchArgValue (arg.go): conformance check for the mode, then data.Coerce when the value's
    type still differs from the declared one. -/
def fetchArg (m : Mode) (kp : Kind) (o : Operand) : BRes :=
  match m with
  | .strict =>                                         -- strictConformanceCheck
    match o with
    | .var k n => if k == kp then .ok kp n else .err .argumentType
    | .const k n =>
      if k == kp then .ok kp n
      else if !numericType kp then .err .argumentType  -- valueIsConst && IsNumeric(v) && IsNumeric(t)
      else match coerceIntLossless kp n with           -- CoerceLossless
        | .ok c => .ok kp c
        | .error _ => .err .lossOfPrecision
    | .constFlt w fr =>
      if !numericType kp then .err .argumentType
      else if fr || !inRange kp w then .err .lossOfPrecision else .ok kp w
  | _ =>                                               -- relaxedConformanceCheck passes a *data.Type operand
    match o with
    | .var k n => if k == kp then .ok kp n else .ok kp (coerceInt kp n)
    | .const k n => if k == kp then .ok kp n else .ok kp (coerceInt kp n)
    | .constFlt w _ => .ok kp (coerceInt kp w)

/-- the whole argument boundary for a parameter of integer kind `kp` -/
def argK (m : Mode) (validated : Bool) (kp : Kind) (o : Operand) : BRes :=
  if validateArg m validated kp o then fetchArg m kp o else .err .argumentType

/-! ### return boundary (integer-kind result type) -/

/-- coerceByteCode with a declared result type of integer kind `kr`.  In strict mode a constant
    goes through CoerceLossless only when IsNumeric(t) holds (`numericType`); for the other kinds
    it FALLS THROUGH to the general conversion switch, which wraps silently. -/
def retK (m : Mode) (kr : Kind) (o : Operand) : BRes :=
  match m, o with
  | .strict, .var k n => if k == kr then .ok kr n else .err .typeMismatch     -- requireMatch
  | .strict, .const k n =>
    if numericType kr then
      match (if k == kr then Except.ok n else coerceIntLossless kr n) with      -- CoerceLossless (BUG-68)
      | .ok c => .ok kr c
      | .error _ => .err .lossOfPrecision
    else if k == kr then .ok kr n else .ok kr (coerceInt kr n)                  -- data.Int8(v) …
  | .strict, .constFlt w fr =>
    if numericType kr then (if fr || !inRange kr w then .err .lossOfPrecision else .ok kr w)
    else .ok kr (coerceInt kr w)
  | _, .var k n => if k == kr then .ok kr n else .ok kr (coerceInt kr n)      -- data.Int8(v) … data.UInt64(v)
  | _, .const k n => if k == kr then .ok kr n else .ok kr (coerceInt kr n)
  | _, .constFlt w _ => .ok kr (coerceInt kr w)

/-! ### the two boundaries for declared types outside the integer kinds

`interface{}` parameters / results and `nil` returned for a nillable result type (map, slice,
pointer, func, chan) are the places where the code has mode-specific branches that are NOT about
numeric conversion.  `retNil` mirrors the FIXED code (fixes/C04.patch) and `retNilPre` the code before
the fix (it exists only to state the defect); `argIface` mirrors the unfixed code: known finding. -/

/-- interface-typed parameter receiving a numeric value — the code AS IT IS (a known finding,
    not fixed).  validateStrictParameterTyping skips interface parameters; strictConformanceCheck
    (interface branch) returns the bare value, while relaxedConformanceCheck ends in data.Wrap(v);
    data.IsCoercible(interface) is false, so no Coerce follows. -/
def argIface (m : Mode) (o : Operand) : BRes :=
  match m, o with
  | .strict, .var k n => .ok k n
  | .strict, .const k n => .ok k n
  | _, .var k n => .wrapped k n
  | _, .const k n => .wrapped k n
  | _, .constFlt .. => .float

/-- `interface{}` result type: requireMatch pushes the value as is (strict, non-constant); a
    constant is numeric but the target is not, so it falls through to the type switch, whose
    InterfaceKind case does nothing — in every mode the value is returned unchanged. -/
def retIface (_m : Mode) (o : Operand) : BRes :=
  match o with
  | .var k n => .ok k n
  | .const k n => .ok k n
  | .constFlt .. => .float

/-- `return nil` from a function whose result type is nillable.  Fixed code: nil is pushed as is
    in every mode (requireMatch's rule, now also ahead of the "must match" test). -/
def retNil (_m : Mode) (_isMapOrSlice : Bool) : BRes := .nil

/-- before the fix: outside strict mode a nil for a map or slice result failed the
    `t.IsType(TypeOf(v))` test (pointer, func, chan, error, interface results were fine) -/
def retNilPre (m : Mode) (isMapOrSlice : Bool) : BRes :=
  match m with
  | .strict => .nil
  | _ => if isMapOrSlice then .err .invalidType else .nil


/-! ### return boundary, reference values (array, map, struct, pointer): what happens to the IDENTITY

A container that crosses the return boundary is not described by its contents alone: the caller can
write through the result and read through the name the callee returned (`func rows() []int { return
table }`).  `retRef` says whether coerceByteCode pushes the operand ITSELF (`same`), a freshly built
container with converted elements (`rebuilt`), or fails.  Go's `data.Type.IsType` is an external
primitive here: its two answers `vIsT = TypeOf(v).IsType(t)` and `tIsV = t.IsType(TypeOf(v))` are
parameters (the harness computes them with the real function). -/

inductive RefKind where
  | arr | map | struct | ptr
  deriving DecidableEq, Repr

inductive RefRes where
  | same | rebuilt | err (e : BErr)
  deriving DecidableEq, Repr

/-- coerceByteCode with a non-constant, non-nil reference value `v` and declared type `t`:
    * strict: requireMatch — `vt.IsType(t)` pushes v, otherwise ErrTypeMismatch;
    * otherwise: map / struct / array results must satisfy `t.IsType(vt)` (ErrInvalidType); then the kind
      switch: MapKind does nothing, StructKind runs coerceStruct (which returns the same *data.Struct),
      and the `default` arm (arrays, pointers) takes the "already the same type, no work" shortcut
      `vt.IsType(t)` and only otherwise rebuilds an array element by element (a pointer is pushed as is). -/
def retRef (m : Mode) (k : RefKind) (vIsT tIsV : Bool) : RefRes :=
  match m with
  | .strict => if vIsT then .same else .err .typeMismatch
  | _ =>
    match k with
    | .map | .struct => if tIsV then .same else .err .invalidType
    | .arr => if !tIsV then .err .invalidType else if vIsT then .same else .rebuilt
    | .ptr => .same

/-! ### the statement language -/

abbrev Var := Nat

/-- the variables of one scope: name ↦ (kind, value) of an integer variable -/
abbrev Env := Var → Option (Kind × Int)

def Env.empty : Env := fun _ => none
def Env.set (σ : Env) (x : Var) (k : Kind) (n : Int) : Env := fun y => if y = x then some (k, n) else σ y

inductive Atom where
  | v (x : Var)                         -- a variable
  | lit (n : Int)                       -- integer literal (an `int` constant)
  | flit (w : Nat) (frac : Bool)        -- float64 literal  w  or  w.5
  | typed (k : Kind) (n : Int)          -- `k(n)`: a cast yields a NON-constant value of kind k
  deriving DecidableEq, Repr

inductive Expr where
  | atom (a : Atom)
  | bin (op : Op) (l r : Expr)
  | neg (e : Expr)
  deriving Repr

/-- why a model run stops -/
inductive Stop where
  | err (e : BErr)            -- a runtime error of the implementation
  | unknownVar
  | outside                   -- a floating value was produced: outside the value model
  deriving DecidableEq, Repr

def ofRes : Res → Except Stop Operand
  | .ok k n => .ok (.var k n)           -- instruction results are never constants
  | .float => .error .outside
  | .err e => .error (.err (.arith e))

def evalAtom (σ : Env) : Atom → Except Stop Operand
  | .v x => match σ x with
    | some (k, n) => .ok (.var k n)
    | none => .error .unknownVar
  | .lit n => .ok (.const .int n)
  | .flit w fr => .ok (.constFlt w fr)
  | .typed k n => .ok (.var k (wrap k n))

/-- expression evaluation: the operand stack discipline of the compiled code (no constant folding:
    optimizer level 0) -/
def evalE (D : Dispatch) (m : Mode) (σ : Env) : Expr → Except Stop Operand
  | .atom a => evalAtom σ a
  | .bin op l r =>
    match evalE D m σ l, evalE D m σ r with
    | .ok a, .ok b => ofRes (binop D m.isStrict op a b)
    | .error s, _ => .error s
    | _, .error s => .error s
  | .neg e =>
    match evalE D m σ e with
    | .ok a => ofRes (negate D a)
    | .error s => .error s

/-- a callee `func f(p P) R { return body }` whose body is an expression over its parameter
    (variable 0 of the callee's own scope) -/
structure Callee where
  validated : Bool          -- called through a data.Function with a declaration (`func f`), or a bare *ByteCode
  kp : Kind
  kr : Kind
  body : Expr
  deriving Repr

inductive Stmt where
  | declare (x : Var) (e : Expr)                -- x := e
  | assign (x : Var) (e : Expr)                 -- x = e          Store boundary
  | opAssign (x : Var) (op : Op) (e : Expr)     -- x op= e        Load x; e; op; Store x
  | incr (x : Var) (c : Atom)                   -- fused Increment x, c  (optimizer level 2 form of x += c)
  | call (x : Var) (f : Callee) (arg : Expr)    -- x := f(arg)    argument + return boundaries
  | print (e : Expr)
  | ret                                         -- return: the rest of the list is not run
  deriving Repr

structure State where
  env : Env
  out : List (Kind × Int)      -- what was printed, in order

inductive Outcome where
  | finished (s : State)
  | stopped (why : Stop)

def ofBRes : BRes → Except Stop (Kind × Int)
  | .ok k n => .ok (k, n)
  | .wrapped .. => .error .outside
  | .nil => .error .outside
  | .float => .error .outside
  | .err e => .error (.err e)

/-- the value a `:=` or `print` sees: a constant loses its wrapper (an int literal is an int) -/
def asValue : Operand → Except Stop (Kind × Int)
  | .var k n => .ok (k, n)
  | .const k n => .ok (k, n)
  | .constFlt .. => .error .outside

def storeRes (r : Res) : Except Stop (Kind × Int) :=
  match r with
  | .ok k n => .ok (k, n)
  | .float => .error .outside
  | .err e => .error (.err (.arith e))

/-- one statement; `none` = `return` was executed -/
def step (D : Dispatch) (m : Mode) (s : State) : Stmt → Except Stop (Option State)
  | .declare x e => do
    let o ← evalE D m s.env e
    let (k, n) ← asValue o
    pure (some { s with env := s.env.set x k n })
  | .assign x e => do
    let o ← evalE D m s.env e
    match s.env x with
    | none => .error .unknownVar
    | some (kx, _) =>
      let (k, n) ← storeRes (storeOp m kx o)
      pure (some { s with env := s.env.set x k n })
  | .opAssign x op e => do
    match s.env x with
    | none => .error .unknownVar
    | some (kx, nx) =>
      let o ← evalE D m s.env e
      let (k, n) ← storeRes (store m kx (binop D m.isStrict op (.var kx nx) o))
      pure (some { s with env := s.env.set x k n })
  | .incr x c => do
    match s.env x with
    | none => .error .unknownVar
    | some (kx, nx) =>
      let o ← evalAtom s.env c
      let (k, n) ← storeRes (increment D m kx nx o)
      pure (some { s with env := s.env.set x k n })
  | .call x f arg => do
    let o ← evalE D m s.env arg
    let (kp, np) ← ofBRes (argK m f.validated f.kp o)
    let r ← evalE D m (Env.empty.set 0 kp np) f.body
    let (k, n) ← ofBRes (retK m f.kr r)
    pure (some { s with env := s.env.set x k n })
  | .print e => do
    let o ← evalE D m s.env e
    let v ← asValue o
    pure (some { s with out := s.out ++ [v] })
  | .ret => pure none

/-- run a statement list -/
def exec (D : Dispatch) (m : Mode) : List Stmt → State → Outcome
  | [], s => .finished s
  | st :: rest, s =>
    match step D m s st with
    | .error why => .stopped why
    | .ok none => .finished s
    | .ok (some s') => exec D m rest s'

def State.init : State := { env := Env.empty, out := [] }

end EgoVerif.C04
