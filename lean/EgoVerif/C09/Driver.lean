import EgoVerif.Common.Drv
import EgoVerif.C09.Model
/- line protocol
   `F <fn> <8 bits>`   one generated site fact (tools/extract_c09); fn ∈ run go rest pipe proc unknown;
                       bits = litBody waitsOnDone deferBefore deferNext sendsBuffered recvOnEveryPath wgPaired
                       calleeRunsProgram                                         → `ok` | `bad-fact`
   `run <ev>…`         one history from a fresh state under `tableOf facts`; events
                       E enter · S:<fn> spawn · X:n|e|p|c exit · G goBegin · D goEnd · K goStuck · P probe
                       → per probe and once at the end: live goroutines per site, e.g. `run=2,go=1` (`-` = none)
-/
namespace EgoVerif.C09

def fnOfTok : String → Option Fn
  | "run" => some .runFromAddress
  | "go" => some .goByteCode
  | "rest" => some .restExchange
  | "pipe" => some .runChildViaPipe
  | "proc" => some .runChildProcess
  | _ => none

def tokOfFn : Fn → String
  | .runFromAddress => "run"
  | .goByteCode => "go"
  | .restExchange => "rest"
  | .runChildViaPipe => "pipe"
  | .runChildProcess => "proc"

def exitOfTok : String → Option Exit
  | "n" => some .normal
  | "e" => some .error
  | "p" => some .panic
  | "c" => some .callback
  | _ => none

def evOfTok (t : String) : Option Ev :=
  match t.splitOn ":" with
  | ["E"] => some .enter
  | ["G"] => some .goBegin
  | ["D"] => some .goEnd
  | ["K"] => some .goStuck
  | ["P"] => some .probe
  | ["S", f] => (fnOfTok f).map .spawn
  | ["X", e] => (exitOfTok e).map .exit
  | _ => none

def showCounts (st : St) : String :=
  let parts := allFns.filterMap fun fn =>
    let n := count st fn
    if n == 0 then none else some (tokOfFn fn ++ "=" ++ toString n)
  if parts.isEmpty then "-" else ",".intercalate parts

def factOf (fn : String) (bits : String) : Option Facts :=
  match bits.toList.map (· == '1') with
  | [a, b, c, d, e, f, g, h] =>
    if fn == "unknown" then some ⟨none, a, b, c, d, e, f, g, h⟩
    else (fnOfTok fn).map fun k => ⟨some k, a, b, c, d, e, f, g, h⟩
  | _ => none

/-- run the events, collecting the observation at each probe and at the end -/
def observe (tbl : Table) : St → List Ev → List String → List String
  | st, [], acc => (showCounts st :: acc).reverse
  | st, .probe :: rest, acc => observe tbl st rest (showCounts st :: acc)
  | st, e :: rest, acc => observe tbl (step tbl st e) rest acc

def handle (facts : List Facts) (line : String) : List Facts × String :=
  match fields line with
  | ["F", fn, bits] =>
    match factOf fn bits with
    | some f => (facts ++ [f], "ok")
    | none => (facts, "bad-fact")
  | "run" :: toks =>
    match toks.mapM evOfTok with
    | some evs => (facts, " ".intercalate (observe (tableOf facts) init evs []))
    | none => (facts, "bad-event")
  | _ => (facts, "bad-op")

def drv : Drv := { σ := List Facts, init := [], step := handle }

end EgoVerif.C09
