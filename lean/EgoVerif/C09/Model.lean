/-
C09 — "Finished executions leave nothing running": executable model.

What is modelled (the code that exists, /repo):

* `internal/language/bytecode/run.go  (*Context).RunFromAddress`
      intChan := make(chan os.Signal, 1); signal.Notify(intChan, os.Interrupt)
      done := make(chan struct{})
      go func(c *Context) { select { case sig := <-intChan: … ; case <-done: } }(c)     -- the SIGINT watcher
      defer func() { signal.Stop(intChan); close(done) }()                                -- runs on EVERY exit, panics included
      for … { … return err … }                                                             -- normal / error / panic exits
* `internal/language/bytecode/goroutine.go  goByteCode`:  `goRoutineCompletion.Add(1); go GoRoutine(fx, c, args)`
  -- the Ego `go` statement; `GoRoutine` runs the user's function with `ctx.Run()` (so it has its own watcher).
* `internal/runtime/rest/exchange.go  Exchange`: `done := make(chan struct{}); defer close(done); go func(){ select{case <-done: return; case <-time.After…} … }()`
* `internal/server/services/child.go  runChildViaPipe / runChildProcess`:
      r := make(chan T, 1); go func(){ r <- blockingCall() }(); … <-r on every path before returning.
* callbacks (`internal/runtime/sort/slice.go` etc.) start no goroutine of their own: they call `ctx.Run()`
  on the calling goroutine, i.e. a nested `RunFromAddress` frame.

The model is a state machine over events (`init`, `step`).  Its state is the multiset (list) of live
goroutines the interpreter started, each keyed by the enclosing function of its `go` statement (that is
exactly what a Go goroutine dump reports as "created by"), plus a stack of active frames.  WHICH stop event
each `go` site is paired with is not written here: it is the table `tbl : Fn → Stop`, regenerated from the
source by tools/extract_c09 (`Facts` → `classify`) on every run.
-/
namespace EgoVerif.C09

/-- the terminating event a `go` site is paired with -/
inductive Stop where
  | deferClose    -- goroutine selects on a channel that the enclosing function closes in a `defer`
  | joinResult    -- goroutine does one blocking call, sends the result on a buffered channel; the enclosing
                  -- function receives it on every path before returning
  | userProgram   -- the goroutine IS a user goroutine (Ego `go` statement); it lives as long as user code runs
  | processOnce   -- process-wide worker started at most once
  | none          -- nothing stops it (GORTNS-1)
  deriving DecidableEq, Repr

/-- how an interpreter function that started goroutines is left -/
inductive Exit where
  | normal | error | panic | callback
  deriving DecidableEq, Repr

/-- enclosing functions of the known `go` statements (key of the expectation table) -/
inductive Fn where
  | runFromAddress | goByteCode | restExchange | runChildViaPipe | runChildProcess
  deriving DecidableEq, Repr

def allowedStops : List Stop := [.deferClose, .joinResult, .userProgram, .processOnce]

/-- does the stop event happen when the enclosing function is left by exit path `e`?
    A Go `defer` runs on return and on panic alike; a join (receive on every path) has happened before any
    return, and the joined goroutine ends by itself after its single buffered send. -/
def Stop.firesOn : Stop → Exit → Bool
  | .deferClose, _ => true
  | .joinResult, _ => true
  | _, _ => false

/-! ### source facts (translator output) and their classification -/

/-- one `go` statement as seen by tools/extract_c09 (go/ast) -/
structure Facts where
  /-- enclosing function; `none` = a function the expectation table does not know -/
  fn : Option Fn
  /-- `go func(…){…}(…)` (true) or `go f(…)` (false) -/
  litBody : Bool
  /-- the literal's body receives (`<-d`, also as a `select` case) from a channel `d` that the enclosing
      function creates with `make(chan …)` -/
  waitsOnDone : Bool
  /-- the enclosing function's top-level statement list has `defer close(d)` / `defer func(){…close(d)…}()`
      for that `d`, positioned before the `go` statement -/
  deferBefore : Bool
  /-- … or as the top-level statement immediately following a top-level `go` statement -/
  deferNext : Bool
  /-- the literal's body is exactly one statement `r <- call(…)`, where `r := make(chan T, n)`, n ≥ 1,
      in the enclosing function -/
  sendsBuffered : Bool
  /-- every path from the `go` statement to a `return`/end of the enclosing function receives from `r` -/
  recvOnEveryPath : Bool
  /-- `go f(…)` is immediately preceded by `<wg>.Add(1)` and `f`'s body calls `<wg>.Done()` -/
  wgPaired : Bool
  /-- `f`'s body runs a bytecode context (`….Run()`), i.e. user code -/
  calleeRunsProgram : Bool
  deriving DecidableEq, Repr

def classify (f : Facts) : Stop :=
  if f.litBody && f.waitsOnDone && (f.deferBefore || f.deferNext) then .deferClose
  else if f.litBody && f.sendsBuffered && f.recvOnEveryPath then .joinResult
  else if !f.litBody && f.calleeRunsProgram && f.wgPaired then .userProgram
  else .none

/-- the hand-written expectation table, keyed by enclosing function.  A `go` statement in any other
    function has `fn = none` and no expectation: the generated obligation fails (fail closed). -/
def expected : Fn → Stop
  | .runFromAddress => .deferClose
  | .restExchange => .deferClose
  | .runChildViaPipe => .joinResult
  | .runChildProcess => .joinResult
  | .goByteCode => .userProgram

def allFns : List Fn := [.runFromAddress, .goByteCode, .restExchange, .runChildViaPipe, .runChildProcess]

def siteOk (f : Facts) : Bool :=
  match f.fn with
  | some fn => classify f == expected fn && allowedStops.contains (classify f)
  | none => false

/-- every site is known and classified as expected, and every expected function still has its site -/
def checkTable (T : List Facts) : Bool :=
  T.all siteOk && allFns.all (fun fn => T.any (fun f => f.fn == some fn))

/-- the stop event of the `go` site(s) of function `fn` according to the generated facts -/
def tableOf (T : List Facts) (fn : Fn) : Stop :=
  match T.filter (fun f => f.fn == some fn) with
  | [] => .none
  | f :: rest => if rest.all (fun g => classify g == classify f) then classify f else .none

/-! ### the lifecycle state machine -/

/-- a live goroutine -/
structure G where
  fn : Fn          -- its site (enclosing function of the `go` statement)
  stop : Stop
  frame : Nat      -- the frame (function activation) that started it
  user : Bool      -- it is a user goroutine or was started inside one
  deriving DecidableEq, Repr

structure Frame where
  id : Nat
  isGo : Bool      -- the body of a user goroutine (between the `go` opcode and GoRoutine's return)
  deriving DecidableEq, Repr

structure St where
  next : Nat
  live : List G
  stack : List Frame
  deriving Repr

def init : St := { next := 0, live := [], stack := [] }

inductive Ev where
  | enter              -- a function with `go` sites is entered (RunFromAddress, Exchange, runChild…)
  | spawn (fn : Fn)    -- its `go` statement executes
  | exit (e : Exit)    -- it returns / panics: deferred closes run, joins have happened
  | goBegin            -- the `Go` opcode: `go GoRoutine(…)`; the following events are the new goroutine's
  | goEnd              -- GoRoutine returned
  | goStuck            -- the user goroutine never finishes: its open frames are abandoned as they are
  | probe              -- observation point (no effect)
  deriving DecidableEq, Repr

def inUser (st : St) : Bool := st.stack.any (·.isGo)

/-- abandon the frames of a stuck user goroutine: everything up to and including its go-frame -/
def dropThroughGo : List Frame → List Frame
  | [] => []
  | f :: rest => if f.isGo then rest else dropThroughGo rest

abbrev Table := Fn → Stop

def step (tbl : Table) (st : St) : Ev → St
  | .enter => { st with next := st.next + 1, stack := ⟨st.next, false⟩ :: st.stack }
  | .spawn fn =>
    match st.stack with
    | [] => st
    | f :: _ =>
      if f.isGo then st
      else if tbl fn == .userProgram then st              -- user goroutines start through `goBegin` only
      else if tbl fn == .processOnce && st.live.any (fun g => g.fn == fn) then st
      else { st with live := ⟨fn, tbl fn, f.id, inUser st⟩ :: st.live }
  | .exit e =>
    match st.stack with
    | [] => st
    | f :: rest =>
      if f.isGo then st
      else { st with live := st.live.filter (fun g => !(g.frame == f.id && g.stop.firesOn e)), stack := rest }
  | .goBegin =>
    { next := st.next + 1,
      live := ⟨.goByteCode, tbl .goByteCode, st.next, true⟩ :: st.live,
      stack := ⟨st.next, true⟩ :: st.stack }
  | .goEnd =>
    match st.stack with
    | [] => st
    | f :: rest =>
      if f.isGo then { st with live := st.live.filter (fun g => g.frame != f.id), stack := rest } else st
  | .goStuck => { st with stack := dropThroughGo st.stack }
  | .probe => st

def run (tbl : Table) (st : St) (evs : List Ev) : St := evs.foldl (step tbl) st

/-- number of live goroutines started at site `fn` -/
def count (st : St) (fn : Fn) : Nat := (st.live.filter (fun g => g.fn == fn)).length

/-! ### structured histories -/

/-- well-bracketed histories.  `go body` = a user goroutine that finishes; `goStuck body t` = one that
    runs `body`, then enters a call `t` it never returns from (blocked forever in user code). -/
inductive Prog where
  | skip
  | probe
  | spawn (fn : Fn)
  | seq (a b : Prog)
  | call (body : Prog) (e : Exit)
  | go (body : Prog)
  | goStuck (body : Prog) (t : Prog)

def flat : Prog → List Ev
  | .skip => []
  | .probe => [.probe]
  | .spawn fn => [.spawn fn]
  | .seq a b => flat a ++ flat b
  | .call b e => .enter :: (flat b ++ [.exit e])
  | .go b => .goBegin :: (flat b ++ [.goEnd])
  | .goStuck b t => .goBegin :: (flat b ++ .enter :: (flat t ++ [.goStuck]))

/-- every user goroutine of the history finishes -/
def Prog.allFinish : Prog → Bool
  | .skip => true
  | .probe => true
  | .spawn _ => true
  | .seq a b => a.allFinish && b.allFinish
  | .call b _ => b.allFinish
  | .go b => b.allFinish
  | .goStuck _ _ => false

end EgoVerif.C09
