import EgoVerif.C09.Model
/-
C09 — property theorems.

`C09_no_growth`   : for EVERY table whose sites are all paired with an allowed stop event, EVERY well-bracketed
                    history `p` (nested callbacks, user goroutines finishing or not, any number of spawns) and
                    EVERY exit path `e`, one execution `call p e` leaves the list of live interpreter-owned
                    goroutines exactly as it found it (user goroutines and what runs inside them excepted).
`C09_no_growth_all`: if moreover every user goroutine of the history finishes, nothing at all is left.
`C09_repeat`      : hence any number of executions, of any programs, with any exits, leaves it unchanged.
`C09_all_sites_paired` : soundness of the table check run by `decide` on the GENERATED site table.
`C09_leftovers_abandoned` : every goroutine alive after an execution was alive before or was started by a frame of a
                    user goroutine that never finishes; `C09_leftovers_none`: none if all user goroutines finished.
`C09_unpaired_leaks`   : the model is sensitive: with an unpaired watcher (GORTNS-1) n executions leave n goroutines.
-/
namespace EgoVerif.C09

/-! ### basic facts about `run` -/

theorem run_append (tbl : Table) (st : St) (a b : List Ev) :
    run tbl st (a ++ b) = run tbl (run tbl st a) b := by
  simp [run, List.foldl_append]

theorem run_cons (tbl : Table) (st : St) (e : Ev) (l : List Ev) :
    run tbl st (e :: l) = run tbl (step tbl st e) l := rfl

theorem run_nil (tbl : Table) (st : St) : run tbl st [] = st := rfl

/-- frame ids are fresh: everything alive or active was created before `next` -/
def Inv (st : St) : Prop := (∀ g ∈ st.live, g.frame < st.next) ∧ (∀ f ∈ st.stack, f.id < st.next)

/-- which goroutines are counted.  `u = false`: the interpreter's own (not user goroutines, not what runs
    inside one, not process-wide workers); `u = true`: user-owned ones as well. -/
def keep (u : Bool) (g : G) : Bool := (u || !g.user) && g.stop != .processOnce

def TableOk (tbl : Table) : Prop := ∀ fn, tbl fn ∈ allowedStops

theorem fires_of_ok {s : Stop} (h : s ∈ allowedStops) (h1 : s ≠ .userProgram) (h2 : s ≠ .processOnce)
    (e : Exit) : s.firesOn e = true := by
  cases s <;> simp_all [allowedStops, Stop.firesOn]

/-- what one well-bracketed piece of history does to the state -/
structure Res (u : Bool) (st st' : St) : Prop where
  stack : st'.stack = st.stack
  inv : Inv st'
  mono : st.next ≤ st'.next
  added : ∃ added, st'.live.filter (keep u) = added ++ st.live.filter (keep u) ∧
      (∀ g ∈ added, ∃ f rest, st.stack = f :: rest ∧ f.isGo = false ∧ g.frame = f.id ∧
          ∀ e, g.stop.firesOn e = true) ∧
      (u = false → inUser st = true → added = [])

theorem Res.refl (u : Bool) (st : St) (h : Inv st) : Res u st st :=
  ⟨rfl, h, Nat.le_refl _, [], by simp, by simp, by simp⟩

theorem Res.trans {u : Bool} {a b c : St} (h1 : Res u a b) (h2 : Res u b c) : Res u a c := by
  obtain ⟨ad1, e1, p1, q1⟩ := h1.added
  obtain ⟨ad2, e2, p2, q2⟩ := h2.added
  refine ⟨h2.stack.trans h1.stack, h2.inv, Nat.le_trans h1.mono h2.mono, ad2 ++ ad1, ?_, ?_, ?_⟩
  · rw [e2, e1, List.append_assoc]
  · intro g hg
    rcases List.mem_append.mp hg with hg | hg
    · have := p2 g hg
      rw [h1.stack] at this
      exact this
    · exact p1 g hg
  · intro hu hin
    have hin2 : inUser b = true := by simpa [inUser, h1.stack] using hin
    rw [q1 hu hin, q2 hu hin2]; rfl

theorem filter_comm' {α : Type} (p q : α → Bool) (l : List α) :
    (l.filter q).filter p = (l.filter p).filter q := by
  simp [List.filter_filter, Bool.and_comm]

/-! ### the single steps -/

theorem res_spawn (tbl : Table) (hT : TableOk tbl) (u : Bool) (fn : Fn) (st : St) (h : Inv st) :
    Res u st (step tbl st (.spawn fn)) := by
  unfold step
  cases hs : st.stack with
  | nil => simpa using Res.refl u st h
  | cons f rest =>
    simp only
    by_cases hgo : f.isGo = true
    · simpa [hgo] using Res.refl u st h
    by_cases hup : tbl fn = .userProgram
    · simpa [hgo, hup] using Res.refl u st h
    by_cases hpo : (tbl fn == .processOnce && st.live.any (fun g => g.fn == fn)) = true
    · simp only [hgo, hpo]; simpa using Res.refl u st h
    · simp only [hgo, hpo]
      have hup' : (tbl fn == Stop.userProgram) = false := by simpa using hup
      simp only [hup', Bool.false_eq_true, if_false]
      have hfid : f.id < st.next := h.2 f (by simp [hs])
      refine ⟨by simp [hs], ⟨?_, by have h2 := h.2; simp only [hs] at h2; simpa using h2⟩, Nat.le_refl _, ?_⟩
      · intro g hg
        rcases List.mem_cons.mp hg with rfl | hg
        · exact hfid
        · exact h.1 g hg
      · by_cases hk : keep u ⟨fn, tbl fn, f.id, inUser st⟩ = true
        · refine ⟨[⟨fn, tbl fn, f.id, inUser st⟩], by simp [hk], ?_, ?_⟩
          · intro g hg
            have : g = ⟨fn, tbl fn, f.id, inUser st⟩ := by simpa using hg
            subst this
            refine ⟨f, rest, hs, by simpa using hgo, rfl, ?_⟩
            have hpo' : tbl fn ≠ .processOnce := by
              intro hc; simp [keep, hc] at hk
            exact fires_of_ok (hT fn) hup hpo'
          · intro hu hin
            simp [keep, hu, hin] at hk
        · refine ⟨[], by simp [hk], by simp, by simp⟩

theorem res_call (tbl : Table) (u : Bool) (e : Exit) (st st2 : St) (h : Inv st)
    (hb : Res u (step tbl st .enter) st2) : Res u st (step tbl st2 (.exit e)) := by
  have hst : st2.stack = ⟨st.next, false⟩ :: st.stack := by simpa [step] using hb.stack
  have hmono : st.next + 1 ≤ st2.next := by simpa [step] using hb.mono
  obtain ⟨ad, e1, p1, _⟩ := hb.added
  unfold step
  simp only [hst, Bool.false_eq_true, if_false]
  refine ⟨rfl, ⟨?_, ?_⟩, by simp; omega, [], ?_, by simp, by simp⟩
  · intro g hg
    exact hb.inv.1 g (List.mem_filter.mp hg).1
  · intro f hf
    have := h.2 f hf
    simp; omega
  · simp only [List.nil_append]
    rw [filter_comm', e1, List.filter_append]
    have h1 : ad.filter (fun g => !(g.frame == st.next && g.stop.firesOn e)) = [] := by
      rw [List.filter_eq_nil_iff]
      intro g hg
      obtain ⟨f, rest, hs, _, hfr, hfire⟩ := p1 g hg
      have : f = ⟨st.next, false⟩ := by simp [step] at hs; exact hs.1.symm
      subst this
      simp [hfr, hfire e]
    have h2 : ((step tbl st .enter).live.filter (keep u)).filter
        (fun g => !(g.frame == st.next && g.stop.firesOn e)) = st.live.filter (keep u) := by
      simp only [step]
      rw [List.filter_eq_self]
      intro g hg
      have := h.1 g (List.mem_filter.mp hg).1
      have hne : (g.frame == st.next) = false := by simp; omega
      simp [hne]
    rw [h1, h2]; rfl

theorem call_keep (tbl : Table) (u : Bool) (e : Exit) (st st2 : St) (h : Inv st)
    (hb : Res u (step tbl st .enter) st2) :
    (step tbl st2 (.exit e)).live.filter (keep u) = st.live.filter (keep u) := by
  obtain ⟨ad, e1, p1, q1⟩ := (res_call tbl u e st st2 h hb).added
  have : ad = [] := by
    apply List.eq_nil_iff_forall_not_mem.mpr
    intro g hg
    -- everything a finished call could have added was started in the call's own frame and its stop fired
    obtain ⟨ad0, e0, p0, _⟩ := hb.added
    have hst : st2.stack = ⟨st.next, false⟩ :: st.stack := by simpa [step] using hb.stack
    have hmem : g ∈ (step tbl st2 (.exit e)).live.filter (keep u) := by rw [e1]; exact List.mem_append_left _ hg
    have hfilt : (step tbl st2 (.exit e)).live.filter (keep u) =
        (ad0 ++ (step tbl st .enter).live.filter (keep u)).filter
          (fun g => !(g.frame == st.next && g.stop.firesOn e)) := by
      simp only [step, hst, Bool.false_eq_true, if_false]
      rw [filter_comm', e0]
      simp [step]
    rw [hfilt, List.filter_append] at hmem
    have h1 : ad0.filter (fun g => !(g.frame == st.next && g.stop.firesOn e)) = [] := by
      rw [List.filter_eq_nil_iff]
      intro g hg
      obtain ⟨f, rest, hs, _, hfr, hfire⟩ := p0 g hg
      have : f = ⟨st.next, false⟩ := by simp [step] at hs; exact hs.1.symm
      subst this
      simp [hfr, hfire e]
    rw [h1, List.nil_append] at hmem
    have hin : g ∈ st.live.filter (keep u) := by
      have := (List.mem_filter.mp hmem).1
      simpa [step] using this
    -- but `ad ++ K = filter … K'` with K' ⊆ K: compare lengths
    have hlen : ((step tbl st2 (.exit e)).live.filter (keep u)).length ≤ (st.live.filter (keep u)).length := by
      rw [hfilt, List.filter_append, h1, List.nil_append]
      have : (step tbl st .enter).live = st.live := by simp [step]
      rw [this]
      exact List.length_filter_le _ _
    rw [e1, List.length_append] at hlen
    have : ad.length = 0 := by omega
    have := List.eq_nil_of_length_eq_zero this
    rw [this] at hg
    simp at hg
  rw [e1, this]; rfl

theorem added_nil_of_go {u : Bool} {st st2 : St} {f : Frame} {rest : List Frame}
    (hs : st.stack = f :: rest) (hf : f.isGo = true) (hb : Res u st st2) :
    st2.live.filter (keep u) = st.live.filter (keep u) := by
  obtain ⟨ad, e1, p1, _⟩ := hb.added
  have : ad = [] := by
    apply List.eq_nil_iff_forall_not_mem.mpr
    intro g hg
    obtain ⟨f', rest', hs', hf', _, _⟩ := p1 g hg
    rw [hs] at hs'
    have : f = f' := (List.cons.inj hs').1
    subst this
    simp [hf] at hf'
  rw [e1, this]; rfl

theorem res_go (tbl : Table) (u : Bool) (st st2 : St) (h : Inv st)
    (hb : Res u (step tbl st .goBegin) st2) : Res u st (step tbl st2 .goEnd) := by
  have hst : st2.stack = ⟨st.next, true⟩ :: st.stack := by simpa [step] using hb.stack
  have hmono : st.next + 1 ≤ st2.next := by simpa [step] using hb.mono
  have hk := added_nil_of_go (f := ⟨st.next, true⟩) (rest := st.stack) (by simp [step]) rfl hb
  unfold step
  simp only [hst, if_true]
  refine ⟨rfl, ⟨?_, ?_⟩, by simp; omega, [], ?_, by simp, by simp⟩
  · intro g hg
    exact hb.inv.1 g (List.mem_filter.mp hg).1
  · intro f hf
    have := h.2 f hf
    simp; omega
  · simp only [List.nil_append]
    rw [filter_comm', hk]
    simp only [step, List.filter_cons]
    have h2 : (st.live.filter (keep u)).filter (fun g => g.frame != st.next) = st.live.filter (keep u) := by
      rw [List.filter_eq_self]
      intro g hg
      have := h.1 g (List.mem_filter.mp hg).1
      simp; omega
    split <;> simp [h2]

theorem res_goStuck (tbl : Table) (st st2 st4 : St) (h : Inv st)
    (hb : Res false (step tbl st .goBegin) st2)
    (ht : Res false (step tbl st2 .enter) st4) : Res false st (step tbl st4 .goStuck) := by
  have hst2 : st2.stack = ⟨st.next, true⟩ :: st.stack := by simpa [step] using hb.stack
  have hst4 : st4.stack = ⟨st2.next, false⟩ :: ⟨st.next, true⟩ :: st.stack := by
    simpa [step, hst2] using ht.stack
  have hm2 : st.next + 1 ≤ st2.next := by simpa [step] using hb.mono
  have hm4 : st2.next + 1 ≤ st4.next := by simpa [step] using ht.mono
  have hk2 := added_nil_of_go (f := ⟨st.next, true⟩) (rest := st.stack) (by simp [step]) rfl hb
  obtain ⟨ad, e4, _, q4⟩ := ht.added
  have had : ad = [] := q4 rfl (by simp [inUser, step, hst2])
  refine ⟨by simp [step, hst4, dropThroughGo], ⟨?_, ?_⟩, by simp [step]; omega, [], ?_, by simp, by simp⟩
  · intro g hg
    exact ht.inv.1 g (by simpa [step] using hg)
  · intro f hf
    have hf' : f ∈ st.stack := by simpa [step, hst4, dropThroughGo] using hf
    have := h.2 f hf'
    simp [step]; omega
  · simp only [List.nil_append]
    have : (step tbl st4 .goStuck).live = st4.live := by simp [step]
    rw [this, e4, had]
    have : (step tbl st2 .enter).live = st2.live := by simp [step]
    rw [List.nil_append, this, hk2]
    simp [step, keep]
theorem inv_enter (tbl : Table) (st : St) (h : Inv st) : Inv (step tbl st .enter) := by
  refine ⟨fun g hg => ?_, fun f hf => ?_⟩
  · have := h.1 g (by simpa [step] using hg)
    simp [step]; omega
  · simp only [step, List.mem_cons] at hf
    rcases hf with rfl | hf
    · simp [step]
    · have := h.2 f hf
      simp [step]; omega

theorem inv_goBegin (tbl : Table) (st : St) (h : Inv st) : Inv (step tbl st .goBegin) := by
  refine ⟨fun g hg => ?_, fun f hf => ?_⟩
  · simp only [step, List.mem_cons] at hg
    rcases hg with rfl | hg
    · simp [step]
    · have := h.1 g hg
      simp [step]; omega
  · simp only [step, List.mem_cons] at hf
    rcases hf with rfl | hf
    · simp [step]
    · have := h.2 f hf
      simp [step]; omega

/-! ### the main lemma: induction over histories -/

theorem res_flat (tbl : Table) (hT : TableOk tbl) (u : Bool) (p : Prog) :
    (u = true → p.allFinish = true) → ∀ st, Inv st → Res u st (run tbl st (flat p)) := by
  induction p with
  | skip => intro _ st h; exact Res.refl u st h
  | probe => intro _ st h; simpa [flat, run, step] using Res.refl u st h
  | spawn fn => intro _ st h; simpa [flat, run] using res_spawn tbl hT u fn st h
  | seq a b iha ihb =>
    intro hp st h
    have ha : u = true → a.allFinish = true := fun hu => by
      have := hp hu; simp [Prog.allFinish] at this; exact this.1
    have hb : u = true → b.allFinish = true := fun hu => by
      have := hp hu; simp [Prog.allFinish] at this; exact this.2
    simp only [flat, run_append]
    have r1 := iha ha st h
    exact r1.trans (ihb hb _ r1.inv)
  | call b e ih =>
    intro hp st h
    have hb : u = true → b.allFinish = true := fun hu => by simpa [Prog.allFinish] using hp hu
    simp only [flat, run_cons, run_append, run_nil]
    exact res_call tbl u e st _ h (ih hb _ (inv_enter tbl st h))
  | go b ih =>
    intro hp st h
    have hb : u = true → b.allFinish = true := fun hu => by simpa [Prog.allFinish] using hp hu
    simp only [flat, run_cons, run_append, run_nil]
    exact res_go tbl u st _ h (ih hb _ (inv_goBegin tbl st h))
  | goStuck b t ihb iht =>
    intro hp st h
    have hu : u = false := by
      cases u with
      | false => rfl
      | true => have := hp rfl; simp [Prog.allFinish] at this
    subst hu
    simp only [flat, run_cons, run_append, run_nil]
    have r1 := ihb (by simp) _ (inv_goBegin tbl st h)
    have r2 := iht (by simp) _ (inv_enter tbl _ r1.inv)
    exact res_goStuck tbl st _ _ h r1 r2

/-! ### the property theorems -/

/-- the interpreter-owned live goroutines (what `runtime.NumGoroutine` minus user goroutines minus one-time
    workers counts) -/
def owned (st : St) : List G := st.live.filter (keep false)

/-- everything alive except process-wide workers -/
def allLive (st : St) : List G := st.live.filter (keep true)

/-- one complete execution: enter, history `p`, leave by exit path `e` -/
def exec (tbl : Table) (p : Prog) (e : Exit) (st : St) : St := run tbl st (flat (.call p e))

theorem exec_res (tbl : Table) (hT : TableOk tbl) (u : Bool) (p : Prog) (e : Exit)
    (hp : u = true → p.allFinish = true) (st : St) (h : Inv st) :
    Inv (exec tbl p e st) ∧ (exec tbl p e st).stack = st.stack ∧
      (exec tbl p e st).live.filter (keep u) = st.live.filter (keep u) := by
  have r := res_flat tbl hT u (.call p e) (by simpa [Prog.allFinish] using hp) st h
  refine ⟨r.inv, r.stack, ?_⟩
  have : exec tbl p e st = step tbl (run tbl (step tbl st .enter) (flat p)) (.exit e) := by
    simp [exec, flat, run_cons, run_append, run_nil]
  rw [this]
  exact call_keep tbl u e st _ h (res_flat tbl hT u p hp _ (inv_enter tbl st h))

/-- **No growth.**  Whatever the execution does (any nesting of callbacks, any user goroutines, finishing or
    not) and however it ends, the interpreter-owned live goroutines afterwards are exactly those before. -/
theorem C09_no_growth (tbl : Table) (hT : TableOk tbl) (p : Prog) (e : Exit) (st : St) (h : Inv st) :
    owned (exec tbl p e st) = owned st :=
  (exec_res tbl hT false p e (by simp) st h).2.2

/-- If every goroutine the program started has finished, nothing at all is left behind. -/
theorem C09_no_growth_all (tbl : Table) (hT : TableOk tbl) (p : Prog) (e : Exit) (hp : p.allFinish = true)
    (st : St) (h : Inv st) : allLive (exec tbl p e st) = allLive st :=
  (exec_res tbl hT true p e (fun _ => hp) st h).2.2

/-- run a list of executions one after the other -/
def execAll (tbl : Table) (st : St) (xs : List (Prog × Exit)) : St :=
  xs.foldl (fun s x => exec tbl x.1 x.2 s) st

/-- **Repetition.**  Any number of executions of any programs with any exits leaves the owned set unchanged. -/
theorem C09_repeat_any (tbl : Table) (hT : TableOk tbl) (xs : List (Prog × Exit)) (st : St) (h : Inv st) :
    owned (execAll tbl st xs) = owned st ∧ Inv (execAll tbl st xs) := by
  induction xs generalizing st with
  | nil => exact ⟨rfl, h⟩
  | cons x xs ih =>
    have r := exec_res tbl hT false x.1 x.2 (by simp) st h
    have := ih (exec tbl x.1 x.2 st) r.1
    simp only [execAll, List.foldl_cons] at this ⊢
    exact ⟨this.1.trans r.2.2, this.2⟩

theorem C09_repeat (tbl : Table) (hT : TableOk tbl) (p : Prog) (e : Exit) (n : Nat) (st : St) (h : Inv st) :
    owned (execAll tbl st (List.replicate n (p, e))) = owned st :=
  (C09_repeat_any tbl hT _ st h).1

theorem inv_init : Inv init := by simp [Inv, init]

/-- from a fresh process: after any executions no interpreter-owned goroutine is alive -/
theorem C09_repeat_from_init (tbl : Table) (hT : TableOk tbl) (xs : List (Prog × Exit)) :
    owned (execAll tbl init xs) = [] := by
  simpa [owned, init] using (C09_repeat_any tbl hT xs init inv_init).1

/-! ### the generated site table -/

/-- **Table check is sound** (discharged by `decide` on the GENERATED table at check time): every `go`
    site is in a known function, its source facts classify it as the expectation table says, and that stop
    event is an allowed one. -/
theorem C09_all_sites_paired (T : List Facts) (h : checkTable T = true) :
    ∀ f ∈ T, ∃ fn, f.fn = some fn ∧ classify f = expected fn ∧ classify f ∈ allowedStops := by
  intro f hf
  have h1 : siteOk f = true := by
    simp only [checkTable, Bool.and_eq_true, List.all_eq_true] at h
    exact h.1 f hf
  unfold siteOk at h1
  cases hfn : f.fn with
  | none => simp [hfn] at h1
  | some fn =>
    simp only [hfn, Bool.and_eq_true, beq_iff_eq, List.contains_iff_mem] at h1
    exact ⟨fn, rfl, h1.1, h1.2⟩

theorem expected_allowed (fn : Fn) : expected fn ∈ allowedStops := by
  cases fn <;> simp [expected, allowedStops]

/-- a checked table gives the lifecycle model exactly the expectation table -/
theorem tableOf_eq_expected (T : List Facts) (h : checkTable T = true) (fn : Fn) :
    tableOf T fn = expected fn := by
  have hall := C09_all_sites_paired T h
  have hcov : T.any (fun f => f.fn == some fn) = true := by
    simp only [checkTable, Bool.and_eq_true, List.all_eq_true] at h
    exact h.2 fn (by cases fn <;> simp [allFns])
  have hcl : ∀ g ∈ T.filter (fun f => f.fn == some fn), classify g = expected fn := by
    intro g hg
    obtain ⟨hgT, hgfn⟩ := List.mem_filter.mp hg
    obtain ⟨fn', e1, e2, _⟩ := hall g hgT
    have : fn' = fn := by
      have : g.fn = some fn := by simpa using hgfn
      rw [e1] at this; exact Option.some.inj this
    rw [e2, this]
  unfold tableOf
  cases hl : T.filter (fun f => f.fn == some fn) with
  | nil =>
    have : ∃ f ∈ T, (f.fn == some fn) = true := by simpa [List.any_eq_true] using hcov
    obtain ⟨f, hfT, hf⟩ := this
    have : f ∈ T.filter (fun f => f.fn == some fn) := List.mem_filter.mpr ⟨hfT, hf⟩
    rw [hl] at this; simp at this
  | cons f rest =>
    have hf : classify f = expected fn := hcl f (by rw [hl]; simp)
    have hrest : rest.all (fun g => classify g == classify f) = true := by
      rw [List.all_eq_true]
      intro g hg
      have := hcl g (by rw [hl]; exact List.mem_cons_of_mem _ hg)
      simp [this, hf]
    simp only [hrest, if_true]
    exact hf

theorem tableOk_of_check (T : List Facts) (h : checkTable T = true) : TableOk (tableOf T) := by
  intro fn
  rw [tableOf_eq_expected T h fn]
  exact expected_allowed fn

/-- the theorems instantiated at a checked (generated) table -/
theorem C09_no_growth_gen (T : List Facts) (h : checkTable T = true) (p : Prog) (e : Exit) (st : St)
    (hi : Inv st) : owned (exec (tableOf T) p e st) = owned st :=
  C09_no_growth _ (tableOk_of_check T h) p e st hi

/-! ### sensitivity: the model expresses GORTNS-1 -/

/-- the table of the code before the GORTNS-1 fix: nothing stops the watcher -/
def tblUnpaired : Table := fun _ => .none

theorem exec_unpaired_len (e : Exit) (st : St) (h : Inv st) :
    Inv (exec tblUnpaired (.spawn .runFromAddress) e st) ∧
    (exec tblUnpaired (.spawn .runFromAddress) e st).stack = st.stack ∧
    (exec tblUnpaired (.spawn .runFromAddress) e st).live.length = st.live.length + 1 := by
  have hexec : exec tblUnpaired (.spawn .runFromAddress) e st =
      { next := st.next + 1,
        live := (⟨.runFromAddress, .none, st.next, inUser st⟩ :: st.live).filter
            (fun g => !(g.frame == st.next && g.stop.firesOn e)),
        stack := st.stack } := by
    simp [exec, flat, run, step, tblUnpaired, inUser]
  have hfil : (⟨.runFromAddress, .none, st.next, inUser st⟩ :: st.live : List G).filter
      (fun g => !(g.frame == st.next && g.stop.firesOn e)) =
      ⟨.runFromAddress, .none, st.next, inUser st⟩ :: st.live := by
    rw [List.filter_eq_self]
    intro g hg
    rcases List.mem_cons.mp hg with rfl | hg
    · simp [Stop.firesOn]
    · have := h.1 g hg
      have hne : (g.frame == st.next) = false := by simp; omega
      simp [hne]
  rw [hexec, hfil]
  refine ⟨⟨?_, ?_⟩, rfl, by simp⟩
  · intro g hg
    rcases List.mem_cons.mp hg with rfl | hg
    · simp
    · have := h.1 g hg
      simp; omega
  · intro f hf
    have := h.2 f hf
    simp; omega

/-- **GORTNS-1 in the model**: with an unpaired watcher, n executions leave n goroutines behind,
    whatever the exit path. -/
theorem C09_unpaired_leaks (e : Exit) (n : Nat) :
    (execAll tblUnpaired init (List.replicate n (.spawn .runFromAddress, e))).live.length = n := by
  suffices H : ∀ st, Inv st →
      (execAll tblUnpaired st (List.replicate n (.spawn .runFromAddress, e))).live.length
        = st.live.length + n by
    simpa [init] using H init inv_init
  induction n with
  | zero => intro st _; simp [execAll]
  | succ n ih =>
    intro st h
    obtain ⟨h1, _, h3⟩ := exec_unpaired_len e st h
    have := ih _ h1
    simp only [List.replicate_succ, execAll, List.foldl_cons] at this ⊢
    rw [this, h3]; omega

/-! ### non-vacuity: the hypotheses are met by the table of the current tree and by rich histories -/

/-- snapshot of the site facts of the tree this file was written against (the check regenerates them) -/
def snapshotSites : List Facts := [
  { fn := some .goByteCode, litBody := false, waitsOnDone := false, deferBefore := false, deferNext := false,
    sendsBuffered := false, recvOnEveryPath := false, wgPaired := true, calleeRunsProgram := true },
  { fn := some .runFromAddress, litBody := true, waitsOnDone := true, deferBefore := false, deferNext := true,
    sendsBuffered := false, recvOnEveryPath := false, wgPaired := false, calleeRunsProgram := false },
  { fn := some .restExchange, litBody := true, waitsOnDone := true, deferBefore := true, deferNext := false,
    sendsBuffered := false, recvOnEveryPath := false, wgPaired := false, calleeRunsProgram := false },
  { fn := some .runChildViaPipe, litBody := true, waitsOnDone := false, deferBefore := false, deferNext := false,
    sendsBuffered := true, recvOnEveryPath := true, wgPaired := false, calleeRunsProgram := false },
  { fn := some .runChildProcess, litBody := true, waitsOnDone := false, deferBefore := false, deferNext := false,
    sendsBuffered := true, recvOnEveryPath := true, wgPaired := false, calleeRunsProgram := false } ]

example : checkTable snapshotSites = true := by decide
example : TableOk (tableOf snapshotSites) := tableOk_of_check _ (by decide)
example : TableOk expected := expected_allowed
/-- the pre-fix watcher (no `close(done)` in the defer) is rejected by the table check -/
example : checkTable (snapshotSites.map fun f =>
    if f.fn == some .runFromAddress then { f with deferNext := false } else f) = false := by decide
/-- an unknown `go` site is rejected (fail closed) -/
def unknownSite : Facts :=
  { fn := none, litBody := true, waitsOnDone := true, deferBefore := true, deferNext := false,
    sendsBuffered := false, recvOnEveryPath := false, wgPaired := false, calleeRunsProgram := false }
example : checkTable (snapshotSites ++ [unknownSite]) = false := by decide
/-- a site that disappeared from its function is rejected too (the model would be stale) -/
example : checkTable (snapshotSites.drop 1) = false := by decide
example : Inv init := inv_init

/-- a rich history: a program whose sort comparator (two calls, the second failing) itself starts a user
    goroutine, plus one goroutine that never finishes -/
def sampleProg : Prog :=
  .seq (.spawn .runFromAddress)
   (.seq (.call (.seq (.spawn .runFromAddress) (.go (.call (.spawn .runFromAddress) .normal))) .callback)
    (.seq (.call (.spawn .runFromAddress) .error)
     (.seq .probe (.goStuck .skip (.spawn .runFromAddress)))))

-- while it runs there are watchers alive …
example : count (run expected init (flat (.call (.seq (.spawn .runFromAddress)
    (.call (.seq (.spawn .runFromAddress) .probe) .callback)) .normal)).dropLast.dropLast.dropLast) .runFromAddress = 2 := by
  decide
-- … afterwards none is owned by the interpreter, whatever the exit; the stuck user goroutine and its watcher remain
example : owned (exec expected sampleProg .panic init) = [] := by decide
example : (exec expected sampleProg .panic init).live.length = 2 := by decide
example : sampleProg.allFinish = false := by decide
example : (Prog.seq (.spawn .runFromAddress) (.go (.call (.spawn .runFromAddress) .error))).allFinish = true := by decide
-- and the unpaired table really leaks on that same program
example : (owned (exec tblUnpaired sampleProg .normal init)).length = 3 := by decide


/-! ### what is left behind was started by a frame that never exited -/

/-- ids of the frames a `goStuck` abandons -/
def droppedIds : List Frame → List Nat
  | [] => []
  | f :: rest => if f.isGo then [f.id] else f.id :: droppedIds rest

/-- ghost instrumentation of `step`: also collect the ids of abandoned frames (the frames of user
    goroutines that never finish, the goroutine's own go-frame included) -/
def stepA (tbl : Table) (s : St × List Nat) (e : Ev) : St × List Nat :=
  (step tbl s.1 e, match e with
    | .goStuck => droppedIds s.1.stack ++ s.2
    | _ => s.2)

def runA (tbl : Table) (s : St × List Nat) (evs : List Ev) : St × List Nat := evs.foldl (stepA tbl) s

theorem runA_fst (tbl : Table) (s : St × List Nat) (evs : List Ev) : (runA tbl s evs).1 = run tbl s.1 evs := by
  induction evs generalizing s with
  | nil => rfl
  | cons e l ih => simpa [runA, run, stepA] using ih (stepA tbl s e)

theorem runA_append (tbl : Table) (s : St × List Nat) (a b : List Ev) :
    runA tbl s (a ++ b) = runA tbl (runA tbl s a) b := by simp [runA, List.foldl_append]

theorem runA_cons (tbl : Table) (s : St × List Nat) (e : Ev) (l : List Ev) :
    runA tbl s (e :: l) = runA tbl (stepA tbl s e) l := rfl

theorem runA_nil (tbl : Table) (s : St × List Nat) : runA tbl s [] = s := rfl

def notOnce (g : G) : Bool := g.stop != .processOnce

/-- started directly in the current (non-go) top frame, with a stop event that fires on every exit -/
def Direct (st : St) (g : G) : Prop :=
  ∃ f rest, st.stack = f :: rest ∧ f.isGo = false ∧ g.frame = f.id ∧ ∀ e, g.stop.firesOn e = true

structure MemA (s s' : St × List Nat) : Prop where
  ab : ∀ n ∈ s.2, n ∈ s'.2
  mem : ∀ g ∈ s'.1.live, notOnce g = true → g ∈ s.1.live ∨ g.frame ∈ s'.2 ∨ Direct s.1 g

theorem MemA.refl (s : St × List Nat) : MemA s s := ⟨fun _ h => h, fun _ h _ => Or.inl h⟩

theorem MemA.trans {a b c : St × List Nat} (hs : b.1.stack = a.1.stack) (h1 : MemA a b) (h2 : MemA b c) :
    MemA a c := by
  refine ⟨fun n h => h2.ab n (h1.ab n h), fun g hg hn => ?_⟩
  rcases h2.mem g hg hn with h | h | h
  · rcases h1.mem g h hn with h | h | h
    · exact Or.inl h
    · exact Or.inr (Or.inl (h2.ab _ h))
    · exact Or.inr (Or.inr h)
  · exact Or.inr (Or.inl h)
  · refine Or.inr (Or.inr ?_)
    obtain ⟨f, rest, e1, e2, e3, e4⟩ := h
    exact ⟨f, rest, by rw [← hs]; exact e1, e2, e3, e4⟩

theorem memA_spawn (tbl : Table) (hT : TableOk tbl) (fn : Fn) (s : St × List Nat) :
    MemA s (stepA tbl s (.spawn fn)) := by
  refine ⟨fun n h => by simpa [stepA] using h, fun g hg hn => ?_⟩
  simp only [stepA, step] at hg
  cases hs : s.1.stack with
  | nil => simp [hs] at hg; exact Or.inl hg
  | cons f rest =>
    simp only [hs] at hg
    by_cases hgo : f.isGo = true
    · simp [hgo] at hg; exact Or.inl hg
    by_cases hup : tbl fn = .userProgram
    · simp [hgo, hup] at hg; exact Or.inl hg
    by_cases hpo : (tbl fn == .processOnce && s.1.live.any (fun g => g.fn == fn)) = true
    · simp only [hgo, hpo] at hg
      have hup' : (tbl fn == Stop.userProgram) = false := by simpa using hup
      simp [hup'] at hg; exact Or.inl hg
    · have hup' : (tbl fn == Stop.userProgram) = false := by simpa using hup
      simp only [hgo, hpo, hup', Bool.false_eq_true, if_false] at hg
      rcases List.mem_cons.mp hg with rfl | hg
      · refine Or.inr (Or.inr ⟨f, rest, hs, by simpa using hgo, rfl, ?_⟩)
        have hpo' : tbl fn ≠ .processOnce := by
          intro hc; simp [notOnce, hc] at hn
        exact fires_of_ok (hT fn) hup hpo'
      · exact Or.inl hg

theorem call_strict (tbl : Table) (e : Exit) (s s2 : St × List Nat)
    (hst : s2.1.stack = ⟨s.1.next, false⟩ :: s.1.stack)
    (hb : MemA (stepA tbl s .enter) s2) :
    ∀ g ∈ (stepA tbl s2 (.exit e)).1.live, notOnce g = true → g ∈ s.1.live ∨ g.frame ∈ s2.2 := by
  intro g hg hn
  simp only [stepA, step, hst, Bool.false_eq_true, if_false] at hg
  obtain ⟨hg2, hq⟩ := List.mem_filter.mp hg
  rcases hb.mem g hg2 hn with h | h | h
  · exact Or.inl (by simpa [stepA, step] using h)
  · exact Or.inr h
  · obtain ⟨f, rest, e1, _, e3, e4⟩ := h
    have : f = ⟨s.1.next, false⟩ := by simp [stepA, step] at e1; exact e1.1.symm
    subst this
    simp [e3, e4 e] at hq

theorem memA_call (tbl : Table) (e : Exit) (s s2 : St × List Nat)
    (hst : s2.1.stack = ⟨s.1.next, false⟩ :: s.1.stack)
    (hb : MemA (stepA tbl s .enter) s2) : MemA s (stepA tbl s2 (.exit e)) := by
  refine ⟨fun n h => by simpa [stepA] using hb.ab n (by simpa [stepA] using h), fun g hg hn => ?_⟩
  rcases call_strict tbl e s s2 hst hb g hg hn with h | h
  · exact Or.inl h
  · exact Or.inr (Or.inl (by simpa [stepA] using h))

theorem memA_go (tbl : Table) (s s2 : St × List Nat)
    (hst : s2.1.stack = ⟨s.1.next, true⟩ :: s.1.stack)
    (hb : MemA (stepA tbl s .goBegin) s2) : MemA s (stepA tbl s2 .goEnd) := by
  refine ⟨fun n h => by simpa [stepA] using hb.ab n (by simpa [stepA] using h), fun g hg hn => ?_⟩
  simp only [stepA, step, hst, if_true] at hg
  obtain ⟨hg2, hq⟩ := List.mem_filter.mp hg
  rcases hb.mem g hg2 hn with h | h | h
  · simp only [stepA, step, List.mem_cons] at h
    rcases h with rfl | h
    · simp at hq
    · exact Or.inl h
  · exact Or.inr (Or.inl (by simpa [stepA] using h))
  · obtain ⟨f, rest, e1, e2, _, _⟩ := h
    have : f = ⟨s.1.next, true⟩ := by simp [stepA, step] at e1; exact e1.1.symm
    subst this
    simp at e2

theorem memA_goStuck (tbl : Table) (s s2 s4 : St × List Nat)
    (_hst2 : s2.1.stack = ⟨s.1.next, true⟩ :: s.1.stack)
    (hst4 : s4.1.stack = ⟨s2.1.next, false⟩ :: ⟨s.1.next, true⟩ :: s.1.stack)
    (hb : MemA (stepA tbl s .goBegin) s2) (ht : MemA (stepA tbl s2 .enter) s4) :
    MemA s (stepA tbl s4 .goStuck) := by
  have hab5 : (stepA tbl s4 .goStuck).2 = s2.1.next :: s.1.next :: s4.2 := by
    simp [stepA, hst4, droppedIds]
  refine ⟨fun n h => ?_, fun g hg hn => ?_⟩
  · rw [hab5]
    have := ht.ab n (by simpa [stepA] using hb.ab n (by simpa [stepA] using h))
    simp [this]
  · rw [hab5]
    have hg4 : g ∈ s4.1.live := by simpa [stepA, step] using hg
    rcases ht.mem g hg4 hn with h | h | h
    · have hg2 : g ∈ s2.1.live := by simpa [stepA, step] using h
      rcases hb.mem g hg2 hn with h | h | h
      · simp only [stepA, step, List.mem_cons] at h
        rcases h with rfl | h
        · exact Or.inr (Or.inl (by simp))
        · exact Or.inl h
      · have := ht.ab _ (by simpa [stepA] using h)
        exact Or.inr (Or.inl (by simp [this]))
      · obtain ⟨f, rest, e1, e2, _, _⟩ := h
        have : f = ⟨s.1.next, true⟩ := by simp [stepA, step] at e1; exact e1.1.symm
        subst this
        simp at e2
    · exact Or.inr (Or.inl (by simp [h]))
    · obtain ⟨f, rest, e1, _, e3, _⟩ := h
      have : f = ⟨s2.1.next, false⟩ := by simp [stepA, step] at e1; exact e1.1.symm
      subst this
      exact Or.inr (Or.inl (by simp [e3]))

theorem memA_flat (tbl : Table) (hT : TableOk tbl) (p : Prog) :
    ∀ s : St × List Nat, Inv s.1 → MemA s (runA tbl s (flat p)) := by
  induction p with
  | skip => intro s _; exact MemA.refl s
  | probe => intro s _; simpa [flat, runA, stepA, step] using MemA.refl s
  | spawn fn => intro s _; simpa [flat, runA] using memA_spawn tbl hT fn s
  | seq a b iha ihb =>
    intro s h
    simp only [flat, runA_append]
    have r1 := res_flat tbl hT false a (by simp) s.1 h
    rw [← runA_fst] at r1
    exact MemA.trans r1.stack (iha s h) (ihb _ r1.inv)
  | call b e ih =>
    intro s h
    simp only [flat, runA_cons, runA_append, runA_nil]
    have hi : Inv (stepA tbl s .enter).1 := inv_enter tbl s.1 h
    have r1 := res_flat tbl hT false b (by simp) (stepA tbl s .enter).1 hi
    rw [← runA_fst] at r1
    exact memA_call tbl e s _ (by simpa [stepA, step] using r1.stack) (ih _ hi)
  | go b ih =>
    intro s h
    simp only [flat, runA_cons, runA_append, runA_nil]
    have hi : Inv (stepA tbl s .goBegin).1 := inv_goBegin tbl s.1 h
    have r1 := res_flat tbl hT false b (by simp) (stepA tbl s .goBegin).1 hi
    rw [← runA_fst] at r1
    exact memA_go tbl s _ (by simpa [stepA, step] using r1.stack) (ih _ hi)
  | goStuck b t ihb iht =>
    intro s h
    simp only [flat, runA_cons, runA_append, runA_nil]
    have hi : Inv (stepA tbl s .goBegin).1 := inv_goBegin tbl s.1 h
    have r1 := res_flat tbl hT false b (by simp) (stepA tbl s .goBegin).1 hi
    rw [← runA_fst] at r1
    have hst2 : (runA tbl (stepA tbl s .goBegin) (flat b)).1.stack = ⟨s.1.next, true⟩ :: s.1.stack := by
      simpa [stepA, step] using r1.stack
    have hi3 : Inv (stepA tbl (runA tbl (stepA tbl s .goBegin) (flat b)) .enter).1 := inv_enter tbl _ r1.inv
    have r2 := res_flat tbl hT false t (by simp) _ hi3
    rw [← runA_fst] at r2
    have e3 : ∀ X : St × List Nat, (stepA tbl X .enter).1.stack = ⟨X.1.next, false⟩ :: X.1.stack :=
      fun _ => rfl
    have h4 := r2.stack
    rw [e3, hst2] at h4
    exact memA_goStuck tbl s _ _ hst2 h4 (ihb _ hi) (iht _ hi3)

/-- nothing is abandoned when every user goroutine finishes -/
theorem runA_snd_allFinish (tbl : Table) (p : Prog) (hp : p.allFinish = true) :
    ∀ s : St × List Nat, (runA tbl s (flat p)).2 = s.2 := by
  induction p with
  | skip => intro s; rfl
  | probe => intro s; rfl
  | spawn fn => intro s; rfl
  | seq a b iha ihb =>
    intro s
    simp only [Prog.allFinish, Bool.and_eq_true] at hp
    simp only [flat, runA_append]
    rw [ihb hp.2, iha hp.1]
  | call b e ih =>
    intro s
    simp only [flat, runA_cons, runA_append, runA_nil]
    have := ih (by simpa [Prog.allFinish] using hp) (stepA tbl s .enter)
    simp only [stepA] at this ⊢
    exact this
  | go b ih =>
    intro s
    simp only [flat, runA_cons, runA_append, runA_nil]
    have := ih (by simpa [Prog.allFinish] using hp) (stepA tbl s .goBegin)
    simp only [stepA] at this ⊢
    exact this
  | goStuck b t _ _ => simp [Prog.allFinish] at hp

/-- the frames abandoned by one execution (ghost run from an empty abandoned list) -/
def abandoned (tbl : Table) (p : Prog) (e : Exit) (st : St) : List Nat :=
  (runA tbl (st, []) (flat (.call p e))).2

/-- **Leftovers are attributable.**  After one execution — whatever it did, however it ended — every live
    goroutine (process-wide workers aside) either was alive before, or was started by a frame of a user
    goroutine that never finishes (that goroutine itself included). -/
theorem C09_leftovers_abandoned (tbl : Table) (hT : TableOk tbl) (p : Prog) (e : Exit) (st : St) (h : Inv st) :
    ∀ g ∈ (exec tbl p e st).live, g.stop ≠ .processOnce → g ∈ st.live ∨ g.frame ∈ abandoned tbl p e st := by
  intro g hg hn
  have hi : Inv (stepA tbl (st, []) .enter).1 := inv_enter tbl st h
  have r1 := res_flat tbl hT false p (by simp) (stepA tbl (st, []) .enter).1 hi
  rw [← runA_fst] at r1
  have hst : (runA tbl (stepA tbl (st, []) .enter) (flat p)).1.stack = ⟨st.next, false⟩ :: st.stack := by
    simpa [stepA, step] using r1.stack
  have hrun : runA tbl (st, []) (flat (.call p e)) =
      stepA tbl (runA tbl (stepA tbl (st, []) .enter) (flat p)) (.exit e) := by
    simp only [flat, runA_cons, runA_append, runA_nil]
  have hfst : (runA tbl (st, []) (flat (.call p e))).1 = exec tbl p e st := by rw [runA_fst]; rfl
  have hn' : notOnce g = true := by simpa [notOnce] using hn
  have := call_strict tbl e (st, []) _ hst (memA_flat tbl hT p _ hi) g
    (by rw [← hrun, hfst]; exact hg) hn'
  rcases this with h1 | h1
  · exact Or.inl h1
  · refine Or.inr ?_
    simp only [abandoned, hrun, stepA]
    exact h1

/-- … and when every user goroutine finished nothing was abandoned: every live goroutine was alive before. -/
theorem C09_leftovers_none (tbl : Table) (hT : TableOk tbl) (p : Prog) (e : Exit) (hp : p.allFinish = true)
    (st : St) (h : Inv st) :
    ∀ g ∈ (exec tbl p e st).live, g.stop ≠ .processOnce → g ∈ st.live := by
  intro g hg hn
  rcases C09_leftovers_abandoned tbl hT p e st h g hg hn with h1 | h1
  · exact h1
  · have : abandoned tbl p e st = [] := by
      simpa [abandoned] using runA_snd_allFinish tbl (.call p e) (by simpa [Prog.allFinish] using hp) (st, [])
    rw [this] at h1; simp at h1


-- non-vacuity: in the sample history the stuck user goroutine (go-frame 5) and its watcher (frame 6) remain
example : abandoned expected sampleProg .panic init = [6, 5] := by decide
example : (exec expected sampleProg .panic init).live.map (·.frame) = [6, 5] := by decide

end EgoVerif.C09
