import EgoVerif.Common.Drv
import EgoVerif.C32.Model
/- line protocol (every string field is hex of its bytes, "-" = empty; a route is `<endpoint>:<method>`):
   `find <method> <path> <route>*`   → FindRoute (patched code) on that table, routes in the given order
   `raw <method> <path> <route>*`    → the same without the sort (code before fixes/C32.patch)
   `table <route>*`                  → remember a table; answers `table <n>`
   `tfind <method> <path>`           → `find` on the remembered table
   answers: `404` | `405` | `nil` | `ok <endpoint> <method>` -/
namespace EgoVerif.C32

def strOfHex (h : String) : Option Str :=
  if h == "-" then some [] else (bytesOfHex h).map (·.map UInt8.toNat)

def hexOfStr (s : Str) : String :=
  if s.isEmpty then "-" else hexOfBytes (s.map UInt8.ofNat)

def routeOfField (f : String) : Option Route :=
  match f.splitOn ":" with
  | [e, m] =>
    match strOfHex e, strOfHex m with
    | some e, some m => some ⟨e, m⟩
    | _, _ => none
  | _ => none

def routesOfFields : List String → Option (List Route)
  | [] => some []
  | f :: rest =>
    match routeOfField f, routesOfFields rest with
    | some r, some rs => some (r :: rs)
    | _, _ => none

def render : Result → String
  | .notFound => "404"
  | .methodNotAllowed => "405"
  | .nilRoute => "nil"
  | .ok r => "ok " ++ hexOfStr r.endpoint ++ " " ++ hexOfStr r.method

def step (tbl : List Route) (line : String) : List Route × String :=
  match fields line with
  | "find" :: m :: p :: rs =>
    match strOfHex m, strOfHex p, routesOfFields rs with
    | some m, some p, some rs => (tbl, render (findRoute rs m p))
    | _, _, _ => (tbl, "bad-input")
  | "raw" :: m :: p :: rs =>
    match strOfHex m, strOfHex p, routesOfFields rs with
    | some m, some p, some rs => (tbl, render (findRouteRaw rs m p))
    | _, _, _ => (tbl, "bad-input")
  | "table" :: rs =>
    match routesOfFields rs with
    | some rs => (rs, s!"table {rs.length}")
    | none => (tbl, "bad-input")
  | ["tfind", m, p] =>
    match strOfHex m, strOfHex p with
    | some m, some p => (tbl, render (findRoute tbl m p))
    | _, _ => (tbl, "bad-input")
  | _ => (tbl, "bad-op")

def drv : Drv := { σ := List Route, init := [], step := step }

end EgoVerif.C32
