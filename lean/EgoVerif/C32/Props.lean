import EgoVerif.C32.Model
/-
C32 — property theorems for `FindRoute` (with fixes/C32.patch).

The route table is a Go map; `for … range m.routes` visits it in an arbitrary order that changes
from call to call.  The model takes the table as a list in visiting order, so "the answer never
depends on registration or iteration order" is: `findRoute` is invariant under EVERY permutation
of the list (`C32_perm_invariant`).  "Most specific" is `C32_fewest_vars`.

`C32_raw_counterexample` shows that the same function without the sort of the patch (the code
as it was) does depend on the order.
-/
namespace EgoVerif.C32

/-! ### the order used by the patch is a total order on (endpoint, method) -/

theorem strLe_refl (a : Str) : strLe a a = true := by
  induction a with
  | nil => rfl
  | cons x xs ih => simp [strLe, ih]

theorem strLe_total (a b : Str) : strLe a b = true ∨ strLe b a = true := by
  induction a generalizing b with
  | nil => simp [strLe]
  | cons x xs ih =>
    cases b with
    | nil => simp [strLe]
    | cons y ys =>
      simp only [strLe]
      by_cases h1 : x < y
      · simp [h1]
      · by_cases h2 : y < x
        · simp [h2]
        · simp [h1, h2]; exact ih ys

theorem strLe_antisymm (a b : Str) (h1 : strLe a b = true) (h2 : strLe b a = true) : a = b := by
  induction a generalizing b with
  | nil => cases b with
    | nil => rfl
    | cons y ys => simp [strLe] at h2
  | cons x xs ih =>
    cases b with
    | nil => simp [strLe] at h1
    | cons y ys =>
      simp only [strLe] at h1 h2
      by_cases hxy : x < y
      · have : ¬ y < x := by omega
        simp [hxy, this] at h2
      · by_cases hyx : y < x
        · simp [hxy, hyx] at h1
        · simp [hxy, hyx] at h1 h2
          have : x = y := by omega
          rw [this, ih ys h1 h2]

theorem strLe_trans (a b c : Str) (h1 : strLe a b = true) (h2 : strLe b c = true) : strLe a c = true := by
  induction a generalizing b c with
  | nil => simp [strLe]
  | cons x xs ih =>
    cases b with
    | nil => simp [strLe] at h1
    | cons y ys =>
      cases c with
      | nil => simp [strLe] at h2
      | cons z zs =>
        simp only [strLe] at h1 h2 ⊢
        by_cases hxy : x < y
        · by_cases hyz : y < z
          · have : x < z := by omega
            simp [this]
          · by_cases hzy : z < y
            · simp [hyz, hzy] at h2
            · have : x < z := by omega
              simp [this]
        · by_cases hyx : y < x
          · simp [hxy, hyx] at h1
          · simp [hxy, hyx] at h1
            have hxe : x = y := by omega
            subst hxe
            by_cases hyz : x < z
            · simp [hyz]
            · by_cases hzy : z < x
              · simp [hyz, hzy] at h2
              · simp [hyz, hzy] at h2 ⊢
                exact ih ys zs h1 h2

theorem methodLe_total (a b : Str) : methodLe a b = true ∨ methodLe b a = true := by
  unfold methodLe
  by_cases hb : b = anyMethod
  · simp [hb]
  · by_cases ha : a = anyMethod
    · simp [ha]
    · have := strLe_total a b
      simp [ha, hb]; exact this

theorem methodLe_antisymm (a b : Str) (h1 : methodLe a b = true) (h2 : methodLe b a = true) : a = b := by
  unfold methodLe at h1 h2
  by_cases hb : b = anyMethod
  · simp [hb] at h2; simp [hb, h2]
  · by_cases ha : a = anyMethod
    · simp [ha, hb] at h1
    · simp [ha, hb] at h1 h2
      exact strLe_antisymm a b h1 h2

theorem methodLe_trans (a b c : Str) (h1 : methodLe a b = true) (h2 : methodLe b c = true) :
    methodLe a c = true := by
  unfold methodLe at h1 h2 ⊢
  by_cases hc : c = anyMethod
  · simp [hc]
  · simp [hc] at h2
    simp [h2.1] at h1
    simp [hc, h1.1]
    exact strLe_trans a b c h1.2 h2.2

theorem routeLe_total (a b : Route) : (routeLe a b || routeLe b a) = true := by
  unfold routeLe
  by_cases h : a.endpoint = b.endpoint
  · have := methodLe_total a.method b.method
    simp [h]; exact this
  · have h' : ¬ b.endpoint = a.endpoint := fun e => h e.symm
    have := strLe_total a.endpoint b.endpoint
    simp [h, h']; exact this

theorem routeLe_antisymm (a b : Route) (h1 : routeLe a b = true) (h2 : routeLe b a = true) : a = b := by
  unfold routeLe at h1 h2
  by_cases h : a.endpoint = b.endpoint
  · simp [h] at h1 h2
    have hm := methodLe_antisymm _ _ h1 h2
    cases a; cases b; simp_all
  · have h' : ¬ b.endpoint = a.endpoint := fun e => h e.symm
    simp [h, h'] at h1 h2
    exact absurd (strLe_antisymm _ _ h1 h2) h

theorem routeLe_of_eq {a b : Route} (h : a.endpoint = b.endpoint) :
    routeLe a b = methodLe a.method b.method := by simp [routeLe, h]

theorem routeLe_of_ne {a b : Route} (h : ¬ a.endpoint = b.endpoint) :
    routeLe a b = strLe a.endpoint b.endpoint := by simp [routeLe, h]

theorem routeLe_trans (a b c : Route) (h1 : routeLe a b = true) (h2 : routeLe b c = true) :
    routeLe a c = true := by
  by_cases hab : a.endpoint = b.endpoint
  · by_cases hbc : b.endpoint = c.endpoint
    · rw [routeLe_of_eq hab] at h1
      rw [routeLe_of_eq hbc] at h2
      rw [routeLe_of_eq (hab.trans hbc)]
      exact methodLe_trans _ _ _ h1 h2
    · have hac : ¬ a.endpoint = c.endpoint := fun e => hbc (hab.symm.trans e)
      rw [routeLe_of_ne hbc] at h2
      rw [routeLe_of_ne hac, hab]
      exact h2
  · by_cases hbc : b.endpoint = c.endpoint
    · have hac : ¬ a.endpoint = c.endpoint := fun e => hab (e.trans hbc.symm)
      rw [routeLe_of_ne hab] at h1
      rw [routeLe_of_ne hac, ← hbc]
      exact h1
    · rw [routeLe_of_ne hab] at h1
      rw [routeLe_of_ne hbc] at h2
      by_cases hac : a.endpoint = c.endpoint
      · exfalso
        rw [← hac] at h2
        exact hab (strLe_antisymm _ _ h1 h2)
      · rw [routeLe_of_ne hac]
        exact strLe_trans _ _ _ h1 h2

/-! ### `sortC` is a sort, and every sort gives the same list -/

theorem insertSorted_perm (a : Route) (l : List Route) : (insertSorted a l).Perm (a :: l) := by
  induction l with
  | nil => simp [insertSorted]
  | cons b rest ih =>
    simp only [insertSorted]
    split
    · exact List.Perm.refl _
    · exact (List.Perm.cons b ih).trans (List.Perm.swap a b rest)

theorem sortC_perm (l : List Route) : (sortC l).Perm l := by
  induction l with
  | nil => exact List.Perm.refl _
  | cons a rest ih =>
    simp only [sortC]
    exact (insertSorted_perm a (sortC rest)).trans (List.Perm.cons a ih)

theorem insertSorted_pairwise (a : Route) (l : List Route)
    (h : l.Pairwise (fun x y => routeLe x y = true)) :
    (insertSorted a l).Pairwise (fun x y => routeLe x y = true) := by
  induction l with
  | nil => simp [insertSorted]
  | cons b rest ih =>
    simp only [insertSorted]
    have hb := List.pairwise_cons.mp h
    split
    · rename_i hab
      refine List.pairwise_cons.mpr ⟨?_, h⟩
      intro y hy
      cases List.mem_cons.mp hy with
      | inl e => rw [e]; exact hab
      | inr m => exact routeLe_trans a b y hab (hb.1 y m)
    · rename_i hab
      have hba : routeLe b a = true := by
        have := routeLe_total a b
        simp [hab] at this
        exact this
      refine List.pairwise_cons.mpr ⟨?_, ih hb.2⟩
      intro y hy
      have := (insertSorted_perm a rest).subset hy
      cases List.mem_cons.mp this with
      | inl e => rw [e]; exact hba
      | inr m => exact hb.1 y m

theorem sortC_pairwise (l : List Route) : (sortC l).Pairwise (fun x y => routeLe x y = true) := by
  induction l with
  | nil => simp [sortC]
  | cons a rest ih => exact insertSorted_pairwise a _ ih

/-- **Whatever algorithm `sort.Slice` uses**: a list that is a permutation of the candidates and
is ordered by the patch's `less` IS `sortC` of the candidates.  (This is what makes modelling
Go's pdqsort by an insertion sort sound.) -/
theorem C32_sort_unique (l l' : List Route) (hp : l'.Perm l)
    (hs : l'.Pairwise (fun x y => routeLe x y = true)) : l' = sortC l :=
  List.Perm.eq_of_pairwise (fun a b _ _ h1 h2 => routeLe_antisymm a b h1 h2) hs (sortC_pairwise l)
    (hp.trans (sortC_perm l).symm)

theorem sortC_congr {l₁ l₂ : List Route} (h : l₁.Perm l₂) : sortC l₁ = sortC l₂ :=
  C32_sort_unique l₂ (sortC l₁) ((sortC_perm l₁).trans h) (sortC_pairwise l₁)

/-! ### property theorems -/

/-- **C32 (determinism, full strength).** For every route table, in whatever order the map is
visited or the routes were registered, `FindRoute` gives the same answer: it is a function of
the SET of routes, the method and the path only. -/
theorem C32_perm_invariant (routes₁ routes₂ : List Route) (method path : Str)
    (h : routes₁.Perm routes₂) : findRoute routes₁ method path = findRoute routes₂ method path := by
  unfold findRoute candidates
  simp only []
  rw [sortC_congr (h.filter _)]

/-! ### lemmas about the choice among the candidates -/

theorem varLoop_inl (l : List Route) (s : VarScan) (c : Route) (h : varLoop l s = .inl c) :
    c ∈ l ∧ noVars c.endpoint = true := by
  induction l generalizing s with
  | nil => simp [varLoop] at h
  | cons x rest ih =>
    simp only [varLoop] at h
    split at h
    · rename_i hx
      injection h with h
      subst h
      exact ⟨List.mem_cons_self, hx⟩
    · have := ih _ h
      exact ⟨List.mem_cons_of_mem _ this.1, this.2⟩

/-- invariant of the fewest-variables scan over the set `S` of candidates seen so far -/
def ScanInv (s : VarScan) (S : Route → Prop) : Prop :=
  (∀ x, S x → s.minCount ≤ varCount x.endpoint ∧ varCount x.endpoint ≤ s.maxCount) ∧
  (∀ f, s.fewest = some f → S f ∧ varCount f.endpoint = s.minCount) ∧
  ((∃ x, S x) → s.fewest.isSome = true)

theorem scanStep_inv (s : VarScan) (c : Route) (S : Route → Prop) (inv : ScanInv s S) :
    ScanInv (scanStep s c) (fun x => S x ∨ x = c) := by
  obtain ⟨i1, i2, i3⟩ := inv
  by_cases hmax : varCount c.endpoint > s.maxCount
  · cases hf : s.fewest with
    | none =>
      have hS : ∀ x, ¬ S x := fun x hx => by simpa [hf] using i3 ⟨x, hx⟩
      refine ⟨?_, ?_, ?_⟩ <;> simp [scanStep, hf, hmax]
      · intro x hx
        cases hx with
        | inl hx => exact absurd hx (hS x)
        | inr hx => subst hx; omega
    | some f0 =>
      obtain ⟨hf0S, hf0c⟩ := i2 f0 hf
      by_cases hlt : varCount c.endpoint < s.minCount
      · refine ⟨?_, ?_, ?_⟩ <;> simp [scanStep, hf, hmax, hlt]
        · intro x hx
          cases hx with
          | inl hx => have := i1 x hx; omega
          | inr hx => subst hx; omega
      · refine ⟨?_, ?_, ?_⟩ <;> simp [scanStep, hf, hmax, hlt]
        · intro x hx
          cases hx with
          | inl hx => have := i1 x hx; omega
          | inr hx => subst hx; omega
        · exact ⟨.inl hf0S, hf0c⟩
  · cases hf : s.fewest with
    | none =>
      have hS : ∀ x, ¬ S x := fun x hx => by simpa [hf] using i3 ⟨x, hx⟩
      refine ⟨?_, ?_, ?_⟩ <;> simp [scanStep, hf, hmax]
      · intro x hx
        cases hx with
        | inl hx => exact absurd hx (hS x)
        | inr hx => subst hx; omega
    | some f0 =>
      obtain ⟨hf0S, hf0c⟩ := i2 f0 hf
      by_cases hlt : varCount c.endpoint < s.minCount
      · refine ⟨?_, ?_, ?_⟩ <;> simp [scanStep, hf, hmax, hlt]
        · intro x hx
          cases hx with
          | inl hx => have := i1 x hx; omega
          | inr hx => subst hx; omega
      · refine ⟨?_, ?_, ?_⟩ <;> simp [scanStep, hf, hmax, hlt]
        · intro x hx
          cases hx with
          | inl hx => have := i1 x hx; omega
          | inr hx => subst hx; omega
        · exact ⟨.inl hf0S, hf0c⟩

theorem varLoop_inr (l : List Route) (s s' : VarScan) (S : Route → Prop)
    (h : varLoop l s = .inr s') (inv : ScanInv s S) : ScanInv s' (fun x => S x ∨ x ∈ l) := by
  induction l generalizing s S with
  | nil =>
    simp only [varLoop] at h
    injection h with h
    subst h
    simpa using inv
  | cons c rest ih =>
    simp only [varLoop] at h
    split at h
    · simp at h
    · have := ih _ _ h (scanStep_inv s c S inv)
      refine ⟨?_, ?_, ?_⟩
      · intro x hx
        apply this.1
        cases hx with
        | inl hx => exact .inl (.inl hx)
        | inr hx =>
          cases List.mem_cons.mp hx with
          | inl e => exact .inl (.inr e)
          | inr m => exact .inr m
      · intro f hf
        obtain ⟨hm, hc⟩ := this.2.1 f hf
        refine ⟨?_, hc⟩
        cases hm with
        | inl hm =>
          cases hm with
          | inl hm => exact .inl hm
          | inr hm => exact .inr (hm ▸ List.mem_cons_self)
        | inr hm => exact .inr (List.mem_cons_of_mem _ hm)
      · intro ⟨x, hx⟩
        apply this.2.2
        refine ⟨x, ?_⟩
        cases hx with
        | inl hx => exact .inl (.inl hx)
        | inr hx =>
          cases List.mem_cons.mp hx with
          | inl e => exact .inl (.inr e)
          | inr m => exact .inr m

theorem scanInv_init : ScanInv ⟨100, 0, none⟩ (fun _ => False) :=
  ⟨fun _ h => h.elim, fun _ h => by simp at h, fun ⟨_, h⟩ => h.elim⟩

theorem longest_mem (b : Route) (l : List Route) : longest b l ∈ b :: l := by
  induction l generalizing b with
  | nil => simp [longest]
  | cons c rest ih =>
    simp only [longest]
    split
    · have := ih c
      exact List.mem_cons_of_mem _ this
    · have := ih b
      cases List.mem_cons.mp this with
      | inl e => rw [e]; exact List.mem_cons_self
      | inr m => exact List.mem_cons_of_mem _ (List.mem_cons_of_mem _ m)

theorem contains_false_varCount (e : Str) (h : contains lbraces e = false) : varCount e = 0 := by
  induction e with
  | nil => rfl
  | cons a rest ih =>
    simp only [contains, Bool.or_eq_false_iff] at h
    cases rest with
    | nil => rfl
    | cons b rest2 =>
      have h1 := h.1
      simp only [varCount]
      split
      · rename_i hab
        simp [lbraces, List.isPrefixOf, hab.1, hab.2] at h1
      · exact ih h.2

theorem noVars_varCount (e : Str) (h : noVars e = true) : varCount e = 0 := by
  simp only [noVars, Bool.and_eq_true, Bool.not_eq_true'] at h
  exact contains_false_varCount e h.1

/-- everything `choose` can answer, in one statement -/
theorem choose_spec (method path : Str) (cands : List Route) :
    (cands = [] ∧ choose method path cands = .notFound) ∨
    (∃ r, cands = [r] ∧ (choose method path cands = .ok r ∨ choose method path cands = .methodNotAllowed)) ∨
    (∃ r, choose method path cands = .ok r ∧ r ∈ cands ∧
      (varCount path = 0 → ∀ c ∈ cands, varCount r.endpoint ≤ varCount c.endpoint)) := by
  match cands with
  | [] => exact .inl ⟨rfl, rfl⟩
  | [r] =>
    refine .inr (.inl ⟨r, rfl, ?_⟩)
    simp only [choose]
    split
    · exact .inl rfl
    · exact .inr rfl
  | c0 :: c1 :: rest =>
    refine .inr (.inr ?_)
    simp only [choose]
    cases hex : (c0 :: c1 :: rest).find? (fun c => c.endpoint == path) with
    | some c =>
      refine ⟨c, rfl, List.mem_of_find?_eq_some hex, ?_⟩
      intro hp x _
      have := List.find?_some hex
      simp at this
      rw [this, hp]
      omega
    | none =>
      simp only []
      cases hv : varLoop (c0 :: c1 :: rest) ⟨100, 0, none⟩ with
      | inl c =>
        have := varLoop_inl _ _ _ hv
        refine ⟨c, rfl, this.1, ?_⟩
        intro _ x _
        rw [noVars_varCount _ this.2]
        omega
      | inr s =>
        have inv := varLoop_inr _ _ _ _ hv scanInv_init
        simp only [false_or] at inv
        obtain ⟨i1, i2, i3⟩ := inv
        have hsome := i3 ⟨c0, List.mem_cons_self⟩
        simp only []
        by_cases hmm : s.maxCount > s.minCount
        · simp only [hmm, if_true]
          cases hf : s.fewest with
          | none => simp [hf] at hsome
          | some f =>
            obtain ⟨hfm, hfc⟩ := i2 f hf
            refine ⟨f, rfl, hfm, ?_⟩
            intro _ x hx
            have := (i1 x hx).1
            omega
        · simp only [hmm, if_false]
          have hall : ∀ x ∈ c0 :: c1 :: rest, ∀ y ∈ c0 :: c1 :: rest,
              varCount x.endpoint ≤ varCount y.endpoint := by
            intro x hx y hy
            have := i1 x hx
            have := i1 y hy
            omega
          cases hpc : (c0 :: c1 :: rest).find? (fun c => slashCount path == routeParts c.endpoint) with
          | some c =>
            have hm := List.mem_of_find?_eq_some hpc
            exact ⟨c, rfl, hm, fun _ x hx => hall c hm x hx⟩
          | none =>
            have hm := longest_mem c0 (c1 :: rest)
            exact ⟨_, rfl, hm, fun _ x hx => hall _ hm x hx⟩

theorem mem_sorted_candidates {routes : List Route} {method path : Str} {r : Route} :
    r ∈ sortC (candidates routes method path) ↔ r ∈ routes ∧ isCandidate method path r = true := by
  rw [(sortC_perm _).mem_iff]
  simp [candidates, List.mem_filter]

/-! normalising the path (`TrimSuffix` + "/") neither adds nor removes a `{{` -/

theorem varCount_snoc (s : Str) (c : Nat) (hc : c ≠ 123) : varCount (s ++ [c]) = varCount s := by
  fun_induction varCount s with
  | case1 => simp [varCount]
  | case2 a =>
    simp only [List.cons_append, List.nil_append, varCount]
    split
    · rename_i h; exact absurd h.2 hc
    · rfl
  | case3 a b rest h ih =>
    simp only [List.cons_append, varCount, h, and_self, if_true, ih]
  | case4 a b rest h ih =>
    simp only [List.cons_append, varCount, h, if_false]
    simpa using ih

theorem trimSlash_spec (s : Str) :
    (∃ t, s = t ++ [slash] ∧ trimSlash s = t) ∨ trimSlash s = s := by
  induction s with
  | nil => exact .inr rfl
  | cons c rest ih =>
    cases rest with
    | nil =>
      by_cases hc : c = slash
      · exact .inl ⟨[], by simp [hc], by simp [trimSlash, hc]⟩
      · exact .inr (by simp [trimSlash, hc])
    | cons d rest2 =>
      cases ih with
      | inl h =>
        obtain ⟨t, h1, h2⟩ := h
        exact .inl ⟨c :: t, by simp [h1], by simp [trimSlash, h2]⟩
      | inr h => exact .inr (by simp [trimSlash, h])

theorem varCount_trimSlash (s : Str) : varCount (trimSlash s) = varCount s := by
  cases trimSlash_spec s with
  | inl h =>
    obtain ⟨t, h1, h2⟩ := h
    rw [h2, h1, varCount_snoc t slash (by decide)]
  | inr h => rw [h]

theorem varCount_normalize (s : Str) : varCount (normalize s) = varCount s := by
  unfold normalize
  split
  · rw [varCount_snoc _ slash (by decide), varCount_trimSlash]
  · rfl

/-- **C32 (most specific).** When the request path contains no `{{`, the chosen route is a
matching route of the table with the FEWEST path variables among all matching routes. -/
theorem C32_fewest_vars (routes : List Route) (method path : Str) (r : Route)
    (hp : varCount path = 0)
    (h : findRoute routes method path = .ok r) :
    (r ∈ routes ∧ isCandidate (upper method) (normalize path) r = true) ∧
    ∀ c ∈ routes, isCandidate (upper method) (normalize path) c = true →
      varCount r.endpoint ≤ varCount c.endpoint := by
  unfold findRoute at h
  simp only [] at h
  replace hp : varCount (normalize path) = 0 := by rw [varCount_normalize]; exact hp
  rcases choose_spec (upper method) (normalize path)
      (sortC (candidates routes (upper method) (normalize path))) with h0 | ⟨r', hl, h1⟩ | ⟨r', h1, hm, hv⟩
  · rw [h0.2] at h; cases h
  · have hr : r' = r := by
      cases h1 with
      | inl h1 => rw [h1] at h; injection h
      | inr h1 => rw [h1] at h; cases h
    subst hr
    have hm : r' ∈ sortC (candidates routes (upper method) (normalize path)) := by rw [hl]; simp
    refine ⟨mem_sorted_candidates.mp hm, ?_⟩
    intro c hc hcc
    have : c ∈ sortC (candidates routes (upper method) (normalize path)) := mem_sorted_candidates.mpr ⟨hc, hcc⟩
    rw [hl] at this
    simp at this
    rw [this]
    omega
  · rw [h1] at h
    injection h with h
    subst h
    refine ⟨mem_sorted_candidates.mp hm, ?_⟩
    intro c hc hcc
    exact hv hp c (mem_sorted_candidates.mpr ⟨hc, hcc⟩)

/-- The chosen route always is a route of the table that matches the request (no hypothesis on the path). -/
theorem C32_answer_is_candidate (routes : List Route) (method path : Str) (r : Route)
    (h : findRoute routes method path = .ok r) :
    r ∈ routes ∧ isCandidate (upper method) (normalize path) r = true := by
  unfold findRoute at h
  simp only [] at h
  rcases choose_spec (upper method) (normalize path)
      (sortC (candidates routes (upper method) (normalize path))) with h0 | ⟨r', hl, h1⟩ | ⟨r', h1, hm, _⟩
  · rw [h0.2] at h; cases h
  · have hr : r' = r := by
      cases h1 with
      | inl h1 => rw [h1] at h; injection h
      | inr h1 => rw [h1] at h; cases h
    subst hr
    exact mem_sorted_candidates.mp (by rw [hl]; simp)
  · rw [h1] at h
    injection h with h
    subst h
    exact mem_sorted_candidates.mp hm

/-- 404 exactly when no route of the table matches. -/
theorem C32_not_found_iff (routes : List Route) (method path : Str) :
    findRoute routes method path = .notFound ↔
      ∀ r ∈ routes, isCandidate (upper method) (normalize path) r = false := by
  unfold findRoute
  simp only []
  constructor
  · intro h r hr
    rcases choose_spec (upper method) (normalize path)
        (sortC (candidates routes (upper method) (normalize path))) with h0 | ⟨r', _, h1⟩ | ⟨r', h1, _, _⟩
    · cases hc : isCandidate (upper method) (normalize path) r with
      | false => rfl
      | true =>
        have := mem_sorted_candidates.mpr ⟨hr, hc⟩
        rw [h0.1] at this
        cases this
    · cases h1 with
      | inl h1 => rw [h1] at h; cases h
      | inr h1 => rw [h1] at h; cases h
    · rw [h1] at h; cases h
  · intro h
    have : sortC (candidates routes (upper method) (normalize path)) = [] := by
      have : candidates routes (upper method) (normalize path) = [] := by
        simp only [candidates, List.filter_eq_nil_iff]
        intro r hr
        simp [h r hr]
      rw [this]; rfl
    rw [this]; rfl

/-- With the patch `fewestVariables` is never nil when it is used (before the patch the
sentinel `minCount := 100` left it nil when every candidate had 100 or more variables). -/
theorem C32_never_nil (routes : List Route) (method path : Str) :
    findRoute routes method path ≠ .nilRoute := by
  unfold findRoute
  simp only []
  intro h
  rcases choose_spec (upper method) (normalize path)
      (sortC (candidates routes (upper method) (normalize path))) with h0 | ⟨r', _, h1⟩ | ⟨r', h1, _, _⟩
  · rw [h0.2] at h; cases h
  · cases h1 with
    | inl h1 => rw [h1] at h; cases h
    | inr h1 => rw [h1] at h; cases h
  · rw [h1] at h; cases h

/-- The patch only removes the dependence on the order: its answer is the answer the function
without the sort gives when the map happens to be visited in sorted order.  So every answer of
the patched code is an answer the unpatched code could already give. -/
theorem C32_patch_conservative (routes : List Route) (method path : Str) :
    findRoute routes method path = findRouteRaw (sortC routes) method path := by
  unfold findRoute findRouteRaw candidates
  simp only []
  rw [C32_sort_unique (routes.filter (isCandidate (upper method) (normalize path)))
        ((sortC routes).filter (isCandidate (upper method) (normalize path)))
        ((sortC_perm routes).filter _) ((sortC_pairwise routes).filter _)]

/-! ### the code before the patch depends on the order (design-round witness) -/

def wGET : Str := [71, 69, 84]
/-- `/a/{{x}}/c` -/
def wAxc : Route := ⟨[47, 97, 47, 123, 123, 120, 125, 125, 47, 99], wGET⟩
/-- `/a/b/{{y}}` -/
def wAby : Route := ⟨[47, 97, 47, 98, 47, 123, 123, 121, 125, 125], wGET⟩
/-- `/a/{{x}}/{{y}}` -/
def wAxy : Route := ⟨[47, 97, 47, 123, 123, 120, 125, 125, 47, 123, 123, 121, 125, 125], wGET⟩
/-- `/a/b/c` -/
def wPath : Str := [47, 97, 47, 98, 47, 99]

/-- Without the sort, two visiting orders of the same three routes give two different routes for
`GET /a/b/c` (observed on the real code: 174 / 26 over 200 fresh routers). -/
theorem C32_raw_counterexample :
    [wAxc, wAby, wAxy].Perm [wAby, wAxc, wAxy] ∧
    findRouteRaw [wAxc, wAby, wAxy] wGET wPath = .ok wAxc ∧
    findRouteRaw [wAby, wAxc, wAxy] wGET wPath = .ok wAby :=
  ⟨List.Perm.swap _ _ _, by decide, by decide⟩

/-- … and the patched function gives one answer for both (instance of `C32_perm_invariant`). -/
example : findRoute [wAxc, wAby, wAxy] wGET wPath = .ok wAby ∧
    findRoute [wAby, wAxc, wAxy] wGET wPath = .ok wAby := ⟨by decide, by decide⟩

/-! ### non-vacuity -/

-- `C32_fewest_vars`: its hypotheses hold for the witness, and three candidates compete
example : varCount wPath = 0 ∧ findRoute [wAxy, wAxc, wAby] wGET wPath = .ok wAby ∧
    (candidates [wAxy, wAxc, wAby] (upper wGET) (normalize wPath)).length = 3 := by decide

-- `C32_fewest_vars` really needs the hypothesis on the path: the exact-match rule comes first.
-- Routes `/` and `/{{x}}/`, request path `/{{x}}` : the 1-variable route is chosen over `/`.
example : findRoute [⟨[47], wGET⟩, ⟨[47, 123, 123, 120, 125, 125, 47], wGET⟩] wGET [47, 123, 123, 120, 125, 125]
    = .ok ⟨[47, 123, 123, 120, 125, 125, 47], wGET⟩ := by decide

-- `C32_not_found_iff`, both directions are inhabited
example : findRoute [wAxc] wGET [47, 122] = .notFound := by decide
example : findRoute [⟨[47], [80, 79, 83, 84]⟩] wGET [47, 122] = .methodNotAllowed := by decide

-- the specific method is preferred to ANY on the same endpoint, whatever the order
example : findRoute [⟨[47, 116], anyMethod⟩, ⟨[47, 116], wGET⟩] wGET [47, 116] = .ok ⟨[47, 116], wGET⟩ ∧
    findRoute [⟨[47, 116], wGET⟩, ⟨[47, 116], anyMethod⟩] wGET [47, 116] = .ok ⟨[47, 116], wGET⟩ := by decide

end EgoVerif.C32
