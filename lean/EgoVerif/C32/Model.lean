/-
C32 — model of `(*Router).FindRoute` (internal/router/router.go), core Lean only.

Strings are Go strings seen as byte lists (`Str = List Nat`, every element < 256): every
operation `FindRoute` applies to the path and to the endpoints is byte level
(`strings.Split`/`Join`/`HasPrefix`/`HasSuffix`/`TrimSuffix`/`Contains`/`Count`, `==`, `<`, `len`).
The one exception is the request method (`strings.ToUpper`, `strings.EqualFold`); it is
modelled for ASCII methods, which is what net/http lets through (a method is an RFC 7230 token).

The route table is a Go map `map[routeSelector]*Route`; the model takes it as a list in the
order in which the `for … range m.routes` loop happens to visit it.

This file mirrors the code WITH fixes/C32.patch applied: (1) after the candidate loop the
candidates are sorted by (endpoint, method with "ANY" last); (2) the fewest-variables scan takes
the first candidate unconditionally (`fewestVariables == nil || …`) instead of relying on the
sentinel `minCount := 100`.  `findRouteRaw` is the same function without the sort: for endpoints
with fewer than 100 variables that is exactly the code before the patch.
-/
namespace EgoVerif.C32

abbrev Str := List Nat

def slash : Nat := 47                       -- '/'
def lbraces : Str := [123, 123]             -- "{{"
def rbraces : Str := [125, 125]             -- "}}"
def globSuffix : Str := [46, 46, 46, 125, 125]   -- "...}}"
def anyMethod : Str := [65, 78, 89]         -- "ANY"

structure Route where
  endpoint : Str
  method : Str
  deriving Repr, DecidableEq, BEq

inductive Result where
  | notFound                -- (nil, 404)
  | methodNotAllowed        -- (nil, 405)
  | ok (r : Route)          -- (route, 200)
  | nilRoute                -- `fewestVariables` still nil when it is used (nil dereference); never happens: `C32_never_nil`
  deriving Repr, DecidableEq

/-! ### Go `strings` primitives on byte lists -/

/-- `strings.TrimSuffix(s, "/")` -/
def trimSlash : Str → Str
  | [] => []
  | [c] => if c = slash then [] else [c]
  | c :: d :: rest => c :: trimSlash (d :: rest)

/-- `if len(s) > 1 { s = strings.TrimSuffix(s, "/") + "/" }` -/
def normalize (s : Str) : Str :=
  if s.length > 1 then trimSlash s ++ [slash] else s

/-- `strings.Split(s, "/")`: `cur` is the part being collected (reversed) -/
def splitGo : Str → Str → List Str
  | [], cur => [cur.reverse]
  | c :: rest, cur => if c = slash then cur.reverse :: splitGo rest [] else splitGo rest (c :: cur)

/-- `strings.Split(s, "/")` (always at least one part) -/
def split (s : Str) : List Str := splitGo s []

/-- `strings.Join(parts, "/")` -/
def join : List Str → Str
  | [] => []
  | [p] => p
  | p :: q :: rest => p ++ slash :: join (q :: rest)

/-- `strings.Contains(s, sub)` -/
def contains (sub : Str) : Str → Bool
  | [] => sub.isEmpty
  | c :: rest => sub.isPrefixOf (c :: rest) || contains sub rest

/-- `strings.Count(s, "{{")` : non-overlapping occurrences, left to right -/
def varCount : Str → Nat
  | [] => 0
  | [_] => 0
  | a :: b :: rest => if a = 123 ∧ b = 123 then 1 + varCount rest else varCount (b :: rest)

/-- `strings.Count(s, "/")` -/
def slashCount (s : Str) : Nat := (s.filter (· == slash)).length

/-- `strings.HasPrefix(part, "{{")` -/
def isVar (part : Str) : Bool := lbraces.isPrefixOf part

/-- `strings.HasPrefix(part, "{{") && strings.HasSuffix(part, "...}}")` -/
def isGlob (part : Str) : Bool := isVar part && globSuffix.isSuffixOf part

/-- ASCII `strings.ToUpper` -/
def upper (s : Str) : Str := s.map fun c => if 97 ≤ c ∧ c ≤ 122 then c - 32 else c

/-- `strings.EqualFold` on ASCII strings -/
def eqFold (a b : Str) : Bool := upper a == upper b

/-! ### the matching loop -/

/-- The `for i, endpointPart := range endpointParts` loop: returns `maskedParts` and `globMatch`.
(The append-then-truncate in the glob branch leaves `maskedParts` as it was.) -/
def maskLoop (testParts : List Str) : Nat → List Str → List Str × Bool
  | _, [] => ([], false)
  | i, ep :: rest =>
    if isGlob ep then ([ep], true)                       -- `break`
    else if isVar ep then
      let r := maskLoop testParts (i + 1) rest
      (ep :: r.1, r.2)
    else
      let r := maskLoop testParts (i + 1) rest
      ((if i ≥ testParts.length then ep else testParts.getD i []) :: r.1, r.2)

/-- index of the first glob part (`globIdx`); only used when `globMatch` is true -/
def globIdx : List Str → Nat
  | [] => 0
  | ep :: rest => if isGlob ep then 0 else 1 + globIdx rest

/-- `matched` for one route whose endpoint is not "/" ; `path` is already normalized -/
def matched (path : Str) (endpoint0 : Str) : Bool :=
  let endpoint := normalize endpoint0
  let testParts := split path
  let endpointParts := split endpoint
  let m := maskLoop testParts 0 endpointParts
  if m.2 then
    let g := globIdx endpointParts
    if testParts.length ≥ g then endpointParts.take g == testParts.take g else false
  else
    endpoint == join m.1

/-- does the route land in `candidates`?  (`method` is already upper-cased) -/
def isCandidate (method path : Str) (r : Route) : Bool :=
  if r.endpoint == [slash] then true
  else matched path r.endpoint && (r.method == anyMethod || eqFold r.method method)

def candidates (routes : List Route) (method path : Str) : List Route :=
  routes.filter (isCandidate method path)

/-! ### the fixed order (fixes/C32.patch) -/

/-- Go's `<=` on strings: bytewise lexicographic -/
def strLe : Str → Str → Bool
  | [], _ => true
  | _ :: _, [] => false
  | a :: as, b :: bs => if a < b then true else if b < a then false else strLe as bs

/-- method order with "ANY" last -/
def methodLe (a b : Str) : Bool := b == anyMethod || (a != anyMethod && strLe a b)

/-- `!less(b, a)` for the `less` of the patch -/
def routeLe (a b : Route) : Bool :=
  if a.endpoint == b.endpoint then methodLe a.method b.method else strLe a.endpoint b.endpoint

def insertSorted (a : Route) : List Route → List Route
  | [] => [a]
  | b :: rest => if routeLe a b then a :: b :: rest else b :: insertSorted a rest

/-- `sort.Slice(candidates, less)`; any sorting algorithm gives this list (Props: `C32_sort_unique`) -/
def sortC : List Route → List Route
  | [] => []
  | a :: rest => insertSorted a (sortC rest)

/-! ### choosing among the candidates -/

/-- `!strings.Contains(e, "{{") && !strings.Contains(e, "}}")` -/
def noVars (e : Str) : Bool := !contains lbraces e && !contains rbraces e

structure VarScan where
  minCount : Nat
  maxCount : Nat
  fewest : Option Route
  deriving Repr, DecidableEq

/-- the bookkeeping of one iteration: `variableCount`, `minCount`/`fewestVariables`, `maxCount` -/
def scanStep (s : VarScan) (c : Route) : VarScan :=
  let n := varCount c.endpoint
  let s1 := if s.fewest.isNone || n < s.minCount then { s with minCount := n, fewest := some c } else s
  if n > s1.maxCount then { s1 with maxCount := n } else s1

/-- the `for _, candidate := range candidates` loop that looks for a variable-free route and
counts variables; `.inl r` is the early `return candidate` -/
def varLoop : List Route → VarScan → Route ⊕ VarScan
  | [], s => .inr s
  | c :: rest, s => if noVars c.endpoint then .inl c else varLoop rest (scanStep s c)

/-- `routePartCount` -/
def routeParts (e : Str) : Nat :=
  if [slash].isSuffixOf e then slashCount e else slashCount e + 1

/-- the final loop: the first candidate of maximal endpoint length -/
def longest : Route → List Route → Route
  | best, [] => best
  | best, c :: rest => if c.endpoint.length > best.endpoint.length then longest c rest else longest best rest

/-- the `switch len(candidates)` -/
def choose (method path : Str) (cands : List Route) : Result :=
  match cands with
  | [] => .notFound
  | [r] => if r.method == anyMethod || eqFold r.method method then .ok r else .methodNotAllowed
  | c0 :: rest =>
    match cands.find? (fun c => c.endpoint == path) with
    | some c => .ok c
    | none =>
      match varLoop cands ⟨100, 0, none⟩ with
      | .inl c => .ok c
      | .inr s =>
        if s.maxCount > s.minCount then
          match s.fewest with
          | some c => .ok c
          | none => .nilRoute
        else
          match cands.find? (fun c => slashCount path == routeParts c.endpoint) with
          | some c => .ok c
          | none => .ok (longest c0 rest)

/-- `FindRoute` with fixes/C32.patch: `routes` in map-iteration order -/
def findRoute (routes : List Route) (method0 path0 : Str) : Result :=
  let method := upper method0
  let path := normalize path0
  choose method path (sortC (candidates routes method path))

/-- `FindRoute` without the sort of the patch: the candidates stay in map-iteration order -/
def findRouteRaw (routes : List Route) (method0 path0 : Str) : Result :=
  let method := upper method0
  let path := normalize path0
  choose method path (candidates routes method path)

end EgoVerif.C32
