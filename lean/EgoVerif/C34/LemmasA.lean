import EgoVerif.C34.Class
/-
C34 — lemmas, part A: the byte loop of `minify` run on a rendered piece list equals the
piece-level function `runP` (one `pstep` per piece).
-/
namespace EgoVerif.C34

/-- the state after the minifier has copied the items of a word -/
def wordSt : List WItem → St → St
  | [], s => s
  | .plain b :: is, s => wordSt is { s with outR := b :: s.outR }
  | .esc b :: is, s => wordSt is { outR := b :: 92 :: s.outR, lit := s.outR.length + 2 }

/-- `len(out) > 0` -/
def neS (s : St) : Bool := decide (s.outR.length > 0)

/-- the whitespace run is replaced by one space (`l` = `last()`, `ne` = `len(out) > 0`) -/
def wsEmit (l : B) (ne : Bool) (rest : List B) : Bool :=
  !(match rest with | [] => false | x :: _ => isDelim x) && !(isDelim l || l == 58 || l == 32) && ne

/-- an empty comment is kept in place of the removed one -/
def cmtKeep (l : B) (ne : Bool) (rest : List B) : Bool :=
  ne && !isWS l && !isDelim l && (match rest with | [] => false | x :: _ => !isWS x && !isDelim x)

/-- the semicolon run is dropped: the next byte after whitespace is `}` -/
def semiDrop (rest : List B) : Bool := (rest.dropWhile isWS).head? == some 125

/-- what the loop does to the state for one piece, `rest` being the bytes after it -/
def pstep (p : Piece) (rest : List B) (s : St) : St :=
  match p with
  | .ws _ => if wsEmit s.last (neS s) rest then { s with outR := 32 :: s.outR } else s
  | .comment _ => if cmtKeep s.last (neS s) rest then { s with outR := 47 :: 42 :: 42 :: 47 :: s.outR } else s
  | .str q items =>
    { outR := q :: ((items.flatMap SItem.raw).reverse ++ q :: s.outR),
      lit := (q :: ((items.flatMap SItem.raw).reverse ++ q :: s.outR)).length }
  | .word items => wordSt items s
  | .punct b => { s with outR := b :: s.outR }
  | .semis _ => if semiDrop rest then s else { s with outR := 59 :: s.outR }

def runP : List Piece → St → St
  | [], s => s
  | p :: ps, s => runP ps (pstep p (render ps) s)

/-- loop iterations a piece takes -/
def cost : Piece → Nat
  | .word items => items.length
  | _ => 1

def costs (ps : List Piece) : Nat := (ps.map cost).sum

/-- `p` may stand in front of the bytes `rest` -/
def okBefore (p : Piece) (rest : List B) : Bool :=
  match p with
  | .ws bs => bs != [] && bs.all isWS && (match rest with | [] => true | x :: _ => !isWS x)
  | .comment body => noSS body
  | .str q items => isQuote q && items.all (SItem.ok q)
  | .word items => wordOK items rest
  | .punct b => isPunct b && b != 59
  | .semis _ => rest.head? != some 59

theorem loop_nil (f : Nat) (s : St) : loop f [] s = s := by
  cases f <;> rfl

theorem skipComment_cons2 (a b : B) (t : List B) :
    skipComment (a :: b :: t) = if a == 42 && b == 47 then t else skipComment (b :: t) := rfl

theorem noSS_cons2 (a b : B) (t : List B) :
    noSS (a :: b :: t) = (!(a == 42 && b == 47) && noSS (b :: t)) := rfl

theorem skipComment_body (body rest : List B) (h : noSS body = true) :
    skipComment (body ++ 42 :: 47 :: rest) = rest := by
  induction body with
  | nil => simp [skipComment_cons2]
  | cons a t ih =>
    cases t with
    | nil => simp [skipComment_cons2]
    | cons b t' =>
      rw [noSS_cons2] at h
      simp only [Bool.and_eq_true, Bool.not_eq_true'] at h
      have := ih h.2
      simp only [List.cons_append] at this ⊢
      rw [skipComment_cons2, h.1]
      simpa using this

theorem copyString_quote (q : B) (t o : List B) : copyString q (q :: t) o = (t, q :: o) := by
  cases t <;> simp [copyString]

theorem copyString_plain (q a : B) (t o : List B) (h1 : (a == q) = false) (h2 : (a == 92) = false) :
    copyString q (a :: t) o = copyString q t (a :: o) := by
  cases t <;> simp [copyString, h1, h2]

theorem copyString_esc (q b : B) (t o : List B) (h1 : ((92 : B) == q) = false) :
    copyString q (92 :: b :: t) o = copyString q t (b :: 92 :: o) := by
  simp [copyString, h1]

theorem copyString_items (q : B) (items : List SItem) (rest o : List B)
    (hq : isQuote q = true) (h : items.all (SItem.ok q) = true) :
    copyString q (items.flatMap SItem.raw ++ q :: rest) o
      = (rest, q :: ((items.flatMap SItem.raw).reverse ++ o)) := by
  induction items generalizing o with
  | nil => simp [copyString_quote]
  | cons it its ih =>
    simp only [List.all_cons, Bool.and_eq_true] at h
    cases it with
    | plain b =>
      have hb := h.1
      simp only [SItem.ok, Bool.and_eq_true, bne_iff_ne, ne_eq] at hb
      have h1 : (b == q) = false := by simpa using hb.1.1
      have h2 : (b == 92) = false := by simpa using hb.1.2
      simp only [List.flatMap_cons, SItem.raw, List.cons_append, List.nil_append]
      rw [copyString_plain _ _ _ _ h1 h2, ih _ h.2]
      simp
    | esc b =>
      have h1 : ((92 : B) == q) = false := by
        cases h92 : (92 : B) == q
        · rfl
        · have : (92 : B) = q := by simpa using h92
          subst this; revert hq; decide
      simp only [List.flatMap_cons, SItem.raw, List.cons_append, List.nil_append]
      rw [copyString_esc _ _ _ _ h1, ih _ h.2]
      simp

theorem dropWhile_run (p : B → Bool) (bs rest : List B) (h : bs.all p = true)
    (hr : (match rest with | [] => true | x :: _ => !p x) = true) :
    (bs ++ rest).dropWhile p = rest := by
  induction bs with
  | nil =>
    cases rest with
    | nil => rfl
    | cons x t => simp at hr; simp [hr]
  | cons a t ih =>
    simp only [List.all_cons, Bool.and_eq_true] at h
    simp [h.1, ih h.2]

theorem ws_cases (c : B) (h : isWS c = true) : c = 32 ∨ c = 9 ∨ c = 10 ∨ c = 13 ∨ c = 12 := by
  simpa [isWS, or_assoc] using h
theorem quote_cases (c : B) (h : isQuote c = true) : c = 34 ∨ c = 39 := by
  simpa [isQuote] using h
theorem punct_cases (c : B) (h : isPunct c = true) :
    c = 123 ∨ c = 125 ∨ c = 59 ∨ c = 44 ∨ c = 62 ∨ c = 58 := by
  simpa [isPunct, isDelim, or_assoc] using h

theorem step_comment (body rest : List B) (s : St) (h : noSS body = true) :
    step 47 (42 :: (body ++ [42, 47] ++ rest)) s = (rest, pstep (.comment body) rest s) := by
  have hs := skipComment_body body rest h
  simp only [step, pstep, cmtKeep, neS]
  simp [hs]
  rfl

theorem step_ws (c : B) (bs rest : List B) (s : St) (hc : isWS c = true) (hb : bs.all isWS = true)
    (hr : (match rest with | [] => true | x :: _ => !isWS x) = true) :
    step c (bs ++ rest) s = (rest, pstep (.ws (c :: bs)) rest s) := by
  have h1 : (c == 47) = false := by rcases ws_cases c hc with rfl|rfl|rfl|rfl|rfl <;> decide
  have h2 : (c == 92) = false := by rcases ws_cases c hc with rfl|rfl|rfl|rfl|rfl <;> decide
  have h3 : isQuote c = false := by rcases ws_cases c hc with rfl|rfl|rfl|rfl|rfl <;> decide
  simp only [step, pstep, wsEmit, neS, h1, h2, h3, hc, dropWhile_run isWS bs rest hb hr]
  rfl

theorem step_str (q : B) (items : List SItem) (rest : List B) (s : St)
    (hq : isQuote q = true) (h : items.all (SItem.ok q) = true) :
    step q (items.flatMap SItem.raw ++ [q] ++ rest) s = (rest, pstep (.str q items) rest s) := by
  have h1 : (q == 47) = false := by rcases quote_cases q hq with rfl|rfl <;> decide
  have h2 : (q == 92) = false := by rcases quote_cases q hq with rfl|rfl <;> decide
  have hc := copyString_items q items rest (q :: s.outR) hq h
  simp only [List.append_assoc, List.cons_append, List.nil_append]
  simp only [step, pstep, h1, h2, hq, hc]
  simp

theorem step_punct (b : B) (rest : List B) (s : St) (hp : isPunct b = true) (h59 : (b != 59) = true) :
    step b rest s = (rest, pstep (.punct b) rest s) := by
  have h59' : b ≠ 59 := by simpa using h59
  have h1 : (b == 47) = false := by rcases punct_cases b hp with rfl|rfl|rfl|rfl|rfl|rfl <;> decide
  have h2 : (b == 92) = false := by rcases punct_cases b hp with rfl|rfl|rfl|rfl|rfl|rfl <;> decide
  have h3 : isQuote b = false := by rcases punct_cases b hp with rfl|rfl|rfl|rfl|rfl|rfl <;> decide
  have h4 : isWS b = false := by rcases punct_cases b hp with rfl|rfl|rfl|rfl|rfl|rfl <;> decide
  have h5 : (b == 59) = false := by simpa using h59'
  simp [step, pstep, h1, h2, h3, h4, h5]

theorem step_semis (k : Nat) (rest : List B) (s : St) (hr : (rest.head? != some 59) = true) :
    step 59 (List.replicate k 59 ++ rest) s = (rest, pstep (.semis k) rest s) := by
  have hd : (List.replicate k (59 : B) ++ rest).dropWhile (· == 59) = rest := by
    apply dropWhile_run
    · simp
    · cases rest with
      | nil => rfl
      | cons x t => simpa using hr
  have e1 : ((59 : B) == 47) = false := by decide
  have e2 : ((59 : B) == 92) = false := by decide
  have e3 : isQuote 59 = false := by decide
  have e4 : isWS 59 = false := by decide
  simp only [step, pstep, semiDrop, hd, e1, e2, e3, e4, Bool.false_and, Bool.false_eq_true, ↓reduceIte,
    BEq.rfl]
  split <;> simp_all

theorem step_plain (b : B) (t : List B) (s : St)
    (h1 : isWS b = false) (h2 : isQuote b = false) (h3 : isPunct b = false) (h4 : (b != 92) = true)
    (h5 : (b != 47 || t.head? != some 42) = true) :
    step b t s = (t, { s with outR := b :: s.outR }) := by
  have e92 : (b == 92) = false := by simpa using h4
  have e59 : (b == 59) = false := by
    cases hh : b == 59
    · rfl
    · have := eq_of_beq hh; subst this; revert h3; decide
  have ec : (b == 47 && t.head? == some 42) = false := by
    cases h47 : b == 47
    · rfl
    · simp only [bne, h47, Bool.not_true, Bool.false_or, Bool.not_eq_true'] at h5
      simp [h5]
  simp only [step, ec, e92, e59, h1, h2, Bool.false_and, Bool.false_eq_true, ↓reduceIte]

theorem step_esc (b : B) (t : List B) (s : St) (h : isNL b = false) :
    step 92 (b :: t) s = (t, { outR := b :: 92 :: s.outR, lit := s.outR.length + 2 }) := by
  have e1 : ((92 : B) == 47) = false := by decide
  simp only [step, e1, Bool.false_and, Bool.false_eq_true, ↓reduceIte, BEq.rfl, h, Bool.not_false,
    Bool.and_self]

theorem loop_word (items : List WItem) (rest : List B) (s : St) (f : Nat)
    (h : wordOK items rest = true) :
    loop (f + items.length) (items.flatMap WItem.raw ++ rest) s = loop f rest (wordSt items s) := by
  induction items generalizing s with
  | nil => simp [wordSt]
  | cons it its ih =>
    cases it with
    | plain b =>
      simp only [wordOK, Bool.and_eq_true, Bool.not_eq_true'] at h
      obtain ⟨⟨⟨⟨⟨h1, h2⟩, h3⟩, h4⟩, h5⟩, h6⟩ := h
      simp only [List.flatMap_cons, WItem.raw, List.cons_append, List.nil_append, List.length_cons,
        ← Nat.add_assoc, loop]
      rw [step_plain b _ s h1 h2 h3 h4 h5]
      exact ih _ h6
    | esc b =>
      simp only [wordOK, Bool.and_eq_true, Bool.not_eq_true'] at h
      simp only [List.flatMap_cons, WItem.raw, List.cons_append, List.nil_append, List.length_cons,
        ← Nat.add_assoc, loop]
      rw [step_esc b _ s h.1]
      exact ih _ h.2

theorem loop_piece (p : Piece) (rest : List B) (s : St) (f : Nat) (h : okBefore p rest = true) :
    loop (f + cost p) (p.render ++ rest) s = loop f rest (pstep p rest s) := by
  cases p with
  | ws bs =>
    simp only [okBefore, Bool.and_eq_true, bne_iff_ne, ne_eq] at h
    obtain ⟨⟨hne, hall⟩, hr⟩ := h
    cases bs with
    | nil => exact absurd rfl hne
    | cons c bs' =>
      simp only [List.all_cons, Bool.and_eq_true] at hall
      simp only [cost, Piece.render, List.cons_append, loop]
      rw [step_ws c bs' rest s hall.1 hall.2 hr]
  | comment body =>
    simp only [okBefore] at h
    simp only [cost, Piece.render, List.cons_append, loop]
    rw [step_comment body rest s h]
  | str q items =>
    simp only [okBefore, Bool.and_eq_true] at h
    simp only [cost, Piece.render, List.cons_append, loop]
    rw [step_str q items rest s h.1 h.2]
  | word items =>
    simp only [okBefore] at h
    exact loop_word items rest s f h
  | punct b =>
    simp only [okBefore, Bool.and_eq_true] at h
    simp only [cost, Piece.render, List.cons_append, List.nil_append, loop]
    rw [step_punct b rest s h.1 h.2]
  | semis k =>
    simp only [okBefore] at h
    simp only [cost, Piece.render, List.cons_append, loop]
    rw [step_semis k rest s h]

/-- every piece may stand in front of what follows it -/
def okAll : List Piece → Bool
  | [] => true
  | p :: ps => okBefore p (render ps) && okAll ps

theorem render_cons (p : Piece) (ps : List Piece) : render (p :: ps) = p.render ++ render ps := by
  simp [render]

theorem loop_pieces (ps : List Piece) (s : St) (f : Nat) (h : okAll ps = true) :
    loop (f + costs ps) (render ps) s = runP ps s := by
  induction ps generalizing s f with
  | nil => simp [render, runP, loop_nil]
  | cons p ps ih =>
    simp only [okAll, Bool.and_eq_true] at h
    have : f + costs (p :: ps) = (f + costs ps) + cost p := by
      simp [costs]; omega
    rw [this]
    rw [render_cons, loop_piece p _ s _ h.1]
    exact ih _ _ h.2

/-- the bytes end a word: nothing, whitespace, a quote, a single-byte token or `/*` -/
def stops : List B → Bool
  | [] => true
  | c :: t => isWS c || isQuote c || isPunct c || (c == 47 && t.head? == some 42)

theorem head_facts (q : Piece) (ps : List Piece) (h : pieceOK q ps = true) :
    ∃ b t, render (q :: ps) = b :: t ∧ (q.isWs = false → isWS b = false) ∧
      (q.isSemis = false → b ≠ 59) ∧ (q.isWord = false → stops (b :: t) = true) := by
  rw [render_cons]
  cases q with
  | ws bs =>
    simp only [pieceOK, Bool.and_eq_true, bne_iff_ne, ne_eq] at h
    cases bs with
    | nil => exact absurd rfl h.1.1
    | cons c bs' =>
      have hc : isWS c = true := by
        have := h.1.2; simp only [List.all_cons, Bool.and_eq_true] at this; exact this.1
      refine ⟨c, bs' ++ render ps, rfl, by simp [Piece.isWs], ?_, by simp [stops, hc]⟩
      intro _; rintro rfl; revert hc; decide
  | comment body =>
    refine ⟨47, 42 :: (body ++ [42, 47]) ++ render ps, by simp [Piece.render], fun _ => by decide,
      fun _ => by decide, fun _ => by simp [stops]⟩
  | str qq items =>
    simp only [pieceOK, Bool.and_eq_true] at h
    refine ⟨qq, items.flatMap SItem.raw ++ [qq] ++ render ps, by simp [Piece.render], ?_, ?_, ?_⟩
    · intro _; rcases quote_cases qq h.1 with rfl|rfl <;> decide
    · intro _; rcases quote_cases qq h.1 with rfl|rfl <;> decide
    · intro _; simp [stops, h.1]
  | word items =>
    simp only [pieceOK, Bool.and_eq_true, bne_iff_ne, ne_eq] at h
    cases items with
    | nil => exact absurd rfl h.1.1
    | cons it its =>
      cases it with
      | plain b =>
        have hw := h.1.2
        simp only [wordOK, Bool.and_eq_true, Bool.not_eq_true'] at hw
        refine ⟨b, its.flatMap WItem.raw ++ render ps, by simp [Piece.render, WItem.raw],
          fun _ => hw.1.1.1.1.1, ?_, by simp [Piece.isWord]⟩
        intro _; rintro rfl
        have := hw.1.1.1.2; revert this; decide
      | esc b =>
        refine ⟨92, b :: its.flatMap WItem.raw ++ render ps, by simp [Piece.render, WItem.raw],
          fun _ => by decide, fun _ => by decide, by simp [Piece.isWord]⟩
  | punct b =>
    simp only [pieceOK, Bool.and_eq_true, bne_iff_ne, ne_eq] at h
    refine ⟨b, render ps, by simp [Piece.render], ?_, fun _ => h.2, fun _ => by simp [stops, h.1]⟩
    intro _; rcases punct_cases b h.1 with rfl|rfl|rfl|rfl|rfl|rfl <;> decide
  | semis k =>
    refine ⟨59, List.replicate k 59 ++ render ps, by simp [Piece.render], fun _ => by decide,
      by simp [Piece.isSemis], fun _ => by simp [stops, isPunct, isDelim]⟩

theorem okAll_of_WF (ps : List Piece) (h1 : WFlex ps = true) (h2 : semisMax ps = true) :
    okAll ps = true := by
  induction ps with
  | nil => rfl
  | cons p ps ih =>
    simp only [WFlex, Bool.and_eq_true] at h1
    simp only [semisMax, Bool.and_eq_true, Bool.not_eq_true'] at h2
    simp only [okAll, Bool.and_eq_true]
    refine ⟨?_, ih h1.2 h2.2⟩
    have hp := h1.1
    cases p with
    | ws bs =>
      simp only [pieceOK, Bool.and_eq_true, Bool.not_eq_true'] at hp
      simp only [okBefore, Bool.and_eq_true]
      refine ⟨hp.1, ?_⟩
      cases ps with
      | nil => rfl
      | cons q ps' =>
        simp only [WFlex, Bool.and_eq_true] at h1
        obtain ⟨b, t, hr, hw, _, _⟩ := head_facts q ps' h1.2.1
        rw [hr]; simp [hw hp.2]
    | comment body => simpa [pieceOK, okBefore] using hp
    | str q items => simpa [pieceOK, okBefore] using hp
    | word items =>
      simp only [pieceOK, Bool.and_eq_true] at hp
      simpa [okBefore] using hp.1.2
    | punct b => simpa [pieceOK, okBefore] using hp
    | semis k =>
      simp only [okBefore]
      cases ps with
      | nil => rfl
      | cons q ps' =>
        simp only [WFlex, Bool.and_eq_true] at h1
        obtain ⟨b, t, hr, _, hs, _⟩ := head_facts q ps' h1.2.1
        have hq : q.isSemis = false := by simpa [Piece.isSemis] using h2.1
        rw [hr]; simpa using hs hq

theorem cost_le (p : Piece) (ps : List Piece) (h : pieceOK p ps = true) : cost p ≤ p.render.length := by
  cases p with
  | word items =>
    simp only [cost, Piece.render]
    clear h
    induction items with
    | nil => simp
    | cons it its ih =>
      cases it <;>
        simp only [List.flatMap_cons, WItem.raw, List.length_append, List.length_cons, List.length_nil] <;>
        omega
  | ws bs =>
    simp only [pieceOK, Bool.and_eq_true, bne_iff_ne, ne_eq] at h
    cases bs with
    | nil => exact absurd rfl h.1.1
    | cons c t => simp [cost, Piece.render]
  | _ => simp [cost, Piece.render]

theorem costs_le (ps : List Piece) (h : WFlex ps = true) : costs ps ≤ (render ps).length := by
  induction ps with
  | nil => simp [costs]
  | cons p ps ih =>
    simp only [WFlex, Bool.and_eq_true] at h
    have := cost_le p ps h.1
    have := ih h.2
    simp only [costs, List.map_cons, List.sum_cons, render_cons, List.length_append] at *
    omega

/-- **part A**: on a well-formed piece list the byte loop is the piece-level run -/
theorem minify_render (ps : List Piece) (h : WF ps = true) :
    minify (render ps) = finish (runP ps ⟨[], 0⟩) := by
  simp only [WF, Bool.and_eq_true] at h
  have hc := costs_le ps h.1
  have : (render ps).length + 1 = ((render ps).length + 1 - costs ps) + costs ps := by omega
  unfold minify
  rw [this, loop_pieces ps _ _ (okAll_of_WF ps h.1 h.2)]

end EgoVerif.C34
