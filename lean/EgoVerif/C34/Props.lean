import EgoVerif.C34.LemmasG
/-
C34 — property theorems for MinifyCSS (model of the code with fixes/C34.patch applied).

Class of inputs (Class.lean): every byte string that is the concatenation (`render`) of a
well-formed piece list (`WF`): whitespace runs, closed comments, closed strings without raw
newlines, words (maximal runs of other bytes, `\x` escapes as pairs, `\` never before a
newline or at the end), the single-byte tokens `{ } , > :` and maximal runs of `;`.
`inClass` decides this for a byte string (by parsing it) and additionally asks that the
tokenizer of Spec.lean is CSS Syntax 3 on it (`faithful`).

Main theorem: minifying never changes the significant token sequence,
    cssSig (cssLex (minify s)) = cssSig (cssLex s).
Proof: `minify_pieces` (the byte loop on `render ps` writes `render (stripWs (minP 0 false ps))`),
`cssLex_render` (the tokenizer on a well-formed rendering reads the pieces' tokens),
`WFlex_minP`/`WFlex_strip` (the output is well formed again) and `sig_minP` (an invariant
relating the minifier's `last()` to the signature's pending-gap state).
-/
namespace EgoVerif.C34

/-- **C34 (full strength).** For every well-formed piece list, the minified text has the same
significant CSS token sequence as the original text. -/
theorem C34_tokens (ps : List Piece) (h : WF ps = true) :
    cssSig (cssLex (minify (render ps))) = cssSig (cssLex (render ps)) := by
  have hl : WFlex ps = true := by
    simp only [WF, Bool.and_eq_true] at h; exact h.1
  have hX := WFlex_minP ps hl 0 false
  rw [minify_pieces ps h, cssLex_render _ (WFlex_strip _ hX), cssLex_render ps hl, cssSig_strip]
  exact sig_minP ps hl 0 false .none false false (Or.inr (Or.inl (by decide)))

/-- **C34 on bytes.** The same for every byte string that `inClass` accepts. -/
theorem C34_tokens_bytes (s : List B) (h : inClass s = true) :
    cssSig (cssLex (minify s)) = cssSig (cssLex s) := by
  unfold inClass at h
  cases hp : parse s with
  | none => simp [hp] at h
  | some ps =>
    simp only [hp, Bool.and_eq_true, beq_iff_eq] at h
    obtain ⟨⟨hwf, _⟩, rfl⟩ := h
    exact C34_tokens ps hwf

/-- What the minifier writes, piece by piece: `minP` drops comments (an empty `/**/` stays where
two tokens would glue), collapses whitespace to one space or nothing, drops semicolon runs
before `}` and copies strings, words and single-byte tokens verbatim. -/
theorem C34_minify_pieces (ps : List Piece) (h : WF ps = true) :
    minify (render ps) = render (stripWs (minP 0 false ps)) :=
  minify_pieces ps h

/-- The output is again in the tokenizer's class, and the tokenizer reads exactly the pieces. -/
theorem C34_output_wellformed (ps : List Piece) (h : WF ps = true) :
    WFlex (stripWs (minP 0 false ps)) = true ∧
    cssLex (minify (render ps)) = toks (stripWs (minP 0 false ps)) := by
  have hl : WFlex ps = true := by
    simp only [WF, Bool.and_eq_true] at h; exact h.1
  have hX := WFlex_strip _ (WFlex_minP ps hl 0 false)
  exact ⟨hX, by rw [minify_pieces ps h, cssLex_render _ hX]⟩

/-- Strings and words are never altered: every string or word piece of the input is a piece
of the output. -/
def Piece.isVerbatim : Piece → Bool
  | .str _ _ => true
  | .word _ => true
  | _ => false

theorem C34_verbatim (p : Piece) (hk : p.isVerbatim = true) (ps : List Piece) (hp : p ∈ ps) :
    ∀ l ne, p ∈ minP l ne ps := by
  induction ps with
  | nil => simp at hp
  | cons q ps ih =>
    intro l ne
    rcases List.mem_cons.mp hp with rfl | hm
    · cases p with
      | str qq items =>
        rw [minP_cons_some _ _ _ _ (.str qq items) 0 (by simp [outOf])]; simp
      | word items =>
        rw [minP_cons_some _ _ _ _ (.word items) (ctxWord items l) (by simp [outOf])]; simp
      | _ => simp [Piece.isVerbatim] at hk
    · cases ho : outOf l ne q (render ps) with
      | none => rw [minP_cons_none _ _ _ _ ho]; exact ih hm l ne
      | some pl =>
        obtain ⟨p', l'⟩ := pl
        rw [minP_cons_some _ _ _ _ p' l' ho]
        exact List.mem_cons_of_mem _ (ih hm l' true)

/-! ### non-vacuity: the inputs that the unpatched code got wrong are in the class -/

/-- `a/**/b  {color : "x  y" ;; }` as pieces -/
def ex1 : List Piece :=
  [.word [.plain 97], .comment [], .word [.plain 98], .ws [32, 32], .punct 123,
   .word [.plain 99], .ws [32], .punct 58, .ws [32], .str 34 [.plain 120, .plain 32, .plain 32, .plain 121],
   .ws [32], .semis 1, .ws [32], .punct 125]

/-- `a\ {}` : escaped space before a brace -/
def ex2 : List Piece := [.word [.plain 97, .esc 32], .ws [32], .punct 123, .punct 125]

example : WF ex1 = true := by decide +kernel
example : WF ex2 = true := by decide
example : inClass (render ex1) = true := by decide +kernel
example : inClass (render ex2) = true := by decide
example : minify (render ex1) = render [.word [.plain 97], .comment [], .word [.plain 98], .punct 123,
    .word [.plain 99], .ws [32], .punct 58, .str 34 [.plain 120, .plain 32, .plain 32, .plain 121],
    .punct 125] := by decide +kernel
example : minify (render ex2) = render [.word [.plain 97, .esc 32], .punct 123, .punct 125] := by decide
example : (cssSig (cssLex (render ex2))).length = 3 := by decide

end EgoVerif.C34
