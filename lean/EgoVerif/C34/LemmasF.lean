import EgoVerif.C34.LemmasE
/-
C34 — lemmas, part F: the main invariant proof: `sigAux` of the minified pieces equals
`sigAux` of the original pieces.
-/
namespace EgoVerif.C34

theorem sig_minP (ps : List Piece) (hwf : WFlex ps = true) :
    ∀ (l : B) (ne : Bool) (p : PK) (g g' : Bool), Inv l ne p g g' (toks ps) →
      sigAux p g' (toks (minP l ne ps)) = sigAux p g (toks ps) := by
  induction ps with
  | nil => intro l ne p g g' _; rfl
  | cons q ps ih =>
    simp only [WFlex, Bool.and_eq_true] at hwf
    have ih := ih hwf.2
    intro l ne p g g' hinv
    cases q with
    | ws bs =>
      rw [toks_cons] at hinv ⊢
      simp only [ptoks, List.cons_append, List.nil_append] at hinv ⊢
      rw [sigAux]
      cases hc : wsEmit l ne (render ps)
      · rw [minP_cons_none _ _ _ _ (by simp [outOf, hc])]
        apply ih
        rcases hinv with h | h | ⟨h1, h2, h3, h4, h5⟩
        · exact Or.inl (by simpa [nextHard] using h)
        · exact Or.inr (Or.inl h)
        · -- the space was dropped: the next byte is a delimiter, or a space is already there
          have h5' : (l == 58) = false := by simpa using h5
          simp only [wsEmit, h1, h4, h5', Bool.false_or, Bool.and_true] at hc
          by_cases h32 : l = 32
          · exact Or.inr (Or.inr ⟨h1, (h3 h32).symm, h3, h4, h5⟩)
          · have h32' : (l == 32) = false := by simpa using h32
            simp only [h32', Bool.not_false, Bool.and_true, Bool.not_eq_false'] at hc
            cases hr : render ps with
            | nil => rw [hr] at hc; simp at hc
            | cons x t =>
              rw [hr] at hc
              exact Or.inl (nextHard_of_delim ps hwf.2 x t hr hc)
      · rw [minP_cons_some _ _ _ _ (.ws [32]) 32 (by simp [outOf, hc]), toks_cons]
        simp only [ptoks, List.cons_append, List.nil_append]
        rw [sigAux]
        apply ih
        exact Or.inr (Or.inr ⟨rfl, rfl, fun _ => rfl, by decide, by decide⟩)
    | comment body =>
      rw [toks_cons] at hinv ⊢
      simp only [ptoks, List.cons_append, List.nil_append] at hinv ⊢
      rw [sigAux]
      have hinv' : Inv l ne p g g' (toks ps) := by
        rcases hinv with h | h | h
        · exact Or.inl (by simpa [nextHard] using h)
        · exact Or.inr (Or.inl h)
        · exact Or.inr (Or.inr h)
      cases hc : cmtKeep l ne (render ps)
      · rw [minP_cons_none _ _ _ _ (by simp [outOf, hc])]
        exact ih _ _ _ _ _ hinv'
      · rw [minP_cons_some _ _ _ _ (.comment []) 47 (by simp [outOf, hc]), toks_cons]
        simp only [ptoks, List.cons_append, List.nil_append]
        rw [sigAux]
        apply ih
        rcases hinv' with h | h | ⟨h1, h2, h3, h4, h5⟩
        · exact Or.inl h
        · exact Or.inr (Or.inl h)
        · exact Or.inr (Or.inr ⟨rfl, h2, fun h => absurd h (by decide), by decide, by decide⟩)
    | str qq items =>
      rw [minP_cons_some _ _ _ _ (.str qq items) 0 (by simp [outOf]), toks_cons, toks_cons]
      rw [toks_cons] at hinv
      simp only [ptoks, List.cons_append, List.nil_append] at hinv ⊢
      have hflag : (g' && p == PK.other) = (g && p == PK.other) := by
        rcases hinv with h | h | ⟨_, h2, _⟩
        · simp [nextHard] at h
        · have : (p == PK.other) = false := by cases p <;> first | rfl | exact absurd rfl h
          simp [this]
        · rw [h2]
      simp only [sigAux, hflag]
      congr 1
      apply ih
      exact Or.inr (Or.inr ⟨rfl, rfl, fun h => absurd h (by decide), by decide, by decide⟩)
    | word items =>
      have hne := word_ne_of_ok _ _ hwf.1 items rfl
      obtain ⟨t, r, he, ha⟩ := wordLex_shape items hne
      rw [minP_cons_some _ _ _ _ (.word items) (ctxWord items l) (by simp [outOf]), toks_cons, toks_cons]
      rw [toks_cons] at hinv
      simp only [ptoks, he] at hinv ⊢
      have hflag : (g' && p == PK.other) = (g && p == PK.other) := by
        rcases hinv with h | h | ⟨_, h2, _⟩
        · cases t with
          | w k raw => simp [nextHard] at h
          | _ => simp [allW] at ha
        · have : (p == PK.other) = false := by cases p <;> first | rfl | exact absurd rfl h
          simp [this]
        · rw [h2]
      rw [sigAux_allW t r ha, sigAux_allW t r ha, hflag]
      congr 1
      apply ih
      have hok := hwf.1
      simp only [pieceOK, Bool.and_eq_true] at hok
      obtain ⟨f1, f2⟩ := ctxWord_facts items l _ hok.1.2 (Or.inl hne)
      refine Or.inr (Or.inr ⟨rfl, rfl, ?_, ?_, ?_⟩)
      · intro h; rw [h] at f1; exact absurd f1 (by decide)
      · simp only [isPunct, Bool.or_eq_false_iff] at f2; exact f2.1
      · intro h; rw [h] at f2; exact absurd f2 (by decide)
    | punct b =>
      have hok := hwf.1
      simp only [pieceOK, Bool.and_eq_true, bne_iff_ne, ne_eq] at hok
      have h59 : (b == 59) = false := by simpa using hok.2
      have hhard : (isDelim b || b == 58) = true := by simpa [isPunct] using hok.1
      rw [minP_cons_some _ _ _ _ (.punct b) b (by simp [outOf]), toks_cons, toks_cons]
      rw [toks_cons] at hinv
      simp only [ptoks, List.cons_append, List.nil_append] at hinv ⊢
      have hflag : (g' && p == PK.other && !isDelim b) = (g && p == PK.other && !isDelim b) := by
        rcases hinv with h | h | ⟨_, h2, _⟩
        · simp only [nextHard] at h; simp [h]
        · have : (p == PK.other) = false := by cases p <;> first | rfl | exact absurd rfl h
          simp [this]
        · rw [h2]
      simp only [sigAux, h59, Bool.false_and, Bool.false_eq_true, if_false, hhard, if_true, hflag]
      congr 1
      apply ih
      exact Or.inr (Or.inl (by decide))
    | semis k =>
      rw [toks_cons, semis_toks, sigAux_semis]
      cases hred : semiRedundant (toks ps)
      · -- the last semicolon is significant: the minifier keeps it as well
        have hc : semiDrop (render ps) = false := by
          cases hd : semiDrop (render ps)
          · rfl
          · rw [semiRedundant_of_drop ps hwf.2 hd] at hred; exact absurd hred (by simp)
        rw [minP_cons_some _ _ _ _ (.semis 0) 59 (by simp [outOf, hc]), toks_cons]
        simp only [ptoks, List.replicate_zero, List.cons_append, List.nil_append]
        rw [sigAux_semi_keep _ _ _ hred, sigAux_semi_keep _ _ _ (by rw [semiRed_minP ps hwf.2]; exact hred)]
        congr 1
        apply ih
        exact Or.inr (Or.inl (by decide))
      · have hnh := semiRedundant_nextHard _ hred
        rw [sigAux_semi_red _ _ _ hred]
        cases hc : semiDrop (render ps)
        · rw [minP_cons_some _ _ _ _ (.semis 0) 59 (by simp [outOf, hc]), toks_cons]
          simp only [ptoks, List.replicate_zero, List.cons_append, List.nil_append]
          rw [sigAux_semi_red _ _ _ (by rw [semiRed_minP ps hwf.2]; exact hred)]
          exact ih _ _ _ _ _ (Or.inl hnh)
        · rw [minP_cons_none _ _ _ _ (by simp [outOf, hc])]
          exact ih _ _ _ _ _ (Or.inl hnh)

end EgoVerif.C34
