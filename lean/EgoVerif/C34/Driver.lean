import EgoVerif.Common.Drv
import EgoVerif.C34.Model
import EgoVerif.C34.Spec
import EgoVerif.C34.Class
/- line protocol (all payloads hex bytes, "-" = empty):
   `min <hex>`  →  hex of `minify`
   `sig <hex>`  →  `cssSig (cssLex s)`: tokens `[_]kind:hexraw` joined by `,`  ("-" if none)
   `cls <hex>`  →  `1` if the input is in the class of theorem C34_tokens (`inClass`), else `0` -/
namespace EgoVerif.C34

def hexB (bs : List B) : String := if bs.isEmpty then "-" else hexOfBytes bs
def unhexB (h : String) : Option (List B) := if h == "-" then some [] else bytesOfHex h

def kindName : WKind → String
  | .ident => "id" | .func => "fn" | .atkw => "at" | .hash => "hash"
  | .num => "num" | .pct => "pct" | .dim => "dim" | .delim => "d"

def tokStr : Tok → String
  | .ws => "ws:-"
  | .comment => "cmt:-"
  | .str r => "str:" ++ hexB r
  | .badstr r => "bad:" ++ hexB r
  | .punct b => "d:" ++ hexB [b]
  | .w k r => kindName k ++ ":" ++ hexB r

def sigStr (s : List (Bool × Tok)) : String :=
  if s.isEmpty then "-" else
  String.intercalate "," (s.map fun p => (if p.1 then "_" else "") ++ tokStr p.2)

def handle (line : String) : String :=
  match fields line with
  | ["min", h] =>
    match unhexB h with
    | some s => hexB (minify s)
    | none => "bad-input"
  | ["sig", h] =>
    match unhexB h with
    | some s => sigStr (cssSig (cssLex s))
    | none => "bad-input"
  | ["cls", h] =>
    match unhexB h with
    | some s => if inClass s then "1" else "0"
    | none => "bad-input"
  | _ => "bad-op"

def drv : Drv := Drv.pure handle

end EgoVerif.C34
