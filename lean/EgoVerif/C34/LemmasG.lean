import EgoVerif.C34.LemmasF
/-
C34 — lemmas, part G: the minified piece list is again well formed for the tokenizer, and
dropping a final whitespace piece changes neither well-formedness nor the signature.
-/
namespace EgoVerif.C34

def headIsWs : List Piece → Bool
  | q :: _ => q.isWs
  | [] => false

def headIsWord : List Piece → Bool
  | q :: _ => q.isWord
  | [] => false

theorem pieceOK_ws_iff (bs : List B) (ps : List Piece) :
    pieceOK (.ws bs) ps = (bs != [] && bs.all isWS && !headIsWs ps) := by
  cases ps <;> rfl

theorem pieceOK_word_iff (items : List WItem) (ps : List Piece) :
    pieceOK (.word items) ps = (items != [] && wordOK items (render ps) && !headIsWord ps) := by
  cases ps <;> rfl

/-- S: right after a space the minifier never writes whitespace -/
theorem minP_after_space (ps : List Piece) : ∀ ne, headIsWs (minP 32 ne ps) = false := by
  induction ps with
  | nil => intro ne; rfl
  | cons q ps ih =>
    intro ne
    cases q with
    | ws bs =>
      have hc : wsEmit 32 ne (render ps) = false := by simp [wsEmit]
      rw [minP_cons_none _ _ _ _ (by simp [outOf, hc])]; exact ih ne
    | comment body =>
      have hc : cmtKeep 32 ne (render ps) = false := by
        have : isWS 32 = true := by decide
        simp [cmtKeep, this]
      rw [minP_cons_none _ _ _ _ (by simp [outOf, hc])]; exact ih ne
    | str qq items => rw [minP_cons_some _ _ _ _ (.str qq items) 0 (by simp [outOf])]; rfl
    | word items => rw [minP_cons_some _ _ _ _ (.word items) (ctxWord items 32) (by simp [outOf])]; rfl
    | punct b => rw [minP_cons_some _ _ _ _ (.punct b) b (by simp [outOf])]; rfl
    | semis k =>
      cases hc : semiDrop (render ps)
      · rw [minP_cons_some _ _ _ _ (.semis 0) 59 (by simp [outOf, hc])]; rfl
      · rw [minP_cons_none _ _ _ _ (by simp [outOf, hc])]; exact ih ne

/-- a word never starts with whitespace or one of `{ } ; , > :` -/
theorem word_head (ps : List Piece) (hwf : WFlex ps = true) (hw : headIsWord ps = true) :
    ∃ b t, render ps = b :: t ∧ isWS b = false ∧ isPunct b = false := by
  cases ps with
  | nil => simp [headIsWord] at hw
  | cons q ps' =>
    simp only [WFlex, Bool.and_eq_true] at hwf
    obtain ⟨b, t, hb, hq⟩ := first_byte q ps' hwf.1
    cases q with
    | word items => exact ⟨b, t, hb, hq⟩
    | _ => simp [headIsWord, Piece.isWord] at hw

theorem render_nil_head (ps : List Piece) (hwf : WFlex ps = true) (h : render ps = []) : ps = [] := by
  cases ps with
  | nil => rfl
  | cons q ps' =>
    simp only [WFlex, Bool.and_eq_true] at hwf
    obtain ⟨b, t, hb, _⟩ := first_byte q ps' hwf.1
    rw [h] at hb; exact absurd hb (by simp)

/-- W: after a word the minifier never writes a word next -/
theorem minP_after_word (ps : List Piece) (hwf : WFlex ps = true) (l : B)
    (hl1 : isWS l = false) (hl2 : isPunct l = false) (hh : headIsWord ps = false) :
    headIsWord (minP l true ps) = false := by
  have hd : isDelim l = false := by simp only [isPunct, Bool.or_eq_false_iff] at hl2; exact hl2.1
  have h58 : (l == 58) = false := by simp only [isPunct, Bool.or_eq_false_iff] at hl2; exact hl2.2
  have h32 : (l == 32) = false := by
    cases h : l == 32
    · rfl
    · have := eq_of_beq h; subst this; exact absurd hl1 (by decide)
  induction ps with
  | nil => rfl
  | cons q ps ih =>
    simp only [WFlex, Bool.and_eq_true] at hwf
    have notWord : (∃ x t, render ps = x :: t ∧ (isWS x = true ∨ isPunct x = true)) → headIsWord ps = false := by
      rintro ⟨x, t, hr, hx⟩
      cases hw : headIsWord ps
      · rfl
      · obtain ⟨b, t', hb, h1, h2⟩ := word_head ps hwf.2 hw
        rw [hr] at hb
        simp only [List.cons.injEq] at hb
        obtain ⟨rfl, _⟩ := hb
        rcases hx with hx | hx
        · rw [hx] at h1; exact absurd h1 (by simp)
        · rw [hx] at h2; exact absurd h2 (by simp)
    cases q with
    | ws bs =>
      cases hc : wsEmit l true (render ps)
      · rw [minP_cons_none _ _ _ _ (by simp [outOf, hc])]
        apply ih hwf.2
        simp only [wsEmit, hd, h58, h32, Bool.or_false, Bool.not_false, Bool.and_true,
          Bool.not_eq_false'] at hc
        cases hr : render ps with
        | nil => rw [hr] at hc; simp at hc
        | cons x t =>
          rw [hr] at hc
          exact notWord ⟨x, t, hr, Or.inr (by simp [isPunct, hc])⟩
      · rw [minP_cons_some _ _ _ _ (.ws [32]) 32 (by simp [outOf, hc])]; rfl
    | comment body =>
      cases hc : cmtKeep l true (render ps)
      · rw [minP_cons_none _ _ _ _ (by simp [outOf, hc])]
        apply ih hwf.2
        simp only [cmtKeep, hl1, hd, Bool.not_false, Bool.and_true, Bool.true_and] at hc
        cases hr : render ps with
        | nil => rw [render_nil_head ps hwf.2 hr]; rfl
        | cons x t =>
          rw [hr] at hc
          simp only [Bool.and_eq_false_iff, Bool.not_eq_false'] at hc
          rcases hc with hc | hc
          · exact notWord ⟨x, t, hr, Or.inl hc⟩
          · exact notWord ⟨x, t, hr, Or.inr (by simp [isPunct, hc])⟩
      · rw [minP_cons_some _ _ _ _ (.comment []) 47 (by simp [outOf, hc])]; rfl
    | str qq items => rw [minP_cons_some _ _ _ _ (.str qq items) 0 (by simp [outOf])]; rfl
    | word items => simp [headIsWord, Piece.isWord] at hh
    | punct b => rw [minP_cons_some _ _ _ _ (.punct b) b (by simp [outOf])]; rfl
    | semis k =>
      cases hc : semiDrop (render ps)
      · rw [minP_cons_some _ _ _ _ (.semis 0) 59 (by simp [outOf, hc])]; rfl
      · rw [minP_cons_none _ _ _ _ (by simp [outOf, hc])]
        apply ih hwf.2
        cases hw : headIsWord ps
        · rfl
        · obtain ⟨b, t', hb, h1, h2⟩ := word_head ps hwf.2 hw
          simp only [semiDrop, hb, List.dropWhile_cons, h1, Bool.false_eq_true, if_false,
            List.head?_cons, beq_iff_eq, Option.some.injEq] at hc
          subst hc; exact absurd h2 (by decide)

theorem wordOK_rest (items : List WItem) (r r' : List B) (h : wordOK items r = true)
    (hr : r'.head? ≠ some 42) : wordOK items r' = true := by
  induction items with
  | nil => rfl
  | cons it its ih =>
    cases it with
    | plain b =>
      simp only [wordOK, Bool.and_eq_true] at h ⊢
      refine ⟨⟨h.1.1, ?_⟩, ih h.2⟩
      cases hb : its.flatMap WItem.raw with
      | nil =>
        have : (b != 47 || r'.head? != some 42) = true := by
          have : (r'.head? != some 42) = true := by simpa using hr
          simp [this]
        simpa [hb] using this
      | cons x t =>
        have := h.1.2
        simpa [hb] using this
    | esc b =>
      simp only [wordOK, Bool.and_eq_true] at h ⊢
      exact ⟨h.1, ih h.2⟩

/-- a piece list whose first piece is not a word does not start with `*` -/
theorem head_not_star (X : List Piece) (hwf : WFlex X = true) (hh : headIsWord X = false) :
    (render X).head? ≠ some 42 := by
  cases X with
  | nil => simp [render]
  | cons q X' =>
    simp only [WFlex, Bool.and_eq_true] at hwf
    obtain ⟨b, t, hb, hq⟩ := first_byte q X' hwf.1
    rw [hb]
    simp only [List.head?_cons, ne_eq, Option.some.injEq]
    rintro rfl
    cases q with
    | ws bs => simp only at hq; exact absurd hq (by decide)
    | comment body => simp only at hq; exact absurd hq (by decide)
    | str qq items => simp only at hq; exact absurd hq (by decide)
    | word items => simp [headIsWord, Piece.isWord] at hh
    | punct c =>
      simp only at hq; subst hq
      have := hwf.1; simp only [pieceOK, Bool.and_eq_true] at this
      exact absurd this.1 (by decide)
    | semis k => simp only at hq; exact absurd hq (by decide)

/-- G1: the minified piece list is well formed for the tokenizer -/
theorem WFlex_minP (ps : List Piece) (hwf : WFlex ps = true) :
    ∀ l ne, WFlex (minP l ne ps) = true := by
  induction ps with
  | nil => intro l ne; rfl
  | cons q ps ih =>
    simp only [WFlex, Bool.and_eq_true] at hwf
    have ih := ih hwf.2
    intro l ne
    cases q with
    | ws bs =>
      cases hc : wsEmit l ne (render ps)
      · rw [minP_cons_none _ _ _ _ (by simp [outOf, hc])]; exact ih l ne
      · rw [minP_cons_some _ _ _ _ (.ws [32]) 32 (by simp [outOf, hc])]
        simp only [WFlex, Bool.and_eq_true]
        refine ⟨?_, ih 32 true⟩
        rw [pieceOK_ws_iff, minP_after_space ps true]
        decide
    | comment body =>
      cases hc : cmtKeep l ne (render ps)
      · rw [minP_cons_none _ _ _ _ (by simp [outOf, hc])]; exact ih l ne
      · rw [minP_cons_some _ _ _ _ (.comment []) 47 (by simp [outOf, hc])]
        simp only [WFlex, Bool.and_eq_true]
        exact ⟨by simp [pieceOK, noSS], ih 47 true⟩
    | str qq items =>
      rw [minP_cons_some _ _ _ _ (.str qq items) 0 (by simp [outOf])]
      simp only [WFlex, Bool.and_eq_true]
      exact ⟨by simpa [pieceOK] using hwf.1, ih 0 true⟩
    | word items =>
      rw [minP_cons_some _ _ _ _ (.word items) (ctxWord items l) (by simp [outOf])]
      simp only [WFlex, Bool.and_eq_true]
      refine ⟨?_, ih _ true⟩
      have hok := hwf.1
      rw [pieceOK_word_iff] at hok ⊢
      simp only [Bool.and_eq_true, Bool.not_eq_true', bne_iff_ne, ne_eq] at hok ⊢
      obtain ⟨f1, f2⟩ := ctxWord_facts items l _ hok.1.2 (Or.inl hok.1.1)
      have hW := minP_after_word ps hwf.2 (ctxWord items l) f1 f2 hok.2
      exact ⟨⟨hok.1.1, wordOK_rest items _ _ hok.1.2 (head_not_star _ (ih _ true) hW)⟩, hW⟩
    | punct b =>
      rw [minP_cons_some _ _ _ _ (.punct b) b (by simp [outOf])]
      simp only [WFlex, Bool.and_eq_true]
      exact ⟨by simpa [pieceOK] using hwf.1, ih b true⟩
    | semis k =>
      cases hc : semiDrop (render ps)
      · rw [minP_cons_some _ _ _ _ (.semis 0) 59 (by simp [outOf, hc])]
        simp only [WFlex, Bool.and_eq_true]
        exact ⟨by simp [pieceOK], ih 59 true⟩
      · rw [minP_cons_none _ _ _ _ (by simp [outOf, hc])]; exact ih l ne

theorem semiRedundant_snoc_ws (ts : List Tok) : semiRedundant (ts ++ [.ws]) = semiRedundant ts := by
  induction ts with
  | nil => rfl
  | cons t ts ih => cases t <;> simp [semiRedundant, ih]

theorem sigAux_snoc_ws (ts : List Tok) (p : PK) (g : Bool) : sigAux p g (ts ++ [.ws]) = sigAux p g ts := by
  induction ts generalizing p g with
  | nil => simp [sigAux]
  | cons t ts ih => cases t <;> simp [sigAux, ih, semiRedundant_snoc_ws]

theorem strip_toks (X : List Piece) :
    ∃ tl, toks X = toks (stripWs X) ++ tl ∧ (tl = [] ∨ tl = [.ws]) := by
  induction X with
  | nil => exact ⟨[], rfl, Or.inl rfl⟩
  | cons p X ih =>
    simp only [stripWs]
    split
    · rename_i hc
      simp only [Bool.and_eq_true, List.isEmpty_iff] at hc
      obtain ⟨hp, rfl⟩ := hc
      cases p with
      | ws bs => exact ⟨[.ws], by simp [toks, ptoks], Or.inr rfl⟩
      | _ => simp [Piece.isWs] at hp
    · obtain ⟨tl, h1, h2⟩ := ih
      exact ⟨tl, by rw [toks_cons, toks_cons, h1, List.append_assoc], h2⟩

/-- G3: a final whitespace piece does not show in the signature -/
theorem cssSig_strip (X : List Piece) : cssSig (toks (stripWs X)) = cssSig (toks X) := by
  obtain ⟨tl, h1, h2⟩ := strip_toks X
  rw [h1]
  rcases h2 with rfl | rfl
  · simp
  · simp [cssSig, sigAux_snoc_ws]

theorem strip_render (X : List Piece) (hwf : WFlex X = true) :
    ∃ tl, render X = render (stripWs X) ++ tl ∧ tl.all isWS = true := by
  induction X with
  | nil => exact ⟨[], rfl, rfl⟩
  | cons p X ih =>
    simp only [WFlex, Bool.and_eq_true] at hwf
    simp only [stripWs]
    split
    · rename_i hc
      simp only [Bool.and_eq_true, List.isEmpty_iff] at hc
      obtain ⟨hp, rfl⟩ := hc
      cases p with
      | ws bs =>
        have := hwf.1; simp only [pieceOK, Bool.and_eq_true] at this
        exact ⟨bs, by simp [render, Piece.render], this.1.2⟩
      | _ => simp [Piece.isWs] at hp
    · obtain ⟨tl, h1, h2⟩ := ih hwf.2
      exact ⟨tl, by rw [render_cons, render_cons, h1, List.append_assoc], h2⟩

theorem strip_heads (X : List Piece) :
    headIsWord (stripWs X) = headIsWord X ∧ (headIsWs (stripWs X) = true → headIsWs X = true) := by
  cases X with
  | nil => exact ⟨rfl, id⟩
  | cons p X =>
    simp only [stripWs]
    split
    · rename_i hc
      simp only [Bool.and_eq_true] at hc
      cases p with
      | ws bs => exact ⟨rfl, fun h => by simp [headIsWs] at h⟩
      | _ => simp [Piece.isWs] at hc
    · exact ⟨rfl, id⟩

/-- G2: dropping a final whitespace piece keeps the list well formed -/
theorem WFlex_strip (X : List Piece) (hwf : WFlex X = true) : WFlex (stripWs X) = true := by
  induction X with
  | nil => rfl
  | cons p X ih =>
    simp only [WFlex, Bool.and_eq_true] at hwf
    simp only [stripWs]
    split
    · rfl
    · simp only [WFlex, Bool.and_eq_true]
      refine ⟨?_, ih hwf.2⟩
      obtain ⟨hw1, hw2⟩ := strip_heads X
      have hok := hwf.1
      cases p with
      | ws bs =>
        rw [pieceOK_ws_iff] at hok ⊢
        simp only [Bool.and_eq_true, Bool.not_eq_true'] at hok ⊢
        refine ⟨hok.1, ?_⟩
        cases h : headIsWs (stripWs X)
        · rfl
        · rw [hw2 h] at hok; exact absurd hok.2 (by simp)
      | comment body => simpa [pieceOK] using hok
      | str qq items => simpa [pieceOK] using hok
      | word items =>
        rw [pieceOK_word_iff] at hok ⊢
        simp only [Bool.and_eq_true, Bool.not_eq_true'] at hok ⊢
        refine ⟨⟨hok.1.1, ?_⟩, by rw [hw1]; exact hok.2⟩
        obtain ⟨tl, h1, h2⟩ := strip_render X hwf.2
        apply wordOK_rest items _ _ hok.1.2
        exact head_not_star _ (ih hwf.2) (by rw [hw1]; exact hok.2)
      | punct b => simpa [pieceOK] using hok
      | semis k => simp [pieceOK]

end EgoVerif.C34
