import EgoVerif.C34.LemmasD
/-
C34 — lemmas, part E: the signature of the minified piece list equals the signature of the
original piece list.
-/
namespace EgoVerif.C34

theorem first_byte (q : Piece) (ps : List Piece) (h : pieceOK q ps = true) :
    ∃ b t, render (q :: ps) = b :: t ∧
      (match q with
       | .ws _ => isWS b = true
       | .comment _ => b = 47
       | .str _ _ => isQuote b = true
       | .word _ => isWS b = false ∧ isPunct b = false
       | .punct c => b = c
       | .semis _ => b = 59) := by
  rw [render_cons]
  cases q with
  | ws bs =>
    simp only [pieceOK, Bool.and_eq_true, bne_iff_ne, ne_eq] at h
    cases bs with
    | nil => exact absurd rfl h.1.1
    | cons c bs' =>
      have := h.1.2; simp only [List.all_cons, Bool.and_eq_true] at this
      exact ⟨c, bs' ++ render ps, rfl, this.1⟩
  | comment body => exact ⟨47, 42 :: (body ++ [42, 47]) ++ render ps, by simp [Piece.render], rfl⟩
  | str qq items =>
    simp only [pieceOK, Bool.and_eq_true] at h
    exact ⟨qq, items.flatMap SItem.raw ++ [qq] ++ render ps, by simp [Piece.render], h.1⟩
  | word items =>
    simp only [pieceOK, Bool.and_eq_true, bne_iff_ne, ne_eq] at h
    cases items with
    | nil => exact absurd rfl h.1.1
    | cons it its =>
      cases it with
      | plain b =>
        have hw := h.1.2
        simp only [wordOK, Bool.and_eq_true, Bool.not_eq_true'] at hw
        exact ⟨b, its.flatMap WItem.raw ++ render ps, by simp [Piece.render, WItem.raw],
          hw.1.1.1.1.1, hw.1.1.1.2⟩
      | esc b =>
        exact ⟨92, b :: its.flatMap WItem.raw ++ render ps, by simp [Piece.render, WItem.raw],
          by decide, by decide⟩
  | punct b => exact ⟨b, render ps, by simp [Piece.render], rfl⟩
  | semis k => exact ⟨59, List.replicate k 59 ++ render ps, by simp [Piece.render], rfl⟩

theorem delim_notWS (x : B) (h : isDelim x = true) : isWS x = false := by
  have : isPunct x = true := by simp [isPunct, h]
  rcases punct_cases x this with rfl|rfl|rfl|rfl|rfl|rfl <;> decide

/-- F1: if the next byte is one of `{ } ; , >` the next token is hard -/
theorem nextHard_of_delim (ps : List Piece) (hwf : WFlex ps = true) (x : B) (t : List B)
    (hr : render ps = x :: t) (hx : isDelim x = true) : nextHard (toks ps) = true := by
  cases ps with
  | nil => rfl
  | cons q ps' =>
    simp only [WFlex, Bool.and_eq_true] at hwf
    obtain ⟨b, t', hb, hq⟩ := first_byte q ps' hwf.1
    rw [hr] at hb
    simp only [List.cons.injEq] at hb
    obtain ⟨rfl, _⟩ := hb
    have hp : isPunct x = true := by simp [isPunct, hx]
    cases q with
    | ws bs => simp only at hq; rw [delim_notWS x hx] at hq; exact absurd hq (by simp)
    | comment body => simp only at hq; subst hq; exact absurd hx (by decide)
    | str qq items =>
      simp only at hq
      rcases quote_cases x hq with rfl|rfl <;> exact absurd hx (by decide)
    | word items => simp only at hq; rw [hp] at hq; exact absurd hq.2 (by simp)
    | punct c => simp only at hq; subst hq; simp [toks, ptoks, nextHard, hx]
    | semis k => simp [toks, ptoks, nextHard, isDelim]

theorem dropWhile_ws_append (bs r : List B) (h : bs.all isWS = true) :
    (bs ++ r).dropWhile isWS = r.dropWhile isWS := by
  induction bs with
  | nil => rfl
  | cons a t ih =>
    simp only [List.all_cons, Bool.and_eq_true] at h
    simp [h.1, ih h.2]

/-- F2: if the minifier drops a semicolon run, the run is redundant for the signature too -/
theorem semiRedundant_of_drop (ps : List Piece) (hwf : WFlex ps = true)
    (h : semiDrop (render ps) = true) : semiRedundant (toks ps) = true := by
  induction ps with
  | nil => simp [semiDrop, render] at h
  | cons q ps' ih =>
    simp only [WFlex, Bool.and_eq_true] at hwf
    obtain ⟨b, t', hb, hq⟩ := first_byte q ps' hwf.1
    cases q with
    | ws bs =>
      simp only [pieceOK, Bool.and_eq_true] at hwf
      have hd : semiDrop (render ps') = true := by
        simp only [semiDrop, render_cons, Piece.render] at h ⊢
        rwa [dropWhile_ws_append bs _ hwf.1.1.2] at h
      simpa [toks, ptoks, semiRedundant] using ih hwf.2 hd
    | comment body =>
      simp only at hq; subst hq
      simp [semiDrop, hb, isWS] at h
    | str qq items =>
      simp only at hq
      have hw : isWS b = false := by rcases quote_cases b hq with rfl|rfl <;> decide
      simp only [semiDrop, hb, List.dropWhile_cons, hw, Bool.false_eq_true, if_false, List.head?_cons,
        beq_iff_eq, Option.some.injEq] at h
      subst h; exact absurd hq (by decide)
    | word items =>
      simp only at hq
      simp only [semiDrop, hb, List.dropWhile_cons, hq.1, Bool.false_eq_true, if_false, List.head?_cons,
        beq_iff_eq, Option.some.injEq] at h
      subst h; exact absurd hq.2 (by decide)
    | punct c =>
      simp only at hq; subst hq
      simp only [pieceOK, Bool.and_eq_true] at hwf
      have hw : isWS b = false := by
        rcases punct_cases b hwf.1.1 with rfl|rfl|rfl|rfl|rfl|rfl <;> decide
      simp only [semiDrop, hb, List.dropWhile_cons, hw, Bool.false_eq_true, if_false, List.head?_cons,
        beq_iff_eq, Option.some.injEq] at h
      subst h
      simp [toks, ptoks, semiRedundant]
    | semis k =>
      simp only at hq; subst hq
      simp [semiDrop, hb, isWS] at h

theorem toks_cons (p : Piece) (ps : List Piece) : toks (p :: ps) = ptoks p ++ toks ps := by
  simp [toks]

theorem minP_cons_none (l : B) (ne : Bool) (p : Piece) (ps : List Piece)
    (h : outOf l ne p (render ps) = none) : minP l ne (p :: ps) = minP l ne ps := by
  simp only [minP, h]

theorem minP_cons_some (l : B) (ne : Bool) (p : Piece) (ps : List Piece) (p' : Piece) (l' : B)
    (h : outOf l ne p (render ps) = some (p', l')) : minP l ne (p :: ps) = p' :: minP l' true ps := by
  simp only [minP, h]

theorem semiRedundant_word (items : List WItem) (h : items ≠ []) (ts : List Tok) :
    semiRedundant (wordLex items ++ ts) = false := by
  obtain ⟨t, r, he, ha⟩ := wordLex_shape items h
  rw [he]
  cases t with
  | w k raw => rfl
  | _ => simp [allW] at ha

/-- R: the minifier preserves "the next significant token is `;` or `}`" -/
theorem semiRed_minP (ps : List Piece) (hwf : WFlex ps = true) :
    ∀ l ne, semiRedundant (toks (minP l ne ps)) = semiRedundant (toks ps) := by
  induction ps with
  | nil => intro l ne; rfl
  | cons p ps ih =>
    simp only [WFlex, Bool.and_eq_true] at hwf
    have ih := ih hwf.2
    intro l ne
    cases p with
    | ws bs =>
      cases hc : wsEmit l ne (render ps)
      · rw [minP_cons_none _ _ _ _ (by simp [outOf, hc]), toks_cons]
        simpa [ptoks, semiRedundant] using ih l ne
      · rw [minP_cons_some _ _ _ _ (.ws [32]) 32 (by simp [outOf, hc]), toks_cons, toks_cons]
        simpa [ptoks, semiRedundant] using ih 32 true
    | comment body =>
      cases hc : cmtKeep l ne (render ps)
      · rw [minP_cons_none _ _ _ _ (by simp [outOf, hc]), toks_cons]
        simpa [ptoks, semiRedundant] using ih l ne
      · rw [minP_cons_some _ _ _ _ (.comment []) 47 (by simp [outOf, hc]), toks_cons, toks_cons]
        simpa [ptoks, semiRedundant] using ih 47 true
    | str q items =>
      rw [minP_cons_some _ _ _ _ (.str q items) 0 (by simp [outOf]), toks_cons, toks_cons]
      simp [ptoks, semiRedundant]
    | word items =>
      have hne := word_ne_of_ok _ _ hwf.1 items rfl
      rw [minP_cons_some _ _ _ _ (.word items) (ctxWord items l) (by simp [outOf]), toks_cons, toks_cons]
      simp only [ptoks, semiRedundant_word items hne]
    | punct b =>
      rw [minP_cons_some _ _ _ _ (.punct b) b (by simp [outOf]), toks_cons, toks_cons]
      simp [ptoks, semiRedundant]
    | semis k =>
      cases hc : semiDrop (render ps)
      · rw [minP_cons_some _ _ _ _ (.semis 0) 59 (by simp [outOf, hc]), toks_cons, toks_cons]
        simp [ptoks, semiRedundant]
      · rw [minP_cons_none _ _ _ _ (by simp [outOf, hc]), toks_cons, ih l ne,
          semiRedundant_of_drop ps hwf.2 hc]
        simp [ptoks, semiRedundant]

/-- what relates the minifier's context (`l`, `ne`) to the two signature computations -/
def Inv (l : B) (ne : Bool) (p : PK) (g g' : Bool) (ts : List Tok) : Prop :=
  nextHard ts = true ∨ p ≠ .other ∨
    (ne = true ∧ g = g' ∧ (l = 32 → g' = true) ∧ isDelim l = false ∧ l ≠ 58)

theorem sigAux_semi_red (p : PK) (g : Bool) (ts : List Tok) (h : semiRedundant ts = true) :
    sigAux p g (.punct 59 :: ts) = sigAux p g ts := by
  simp [sigAux, h]

theorem sigAux_semi_keep (p : PK) (g : Bool) (ts : List Tok) (h : semiRedundant ts = false) :
    sigAux p g (.punct 59 :: ts) = (false, .punct 59) :: sigAux .hard false ts := by
  have : isDelim 59 = true := by decide
  simp [sigAux, h, this]

theorem semis_toks (k : Nat) (T : List Tok) :
    ptoks (.semis k) ++ T = List.replicate k (.punct 59) ++ .punct 59 :: T := by
  have : Tok.punct 59 :: List.replicate k (Tok.punct 59) = List.replicate k (Tok.punct 59) ++ [Tok.punct 59] := by
    rw [← List.replicate_succ, List.replicate_succ']
  simp [ptoks, this]

end EgoVerif.C34
