import EgoVerif.C34.Model
import EgoVerif.C34.Spec
/-
C34 — the class of inputs the theorem quantifies over, as data.

A stylesheet text is a list of lexical PIECES written one after the other (`render`):
whitespace runs, closed comments, closed quoted strings (no raw newline inside), words
(maximal runs of other bytes, backslash escapes as pairs, `\` never before a newline), the
single-byte tokens `{ } , > :` and runs of semicolons.  `WF` says each piece is well formed
and the split is canonical (runs are maximal).  `parse` recovers the pieces from bytes and
`inClass` decides membership of a byte string (used by the driver, and by
`C34_tokens_bytes`); `inClass` additionally requires the three situations in which
Spec.lean's tokenizer is not CSS Syntax 3 (hex escape before a gap, `-->`/`<!--`, an unquoted
`url(` whose body leaves its word) to be absent.
-/
namespace EgoVerif.C34

inductive SItem where
  | plain (b : B)
  | esc (b : B)
  deriving Repr, DecidableEq

def SItem.raw : SItem → List B
  | .plain b => [b]
  | .esc b => [92, b]

inductive Piece where
  | ws (bs : List B)
  | comment (body : List B)
  | str (q : B) (items : List SItem)
  | word (items : List WItem)
  | punct (b : B)                 -- `{ } , > :`
  | semis (k : Nat)               -- k+1 semicolons
  deriving Repr, DecidableEq

def Piece.render : Piece → List B
  | .ws bs => bs
  | .comment body => 47 :: 42 :: (body ++ [42, 47])
  | .str q items => q :: (items.flatMap SItem.raw ++ [q])
  | .word items => items.flatMap WItem.raw
  | .punct b => [b]
  | .semis k => 59 :: List.replicate k 59

def render (ps : List Piece) : List B := ps.flatMap Piece.render

/-- no `*/` inside -/
def noSS : List B → Bool
  | [] => true
  | a :: rest =>
    match rest with
    | [] => true
    | b :: _ => !(a == 42 && b == 47) && noSS rest

def SItem.ok (q : B) : SItem → Bool
  | .plain b => b != q && b != 92 && !isNL b
  | .esc _ => true

/-- items of a word, given the bytes that follow the word: a `/` is never followed by `*` -/
def wordOK : List WItem → List B → Bool
  | [], _ => true
  | .plain b :: is, rest =>
    !isWS b && !isQuote b && !isPunct b && b != 92 &&
    (b != 47 || (is.flatMap WItem.raw ++ rest).head? != some 42) && wordOK is rest
  | .esc b :: is, rest => !isNL b && wordOK is rest

def Piece.isWs : Piece → Bool | .ws _ => true | _ => false
def Piece.isWord : Piece → Bool | .word _ => true | _ => false
def Piece.isSemis : Piece → Bool | .semis _ => true | _ => false

/-- piece `p` is well formed in front of the pieces `ps` -/
def pieceOK (p : Piece) (ps : List Piece) : Bool :=
  match p with
  | .ws bs => bs != [] && bs.all isWS && !(match ps with | q :: _ => q.isWs | [] => false)
  | .comment body => noSS body
  | .str q items => isQuote q && items.all (SItem.ok q)
  | .word items => items != [] && wordOK items (render ps) &&
      !(match ps with | q :: _ => q.isWord | [] => false)
  | .punct b => isPunct b && b != 59
  | .semis _ => true

/-- well formed for the tokenizer -/
def WFlex : List Piece → Bool
  | [] => true
  | p :: ps => pieceOK p ps && WFlex ps

/-- semicolon runs are maximal (what the minifier's semicolon loop sees) -/
def semisMax : List Piece → Bool
  | [] => true
  | p :: ps => !(p.isSemis && (match ps with | q :: _ => q.isSemis | [] => false)) && semisMax ps

/-- the class of theorem `C34_tokens` -/
def WF (ps : List Piece) : Bool := WFlex ps && semisMax ps

/-! ### parsing bytes into pieces -/

def splitComment : List B → List B → Option (List B × List B)
  | [], _ => none
  | a :: rest, acc =>
    match rest with
    | [] => none
    | b :: t => if a == 42 && b == 47 then some (acc.reverse, t) else splitComment rest (a :: acc)

def parseStr (q : B) : List B → List SItem → Option (List SItem × List B)
  | [], _ => none
  | a :: t, acc =>
    if a == q then some (acc.reverse, t)
    else if a == 92 then
      match t with
      | b :: t' => parseStr q t' (.esc b :: acc)
      | [] => none
    else parseStr q t (.plain a :: acc)

def parseLoop : Nat → List B → Option (List Piece)
  | 0, _ => none
  | _ + 1, [] => some []
  | f + 1, c :: t =>
    if c == 47 && t.head? == some 42 then
      match splitComment (t.drop 1) [] with
      | some (body, rest) => (parseLoop f rest).map (Piece.comment body :: ·)
      | none => none
    else if isWS c then (parseLoop f (t.dropWhile isWS)).map (Piece.ws (c :: t.takeWhile isWS) :: ·)
    else if isQuote c then
      match parseStr c t [] with
      | some (items, rest) => (parseLoop f rest).map (Piece.str c items :: ·)
      | none => none
    else if c == 59 then
      (parseLoop f (t.dropWhile (· == 59))).map (Piece.semis (t.takeWhile (· == 59)).length :: ·)
    else if isPunct c then (parseLoop f t).map (Piece.punct c :: ·)
    else (parseLoop f (takeWord (c :: t)).2).map (Piece.word (takeWord (c :: t)).1 :: ·)

def parse (s : List B) : Option (List Piece) := parseLoop (s.length + 1) s

/-! ### where Spec.lean's tokenizer is not CSS Syntax 3 -/

def isHexB (b : B) : Bool := isDigit b || (97 ≤ b && b ≤ 102) || (65 ≤ b && b ≤ 70)

/-- the word ends in a hex escape (`\` hex, then only hex digits) -/
def endsHexEsc (items : List WItem) : Bool :=
  match (items.reverse.dropWhile (fun i => match i with | .plain b => isHexB b | .esc _ => false)) with
  | .esc b :: _ => isHexB b
  | _ => false

def lower (b : B) : B := if 65 ≤ b && b ≤ 90 then b + 32 else b

/-- every `url(` in the word is closed by a `)` in the same word, or ends the word -/
def urlClosed : List WItem → Bool
  | [] => true
  | i :: is =>
    (match i :: is with
     | .plain u :: .plain r :: .plain l :: .plain p :: body =>
       !(lower u == 117 && lower r == 114 && lower l == 108 && p == 40) ||
         body.any (fun j => j.is 41) || body.isEmpty
     | _ => true) && urlClosed is

def endsUrlOpen (items : List WItem) : Bool :=
  match items.reverse with
  | .plain p :: .plain l :: .plain r :: .plain u :: _ =>
    lower u == 117 && lower r == 114 && lower l == 108 && p == 40
  | _ => false

def endsDashDash (items : List WItem) : Bool :=
  match items.reverse with
  | .plain a :: .plain b :: _ => a == 45 && b == 45
  | _ => false

def hasCDO : List WItem → Bool
  | [] => false
  | i :: is =>
    (match i :: is with
     | .plain a :: .plain b :: .plain c :: .plain d :: _ => a == 60 && b == 33 && c == 45 && d == 45
     | _ => false) || hasCDO is

def Piece.isGap : Piece → Bool | .ws _ => true | .comment _ => true | _ => false

/-- Spec.lean's tokenizer coincides with CSS Syntax 3 here -/
def faithful : List Piece → Bool
  | [] => true
  | .word items :: ps =>
    !(endsHexEsc items && (match ps with | q :: _ => q.isGap | [] => false)) &&
    !(endsDashDash items && (match ps.dropWhile Piece.isGap with | .punct b :: _ => b == 62 | _ => false)) &&
    !hasCDO items && urlClosed items &&
    (!endsUrlOpen items ||
      (match ps.dropWhile Piece.isWs with | .str _ _ :: _ => true | _ => false)) &&
    faithful ps
  | _ :: ps => faithful ps

def inClass (s : List B) : Bool :=
  match parse s with
  | some ps => WF ps && faithful ps && render ps == s
  | none => false

end EgoVerif.C34
