import EgoVerif.C34.LemmasC
/-
C34 — lemmas, part D: facts about the signature `sigAux` on token lists, and about the first
byte of a piece.
-/
namespace EgoVerif.C34

/-- the next token that is neither whitespace nor comment is one of `{ } ; , >`, or there is none -/
def nextHard : List Tok → Bool
  | [] => true
  | .ws :: ts => nextHard ts
  | .comment :: ts => nextHard ts
  | .punct b :: _ => isDelim b
  | _ => false

theorem semiRedundant_nextHard (ts : List Tok) (h : semiRedundant ts = true) : nextHard ts = true := by
  induction ts with
  | nil => rfl
  | cons t ts ih =>
    cases t with
    | ws => exact ih h
    | comment => exact ih h
    | punct b =>
      simp only [semiRedundant, Bool.or_eq_true, beq_iff_eq] at h
      rcases h with rfl | rfl <;> simp [nextHard, isDelim]
    | str r => simp [semiRedundant] at h
    | badstr r => simp [semiRedundant] at h
    | w k r => simp [semiRedundant] at h

/-- before a hard token the pending-gap flag is irrelevant -/
theorem sigAux_hard (ts : List Tok) (h : nextHard ts = true) (p : PK) (g g' : Bool) :
    sigAux p g ts = sigAux p g' ts := by
  induction ts generalizing g g' with
  | nil => rfl
  | cons t ts ih =>
    cases t with
    | ws => simp [sigAux]
    | comment => simp only [sigAux]; exact ih h g g'
    | punct b =>
      simp only [nextHard] at h
      simp only [sigAux, h, Bool.not_true, Bool.and_false]
      split
      · rename_i hc
        simp only [Bool.and_eq_true] at hc
        exact ih (semiRedundant_nextHard ts hc.2) g g'
      · rfl
    | str r => simp [nextHard] at h
    | badstr r => simp [nextHard] at h
    | w k r => simp [nextHard] at h

/-- until a non-hard token has been kept the pending-gap flag is irrelevant -/
theorem sigAux_notOther (ts : List Tok) (p : PK) (hp : p ≠ .other) (g g' : Bool) :
    sigAux p g ts = sigAux p g' ts := by
  have hpo : (p == PK.other) = false := by
    cases p <;> first | rfl | exact absurd rfl hp
  induction ts generalizing g g' with
  | nil => rfl
  | cons t ts ih =>
    cases t with
    | ws => simp [sigAux]
    | comment => simp only [sigAux]; exact ih g g'
    | punct b =>
      simp only [sigAux, hpo, Bool.and_false, Bool.false_and]
      split
      · exact ih g g'
      · rfl
    | str r => simp [sigAux, hpo]
    | badstr r => simp [sigAux, hpo]
    | w k r => simp [sigAux, hpo]

theorem sigAux_semis (k : Nat) (p : PK) (g : Bool) (ts : List Tok) :
    sigAux p g (List.replicate k (.punct 59) ++ .punct 59 :: ts) = sigAux p g (.punct 59 :: ts) := by
  induction k with
  | zero => rfl
  | succ k ih =>
    have hr : semiRedundant (List.replicate k (Tok.punct 59) ++ Tok.punct 59 :: ts) = true := by
      cases k <;> simp [List.replicate_succ, semiRedundant]
    simp only [List.replicate_succ, List.cons_append]
    rw [sigAux]
    simp only [BEq.rfl, hr, Bool.and_self, if_true]
    exact ih

/-- all tokens are word tokens -/
def allW : List Tok → Bool
  | [] => true
  | .w _ _ :: ts => allW ts
  | _ => false

theorem sigAux_allW (t : Tok) (r : List Tok) (h : allW (t :: r) = true) (p : PK) (g : Bool)
    (ts : List Tok) :
    sigAux p g ((t :: r) ++ ts) = (g && p == .other, t) :: (r.map fun x => (false, x)) ++ sigAux .other false ts := by
  induction r generalizing t p g with
  | nil =>
    cases t with
    | w k raw => simp [sigAux]
    | _ => simp [allW] at h
  | cons t2 r2 ih =>
    cases t with
    | w k raw =>
      have h2 : allW (t2 :: r2) = true := by simpa [allW] using h
      simp only [List.cons_append, sigAux]
      have := ih t2 h2 .other false
      simp only [List.cons_append] at this
      rw [this]
      simp
    | _ => simp [allW] at h

theorem wl_allW (f : Nat) (w : List WItem) : allW (wl f w) = true := by
  induction f generalizing w with
  | zero => simp [wl, allW]
  | succ f ih =>
    cases w with
    | nil => simp [wl, allW]
    | cons x xs => simp only [wl, allW]; exact ih _

theorem wordLex_shape (items : List WItem) (h : items ≠ []) :
    ∃ t r, wordLex items = t :: r ∧ allW (t :: r) = true := by
  cases items with
  | nil => exact absurd rfl h
  | cons x xs =>
    have ha := wl_allW (x :: xs).length (x :: xs)
    simp only [List.length_cons, wl] at ha
    exact ⟨_, _, by simp only [wordLex, List.length_cons, wl], ha⟩

end EgoVerif.C34
