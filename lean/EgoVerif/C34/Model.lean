/-
C34 — model of `javascript.MinifyCSS` (internal/util/javascript/minify_css.go), core Lean only.

The model mirrors the code WITH the proposed repair fixes/C34.patch applied (the unpatched
code glues `a/**/b` to `ab` and loses the escape in `a\ {`).  Bytes are `UInt8`; `src[i:]` is
the remaining input list; `out` is kept REVERSED (`outR`, head = last byte written) so that
`out[len(out)-1]` is the head; `lit` is the Go variable `lit`.

Each `for i < n` iteration is `step`; the Go inner loops are `skipComment`, `copyString`,
`List.dropWhile`.  `loop` runs `step` with fuel (every iteration consumes ≥ 1 byte, so
`len+1` is enough); `trim` is the final trailing-space loop.
-/
namespace EgoVerif.C34

abbrev B := UInt8

/-- Go `cssIsWS` -/
def isWS (b : B) : Bool := b == 32 || b == 9 || b == 10 || b == 13 || b == 12
/-- Go `cssIsDelim`: `{ } ; , >` -/
def isDelim (b : B) : Bool := b == 123 || b == 125 || b == 59 || b == 44 || b == 62
/-- `\n \r \f` -/
def isNL (b : B) : Bool := b == 10 || b == 13 || b == 12
def isQuote (b : B) : Bool := b == 34 || b == 39

structure St where
  outR : List B
  lit : Nat
  deriving Repr, DecidableEq

/-- the closure `last()`: last output byte, or 0 when there is none or it is literal (escaped) -/
def St.last (s : St) : B := if s.outR.length > s.lit then s.outR.headD 0 else 0

/-- `i += 2; for i+1 < n && !(src[i]=='*' && src[i+1]=='/') { i++ }; i += 2` — argument is `src[i+2:]` -/
def skipComment : List B → List B
  | [] => []
  | a :: rest =>
    match rest with
    | [] => []
    | b :: t => if a == 42 && b == 47 then t else skipComment rest

/-- the string-copy loop; argument is the input after the opening quote; returns (rest, outR) -/
def copyString (q : B) : List B → List B → List B × List B
  | [], o => ([], o)
  | a :: t, o =>
    if a == q then (t, a :: o)                       -- closing quote
    else if a == 92 then
      match t with
      | b :: t' => copyString q t' (b :: a :: o)     -- `\` and the next byte, verbatim
      | [] => ([], a :: o)
    else copyString q t (a :: o)

/-- one iteration of `for i < n` on `src[i:] = c :: t` -/
def step (c : B) (t : List B) (s : St) : List B × St :=
  if c == 47 && t.head? == some 42 then
    -- block comment
    let r := skipComment (t.drop 1)
    let keep := decide (s.outR.length > 0) && !isWS s.last && !isDelim s.last &&
      (match r with | [] => false | x :: _ => !isWS x && !isDelim x)
    (r, if keep then { s with outR := 47 :: 42 :: 42 :: 47 :: s.outR } else s)
  else if c == 92 && (match t with | [] => false | b :: _ => !isNL b) then
    -- backslash escape outside a string
    match t with
    | b :: t' => (t', { outR := b :: c :: s.outR, lit := s.outR.length + 2 })
    | [] => ([], s)
  else if isQuote c then
    let (r, o) := copyString c t (c :: s.outR)
    (r, { outR := o, lit := o.length })
  else if isWS c then
    let r := t.dropWhile isWS
    let nextIsDelim := match r with | [] => false | x :: _ => isDelim x
    let prevIsDelimOrColon := isDelim s.last || s.last == 58 || s.last == 32
    (r, if !nextIsDelim && !prevIsDelimOrColon && decide (s.outR.length > 0)
        then { s with outR := 32 :: s.outR } else s)
  else if c == 59 then
    let r := t.dropWhile (· == 59)                   -- following semicolons
    let r2 := r.dropWhile isWS                       -- scan ahead past whitespace
    if r2.head? == some 125 then (r, s) else (r, { s with outR := c :: s.outR })
  else
    (t, { s with outR := c :: s.outR })

def loop : Nat → List B → St → St
  | 0, _, s => s
  | _ + 1, [], s => s
  | f + 1, c :: t, s => loop f (step c t s).1 (step c t s).2

/-- `for last() == ' ' { out = out[:len(out)-1] }` on the reversed output -/
def trim (lit : Nat) : List B → List B
  | [] => []
  | a :: o => if decide ((a :: o).length > lit) && a == 32 then trim lit o else a :: o

def finish (s : St) : List B := (trim s.lit s.outR).reverse

def minify (src : List B) : List B := finish (loop (src.length + 1) src ⟨[], 0⟩)

end EgoVerif.C34
