import EgoVerif.C34.LemmasB
/-
C34 — lemmas, part C1: the piece-level run `runP` writes the rendering of the piece list
`minP` (the minifier as a function from pieces to pieces), up to the final trailing-space trim.
-/
namespace EgoVerif.C34

/-- `last()` after a word has been copied -/
def ctxWord : List WItem → B → B
  | [], l => l
  | .plain b :: is, _ => ctxWord is b
  | .esc _ :: is, _ => ctxWord is 0

/-- what one piece makes the minifier write: the piece written and the new `last()`;
`l` = `last()`, `ne` = `len(out) > 0`, `rest` = the bytes after the piece -/
def outOf (l : B) (ne : Bool) (p : Piece) (rest : List B) : Option (Piece × B) :=
  match p with
  | .ws _ => if wsEmit l ne rest then some (.ws [32], 32) else none
  | .comment _ => if cmtKeep l ne rest then some (.comment [], 47) else none
  | .str q items => some (.str q items, 0)
  | .word items => some (.word items, ctxWord items l)
  | .punct b => some (.punct b, b)
  | .semis _ => if semiDrop rest then none else some (.semis 0, 59)

/-- the minifier as a function from pieces to pieces -/
def minP : B → Bool → List Piece → List Piece
  | _, _, [] => []
  | l, ne, p :: ps =>
    match outOf l ne p (render ps) with
    | some (p', l') => p' :: minP l' true ps
    | none => minP l ne ps

/-- `lit` never exceeds the output length -/
def St.inv (s : St) : Prop := s.lit ≤ s.outR.length

theorem last_push (s : St) (b : B) (h : s.inv) : ({ s with outR := b :: s.outR } : St).last = b := by
  unfold St.inv at h
  simp only [St.last, List.length_cons, List.headD_cons]
  rw [if_pos (by omega)]

theorem wordSt_facts (items : List WItem) (s : St) (h : s.inv) :
    (wordSt items s).outR = (items.flatMap WItem.raw).reverse ++ s.outR ∧
    (wordSt items s).inv ∧ (wordSt items s).last = ctxWord items s.last := by
  induction items generalizing s with
  | nil => simp [wordSt, ctxWord, h]
  | cons it its ih =>
    cases it with
    | plain b =>
      have hi : ({ s with outR := b :: s.outR } : St).inv := by
        unfold St.inv at *; simp; omega
      obtain ⟨h1, h2, h3⟩ := ih _ hi
      refine ⟨?_, h2, ?_⟩
      · simp [wordSt, h1, WItem.raw]
      · simp only [wordSt, ctxWord, h3, last_push s b h]
    | esc b =>
      have hi : ({ outR := b :: 92 :: s.outR, lit := s.outR.length + 2 } : St).inv := by
        unfold St.inv; simp
      obtain ⟨h1, h2, h3⟩ := ih _ hi
      refine ⟨?_, h2, ?_⟩
      · simp [wordSt, h1, WItem.raw]
      · simp only [wordSt, ctxWord, h3]
        simp [St.last]

theorem pstep_none (p : Piece) (rest : List B) (s : St)
    (ho : outOf s.last (neS s) p rest = none) : pstep p rest s = s := by
  cases p with
  | ws bs =>
    simp only [outOf] at ho
    simp only [pstep]
    cases hc : wsEmit s.last (neS s) rest
    · simp
    · simp [hc] at ho
  | comment body =>
    simp only [outOf] at ho
    simp only [pstep]
    cases hc : cmtKeep s.last (neS s) rest
    · simp
    · simp [hc] at ho
  | str q items => simp [outOf] at ho
  | word items => simp [outOf] at ho
  | punct b => simp [outOf] at ho
  | semis k =>
    simp only [outOf] at ho
    simp only [pstep]
    cases hc : semiDrop rest
    · simp [hc] at ho
    · simp

theorem pstep_some (p : Piece) (rest : List B) (s : St) (h : s.inv)
    (hw : ∀ items, p = .word items → items ≠ []) (p' : Piece) (l' : B)
    (ho : outOf s.last (neS s) p rest = some (p', l')) :
    (pstep p rest s).outR = p'.render.reverse ++ s.outR ∧ (pstep p rest s).inv ∧
      (pstep p rest s).last = l' ∧ neS (pstep p rest s) = true := by
  cases p with
  | ws bs =>
    simp only [outOf] at ho
    simp only [pstep]
    cases hc : wsEmit s.last (neS s) rest
    · simp [hc] at ho
    · simp only [hc, if_true, Option.some.injEq, Prod.mk.injEq] at ho ⊢
      obtain ⟨rfl, rfl⟩ := ho
      refine ⟨by simp [Piece.render], ?_, last_push s 32 h, by simp [neS]⟩
      unfold St.inv at *; simp; omega
  | comment body =>
    simp only [outOf] at ho
    simp only [pstep]
    cases hc : cmtKeep s.last (neS s) rest
    · simp [hc] at ho
    · simp only [hc, if_true, Option.some.injEq, Prod.mk.injEq] at ho ⊢
      obtain ⟨rfl, rfl⟩ := ho
      refine ⟨by simp [Piece.render], ?_, ?_, by simp [neS]⟩
      · unfold St.inv at *; simp; omega
      · unfold St.inv at h
        simp only [St.last, List.length_cons, List.headD_cons]
        rw [if_pos (by omega)]
  | str q items =>
    simp only [outOf, Option.some.injEq, Prod.mk.injEq] at ho
    obtain ⟨rfl, rfl⟩ := ho
    simp only [pstep]
    refine ⟨by simp [Piece.render], by simp [St.inv], by simp [St.last], by simp [neS]⟩
  | word items =>
    simp only [outOf, Option.some.injEq, Prod.mk.injEq] at ho
    obtain ⟨rfl, rfl⟩ := ho
    obtain ⟨h1, h2, h3⟩ := wordSt_facts items s h
    simp only [pstep]
    refine ⟨by simpa [Piece.render] using h1, h2, h3, ?_⟩
    have hne := hw items rfl
    simp only [neS, h1, List.length_append, List.length_reverse, decide_eq_true_eq]
    cases items with
    | nil => exact absurd rfl hne
    | cons it its => cases it <;> simp [WItem.raw] <;> omega
  | punct b =>
    simp only [outOf, Option.some.injEq, Prod.mk.injEq] at ho
    obtain ⟨rfl, rfl⟩ := ho
    simp only [pstep]
    refine ⟨by simp [Piece.render], ?_, last_push s b h, by simp [neS]⟩
    unfold St.inv at *; simp; omega
  | semis k =>
    simp only [outOf] at ho
    simp only [pstep]
    cases hc : semiDrop rest
    · simp only [hc, Bool.false_eq_true, if_false, Option.some.injEq, Prod.mk.injEq] at ho ⊢
      obtain ⟨rfl, rfl⟩ := ho
      refine ⟨by simp [Piece.render], ?_, last_push s 59 h, by simp [neS]⟩
      unfold St.inv at *; simp; omega
    · simp [hc] at ho

theorem ctxWord_facts (items : List WItem) (l : B) (rest : List B) (h : wordOK items rest = true)
    (hl : items ≠ [] ∨ (isWS l = false ∧ isPunct l = false)) :
    isWS (ctxWord items l) = false ∧ isPunct (ctxWord items l) = false := by
  induction items generalizing l with
  | nil =>
    rcases hl with hl | hl
    · exact absurd rfl hl
    · exact hl
  | cons it its ih =>
    cases it with
    | plain b =>
      simp only [wordOK, Bool.and_eq_true, Bool.not_eq_true'] at h
      exact ih b h.2 (Or.inr ⟨h.1.1.1.1.1, h.1.1.1.2⟩)
    | esc b =>
      simp only [wordOK, Bool.and_eq_true] at h
      exact ih 0 h.2 (Or.inr ⟨by decide, by decide⟩)

theorem outOf_some_facts (l : B) (ne : Bool) (p : Piece) (ps : List Piece) (rest : List B)
    (p' : Piece) (l' : B) (hp : pieceOK p ps = true)
    (ho : outOf l ne p rest = some (p', l')) :
    (p' = .ws [32] ∧ l' = 32 ∧ ne = true ∧ l ≠ 32 ∧ p.isWs = true) ∨
    (p'.isWs = false ∧ isWS l' = false) := by
  cases p with
  | ws bs =>
    simp only [outOf] at ho
    cases hc : wsEmit l ne rest
    · simp [hc] at ho
    · simp only [hc, if_true, Option.some.injEq, Prod.mk.injEq] at ho
      obtain ⟨rfl, rfl⟩ := ho
      simp only [wsEmit, Bool.and_eq_true, Bool.not_eq_true', Bool.or_eq_false_iff] at hc
      refine Or.inl ⟨rfl, rfl, hc.2, ?_, rfl⟩
      have := hc.1.2.2; simpa using this
  | comment body =>
    simp only [outOf] at ho
    cases hc : cmtKeep l ne rest
    · simp [hc] at ho
    · simp only [hc, if_true, Option.some.injEq, Prod.mk.injEq] at ho
      obtain ⟨rfl, rfl⟩ := ho
      exact Or.inr ⟨rfl, by decide⟩
  | str q items =>
    simp only [outOf, Option.some.injEq, Prod.mk.injEq] at ho
    obtain ⟨rfl, rfl⟩ := ho
    exact Or.inr ⟨rfl, by decide⟩
  | word items =>
    simp only [outOf, Option.some.injEq, Prod.mk.injEq] at ho
    obtain ⟨rfl, rfl⟩ := ho
    simp only [pieceOK, Bool.and_eq_true, bne_iff_ne, ne_eq] at hp
    exact Or.inr ⟨rfl, (ctxWord_facts items l _ hp.1.2 (Or.inl hp.1.1)).1⟩
  | punct b =>
    simp only [outOf, Option.some.injEq, Prod.mk.injEq] at ho
    obtain ⟨rfl, rfl⟩ := ho
    simp only [pieceOK, Bool.and_eq_true] at hp
    refine Or.inr ⟨rfl, ?_⟩
    rcases punct_cases _ hp.1 with rfl|rfl|rfl|rfl|rfl|rfl <;> decide
  | semis k =>
    simp only [outOf] at ho
    cases hc : semiDrop rest
    · simp only [hc, Bool.false_eq_true, if_false, Option.some.injEq, Prod.mk.injEq] at ho
      obtain ⟨rfl, rfl⟩ := ho
      exact Or.inr ⟨rfl, by decide⟩
    · simp [hc] at ho

theorem pstep_ws_emit (p : Piece) (rest : List B) (s : St) (hp : p.isWs = true)
    (ho : outOf s.last (neS s) p rest = some (.ws [32], 32)) :
    pstep p rest s = { s with outR := 32 :: s.outR } := by
  cases p with
  | ws bs =>
    simp only [outOf] at ho
    cases hc : wsEmit s.last (neS s) rest
    · simp [hc] at ho
    · simp [pstep, hc]
  | _ => simp [Piece.isWs] at hp

def stripWs : List Piece → List Piece
  | [] => []
  | p :: ps => if p.isWs && ps.isEmpty then [] else p :: stripWs ps

theorem trim_nolast (lit : Nat) (o : List B)
    (h : (⟨o, lit⟩ : St).last ≠ 32) : trim lit o = o := by
  cases o with
  | nil => rfl
  | cons a t =>
    simp only [St.last, List.headD_cons] at h
    simp only [trim]
    by_cases hl : (a :: t).length > lit
    · rw [if_pos hl] at h
      have : (a == 32) = false := by simpa using h
      simp [this]
    · have : decide ((a :: t).length > lit) = false := by simpa using hl
      simp only [this, Bool.false_and, Bool.false_eq_true, if_false]

theorem finish_nolast (s : St) (h : s.last ≠ 32) : finish s = s.outR.reverse := by
  unfold finish
  rw [trim_nolast s.lit s.outR h]

theorem finish_space (s : St) (hi : s.inv) (h : s.last ≠ 32) :
    finish { s with outR := 32 :: s.outR } = s.outR.reverse := by
  unfold St.inv at hi
  unfold finish
  simp only [trim]
  have : (32 :: s.outR).length > s.lit := by simp; omega
  simp only [this, decide_true, BEq.rfl, Bool.and_self, if_true]
  rw [trim_nolast s.lit s.outR h]

/-- a pending space followed by the pieces `X` -/
def sp (X : List Piece) : List B := if X.isEmpty then [] else 32 :: render (stripWs X)

theorem stripWs_cons_notws (p : Piece) (X : List Piece) (h : p.isWs = false) :
    stripWs (p :: X) = p :: stripWs X := by
  simp [stripWs, h]

theorem render_stripWs_ws (X : List Piece) :
    render (stripWs (.ws [32] :: X)) = sp X := by
  cases X with
  | nil => simp [stripWs, sp, render, Piece.isWs]
  | cons q X' => simp [stripWs, sp, render_cons, Piece.render]

theorem word_ne_of_ok (p : Piece) (ps : List Piece) (hp : pieceOK p ps = true) :
    ∀ items, p = .word items → items ≠ [] := by
  intro items he; subst he
  simp only [pieceOK, Bool.and_eq_true, bne_iff_ne, ne_eq] at hp
  exact hp.1.1

theorem runP_minP (ps : List Piece) (hwf : WFlex ps = true) :
    ∀ s : St, s.inv → s.last ≠ 32 →
      finish (runP ps s) = s.outR.reverse ++ render (stripWs (minP s.last (neS s) ps)) ∧
      (neS s = true →
        finish (runP ps { s with outR := 32 :: s.outR }) = s.outR.reverse ++ sp (minP 32 true ps)) := by
  induction ps with
  | nil =>
    intro s hi hl
    refine ⟨by simp [runP, minP, stripWs, render, finish_nolast s hl], fun _ => ?_⟩
    simp [runP, minP, sp, finish_space s hi hl]
  | cons p ps ih =>
    simp only [WFlex, Bool.and_eq_true] at hwf
    have ih := ih hwf.2
    have hw := word_ne_of_ok p ps hwf.1
    intro s hi hl
    constructor
    · -- E
      simp only [runP, minP]
      cases ho : outOf s.last (neS s) p (render ps) with
      | none =>
        rw [pstep_none p _ s ho]
        exact (ih s hi hl).1
      | some pl =>
        obtain ⟨p', l'⟩ := pl
        obtain ⟨h1, h2, h3, h4⟩ := pstep_some p _ s hi hw p' l' ho
        rcases outOf_some_facts _ _ p ps _ p' l' hwf.1 ho with ⟨rfl, rfl, hne, _, hpw⟩ | ⟨hnw, hl'⟩
        · rw [pstep_ws_emit p _ s hpw ho, (ih s hi hl).2 hne]
          simp only [render_stripWs_ws]
        · have hl32 : l' ≠ 32 := by rintro rfl; revert hl'; decide
          have := (ih (pstep p (render ps) s) h2 (by rw [h3]; exact hl32)).1
          rw [this, h1, h3, h4]
          simp [stripWs_cons_notws p' _ hnw, render_cons]
    · -- E2
      intro hne
      have hi' : ({ s with outR := 32 :: s.outR } : St).inv := by
        unfold St.inv at *; simp; omega
      have hl' : ({ s with outR := 32 :: s.outR } : St).last = 32 := last_push s 32 hi
      have hn' : neS ({ s with outR := 32 :: s.outR } : St) = true := by simp [neS]
      simp only [runP, minP]
      have hoe : outOf 32 true p (render ps)
          = outOf ({ s with outR := 32 :: s.outR } : St).last (neS { s with outR := 32 :: s.outR }) p (render ps) := by
        rw [hl', hn']
      cases ho : outOf 32 true p (render ps) with
      | none =>
        rw [hoe] at ho
        rw [pstep_none p _ _ ho]
        exact (ih s hi hl).2 hne
      | some pl =>
        obtain ⟨p', l'⟩ := pl
        have ho' := ho
        rw [hoe] at ho'
        obtain ⟨h1, h2, h3, h4⟩ := pstep_some p _ _ hi' hw p' l' ho'
        rcases outOf_some_facts _ _ p ps _ p' l' hwf.1 ho with ⟨_, _, _, h32, _⟩ | ⟨hnw, hl''⟩
        · exact absurd rfl h32
        · have hl32 : l' ≠ 32 := by rintro rfl; revert hl''; decide
          have := (ih _ h2 (by rw [h3]; exact hl32)).1
          rw [this, h1, h3, h4]
          simp [sp, stripWs_cons_notws p' _ hnw, render_cons]

/-- **part C1**: the minified text is the rendering of the minified piece list -/
theorem minify_pieces (ps : List Piece) (h : WF ps = true) :
    minify (render ps) = render (stripWs (minP 0 false ps)) := by
  rw [minify_render ps h]
  simp only [WF, Bool.and_eq_true] at h
  have := (runP_minP ps h.1 ⟨[], 0⟩ (by simp [St.inv]) (by simp [St.last])).1
  simpa [St.last, neS] using this

end EgoVerif.C34
