import EgoVerif.C34.Model
/-
C34 — the specification side: a CSS Syntax Level 3 style tokenizer over bytes (§4.3 "consume a
token"; every byte ≥ 0x80 is a name code point) and the token signature `cssSig`.

Formulation: comments, whitespace, strings and the always-single-byte tokens `{ } ; , > :` are
recognised at top level; a maximal run of other bytes (a "word", backslash escapes kept as
pairs) is tokenised by `wordLex` into ident / function / at-keyword / hash / number /
percentage / dimension / delim tokens with the §4.3 look-ahead rules.  Stated deviations from
§4.3 (all outside the class of the theorem, see Class.lean): no `<!--`/`-->` tokens, `url(` is a
function token followed by ordinary tokens, a hex escape does not swallow a following
whitespace byte.  Token values are the raw source bytes of the token.
-/
namespace EgoVerif.C34

inductive WItem where
  | plain (b : B)
  | esc (b : B)          -- `\` b
  deriving Repr, DecidableEq

def WItem.raw : WItem → List B
  | .plain b => [b]
  | .esc b => [92, b]

inductive WKind where
  | ident | func | atkw | hash | num | pct | dim | delim
  deriving Repr, DecidableEq

inductive Tok where
  | ws
  | comment
  | str (raw : List B)
  | badstr (raw : List B)
  | punct (b : B)                     -- one of `{ } ; , > :`
  | w (k : WKind) (raw : List B)
  deriving Repr, DecidableEq

/-- bytes that are always a token of their own -/
def isPunct (b : B) : Bool := isDelim b || b == 58

def isDigit (b : B) : Bool := 48 ≤ b && b ≤ 57
def isNameStart (b : B) : Bool := (97 ≤ b && b ≤ 122) || (65 ≤ b && b ≤ 90) || b == 95 || b ≥ 128
def isName (b : B) : Bool := isNameStart b || isDigit b || b == 45

def WItem.isName : WItem → Bool
  | .plain b => C34.isName b
  | .esc _ => true
def WItem.isNameStart : WItem → Bool
  | .plain b => C34.isNameStart b
  | .esc _ => true
def WItem.isDigit : WItem → Bool
  | .plain b => C34.isDigit b
  | .esc _ => false
def WItem.is (b : B) : WItem → Bool
  | .plain c => c == b
  | .esc _ => false

/-- §4.3.9 would start an identifier -/
def wouldStartIdent : List WItem → Bool
  | x :: rest =>
    if x.is 45 then (match rest with | y :: _ => y.isNameStart || y.is 45 | [] => false)
    else x.isNameStart
  | [] => false

/-- §4.3.10 would start a number -/
def wouldStartNumber : List WItem → Bool
  | x :: rest =>
    if x.is 43 || x.is 45 then
      match rest with
      | y :: rest2 => y.isDigit || (y.is 46 && (match rest2 with | z :: _ => z.isDigit | [] => false))
      | [] => false
    else if x.is 46 then (match rest with | y :: _ => y.isDigit | [] => false)
    else x.isDigit
  | [] => false

def countWhile (p : WItem → Bool) : List WItem → Nat
  | x :: xs => if p x then countWhile p xs + 1 else 0
  | [] => 0

/-- §4.3.12 consume a number: how many items it takes -/
def numberLen (w : List WItem) : Nat :=
  let n0 := match w with | x :: _ => if x.is 43 || x.is 45 then 1 else 0 | [] => 0
  let n1 := n0 + countWhile WItem.isDigit (w.drop n0)
  let n2 := match w.drop n1 with
    | x :: y :: _ => if x.is 46 && y.isDigit then n1 + 1 + countWhile WItem.isDigit (w.drop (n1 + 1)) else n1
    | _ => n1
  match w.drop n2 with
  | x :: y :: rest =>
    if x.is 101 || x.is 69 then
      if y.isDigit then n2 + 1 + countWhile WItem.isDigit (w.drop (n2 + 1))
      else if (y.is 43 || y.is 45) && (match rest with | z :: _ => z.isDigit | [] => false)
      then n2 + 2 + countWhile WItem.isDigit (w.drop (n2 + 2))
      else n2
    else n2
  | _ => n2

/-- kind and length (≥ 1) of the first token of a non-empty word -/
def tokLen (w : List WItem) : WKind × Nat :=
  match w with
  | [] => (.delim, 1)
  | x :: rest =>
    if x.is 35 then
      (match rest with
       | y :: _ => if y.isName then (.hash, 1 + countWhile WItem.isName rest) else (.delim, 1)
       | [] => (.delim, 1))
    else if wouldStartNumber w then
      let n := numberLen w
      let n := if n == 0 then 1 else n
      if wouldStartIdent (w.drop n) then (.dim, n + countWhile WItem.isName (w.drop n))
      else if (match w.drop n with | y :: _ => y.is 37 | [] => false) then (.pct, n + 1)
      else (.num, n)
    else if x.is 64 then
      if wouldStartIdent rest then (.atkw, 1 + countWhile WItem.isName rest) else (.delim, 1)
    else if wouldStartIdent w then
      let n := countWhile WItem.isName w
      let n := if n == 0 then 1 else n
      if (match w.drop n with | y :: _ => y.is 40 | [] => false) then (.func, n + 1) else (.ident, n)
    else (.delim, 1)

def wl : Nat → List WItem → List Tok
  | 0, _ => []
  | _ + 1, [] => []
  | f + 1, x :: xs =>
    let kn := tokLen (x :: xs)
    .w kn.1 (((x :: xs).take kn.2).flatMap WItem.raw) :: wl f ((x :: xs).drop kn.2)

def wordLex (w : List WItem) : List Tok := wl w.length w

/-- a maximal run of word bytes starting at the argument -/
def takeWord : List B → List WItem × List B
  | [] => ([], [])
  | c :: t =>
    if isWS c || isQuote c || isPunct c then ([], c :: t)
    else if c == 47 && t.head? == some 42 then ([], c :: t)
    else if c == 92 then
      match t with
      | b :: t' => if isNL b then ([.plain c], t) else ((.esc b :: (takeWord t').1), (takeWord t').2)
      | [] => ([.plain c], [])
    else (.plain c :: (takeWord t).1, (takeWord t).2)

/-- §4.3.1 comments: after `/*`, up to and including the first `*/` (or the end of input) -/
def skipC : List B → List B
  | [] => []
  | a :: rest =>
    match rest with
    | [] => []
    | b :: t => if a == 42 && b == 47 then t else skipC rest

/-- §4.3.5 consume a string; `acc` is the reversed raw text so far.  (raw, closed-or-eof, rest) -/
def lexString (q : B) : List B → List B → List B × Bool × List B
  | [], acc => (acc.reverse, true, [])
  | a :: t, acc =>
    if a == q then ((a :: acc).reverse, true, t)
    else if isNL a then (acc.reverse, false, a :: t)          -- bad-string, newline not consumed
    else if a == 92 then
      match t with
      | b :: t' => lexString q t' (b :: a :: acc)
      | [] => ((a :: acc).reverse, true, [])
    else lexString q t (a :: acc)

def lexLoop : Nat → List B → List Tok
  | 0, _ => []
  | _ + 1, [] => []
  | f + 1, c :: t =>
    if c == 47 && t.head? == some 42 then .comment :: lexLoop f (skipC (t.drop 1))
    else if isWS c then .ws :: lexLoop f (t.dropWhile isWS)
    else if isQuote c then
      let r := lexString c t [c]
      (if r.2.1 then Tok.str r.1 else Tok.badstr r.1) :: lexLoop f r.2.2
    else if isPunct c then .punct c :: lexLoop f t
    else wordLex (takeWord (c :: t)).1 ++ lexLoop f (takeWord (c :: t)).2

def cssLex (s : List B) : List Tok := lexLoop (s.length + 1) s

/-! ### the signature -/

/-- what the previously kept token was: nothing yet / a token after which whitespace is
insignificant (`{ } ; , >` and `:`) / any other token -/
inductive PK where
  | none | hard | other
  deriving Repr, DecidableEq

/-- is the next token that is neither whitespace nor comment a `;` or a `}` -/
def semiRedundant : List Tok → Bool
  | .ws :: ts => semiRedundant ts
  | .comment :: ts => semiRedundant ts
  | .punct b :: _ => b == 59 || b == 125
  | _ => false

/-- `(g, t)`: token `t` is kept, `g` = significant whitespace in front of it -/
def sigAux : PK → Bool → List Tok → List (Bool × Tok)
  | _, _, [] => []
  | p, _, .ws :: ts => sigAux p true ts
  | p, g, .comment :: ts => sigAux p g ts
  | p, g, .punct b :: ts =>
    if b == 59 && semiRedundant ts then sigAux p g ts
    else (g && p == .other && !isDelim b, .punct b) ::
      sigAux (if isDelim b || b == 58 then .hard else .other) false ts
  | p, g, t :: ts => (g && p == .other, t) :: sigAux .other false ts

/-- comments dropped; whitespace kept only where it separates two tokens and is not next to
`{ } ; , >`, after `:`, leading or trailing; a `;` followed by `;` or `}` dropped -/
def cssSig (ts : List Tok) : List (Bool × Tok) := sigAux .none false ts

end EgoVerif.C34
