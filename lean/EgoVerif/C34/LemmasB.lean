import EgoVerif.C34.LemmasA
/-
C34 — lemmas, part B: the tokenizer `cssLex` run on a rendered piece list yields the tokens of
the pieces (`toks`).
-/
namespace EgoVerif.C34

def ptoks : Piece → List Tok
  | .ws _ => [.ws]
  | .comment _ => [.comment]
  | .str q items => [.str (q :: (items.flatMap SItem.raw ++ [q]))]
  | .word items => wordLex items
  | .punct b => [.punct b]
  | .semis k => .punct 59 :: List.replicate k (.punct 59)

def toks (ps : List Piece) : List Tok := ps.flatMap ptoks

/-- tokenizer iterations a piece takes -/
def lcost : Piece → Nat
  | .semis k => k + 1
  | _ => 1

def lcosts (ps : List Piece) : Nat := (ps.map lcost).sum

theorem lexLoop_nil (f : Nat) : lexLoop f [] = [] := by
  cases f <;> rfl

theorem skipC_cons2 (a b : B) (t : List B) :
    skipC (a :: b :: t) = if a == 42 && b == 47 then t else skipC (b :: t) := rfl

theorem skipC_body (body rest : List B) (h : noSS body = true) :
    skipC (body ++ 42 :: 47 :: rest) = rest := by
  induction body with
  | nil => simp [skipC_cons2]
  | cons a t ih =>
    cases t with
    | nil => simp [skipC_cons2]
    | cons b t' =>
      rw [noSS_cons2] at h
      simp only [Bool.and_eq_true, Bool.not_eq_true'] at h
      have := ih h.2
      simp only [List.cons_append] at this ⊢
      rw [skipC_cons2, h.1]
      simpa using this

theorem lexString_quote (q : B) (t acc : List B) : lexString q (q :: t) acc = ((q :: acc).reverse, true, t) := by
  cases t <;> simp [lexString]

theorem lexString_plain (q a : B) (t acc : List B) (h1 : (a == q) = false) (h2 : (a == 92) = false)
    (h3 : isNL a = false) : lexString q (a :: t) acc = lexString q t (a :: acc) := by
  cases t <;> simp [lexString, h1, h2, h3]

theorem lexString_esc (q b : B) (t acc : List B) (h1 : ((92 : B) == q) = false) :
    lexString q (92 :: b :: t) acc = lexString q t (b :: 92 :: acc) := by
  have : isNL 92 = false := by decide
  simp [lexString, h1, this]

theorem lexString_items (q : B) (items : List SItem) (rest acc : List B)
    (hq : isQuote q = true) (h : items.all (SItem.ok q) = true) :
    lexString q (items.flatMap SItem.raw ++ q :: rest) acc
      = (acc.reverse ++ items.flatMap SItem.raw ++ [q], true, rest) := by
  induction items generalizing acc with
  | nil => simp [lexString_quote]
  | cons it its ih =>
    simp only [List.all_cons, Bool.and_eq_true] at h
    cases it with
    | plain b =>
      have hb := h.1
      simp only [SItem.ok, Bool.and_eq_true, bne_iff_ne, ne_eq, Bool.not_eq_true'] at hb
      have h1 : (b == q) = false := by simpa using hb.1.1
      have h2 : (b == 92) = false := by simpa using hb.1.2
      simp only [List.flatMap_cons, SItem.raw, List.cons_append, List.nil_append]
      rw [lexString_plain _ _ _ _ h1 h2 hb.2, ih _ h.2]
      simp
    | esc b =>
      have h1 : ((92 : B) == q) = false := by
        cases h92 : (92 : B) == q
        · rfl
        · have : (92 : B) = q := by simpa using h92
          subst this; revert hq; decide
      simp only [List.flatMap_cons, SItem.raw, List.cons_append, List.nil_append]
      rw [lexString_esc _ _ _ _ h1, ih _ h.2]
      simp

theorem takeWord_stop (bs : List B) (h : stops bs = true) : takeWord bs = ([], bs) := by
  cases bs with
  | nil => rfl
  | cons c t =>
    simp only [stops, Bool.or_eq_true] at h
    rcases h with h | h
    · have : (isWS c || isQuote c || isPunct c) = true := by simpa [Bool.or_eq_true] using h
      cases t <;> simp [takeWord, this]
    · cases t with
      | nil => simp at h
      | cons d t' =>
        simp only [List.head?_cons, Bool.and_eq_true, beq_iff_eq, Option.some.injEq] at h
        obtain ⟨rfl, rfl⟩ := h
        simp [takeWord]

theorem takeWord_plain (b : B) (t : List B)
    (h1 : isWS b = false) (h2 : isQuote b = false) (h3 : isPunct b = false) (h4 : (b != 92) = true)
    (h5 : (b != 47 || t.head? != some 42) = true) :
    takeWord (b :: t) = (.plain b :: (takeWord t).1, (takeWord t).2) := by
  have e92 : (b == 92) = false := by simpa using h4
  have ec : (b == 47 && t.head? == some 42) = false := by
    cases h47 : b == 47
    · rfl
    · simp only [bne, h47, Bool.not_true, Bool.false_or, Bool.not_eq_true'] at h5
      simp [h5]
  cases t with
  | nil => simp [takeWord, h1, h2, h3, e92]
  | cons d t' =>
    have : b = 47 → ¬ d = 42 := by
      intro hb hd; subst hb; subst hd; simp at ec
    simp [takeWord, h1, h2, h3, e92]
    exact this

theorem takeWord_esc (b : B) (t : List B) (h : isNL b = false) :
    takeWord (92 :: b :: t) = (.esc b :: (takeWord t).1, (takeWord t).2) := by
  have e1 : isWS 92 = false := by decide
  have e2 : isQuote 92 = false := by decide
  have e3 : isPunct 92 = false := by decide
  simp [takeWord, e1, e2, e3, h]

theorem takeWord_items (items : List WItem) (rest : List B) (h : wordOK items rest = true)
    (hs : stops rest = true) : takeWord (items.flatMap WItem.raw ++ rest) = (items, rest) := by
  induction items with
  | nil => simpa using takeWord_stop rest hs
  | cons it its ih =>
    cases it with
    | plain b =>
      simp only [wordOK, Bool.and_eq_true, Bool.not_eq_true'] at h
      obtain ⟨⟨⟨⟨⟨h1, h2⟩, h3⟩, h4⟩, h5⟩, h6⟩ := h
      simp only [List.flatMap_cons, WItem.raw, List.cons_append, List.nil_append]
      rw [takeWord_plain b _ h1 h2 h3 h4 h5, ih h6]
    | esc b =>
      simp only [wordOK, Bool.and_eq_true, Bool.not_eq_true'] at h
      simp only [List.flatMap_cons, WItem.raw, List.cons_append, List.nil_append]
      rw [takeWord_esc b _ h.1, ih h.2]

/-- `p` may stand in front of the bytes `rest` (tokenizer view) -/
def okLex (p : Piece) (rest : List B) : Bool :=
  match p with
  | .ws bs => bs != [] && bs.all isWS && (match rest with | [] => true | x :: _ => !isWS x)
  | .comment body => noSS body
  | .str q items => isQuote q && items.all (SItem.ok q)
  | .word items => items != [] && wordOK items rest && stops rest
  | .punct b => isPunct b
  | .semis _ => true

theorem lex_semi1 (n : Nat) (t : List B) : lexLoop (n + 1) (59 :: t) = .punct 59 :: lexLoop n t := by
  have e1 : ((59 : B) == 47) = false := by decide
  have e3 : isQuote 59 = false := by decide
  have e4 : isWS 59 = false := by decide
  have e5 : isPunct 59 = true := by decide
  simp only [lexLoop, e1, e3, e4, e5, Bool.false_and, Bool.false_eq_true, ↓reduceIte]

theorem lex_semis (k f : Nat) (rest : List B) :
    lexLoop (f + (k + 1)) (59 :: (List.replicate k 59 ++ rest))
      = (.punct 59 :: List.replicate k (.punct 59)) ++ lexLoop f rest := by
  induction k with
  | zero => simpa using lex_semi1 f rest
  | succ k ih =>
    have : f + (k + 1 + 1) = (f + (k + 1)) + 1 := by omega
    rw [this, lex_semi1, List.replicate_succ, List.cons_append, ih]
    simp [List.replicate_succ]

theorem lex_word (items : List WItem) (rest : List B) (f : Nat) (hne : items ≠ [])
    (h : wordOK items rest = true) (hs : stops rest = true) :
    lexLoop (f + 1) (items.flatMap WItem.raw ++ rest) = wordLex items ++ lexLoop f rest := by
  have ht := takeWord_items items rest h hs
  cases items with
  | nil => exact absurd rfl hne
  | cons it its =>
    cases it with
    | plain b =>
      simp only [wordOK, Bool.and_eq_true, Bool.not_eq_true'] at h
      obtain ⟨⟨⟨⟨⟨h1, h2⟩, h3⟩, h4⟩, h5⟩, h6⟩ := h
      have ec : (b == 47 && (its.flatMap WItem.raw ++ rest).head? == some 42) = false := by
        cases h47 : b == 47
        · rfl
        · simp only [bne, h47, Bool.not_true, Bool.false_or, Bool.not_eq_true'] at h5
          rw [Bool.true_and]; exact h5
      simp only [List.flatMap_cons, WItem.raw, List.cons_append, List.nil_append] at ht ⊢
      simp only [lexLoop, ec, h1, h2, h3, Bool.false_eq_true, ↓reduceIte, ht]
    | esc b =>
      have e1 : ((92 : B) == 47) = false := by decide
      have e2 : isWS 92 = false := by decide
      have e3 : isQuote 92 = false := by decide
      have e4 : isPunct 92 = false := by decide
      simp only [List.flatMap_cons, WItem.raw, List.cons_append, List.nil_append] at ht ⊢
      simp only [lexLoop, e1, e2, e3, e4, Bool.false_and, Bool.false_eq_true, ↓reduceIte, ht]

theorem lex_piece (p : Piece) (rest : List B) (f : Nat) (h : okLex p rest = true) :
    lexLoop (f + lcost p) (p.render ++ rest) = ptoks p ++ lexLoop f rest := by
  cases p with
  | ws bs =>
    simp only [okLex, Bool.and_eq_true, bne_iff_ne, ne_eq] at h
    obtain ⟨⟨hne, hall⟩, hr⟩ := h
    cases bs with
    | nil => exact absurd rfl hne
    | cons c bs' =>
      simp only [List.all_cons, Bool.and_eq_true] at hall
      have hc := hall.1
      have h1 : (c == 47) = false := by rcases ws_cases c hc with rfl|rfl|rfl|rfl|rfl <;> decide
      simp only [lcost, ptoks, Piece.render, List.cons_append, lexLoop, h1, hc, Bool.false_and,
        Bool.false_eq_true, ↓reduceIte, dropWhile_run isWS bs' rest hall.2 hr, List.nil_append]
  | comment body =>
    simp only [okLex] at h
    have hs := skipC_body body rest h
    simp only [lcost, ptoks, Piece.render, List.cons_append, lexLoop, List.head?_cons, BEq.rfl,
      Bool.and_self, ↓reduceIte, List.drop_succ_cons, List.drop_zero, List.append_assoc,
      List.nil_append, hs]
  | str q items =>
    simp only [okLex, Bool.and_eq_true] at h
    have hq := h.1
    have h1 : (q == 47) = false := by rcases quote_cases q hq with rfl|rfl <;> decide
    have h2 : isWS q = false := by rcases quote_cases q hq with rfl|rfl <;> decide
    have hl := lexString_items q items rest [q] hq h.2
    simp only [lcost, ptoks, Piece.render, List.cons_append, List.append_assoc, List.nil_append,
      lexLoop, h1, h2, hq, Bool.false_and, Bool.false_eq_true, ↓reduceIte, hl]
    simp
  | word items =>
    simp only [okLex, Bool.and_eq_true, bne_iff_ne, ne_eq] at h
    exact lex_word items rest f h.1.1 h.1.2 h.2
  | punct b =>
    simp only [okLex] at h
    have h1 : (b == 47) = false := by rcases punct_cases b h with rfl|rfl|rfl|rfl|rfl|rfl <;> decide
    have h3 : isQuote b = false := by rcases punct_cases b h with rfl|rfl|rfl|rfl|rfl|rfl <;> decide
    have h4 : isWS b = false := by rcases punct_cases b h with rfl|rfl|rfl|rfl|rfl|rfl <;> decide
    simp only [lcost, ptoks, Piece.render, List.cons_append, List.nil_append, lexLoop, h1, h3, h4, h,
      Bool.false_and, Bool.false_eq_true, ↓reduceIte]
  | semis k =>
    exact lex_semis k f rest

def okLexAll : List Piece → Bool
  | [] => true
  | p :: ps => okLex p (render ps) && okLexAll ps

theorem lex_pieces (ps : List Piece) (f : Nat) (h : okLexAll ps = true) :
    lexLoop (f + lcosts ps) (render ps) = toks ps := by
  induction ps generalizing f with
  | nil => simp [render, toks, lexLoop_nil]
  | cons p ps ih =>
    simp only [okLexAll, Bool.and_eq_true] at h
    have : f + lcosts (p :: ps) = (f + lcosts ps) + lcost p := by
      simp [lcosts]; omega
    rw [this, render_cons, lex_piece p _ _ h.1, ih _ h.2]
    simp [toks]

theorem okLexAll_of_WFlex (ps : List Piece) (h1 : WFlex ps = true) : okLexAll ps = true := by
  induction ps with
  | nil => rfl
  | cons p ps ih =>
    simp only [WFlex, Bool.and_eq_true] at h1
    simp only [okLexAll, Bool.and_eq_true]
    refine ⟨?_, ih h1.2⟩
    have hp := h1.1
    cases p with
    | ws bs =>
      simp only [pieceOK, Bool.and_eq_true, Bool.not_eq_true'] at hp
      simp only [okLex, Bool.and_eq_true]
      refine ⟨hp.1, ?_⟩
      cases ps with
      | nil => rfl
      | cons q ps' =>
        simp only [WFlex, Bool.and_eq_true] at h1
        obtain ⟨b, t, hr, hw, _, _⟩ := head_facts q ps' h1.2.1
        rw [hr]; simp [hw hp.2]
    | comment body => simpa [pieceOK, okLex] using hp
    | str q items => simpa [pieceOK, okLex] using hp
    | word items =>
      simp only [pieceOK, Bool.and_eq_true, Bool.not_eq_true'] at hp
      simp only [okLex, Bool.and_eq_true]
      refine ⟨hp.1, ?_⟩
      cases ps with
      | nil => rfl
      | cons q ps' =>
        simp only [WFlex, Bool.and_eq_true] at h1
        obtain ⟨b, t, hr, _, _, hst⟩ := head_facts q ps' h1.2.1
        rw [hr]; exact hst hp.2
    | punct b =>
      simp only [pieceOK, Bool.and_eq_true] at hp
      simpa [okLex] using hp.1
    | semis k => rfl

theorem lcost_le (p : Piece) (ps : List Piece) (h : pieceOK p ps = true) : lcost p ≤ p.render.length := by
  cases p with
  | word items =>
    simp only [pieceOK, Bool.and_eq_true, bne_iff_ne, ne_eq] at h
    cases items with
    | nil => exact absurd rfl h.1.1
    | cons it its => cases it <;> simp [lcost, Piece.render, WItem.raw]
  | ws bs =>
    simp only [pieceOK, Bool.and_eq_true, bne_iff_ne, ne_eq] at h
    cases bs with
    | nil => exact absurd rfl h.1.1
    | cons c t => simp [lcost, Piece.render]
  | _ => simp [lcost, Piece.render]

theorem lcosts_le (ps : List Piece) (h : WFlex ps = true) : lcosts ps ≤ (render ps).length := by
  induction ps with
  | nil => simp [lcosts]
  | cons p ps ih =>
    simp only [WFlex, Bool.and_eq_true] at h
    have := lcost_le p ps h.1
    have := ih h.2
    simp only [lcosts, List.map_cons, List.sum_cons, render_cons, List.length_append] at *
    omega

/-- **part B**: the tokenizer on a well-formed piece list yields the tokens of the pieces -/
theorem cssLex_render (ps : List Piece) (h : WFlex ps = true) : cssLex (render ps) = toks ps := by
  have hc := lcosts_le ps h
  have : (render ps).length + 1 = ((render ps).length + 1 - lcosts ps) + lcosts ps := by omega
  unfold cssLex
  rw [this, lex_pieces ps _ (okLexAll_of_WFlex ps h)]

end EgoVerif.C34
