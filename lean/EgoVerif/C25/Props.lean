import EgoVerif.C25.Model
/-
C25 — theorems.  `C25_iff` is structural (no hypothesis on the primitives); `C25_exact` and the migration
theorems are relative to `PrimsOK` (bcrypt verifies exactly the hashed password, SHA-256 hex is injective and
looks like neither a bcrypt hash nor a {quoted} value).  The harness probes those hypotheses on the real
primitives and reports where they fail (72-byte truncation, NUL key cycling) as limits of the trusted base.
-/
namespace EgoVerif.C25

/-- the hypotheses about the external primitives -/
structure PrimsOK (P : Prims) : Prop where
  bcrypt_correct : ∀ p h q, P.bcryptHash p = some h → (P.bcryptMatch h q = true ↔ p = q)
  bcrypt_prefix : ∀ p h, P.bcryptHash p = some h → isBcryptHash h = true
  sha_inj : ∀ a b, P.sha a = P.sha b → a = b
  sha_shape : ∀ a, isBcryptHash (P.sha a) = false ∧ isBraced (P.sha a) = false

/-- "the password matches the stored credential in whichever supported format it is stored" -/
def Matches (P : Prims) (plain : Bool) (cred pass : Str) : Prop :=
  if isBcryptHash cred then P.bcryptMatch cred pass = true
  else if isBraced cred then plain = true ∧ P.sha (inner cred) = P.sha pass
  else cred = P.sha pass

def HoldsLogonOrRoot (perms : List Str) : Prop :=
  hasPerm perms logonPerm = true ∨ hasPerm perms rootPerm = true

theorem credOK_iff (P : Prims) (plain : Bool) (cred pass : Str) :
    credOK P plain cred pass = true ↔ Matches P plain cred pass := by
  unfold credOK Matches legacyReal
  by_cases hb : isBcryptHash cred = true
  · simp [hb]
  · by_cases hq : isBraced cred = true
    · cases plain <;> simp [hb, hq]
    · simp [hb, hq]

/-- MAIN: a pair authenticates iff the user exists under the lower-cased name, the password matches the
    stored credential in its format, and the user holds logon or root.  (Empty names/passwords never do.) -/
theorem C25_iff (P : Prims) (plain : Bool) (st : Store) (user pass : Str) :
    accept P plain st user pass = true ↔
      user ≠ [] ∧ pass ≠ [] ∧
      ∃ r, st (P.lower user) = some r ∧ Matches P plain r.password pass ∧ HoldsLogonOrRoot r.perms := by
  unfold accept validate HoldsLogonOrRoot
  by_cases he : user = [] ∨ pass = []
  · simp only [he, if_true]
    constructor
    · intro h; cases h
    · rintro ⟨h1, h2, _⟩; rcases he with he | he <;> contradiction
  · have h1 : user ≠ [] := fun h => he (Or.inl h)
    have h2 : pass ≠ [] := fun h => he (Or.inr h)
    simp only [he, if_false]
    cases hs : st (P.lower user) with
    | none => simp
    | some r =>
      simp only [Bool.and_eq_true, Bool.or_eq_true, credOK_iff]
      constructor
      · rintro ⟨hm, hp⟩
        exact ⟨h1, h2, r, rfl, hm, hp.symm⟩
      · rintro ⟨_, _, r', hr, hm, hp⟩
        cases hr
        exact ⟨hm, hp.symm⟩

/-- how a credential for true password `t` is provisioned in each supported format -/
inductive Fmt | bcrypt | sha | plain
deriving DecidableEq

def Provisioned (P : Prims) : Fmt → Str → Str → Prop
  | .bcrypt, t, cred => P.bcryptHash t = some cred
  | .sha, t, cred => cred = P.sha t
  | .plain, t, cred => cred = lbrace :: (t ++ [rbrace])

theorem isBcryptHash_lbrace (s : Str) : isBcryptHash (lbrace :: s) = false := by
  simp [isBcryptHash, pfx2a, pfx2b, pfx2y, lbrace, List.isPrefixOf]

theorem isBraced_quote (t : Str) : isBraced (lbrace :: (t ++ [rbrace])) = true := by
  simp [isBraced, List.getLast?_cons, List.getLast?_append]

theorem inner_quote (t : Str) : inner (lbrace :: (t ++ [rbrace])) = t := by
  simp [inner, List.dropLast_append_of_ne_nil]

/-- a credential provisioned from `t` matches exactly `t` (and, for {quoted}, only when plaintext is enabled) -/
theorem matches_provisioned (P : Prims) (ok : PrimsOK P) (plain : Bool) (f : Fmt) (t cred p : Str)
    (hp : Provisioned P f t cred) :
    Matches P plain cred p ↔ (p = t ∧ (f = .plain → plain = true)) := by
  unfold Matches
  cases f with
  | bcrypt =>
    have hb := ok.bcrypt_prefix t cred hp
    simp only [hb, if_true, ok.bcrypt_correct t cred p hp]
    constructor
    · intro h; exact ⟨h.symm, fun h => by cases h⟩
    · intro h; exact h.1.symm
  | sha =>
    have hs := ok.sha_shape t
    cases hp
    simp only [hs.1, hs.2, Bool.false_eq_true, if_false]
    constructor
    · intro h; exact ⟨(ok.sha_inj _ _ h).symm, fun h => by cases h⟩
    · intro h; rw [h.1]
  | plain =>
    cases hp
    simp only [isBcryptHash_lbrace, isBraced_quote, inner_quote, Bool.false_eq_true, if_false, if_true]
    constructor
    · intro h; exact ⟨(ok.sha_inj _ _ h.2).symm, fun _ => h.1⟩
    · intro h; exact ⟨h.2 (by first | rfl | trivial), by rw [h.1]⟩

/-- EXACTNESS: for a user whose credential was provisioned from the true password `t` in any of the three
    formats, a login is accepted iff the candidate IS `t` (byte for byte: no case variant, prefix, extension),
    plaintext is enabled when the format needs it, and the user holds logon or root. -/
theorem C25_exact (P : Prims) (ok : PrimsOK P) (plain : Bool) (st : Store) (f : Fmt)
    (user t cred : Str) (perms : List Str) (p : Str)
    (hu : user ≠ []) (ht : t ≠ [])
    (hst : st (P.lower user) = some ⟨cred, perms⟩) (hp : Provisioned P f t cred) :
    accept P plain st user p = true ↔
      p = t ∧ (f = .plain → plain = true) ∧ HoldsLogonOrRoot perms := by
  rw [C25_iff]
  constructor
  · rintro ⟨_, _, r, hr, hm, hperm⟩
    rw [hst] at hr; cases hr
    have := (matches_provisioned P ok plain f t cred p hp).1 hm
    exact ⟨this.1, this.2, hperm⟩
  · rintro ⟨h1, h2, h3⟩
    refine ⟨hu, by rw [h1]; exact ht, ⟨cred, perms⟩, hst, ?_, h3⟩
    exact (matches_provisioned P ok plain f t cred p hp).2 ⟨h1, h2⟩

/-! ### Migration -/

/-- replacing a stored credential by one with the same accepted passwords (same permissions) changes no answer -/
theorem accept_write_congr (P : Prims) (b : Bool) (st : Store) (key : Str) (r : Rec) (h : Str)
    (hst : st key = some r) (hc : ∀ q, credOK P b h q = credOK P b r.password q) (u q : Str) :
    accept P b (st.write key { r with password := h }) u q = accept P b st u q := by
  unfold accept validate
  by_cases he : u = [] ∨ q = []
  · simp [he]
  · simp only [he, if_false]
    by_cases hk : P.lower u = key
    · simp [Store.write, hk, hst, hc]
    · simp only [Store.write, hk, if_false]
      cases st (P.lower u) <;> rfl

/-- the bcrypt hash of the password that just matched a legacy credential accepts the same passwords -/
theorem credOK_migrated (P : Prims) (ok : PrimsOK P) (b b' : Bool) (hbb : b = true → b' = true)
    (c p h : Str) (hleg : isBcryptHash c = false) (hok : credOK P b c p = true)
    (hh : P.bcryptHash p = some h) (q : Str) :
    credOK P b' h q = credOK P b' c q := by
  rw [Bool.eq_iff_iff, credOK_iff, credOK_iff]
  rw [credOK_iff] at hok
  unfold Matches at *
  have hb := ok.bcrypt_prefix p h hh
  simp only [hb, if_true, hleg, Bool.false_eq_true, if_false, ok.bcrypt_correct p h q hh] at *
  by_cases hq : isBraced c = true
  · simp only [hq, if_true] at *
    constructor
    · intro e; subst e; exact ⟨hbb hok.1, hok.2⟩
    · intro e; exact ok.sha_inj _ _ (hok.2.symm.trans e.2)
  · simp only [hq] at *
    constructor
    · intro e; subst e; exact hok
    · intro e; exact ok.sha_inj _ _ (hok.symm.trans e)

/-- one login attempt (whatever its outcome, under setting `b`) leaves every answer under setting `b'`
    unchanged, provided a migration of a {quoted} credential (needs b = true) is judged with plaintext enabled -/
theorem C25_migration_step (P : Prims) (ok : PrimsOK P) (b b' : Bool) (hbb : b = true → b' = true)
    (st : Store) (u p u' p' : Str) :
    accept P b' (step P st (b, u, p)) u' p' = accept P b' st u' p' := by
  unfold step validate
  by_cases he : u = [] ∨ p = []
  · simp [he]
  · simp only [he, if_false]
    cases hs : st (P.lower u) with
    | none => rfl
    | some r =>
      simp only
      by_cases hm : (!isBcryptHash r.password && credOK P b r.password p) = true
      · simp only [hm, if_true]
        simp only [Bool.and_eq_true, Bool.not_eq_true'] at hm
        unfold migrate
        cases hh : P.bcryptHash p with
        | none => rfl
        | some h =>
          exact accept_write_congr P b' st (P.lower u) r h hs
            (fun q => credOK_migrated P ok b b' hbb r.password p h hm.1 hm.2 hh q) u' p'
      · simp [hm]

/-- MAIN (histories): after ANY history of login attempts — successful or not, any users, any passwords,
    the plaintext setting possibly changing between attempts — the set of accepted (user, password) pairs
    under setting `b'` is the one before the history, as long as every attempt made with plaintext enabled is
    judged with plaintext enabled (b' = true, or the whole history ran with plaintext disabled). -/
theorem C25_migration_invariant (P : Prims) (ok : PrimsOK P) (b' : Bool) (hist : List Login)
    (hbb : ∀ e ∈ hist, e.1 = true → b' = true) (st : Store) (u' p' : Str) :
    accept P b' (run P st hist) u' p' = accept P b' st u' p' := by
  induction hist generalizing st with
  | nil => rfl
  | cons e rest ih =>
    have h1 := ih (fun e' he' => hbb e' (List.mem_cons_of_mem _ he')) (step P st e)
    obtain ⟨b, u, p⟩ := e
    have h2 := C25_migration_step P ok b b' (hbb (b, u, p) List.mem_cons_self) st u p u' p'
    simp only [run, List.foldl_cons] at *
    rw [h1, h2]

/-- corollary: with a fixed plaintext setting the accept set never changes -/
theorem C25_migration_invariant_fixed (P : Prims) (ok : PrimsOK P) (b : Bool) (hist : List (Str × Str))
    (st : Store) (u' p' : Str) :
    accept P b (run P st (hist.map fun e => (b, e.1, e.2))) u' p' = accept P b st u' p' := by
  apply C25_migration_invariant P ok
  intro e he
  simp only [List.mem_map] at he
  obtain ⟨_, _, rfl⟩ := he
  exact id

/-- after a legacy match whose re-hash succeeds the stored credential is a bcrypt hash, the permissions are
    kept, and no other user is touched -/
theorem C25_migrated_store (P : Prims) (ok : PrimsOK P) (b : Bool) (st : Store) (u p : Str) (r : Rec) (h : Str)
    (hu : u ≠ []) (hp : p ≠ []) (hs : st (P.lower u) = some r) (hleg : isBcryptHash r.password = false)
    (hm : credOK P b r.password p = true) (hh : P.bcryptHash p = some h) :
    step P st (b, u, p) (P.lower u) = some ⟨h, r.perms⟩ ∧ isBcryptHash h = true ∧
      ∀ k, k ≠ P.lower u → step P st (b, u, p) k = st k := by
  have he : ¬ (u = [] ∨ p = []) := by rintro (h | h) <;> contradiction
  refine ⟨?_, ok.bcrypt_prefix p h hh, ?_⟩
  · simp [step, validate, he, hs, hleg, hm, migrate, hh, Store.write]
  · intro k hk
    simp [step, validate, he, hs, hleg, hm, migrate, hh, Store.write, hk]

/-- a wrong password (for the stored format) never writes to the store -/
theorem C25_no_write_on_mismatch (P : Prims) (b : Bool) (st : Store) (u p : Str)
    (hm : ∀ r, st (P.lower u) = some r → credOK P b r.password p = false) :
    step P st (b, u, p) = st := by
  unfold step validate
  by_cases he : u = [] ∨ p = []
  · simp [he]
  · simp only [he, if_false]
    cases hs : st (P.lower u) with
    | none => rfl
    | some r => simp [hm r hs]

/-! ### Non-vacuity: the hypotheses are satisfiable and every implication has a live instance -/

/-- a toy instance: "bcrypt" = "$2a$" ++ password, "sha" = 'h' :: password -/
def toy : Prims where
  lower := fun s => s.map lowerByte
  sha := fun a => 0x68 :: a
  bcryptMatch := fun h q => h == pfx2a ++ q
  bcryptHash := fun p => some (pfx2a ++ p)

/-- the hypotheses bundle `PrimsOK` is satisfiable -/
theorem C25_hypotheses_satisfiable : PrimsOK toy where
  bcrypt_correct := by
    intro p h q hh
    simp only [toy, Option.some.injEq] at hh
    subst hh
    simp [toy]
  bcrypt_prefix := by
    intro p h hh
    simp only [toy, Option.some.injEq] at hh
    subst hh
    simp [isBcryptHash, pfx2a, List.isPrefixOf]
  sha_inj := by
    intro a b h
    simpa [toy] using h
  sha_shape := by
    intro a
    simp [toy, isBcryptHash, isBraced, pfx2a, pfx2b, pfx2y, lbrace, List.isPrefixOf]

/-- ASCII text as bytes (kernel-reducible, unlike `String.toUTF8`) -/
def bs (cs : List Char) : Str := cs.map fun c => UInt8.ofNat c.toNat

def sAlice : Str := (bs ['a', 'l', 'i', 'c', 'e'])
def sALICE : Str := (bs ['A', 'L', 'I', 'C', 'E'])
def sPw : Str := (bs ['S', 'e', 'c', 'r', 'e', 't', '1'])
def sPwLower : Str := (bs ['s', 'e', 'c', 'r', 'e', 't', '1'])

/-- one user per stored format; `carol` holds no logon/root permission -/
def toyStore : Store := fun n =>
  if n = sAlice then some ⟨toy.sha sPw, [(bs ['E', 'G', 'O', '.', 'L', 'o', 'g', 'o', 'n'])]⟩
  else if n = (bs ['b', 'o', 'b']) then some ⟨lbrace :: (sPw ++ [rbrace]), [rootPerm]⟩
  else if n = (bs ['c', 'a', 'r', 'o', 'l']) then some ⟨toy.sha sPw, [(bs ['e', 'g', 'o', '.', 'l', 'o', 'g', 'o', 'n', 'x'])]⟩
  else if n = (bs ['d', 'a', 'v', 'e']) then some ⟨pfx2a ++ sPw, [logonPerm]⟩
  else none

-- C25_exact's hypotheses are met (user given in upper case, legacy SHA format) and both directions are live
example : toyStore (toy.lower sALICE) = some ⟨toy.sha sPw, [(bs ['E', 'G', 'O', '.', 'L', 'o', 'g', 'o', 'n'])]⟩ := by
  decide
example : Provisioned toy .sha sPw (toy.sha sPw) := rfl
example : accept toy false toyStore sALICE sPw = true := by decide
example : accept toy false toyStore sALICE sPwLower = false := by decide
example : accept toy false toyStore (bs ['b', 'o', 'b']) sPw = false := by decide      -- {quoted}, plaintext off
example : accept toy true toyStore (bs ['b', 'o', 'b']) sPw = true := by decide
example : accept toy true toyStore (bs ['c', 'a', 'r', 'o', 'l']) sPw = false := by decide     -- no logon/root
example : accept toy true toyStore (bs ['d', 'a', 'v', 'e']) sPw = true := by decide
-- the migration really rewrites the store (C25_migration_step is not about an identity function) …
example : step toy toyStore (false, sALICE, sPw) sAlice = some ⟨pfx2a ++ sPw, [(bs ['E', 'G', 'O', '.', 'L', 'o', 'g', 'o', 'n'])]⟩ := by
  decide
-- … even for a user who is then rejected for lack of permission
example : step toy toyStore (true, (bs ['c', 'a', 'r', 'o', 'l']), sPw) (bs ['c', 'a', 'r', 'o', 'l'])
    = some ⟨pfx2a ++ sPw, [(bs ['e', 'g', 'o', '.', 'l', 'o', 'g', 'o', 'n', 'x'])]⟩ := by decide
-- the side condition of C25_migration_invariant is needed: migrating a {quoted} credential with plaintext
-- enabled makes the password usable after plaintext is disabled again (documented one-time migration)
example : accept toy false toyStore (bs ['b', 'o', 'b']) sPw = false ∧
    accept toy false (step toy toyStore (true, (bs ['b', 'o', 'b']), sPw)) (bs ['b', 'o', 'b']) sPw = true := by decide

/-- the bcrypt hypothesis is NECESSARY for the migration invariant: with a bcrypt whose verification accepts
    a second password (what real bcrypt does for passwords agreeing on the cyclic 72-byte key: `p` vs
    `p ++ [0] ++ p`, or two passwords with the same first 72 bytes), upgrading a SHA-256 credential widens the
    accept set.  The harness probes exactly these classes on the real library. -/
def collide : Prims := { toy with bcryptMatch := fun h q => h == pfx2a ++ q.take 7 }

theorem C25_migration_needs_exact_bcrypt :
    accept collide false toyStore sAlice (sPw ++ [0x78]) = false ∧
    accept collide false (step collide toyStore (false, sAlice, sPw)) sAlice (sPw ++ [0x78]) = true := by
  decide

end EgoVerif.C25
