import EgoVerif.Common.Drv
import EgoVerif.C25.Model
/- line protocol (all strings hex, "-" = empty):
   `v <plain 0|1> <user> <lower(user)> <pass> <sha(pass)> <rehash ok|err> <n> { <name> <cred> <bm 0|1> <sha(inner cred)> <k> <perm>*k }*n`
   where the harness computed, with the REAL primitives (crypto/sha256, x/crypto/bcrypt, strings.ToLower, none of
   ego's code): lower(user), sha(pass), bm = CompareHashAndPassword(cred, pass)==nil, sha(cred[1:len-1]), and
   whether GenerateFromPassword(pass) can succeed.  The model decides everything else.
   →  `<accept 0|1> <none | <name>:bcrypt | <name>:other[,…]>`  (which stored records changed, and how) -/
namespace EgoVerif.C25

def unhex (h : String) : Option Str :=
  if h == "-" then some [] else bytesOfHex h

def hexOf (s : Str) : String := if s.isEmpty then "-" else hexOfBytes s

structure URow where
  name : Str
  cred : Str
  bm : Bool
  shaInner : Str
  perms : List Str

def parsePerms : Nat → List String → Option (List Str × List String)
  | 0, rest => some ([], rest)
  | k + 1, f :: rest =>
    match unhex f, parsePerms k rest with
    | some p, some (ps, rest') => some (p :: ps, rest')
    | _, _ => none
  | _ + 1, [] => none

def parseRows : Nat → List String → Option (List URow)
  | 0, [] => some []
  | 0, _ :: _ => none
  | n + 1, nm :: cr :: bm :: si :: k :: rest =>
    match unhex nm, unhex cr, unhex si, k.toNat? with
    | some nm, some cr, some si, some k =>
      match parsePerms k rest with
      | some (ps, rest') =>
        match parseRows n rest' with
        | some rows => some ({ name := nm, cred := cr, bm := bm == "1", shaInner := si, perms := ps } :: rows)
        | none => none
      | none => none
    | _, _, _, _ => none
  | _ + 1, _ => none

/-- the stand-in for the (randomly salted) new hash; any value with a bcrypt prefix would do -/
def newHash : Str := pfx2a ++ [0x4e, 0x45, 0x57]

def mkPrims (user lowerUser pass shaPass : Str) (rehash : Bool) (rows : List URow) : Prims where
  lower := fun x => if x = user then lowerUser else x
  sha := fun x => if x = pass then shaPass
                  else ((rows.find? fun r => inner r.cred == x).map (·.shaInner)).getD []
  bcryptMatch := fun h _ => ((rows.find? fun r => r.cred == h).map (·.bm)).getD false
  bcryptHash := fun _ => if rehash then some newHash else none

def mkStore (rows : List URow) : Store :=
  fun n => (rows.find? fun r => r.name == n).map fun r => ⟨r.cred, r.perms⟩

def handle (line : String) : String :=
  match fields line with
  | "v" :: plain :: user :: luser :: pass :: shaPass :: rehash :: n :: rest =>
    match unhex user, unhex luser, unhex pass, unhex shaPass, n.toNat? with
    | some user, some luser, some pass, some shaPass, some n =>
      match parseRows n rest with
      | none => "bad-rows"
      | some rows =>
        let P := mkPrims user luser pass shaPass (rehash == "ok") rows
        let st := mkStore rows
        let (acc, st') := validate P (plain == "1") st user pass
        let changed := rows.filter fun r => st' r.name != st r.name
        let descr := changed.map fun r =>
          hexOf r.name ++ (if st' r.name == some ⟨newHash, r.perms⟩ then ":bcrypt" else ":other")
        (if acc then "1 " else "0 ") ++ (if descr.isEmpty then "none" else ",".intercalate descr)
    | _, _, _, _, _ => "bad-input"
  | _ => "bad-op"

def drv : Drv := Drv.pure handle

end EgoVerif.C25
