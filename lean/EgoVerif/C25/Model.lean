/-
C25 — executable model of `ValidatePassword` (internal/server/auth/validate.go) together with
`IsBcryptHash` (hash.go), `findPermission` (permissions.go) and the ReadUser/WriteUser contract of the
two user stores (users_file.go: map keyed by `user.Name`; users_sqldb.go: row selected by `name = ?`).

Strings are byte lists (Go strings are byte sequences; every operation used here — `==`, HasPrefix,
HasSuffix, slicing `s[1:len(s)-1]`, ConstantTimeCompare — is bytewise).

External primitives enter through `Prims` (never as axioms):
  lower        strings.ToLower                       (no hypothesis needed)
  sha          egostrings.HashString = lowercase hex of SHA-256
  bcryptMatch  bcrypt.CompareHashAndPassword(h, p) == nil
  bcryptHash   auth.HashPassword = bcrypt.GenerateFromPassword(p, 12); `none` = error (password > 72 bytes, RNG)
The hypotheses about them live in `PrimsOK` (Props.lean).
-/
namespace EgoVerif.C25

abbrev Str := List UInt8

/-- the part of defs.User that ValidatePassword reads or writes -/
structure Rec where
  password : Str
  perms : List Str
deriving DecidableEq, Repr

/-- a user store: ReadUser(name) = `st name` (`none` = ErrNoSuchUser) -/
abbrev Store := Str → Option Rec

/-- WriteUser(u) with u.Name = k: replaces exactly the entry under k -/
def Store.write (st : Store) (k : Str) (r : Rec) : Store :=
  fun n => if n = k then some r else st n

structure Prims where
  lower : Str → Str
  sha : Str → Str
  bcryptMatch : Str → Str → Bool
  bcryptHash : Str → Option Str

def pfx2a : Str := [0x24, 0x32, 0x61, 0x24]   -- "$2a$"
def pfx2b : Str := [0x24, 0x32, 0x62, 0x24]   -- "$2b$"
def pfx2y : Str := [0x24, 0x32, 0x79, 0x24]   -- "$2y$"

/-- hash.go IsBcryptHash -/
def isBcryptHash (h : Str) : Bool :=
  pfx2a.isPrefixOf h || pfx2b.isPrefixOf h || pfx2y.isPrefixOf h

def lbrace : UInt8 := 0x7b
def rbrace : UInt8 := 0x7d

/-- validate.go: strings.HasPrefix(realPass, "{") && strings.HasSuffix(realPass, "}") -/
def isBraced (s : Str) : Bool :=
  s.head? == some lbrace && s.getLast? == some rbrace

/-- validate.go: realPass[1 : len(realPass)-1] -/
def inner (s : Str) : Str := (s.drop 1).dropLast

def lowerByte (b : UInt8) : UInt8 :=
  if 0x41 ≤ b ∧ b ≤ 0x5a then b + 0x20 else b

/-- strings.EqualFold against an ASCII target whose letters have no non-ASCII case orbit
    (true of "ego.root" and "ego.logon": no k, no s) is bytewise ASCII case-insensitive equality -/
def eqFold (a b : Str) : Bool := a.map lowerByte == b.map lowerByte

def rootPerm : Str := [0x65, 0x67, 0x6f, 0x2e, 0x72, 0x6f, 0x6f, 0x74]    -- "ego.root"
def logonPerm : Str := [0x65, 0x67, 0x6f, 0x2e, 0x6c, 0x6f, 0x67, 0x6f, 0x6e]   -- "ego.logon"

/-- permissions.go findPermission(u, perm) >= 0 -/
def hasPerm (perms : List Str) (target : Str) : Bool := perms.any (fun p => eqFold p target)

/-- validate.go, the legacy branch: the value the candidate's SHA-256 is compared with.
    `none` = the early `return false` when the stored value is `{quoted}` and plaintext is disabled. -/
def legacyReal (P : Prims) (plain : Bool) (cred : Str) : Option Str :=
  if isBraced cred then (if plain then some (P.sha (inner cred)) else none) else some cred

/-- validate.go: the value of `ok` after the format-dependent comparison -/
def credOK (P : Prims) (plain : Bool) (cred pass : Str) : Bool :=
  if isBcryptHash cred then P.bcryptMatch cred pass
  else match legacyReal P plain cred with
       | none => false
       | some real => decide (real = P.sha pass)     -- subtle.ConstantTimeCompare == 1

/-- validate.go `if ok { if newHash, err := HashPassword(pass); err == nil { u.Password = newHash; WriteUser(u) } }` -/
def migrate (P : Prims) (st : Store) (key : Str) (r : Rec) (pass : Str) : Store :=
  match P.bcryptHash pass with
  | some h => st.write key { r with password := h }
  | none => st

/-- validate.go ValidatePassword: result and the store afterwards -/
def validate (P : Prims) (plain : Bool) (st : Store) (user pass : Str) : Bool × Store :=
  if user = [] ∨ pass = [] then (false, st) else
  let key := P.lower user
  match st key with
  | none => (false, st)
  | some r =>
    let ok := credOK P plain r.password pass
    let st' := if !isBcryptHash r.password && ok then migrate P st key r pass else st
    (ok && (hasPerm r.perms rootPerm || hasPerm r.perms logonPerm), st')

def accept (P : Prims) (plain : Bool) (st : Store) (user pass : Str) : Bool :=
  (validate P plain st user pass).1

/-- one login attempt: (plaintext setting at that moment, user, password) -/
abbrev Login := Bool × Str × Str

def step (P : Prims) (st : Store) (e : Login) : Store := (validate P e.1 st e.2.1 e.2.2).2

/-- the store after a history of login attempts -/
def run (P : Prims) (st : Store) (hist : List Login) : Store := hist.foldl (step P) st

end EgoVerif.C25
