import EgoVerif.Common.Drv
import EgoVerif.C22.Model
/- line protocol (all numbers decimal; strings are interned by the harness, 0 = empty):

   init <now> <audRequired 0|1> <userClaim s|e|p|o> <fixed 0|1> <jwksTTL> <key>*   → "-"
        key = <kid>:<useOK 0|1>:<ktyOK 0|1>:<id>       (the document the provider serves at start-up)
   keys <key>*          the provider replaces its JWKS document                    → "-"
   p <tid> <parseOK 0|1> <alg r|e|o> <kid> <sigBy (0 = none)> <exp> <nbf> <issOK> <audOK> <jti>
     <sub> <email> <pref> <client>                                         → ok u<n> | ok c<n> | revoked | invalid | expired | noclaim
   rev <jti> | unrev <jti> | flush | adv <dt> | purge | evict <tid>        → "-"
-/
namespace EgoVerif.C22

structure DSt where
  cfg : Cfg
  jwks : List Jwk
  fixed : Bool
  ttl : Nat
  st : St

def b01 (s : String) : Bool := s == "1"

def parseKey (s : String) : Option Jwk :=
  match s.splitOn ":" with
  | [a, b, c, d] =>
    match a.toNat?, d.toNat? with
    | some kid, some id => some ⟨kid, b01 b, b01 c, id⟩
    | _, _ => none
  | _ => none

def parseClaim (s : String) : UserClaim :=
  if s == "s" then .sub else if s == "e" then .email else if s == "p" then .preferred else .otherName

def parseAlg (s : String) : AlgFam :=
  if s == "r" then .rsa else if s == "e" then .ecdsa else .other

def showRes : Res → String
  | .ok (.name n) => s!"ok u{n}"
  | .ok (.client n) => s!"ok c{n}"
  | .revoked => "revoked"
  | .invalid => "invalid"
  | .expired => "expired"
  | .noclaim => "noclaim"

def nats (l : List String) : Option (List Nat) := l.mapM (·.toNat?)

def opLine (d : DSt) (o : Op) : DSt × String :=
  let W : World := ⟨d.cfg, d.jwks, fun _ => ⟨false, .other, 0, none, 0, 0, false, false, 0, 0, 0, 0, 0⟩, d.fixed, d.ttl⟩
  ({ d with st := (step W d.st o).1 }, "-")

def handle (d : DSt) (line : String) : DSt × String :=
  match fields line with
  | "init" :: now :: aud :: claim :: fx :: ttl :: keys =>
    match now.toNat?, ttl.toNat?, keys.mapM parseKey with
    | some t0, some ttl, some ks => (⟨⟨true, b01 aud, parseClaim claim⟩, ks, b01 fx, ttl, init t0 ks⟩, "-")
    | _, _, _ => (d, "bad-input")
  | "keys" :: keys =>
    match keys.mapM parseKey with
    | some ks => opLine d (.setKeys ks)
    | none => (d, "bad-input")
  | ["p", tid, pok, alg, kid, sigBy, exp, nbf, iss, aud, jti, sub, email, pref, client] =>
    match nats [tid, kid, sigBy, exp, nbf, jti, sub, email, pref, client] with
    | some [tid, kid, sigBy, exp, nbf, jti, sub, email, pref, client] =>
      let t : Tok := ⟨b01 pok, parseAlg alg, kid, if sigBy = 0 then none else some sigBy, exp, nbf,
                      b01 iss, b01 aud, jti, sub, email, pref, client⟩
      let W : World := ⟨d.cfg, d.jwks, fun _ => t, d.fixed, d.ttl⟩
      let r := present W d.st tid
      ({ d with st := r.1 }, showRes r.2)
    | _ => (d, "bad-input")
  | ["rev", j] => match j.toNat? with | some j => opLine d (.revoke j) | none => (d, "bad-input")
  | ["unrev", j] => match j.toNat? with | some j => opLine d (.unrevoke j) | none => (d, "bad-input")
  | ["flush"] => opLine d .flush
  | ["adv", n] => match n.toNat? with | some n => opLine d (.advance n) | none => (d, "bad-input")
  | ["purge"] => opLine d .purge
  | ["evict", t] => match t.toNat? with | some t => opLine d (.evict t) | none => (d, "bad-input")
  | _ => (d, "bad-op")

def drv : Drv :=
  { σ := DSt, init := ⟨⟨true, false, .sub⟩, [], true, 0, init 0 []⟩, step := handle }

end EgoVerif.C22
