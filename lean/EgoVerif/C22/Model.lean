/-
C22 — JWT bearer tokens are verified and revocable (OAuth resource-server mode).

Executable model of
  internal/server/oauth/oauth.go   ValidateJWT            (result cache + revocation check)
  internal/server/oauth/jwt.go     parseAndValidateJWT, selectVerificationKey
  internal/server/oauth/jwks.go    refreshJWKS (key filtering), keyByID / findKeyByID / allKeys
  internal/language/tokens/blacklist.go   Blacklist, Delete, Flush, IsIDBlacklisted (+ BlacklistCache)
  internal/server/oauth/authserver/revoke.go   RevokeHandler tail: `if jti != "" { tokens.Blacklist(jti) }`

The model mirrors the code WITH fixes/C22.patch applied ("Step 5b": the blacklist is consulted on the
cache-miss path too).  `World.fixed = false` gives the code as it was before the patch; it is used only
for `C22_unpatched_counterexample`.

External primitives enter as data, never as axioms:
  * golang-jwt (`jwt.ParseWithClaims`, `Method.Verify`) and the crypto below it are the *library verdict*
    `World.lib : Nat → Tok` — for every raw token string (a `Nat` id) the facts the library reports about
    it.  `Tok.sigBy` is the identity of the unique key under which the signature verifies with the
    header's algorithm (`none` = under no key).
  * strings (kid, jti, user names) are interned as `Nat`; `0` is the empty string.
  * the clock is a `Nat` (seconds); all comparisons are those of the Go code at whole seconds.

Core Lean only.
-/
namespace EgoVerif.C22

/-! ## association lists (the two caches are `map[any]Item`) -/

def lookupK {α : Type} : List (Nat × α) → Nat → Option α
  | [], _ => none
  | (k, v) :: l, x => if x = k then some v else lookupK l x

def delK {α : Type} : List (Nat × α) → Nat → List (Nat × α)
  | [], _ => []
  | (k, v) :: l, x => if x = k then delK l x else (k, v) :: delK l x

/-! ## keys: jwks.go -/

/-- jwt.go selectVerificationKey: `switch token.Method.(type)`.
    `rsa` = *jwt.SigningMethodRSA (RS256/384/512), `ecdsa` = *jwt.SigningMethodECDSA (ES256/384/512),
    `other` = everything else (HMAC, none, RSA-PSS, EdDSA, …). -/
inductive AlgFam | rsa | ecdsa | other
  deriving DecidableEq, Repr

/-- one entry of the JWKS document served by the identity provider -/
structure Jwk where
  kid : Nat          -- "kid" (0 = "")
  useOK : Bool       -- refreshJWKS: `k.Use == "" || k.Use == "sig"`
  ktyOK : Bool       -- Kty is "EC"/"RSA" and parseECPublicKey/parseRSAPublicKey succeeded
  id : Nat           -- identity of the key material
  deriving Repr

/-- publicKeyEntry (what refreshJWKS keeps in jwksCache.keys) -/
structure PubKey where
  kid : Nat
  id : Nat
  deriving Repr

/-- refreshJWKS: the loop that skips non-signature keys, unsupported types and unparsable keys -/
def usable : List Jwk → List PubKey
  | [] => []
  | k :: ks => if k.useOK && k.ktyOK then ⟨k.kid, k.id⟩ :: usable ks else usable ks

/-- findKeyByID for a non-empty kid: first entry whose Kid matches -/
def findKeyByID : List PubKey → Nat → Option Nat
  | [], _ => none
  | e :: es, kid => if e.kid = kid then some e.id else findKeyByID es kid

/-- selectVerificationKey (+ keyByID / allKeys).  With a fixed published key set and a reachable
    provider the JWKS cache, its TTL refresh and the unknown-kid cooldown do not change the answer:
    every path ends in a lookup in the usable published keys. -/
def selectKey (keys : List PubKey) (alg : AlgFam) (kid : Nat) : Option Nat :=
  if alg = .other then none                       -- ErrJWTSigningMethod
  else if kid ≠ 0 then findKeyByID keys kid       -- keyByID
  else match keys with                            -- no kid: `return keys[0], nil`
    | [] => none                                  -- ErrJWKSNoAvailableKeys
    | k :: _ => some k.id

/-! ## the library verdict and configuration -/

/-- what golang-jwt reports about one raw token string -/
structure Tok where
  parseOK : Bool          -- Parser.ParseUnverified succeeds (three segments, base64url, JSON, registered alg)
  alg : AlgFam            -- family of token.Method
  kid : Nat               -- header "kid" if it is a string, else 0
  sigBy : Option Nat      -- key identity under which Method.Verify(signingInput, sig, key) = nil
  exp : Nat               -- "exp" (0 = claim absent; both are rejected, `now < 0` is false)
  nbf : Nat               -- "nbf" (0 = claim absent; `0 ≤ now` always)
  issOK : Bool            -- "iss" == cfg.Provider
  audOK : Bool            -- "aud" contains cfg.Audience
  jti : Nat               -- "jti" (0 = absent)
  sub : Nat
  email : Nat
  pref : Nat              -- preferred_username
  client : Nat            -- client_id
  deriving Repr

inductive UserClaim | sub | email | preferred | otherName
  deriving DecidableEq, Repr

/-- rsConfig as far as ValidateJWT reads it -/
structure Cfg where
  issRequired : Bool      -- cfg.Provider != ""  (always true when the RS role is enabled)
  audRequired : Bool      -- cfg.Audience != ""
  userClaim : UserClaim
  deriving Repr

structure World where
  cfg : Cfg
  jwks : List Jwk
  lib : Nat → Tok
  fixed : Bool            -- true: fixes/C22.patch applied (Step 5b present)

/-- golang-jwt Validator.Validate with WithExpirationRequired, WithIssuer, WithAudience, no leeway:
    verifyExpiresAt `now.Before(exp)`, verifyNotBefore `!now.Before(nbf)`. -/
def claimsOK (c : Cfg) (t : Tok) (now : Nat) : Bool :=
  decide (now < t.exp) && decide (t.nbf ≤ now) && (!c.audRequired || t.audOK) && (!c.issRequired || t.issOK)

def sigOK (W : World) (t : Tok) : Bool :=
  match selectKey (usable W.jwks) t.alg t.kid with
  | some k => t.sigBy == some k
  | none => false

/-- jwt.ParseWithClaims returns nil error and token.Valid -/
def libAccepts (W : World) (t : Tok) (now : Nat) : Bool :=
  t.parseOK && sigOK W t && claimsOK W.cfg t now

/-- oauth.go extractUsername -/
def extractUsername (c : UserClaim) (t : Tok) : Nat :=
  match c with
  | .sub => t.sub
  | .email => if t.email ≠ 0 then t.email else t.sub
  | .preferred => if t.pref ≠ 0 then t.pref else t.sub
  | .otherName => t.sub

inductive User | name (n : Nat) | client (n : Nat)
  deriving DecidableEq, Repr

/-- Step 5: `user := extractUsername(..); if user == "" && claims.ClientID != "" { user = "client:"+… }` -/
def userOf (c : Cfg) (t : Tok) : Option User :=
  let u := extractUsername c.userClaim t
  if u ≠ 0 then some (.name u) else if t.client ≠ 0 then some (.client t.client) else none

/-! ## state -/

/-- JWTCacheEntry -/
structure Entry where
  user : User
  exp : Nat
  jti : Nat
  deriving Repr

structure St where
  now : Nat
  cache : List (Nat × Entry)      -- caches.OAuthJWTCache, keyed on the raw token
  revoked : List Nat              -- active rows of the blacklist table
  blCache : List (Nat × Bool)     -- caches.BlacklistCache: id ↦ item.Active

inductive Res | ok (u : User) | revoked | invalid | expired | noclaim
  deriving DecidableEq, Repr

/-- tokens.IsIDBlacklisted (store configured, reads succeed) -/
def isIDBlacklisted (s : St) (id : Nat) : St × Bool :=
  match lookupK s.blCache id with
  | some a => (s, a)                                  -- cache hit: `return item.Active, nil`
  | none =>
    let a := s.revoked.contains id                    -- handle.Read(id) … any active row
    ({ s with blCache := (id, a) :: s.blCache }, a)   -- caches.Add(BlacklistCache, id, …)

/-- ValidateJWT steps 2–7 (the cache-miss path) -/
def validate (W : World) (s : St) (tid : Nat) : St × Res :=
  let t := W.lib tid
  if !libAccepts W t s.now then (s, .invalid)                 -- ErrJWTValidation / ErrJWTInvalid
  else if t.exp < s.now then (s, .expired)                    -- belt-and-braces ErrJWTExpired
  else match userOf W.cfg t with
    | none => (s, .noclaim)                                   -- ErrJWTMissingClaim
    | some u =>
      -- Step 5b (fixes/C22.patch): `if claims.ID != "" { if IsIDBlacklisted(claims.ID) { return revoked } }`
      let r := if W.fixed && t.jti ≠ 0 then isIDBlacklisted s t.jti else (s, false)
      if r.2 then (r.1, .revoked)
      else
        -- Step 7: caches.Add (delete old entry, insert new)
        ({ r.1 with cache := (tid, ⟨u, t.exp, t.jti⟩) :: delK r.1.cache tid }, .ok u)

/-- ValidateJWT -/
def present (W : World) (s : St) (tid : Nat) : St × Res :=
  match lookupK s.cache tid with
  | some e =>
    if s.now < e.exp then                                     -- time.Now().Before(entry.Expires)
      if e.jti ≠ 0 then
        let r := isIDBlacklisted s e.jti
        if r.2 then ({ r.1 with cache := delK r.1.cache tid }, .revoked)
        else (r.1, .ok e.user)
      else (s, .ok e.user)
    else validate W { s with cache := delK s.cache tid } tid  -- caches.Delete, fall through
  | none => validate W s tid

inductive Op
  | present (tid : Nat)
  | revoke (jti : Nat)      -- tokens.Blacklist(jti)            (RevokeHandler)
  | unrevoke (jti : Nat)    -- tokens.Delete(jti)
  | flush                   -- tokens.Flush()
  | advance (dt : Nat)      -- the clock moves
  | purge                   -- caches.Purge(OAuthJWTCache)       (admin cache flush)
  | evict (tid : Nat)       -- the cache sweeper / size limit: any JWT cache entry may vanish at any time
  | blEvict (jti : Nat)     -- the same for BlacklistCache
  deriving Repr

def step (W : World) (s : St) : Op → St × Option Res
  | .present tid => let r := present W s tid; (r.1, some r.2)
  | .revoke j =>
    -- handle.Insert fails on the UNIQUE id column when the id is already there: error, nothing purged
    if s.revoked.contains j then (s, none)
    else ({ s with revoked := j :: s.revoked, blCache := [] }, none)           -- Insert; Purge(BlacklistCache)
  | .unrevoke j =>
    -- handle.Delete: count == 0 → ErrNotFound, the cache is left alone
    if s.revoked.contains j then
      ({ s with revoked := s.revoked.filter (· ≠ j), blCache := delK s.blCache j }, none)
    else (s, none)
  | .flush => ({ s with revoked := [], blCache := [] }, none)
  | .advance dt => ({ s with now := s.now + dt }, none)
  | .purge => ({ s with cache := [] }, none)
  | .evict tid => ({ s with cache := delK s.cache tid }, none)
  | .blEvict j => ({ s with blCache := delK s.blCache j }, none)

def run (W : World) : St → List Op → St
  | s, [] => s
  | s, o :: os => run W (step W s o).1 os

def init (t0 : Nat) : St := { now := t0, cache := [], revoked := [], blCache := [] }

/-! ## history-level notions the theorems are stated with (independent of `St`) -/

/-- the clock after one operation -/
def clkStep (t : Nat) : Op → Nat
  | .advance dt => t + dt
  | _ => t

/-- the clock after a history that started at `t` -/
def clock : Nat → List Op → Nat
  | t, [] => t
  | t, o :: os => clock (clkStep t o) os

/-- the set of revoked ids after one operation -/
def rvStep (r : Nat → Bool) : Op → Nat → Bool
  | .revoke k => fun x => if x = k then true else r x
  | .unrevoke k => fun x => if x = k then false else r x
  | .flush => fun _ => false
  | _ => r

/-- is `j` revoked after the history (given what was revoked before it)? -/
def revokedAfter : (Nat → Bool) → List Op → Nat → Bool
  | r, [] => r
  | r, o :: os => revokedAfter (rvStep r o) os

/-- the decision ValidateJWT *should* compute: a pure function of the library verdict, the clock and
    the revocation store — no cache in sight. -/
def spec (W : World) (t : Tok) (now : Nat) (rv : Nat → Bool) : Res :=
  if !libAccepts W t now then .invalid
  else match userOf W.cfg t with
    | none => .noclaim
    | some u => if t.jti ≠ 0 && rv t.jti then .revoked else .ok u

end EgoVerif.C22
