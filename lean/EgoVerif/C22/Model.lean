/-
C22 — JWT bearer tokens are verified and revocable (OAuth resource-server mode).

Executable model of
  internal/server/oauth/oauth.go   ValidateJWT            (result cache + revocation check)
  internal/server/oauth/jwt.go     parseAndValidateJWT, selectVerificationKey
  internal/server/oauth/jwks.go    refreshJWKS (key filtering), keyByID / findKeyByID / allKeys,
                                   jwksCache (keys, fetchedAt, ttl), missRefresh (unknown-kid cooldown)
  internal/language/tokens/blacklist.go   Blacklist, Delete, Flush, IsIDBlacklisted (+ BlacklistCache)
  internal/server/oauth/authserver/revoke.go   RevokeHandler tail: `if jti != "" { tokens.Blacklist(jti) }`

The model mirrors the code WITH fixes/C22.patch applied ("Step 5b": the blacklist is consulted on the
cache-miss path too).  `World.fixed = false` gives the code as it was before the patch; it is used only
for `C22_unpatched_counterexample`.

External primitives enter as data, never as axioms:
  * golang-jwt (`jwt.ParseWithClaims`, `Method.Verify`) and the crypto below it are the *library verdict*
    `World.lib : Nat → Tok` — for every raw token string (a `Nat` id) the facts the library reports about
    it.  `Tok.sigBy` is the identity of the unique key under which the signature verifies with the
    header's algorithm (`none` = under no key).
  * strings (kid, jti, user names) are interned as `Nat`; `0` is the empty string.
  * the clock is a `Nat` (seconds); all comparisons are those of the Go code at whole seconds.
  * the identity provider is part of the state: `St.pub` is the JWKS document it serves NOW; the operation
    `setKeys` replaces it (keys are published / withdrawn / rotated while the server runs).  The provider is
    reachable: refreshJWKS fails only when the document has no usable signature key (ErrJWKSNoKeys).

Core Lean only.
-/
namespace EgoVerif.C22

/-! ## association lists (the two caches are `map[any]Item`) -/

def lookupK {α : Type} : List (Nat × α) → Nat → Option α
  | [], _ => none
  | (k, v) :: l, x => if x = k then some v else lookupK l x

def delK {α : Type} : List (Nat × α) → Nat → List (Nat × α)
  | [], _ => []
  | (k, v) :: l, x => if x = k then delK l x else (k, v) :: delK l x

/-! ## keys: jwks.go -/

/-- jwt.go selectVerificationKey: `switch token.Method.(type)`.
    `rsa` = *jwt.SigningMethodRSA (RS256/384/512), `ecdsa` = *jwt.SigningMethodECDSA (ES256/384/512),
    `other` = everything else (HMAC, none, RSA-PSS, EdDSA, …). -/
inductive AlgFam | rsa | ecdsa | other
  deriving DecidableEq, Repr

/-- one entry of the JWKS document served by the identity provider -/
structure Jwk where
  kid : Nat          -- "kid" (0 = "")
  useOK : Bool       -- refreshJWKS: `k.Use == "" || k.Use == "sig"`
  ktyOK : Bool       -- Kty is "EC"/"RSA" and parseECPublicKey/parseRSAPublicKey succeeded
  id : Nat           -- identity of the key material
  deriving Repr

/-- publicKeyEntry (what refreshJWKS keeps in jwksCache.keys) -/
structure PubKey where
  kid : Nat
  id : Nat
  deriving Repr

/-- refreshJWKS: the loop that skips non-signature keys, unsupported types and unparsable keys -/
def usable : List Jwk → List PubKey
  | [] => []
  | k :: ks => if k.useOK && k.ktyOK then ⟨k.kid, k.id⟩ :: usable ks else usable ks

/-- findKeyByID for a non-empty kid: first entry whose Kid matches -/
def findKeyByID : List PubKey → Nat → Option Nat
  | [], _ => none
  | e :: es, kid => if e.kid = kid then some e.id else findKeyByID es kid

/-- SPECIFICATION of key selection over one key set (no cache): what selectVerificationKey answers when
    the key set it looks at is `keys`.  The code itself is `selectKeyS` below (JWKS cache, TTL, cooldown);
    `Props.selectKeyS_fixed` proves that the two agree as long as the provider never changes its document. -/
def selectKey (keys : List PubKey) (alg : AlgFam) (kid : Nat) : Option Nat :=
  if alg = .other then none                       -- ErrJWTSigningMethod
  else if kid ≠ 0 then findKeyByID keys kid       -- keyByID
  else match keys with                            -- no kid: `return keys[0], nil`
    | [] => none                                  -- ErrJWKSNoAvailableKeys
    | k :: _ => some k.id

/-! ## the library verdict and configuration -/

/-- what golang-jwt reports about one raw token string -/
structure Tok where
  parseOK : Bool          -- Parser.ParseUnverified succeeds (three segments, base64url, JSON, registered alg)
  alg : AlgFam            -- family of token.Method
  kid : Nat               -- header "kid" if it is a string, else 0
  sigBy : Option Nat      -- key identity under which Method.Verify(signingInput, sig, key) = nil
  exp : Nat               -- "exp" (0 = claim absent; both are rejected, `now < 0` is false)
  nbf : Nat               -- "nbf" (0 = claim absent; `0 ≤ now` always)
  issOK : Bool            -- "iss" == cfg.Provider
  audOK : Bool            -- "aud" contains cfg.Audience
  jti : Nat               -- "jti" (0 = absent)
  sub : Nat
  email : Nat
  pref : Nat              -- preferred_username
  client : Nat            -- client_id
  deriving Repr

inductive UserClaim | sub | email | preferred | otherName
  deriving DecidableEq, Repr

/-- rsConfig as far as ValidateJWT reads it -/
structure Cfg where
  issRequired : Bool      -- cfg.Provider != ""  (always true when the RS role is enabled)
  audRequired : Bool      -- cfg.Audience != ""
  userClaim : UserClaim
  deriving Repr

structure World where
  cfg : Cfg
  jwks : List Jwk
  lib : Nat → Tok
  fixed : Bool            -- true: fixes/C22.patch applied (Step 5b present)
  jwksTTL : Nat           -- jwksCache.ttl (ego.server.oauth.jwks.cache.ttl), seconds

/-- golang-jwt Validator.Validate with WithExpirationRequired, WithIssuer, WithAudience, no leeway:
    verifyExpiresAt `now.Before(exp)`, verifyNotBefore `!now.Before(nbf)`. -/
def claimsOK (c : Cfg) (t : Tok) (now : Nat) : Bool :=
  decide (now < t.exp) && decide (t.nbf ≤ now) && (!c.audRequired || t.audOK) && (!c.issRequired || t.issOK)

def sigOK (W : World) (t : Tok) : Bool :=
  match selectKey (usable W.jwks) t.alg t.kid with
  | some k => t.sigBy == some k
  | none => false

/-- jwt.ParseWithClaims returns nil error and token.Valid -/
def libAccepts (W : World) (t : Tok) (now : Nat) : Bool :=
  t.parseOK && sigOK W t && claimsOK W.cfg t now

/-- oauth.go extractUsername -/
def extractUsername (c : UserClaim) (t : Tok) : Nat :=
  match c with
  | .sub => t.sub
  | .email => if t.email ≠ 0 then t.email else t.sub
  | .preferred => if t.pref ≠ 0 then t.pref else t.sub
  | .otherName => t.sub

inductive User | name (n : Nat) | client (n : Nat)
  deriving DecidableEq, Repr

/-- Step 5: `user := extractUsername(..); if user == "" && claims.ClientID != "" { user = "client:"+… }` -/
def userOf (c : Cfg) (t : Tok) : Option User :=
  let u := extractUsername c.userClaim t
  if u ≠ 0 then some (.name u) else if t.client ≠ 0 then some (.client t.client) else none

/-! ## state -/

/-- JWTCacheEntry -/
structure Entry where
  user : User
  exp : Nat
  jti : Nat
  deriving Repr

structure St where
  now : Nat
  cache : List (Nat × Entry)      -- caches.OAuthJWTCache, keyed on the raw token
  revoked : List Nat              -- active rows of the blacklist table
  blCache : List (Nat × Bool)     -- caches.BlacklistCache: id ↦ item.Active
  pub : List Jwk                  -- ENVIRONMENT: the JWKS document the identity provider serves now
  jc : List PubKey                -- jwksCache.keys
  jcAt : Nat                      -- jwksCache.fetchedAt
  missLast : Option Nat           -- missRefresh.last (none = the zero time.Time)

inductive Res | ok (u : User) | revoked | invalid | expired | noclaim
  deriving DecidableEq, Repr

/-- tokens.IsIDBlacklisted (store configured, reads succeed) -/
def isIDBlacklisted (s : St) (id : Nat) : St × Bool :=
  match lookupK s.blCache id with
  | some a => (s, a)                                  -- cache hit: `return item.Active, nil`
  | none =>
    let a := s.revoked.contains id                    -- handle.Read(id) … any active row
    ({ s with blCache := (id, a) :: s.blCache }, a)   -- caches.Add(BlacklistCache, id, …)

/-! ## jwks.go: the JWKS cache -/

/-- minMissRefreshInterval (seconds) -/
def missCooldown : Nat := 30

/-- refreshJWKS with a reachable provider: parse the document served now, keep the usable entries.
    `len(entries) == 0` → ErrJWKSNoKeys and the cache is left as it was. -/
def refreshJWKS (s : St) : St × Bool :=
  match usable s.pub with
  | [] => (s, false)
  | e :: es => ({ s with jc := e :: es, jcAt := s.now }, true)

/-- the tail of keyByID: `if err := refreshJWKS(..); err != nil { return nil, err }`, then findKeyByID -/
def lookupAfterRefresh (s : St) (kid : Nat) : St × Option Nat :=
  let r := refreshJWKS s
  if r.2 then (r.1, findKeyByID r.1.jc kid) else (r.1, none)

/-- `time.Since(missRefresh.last) < minMissRefreshInterval` -/
def coolingDown (s : St) : Bool :=
  match s.missLast with
  | some l => decide (s.now - l < missCooldown)
  | none => false

/-- `len(keys) > 0 && age < ttl` -/
def jcFresh (W : World) (s : St) : Bool :=
  !s.jc.isEmpty && decide (s.now - s.jcAt < W.jwksTTL)

/-- keyByID (kid ≠ "") -/
def keyByID (W : World) (s : St) (kid : Nat) : St × Option Nat :=
  if jcFresh W s then
    match findKeyByID s.jc kid with
    | some k => (s, some k)                                   -- fast path: fresh cache, kid found
    | none =>                                                 -- freshCacheMiss = true
      if coolingDown s then (s, none)                         -- ErrJWKSKeyNotFound, no network
      else lookupAfterRefresh { s with missLast := some s.now } kid
  else lookupAfterRefresh s kid                               -- stale or empty: always refresh

/-- selectVerificationKey, as the code runs it -/
def selectKeyS (W : World) (s : St) (alg : AlgFam) (kid : Nat) : St × Option Nat :=
  if alg = .other then (s, none)                              -- ErrJWTSigningMethod
  else if kid ≠ 0 then keyByID W s kid
  else
    -- no kid: `keys := allKeys(); if len(keys) == 0 { refreshJWKS … }` — the cached keys are used whatever
    -- their age; a failed refresh is ErrJWKSFetchNoCache (the cache stays empty)
    let s1 := if s.jc.isEmpty then (refreshJWKS s).1 else s
    match s1.jc with
    | [] => (s1, none)
    | k :: _ => (s1, some k.id)                               -- `return keys[0], nil`

/-- jwt.ParseWithClaims: ParseUnverified, then the keyfunc (which may refresh the JWKS cache), then
    Method.Verify, then the claims validator -/
def libRun (W : World) (s : St) (t : Tok) : St × Bool :=
  if !t.parseOK then (s, false)                               -- the keyfunc is not reached
  else
    let r := selectKeyS W s t.alg t.kid
    (r.1, (match r.2 with
           | some k => t.sigBy == some k
           | none => false) && claimsOK W.cfg t s.now)

/-- ValidateJWT steps 5–7, given the verdict `la` of parseAndValidateJWT -/
def validateCore (W : World) (s : St) (tid : Nat) (la : Bool) : St × Res :=
  let t := W.lib tid
  if !la then (s, .invalid)                                   -- ErrJWTValidation / ErrJWTInvalid
  else if t.exp < s.now then (s, .expired)                    -- belt-and-braces ErrJWTExpired
  else match userOf W.cfg t with
    | none => (s, .noclaim)                                   -- ErrJWTMissingClaim
    | some u =>
      -- Step 5b (fixes/C22.patch): `if claims.ID != "" { if IsIDBlacklisted(claims.ID) { return revoked } }`
      let r := if W.fixed && t.jti ≠ 0 then isIDBlacklisted s t.jti else (s, false)
      if r.2 then (r.1, .revoked)
      else
        -- Step 7: caches.Add (delete old entry, insert new)
        ({ r.1 with cache := (tid, ⟨u, t.exp, t.jti⟩) :: delK r.1.cache tid }, .ok u)

/-- ValidateJWT steps 2–7 (the cache-miss path) -/
def validate (W : World) (s : St) (tid : Nat) : St × Res :=
  let l := libRun W s (W.lib tid)
  validateCore W l.1 tid l.2

/-- ValidateJWT -/
def present (W : World) (s : St) (tid : Nat) : St × Res :=
  match lookupK s.cache tid with
  | some e =>
    if s.now < e.exp then                                     -- time.Now().Before(entry.Expires)
      if e.jti ≠ 0 then
        let r := isIDBlacklisted s e.jti
        if r.2 then ({ r.1 with cache := delK r.1.cache tid }, .revoked)
        else (r.1, .ok e.user)
      else (s, .ok e.user)
    else validate W { s with cache := delK s.cache tid } tid  -- caches.Delete, fall through
  | none => validate W s tid

inductive Op
  | present (tid : Nat)
  | revoke (jti : Nat)      -- tokens.Blacklist(jti)            (RevokeHandler)
  | unrevoke (jti : Nat)    -- tokens.Delete(jti)
  | flush                   -- tokens.Flush()
  | advance (dt : Nat)      -- the clock moves
  | purge                   -- caches.Purge(OAuthJWTCache)       (admin cache flush)
  | evict (tid : Nat)       -- the cache sweeper / size limit: any JWT cache entry may vanish at any time
  | blEvict (jti : Nat)     -- the same for BlacklistCache
  | setKeys (doc : List Jwk)  -- the identity provider replaces its JWKS document (publish / withdraw / rotate)
  deriving Repr

def step (W : World) (s : St) : Op → St × Option Res
  | .present tid => let r := present W s tid; (r.1, some r.2)
  | .revoke j =>
    -- handle.Insert fails on the UNIQUE id column when the id is already there: error, nothing purged
    if s.revoked.contains j then (s, none)
    else ({ s with revoked := j :: s.revoked, blCache := [] }, none)           -- Insert; Purge(BlacklistCache)
  | .unrevoke j =>
    -- handle.Delete: count == 0 → ErrNotFound, the cache is left alone
    if s.revoked.contains j then
      ({ s with revoked := s.revoked.filter (· ≠ j), blCache := delK s.blCache j }, none)
    else (s, none)
  | .flush => ({ s with revoked := [], blCache := [] }, none)
  | .advance dt => ({ s with now := s.now + dt }, none)
  | .purge => ({ s with cache := [] }, none)
  | .evict tid => ({ s with cache := delK s.cache tid }, none)
  | .blEvict j => ({ s with blCache := delK s.blCache j }, none)
  | .setKeys doc => ({ s with pub := doc }, none)

def run (W : World) : St → List Op → St
  | s, [] => s
  | s, o :: os => run W (step W s o).1 os

/-- a server that has just started: empty caches, empty blacklist, the JWKS cache pre-warmed by one
    refreshJWKS (Initialize), no unknown-kid refresh yet -/
def init (t0 : Nat) (jwks : List Jwk) : St :=
  { now := t0, cache := [], revoked := [], blCache := [], pub := jwks, jc := usable jwks, jcAt := t0, missLast := none }

/-! ## history-level notions the theorems are stated with (independent of `St`) -/

/-- the clock after one operation -/
def clkStep (t : Nat) : Op → Nat
  | .advance dt => t + dt
  | _ => t

/-- the clock after a history that started at `t` -/
def clock : Nat → List Op → Nat
  | t, [] => t
  | t, o :: os => clock (clkStep t o) os

/-- the set of revoked ids after one operation -/
def rvStep (r : Nat → Bool) : Op → Nat → Bool
  | .revoke k => fun x => if x = k then true else r x
  | .unrevoke k => fun x => if x = k then false else r x
  | .flush => fun _ => false
  | _ => r

/-- is `j` revoked after the history (given what was revoked before it)? -/
def revokedAfter : (Nat → Bool) → List Op → Nat → Bool
  | r, [] => r
  | r, o :: os => revokedAfter (rvStep r o) os

/-- does the document publish `(kid, id)` as a usable signature key? -/
def publishes (doc : List Jwk) (kid id : Nat) : Bool :=
  (usable doc).any (fun e => e.kid == kid && e.id == id)

/-- The identity provider as an outside observer sees it (nothing of the server's state in here):
    the clock, the document served now, for every `(kid, key)` the LAST instant so far at which the
    provider's document published it as a usable signature key, and whether the document ever changed. -/
structure Prov where
  now : Nat
  doc : List Jwk
  last : Nat → Nat → Option Nat
  rotated : Bool

/-- everything the current document publishes is published at the current instant -/
def Prov.mark (p : Prov) : Prov :=
  { p with last := fun kid id => if publishes p.doc kid id then some p.now else p.last kid id }

def Prov.step (p : Prov) : Op → Prov
  | .advance dt => ({ p with now := p.now + dt }).mark
  | .setKeys doc => ({ p with doc := doc, rotated := true }).mark
  | _ => p

def Prov.run : Prov → List Op → Prov
  | p, [] => p
  | p, o :: os => Prov.run (p.step o) os

def Prov.init (t0 : Nat) (jwks : List Jwk) : Prov :=
  (⟨t0, jwks, fun _ _ => none, false⟩ : Prov).mark

/-- the history never changes the provider's document -/
def noRotation : List Op → Bool
  | [] => true
  | .setKeys _ :: _ => false
  | _ :: os => noRotation os

/-- the decision ValidateJWT *should* compute: a pure function of the library verdict, the clock and
    the revocation store — no cache in sight. -/
def spec (W : World) (t : Tok) (now : Nat) (rv : Nat → Bool) : Res :=
  if !libAccepts W t now then .invalid
  else match userOf W.cfg t with
    | none => .noclaim
    | some u => if t.jti ≠ 0 && rv t.jti then .revoked else .ok u

end EgoVerif.C22
