import EgoVerif.C22.Model
/-
C22 theorems.  All of them are about `World.fixed = true` (the code with fixes/C22.patch) except
`C22_unpatched_counterexample`, which shows the code before the patch accepting a revoked token.

Everything is quantified over the library verdict `W.lib`, the JWKS, the configuration and the whole
history (a `List Op`, including arbitrary cache evictions/purges at arbitrary moments).
-/
namespace EgoVerif.C22

/-! ## association-list lemmas -/

theorem lookupK_delK_self {α : Type} (l : List (Nat × α)) (k : Nat) : lookupK (delK l k) k = none := by
  induction l with
  | nil => rfl
  | cons p l ih =>
    obtain ⟨a, v⟩ := p
    by_cases hk : k = a
    · simp [delK, hk]; rw [← hk]; exact ih
    · simp [delK, lookupK, hk, ih]

theorem lookupK_delK_ne {α : Type} (l : List (Nat × α)) {k x : Nat} (hx : x ≠ k) :
    lookupK (delK l k) x = lookupK l x := by
  induction l with
  | nil => rfl
  | cons p l ih =>
    obtain ⟨a, v⟩ := p
    by_cases hk : k = a
    · have hxa : x ≠ a := by rw [← hk]; exact hx
      simp [delK, lookupK, hk, hxa]; rw [← hk]; exact ih
    · by_cases hxa : x = a
      · simp [delK, lookupK, hk, hxa]
      · simp [delK, lookupK, hk, hxa, ih]

theorem lookupK_delK {α : Type} (l : List (Nat × α)) (k x : Nat) :
    lookupK (delK l k) x = if x = k then none else lookupK l x := by
  by_cases hx : x = k
  · subst hx; simp [lookupK_delK_self]
  · simp [hx, lookupK_delK_ne l hx]

theorem lookupK_delK_some {α : Type} {l : List (Nat × α)} {k x : Nat} {v : α}
    (h : lookupK (delK l k) x = some v) : lookupK l x = some v := by
  rw [lookupK_delK] at h
  by_cases hx : x = k <;> simp [hx] at h
  exact h

/-! ## the published key a token's header selects -/

theorem findKeyByID_mem {ks : List Jwk} {kid k : Nat} (h : findKeyByID (usable ks) kid = some k) :
    ∃ j, j ∈ ks ∧ j.useOK = true ∧ j.ktyOK = true ∧ j.id = k ∧ j.kid = kid := by
  induction ks with
  | nil => simp [usable, findKeyByID] at h
  | cons a ks ih =>
    by_cases hu : (a.useOK && a.ktyOK) = true
    · simp only [usable, hu, if_true, findKeyByID] at h
      by_cases hk : a.kid = kid
      · simp [hk] at h
        simp at hu
        exact ⟨a, by simp, hu.1, hu.2, h, hk⟩
      · simp [hk] at h
        obtain ⟨j, hj, r⟩ := ih h
        exact ⟨j, by simp [hj], r⟩
    · simp only [usable, hu] at h
      obtain ⟨j, hj, r⟩ := ih h
      exact ⟨j, by simp [hj], r⟩

theorem usable_head_mem {ks : List Jwk} {p : PubKey} {rest : List PubKey} (h : usable ks = p :: rest) :
    ∃ j, j ∈ ks ∧ j.useOK = true ∧ j.ktyOK = true ∧ j.id = p.id := by
  induction ks with
  | nil => simp [usable] at h
  | cons a ks ih =>
    by_cases hu : (a.useOK && a.ktyOK) = true
    · simp only [usable, hu, if_true] at h
      simp at hu
      injection h with h1 _
      exact ⟨a, by simp, hu.1, hu.2, by rw [← h1]⟩
    · simp only [usable, hu] at h
      obtain ⟨j, hj, r⟩ := ih h
      exact ⟨j, by simp [hj], r⟩

/-- whatever key selectVerificationKey returns is a key the provider publishes for signatures,
    of a supported type, and (when the header names a kid) under exactly that kid; and the
    algorithm family is RSA or ECDSA -/
theorem selectKey_published {ks : List Jwk} {alg : AlgFam} {kid k : Nat}
    (h : selectKey (usable ks) alg kid = some k) :
    alg ≠ .other ∧ ∃ j, j ∈ ks ∧ j.useOK = true ∧ j.ktyOK = true ∧ j.id = k ∧ (kid ≠ 0 → j.kid = kid) := by
  unfold selectKey at h
  by_cases ha : alg = .other
  · simp [ha] at h
  · refine ⟨ha, ?_⟩
    simp only [ha, if_false] at h
    by_cases hk : kid ≠ 0
    · rw [if_pos hk] at h
      obtain ⟨j, hj, h1, h2, h3, h4⟩ := findKeyByID_mem h
      exact ⟨j, hj, h1, h2, h3, fun _ => h4⟩
    · rw [if_neg hk] at h
      cases hu : usable ks with
      | nil => simp [hu] at h
      | cons p rest =>
        simp [hu] at h
        obtain ⟨j, hj, h1, h2, h3⟩ := usable_head_mem hu
        exact ⟨j, hj, h1, h2, by rw [h3, h], fun hh => absurd hh hk⟩

/-! ## the invariant -/

/-- the time-independent part of the library's verdict -/
def staticOK (W : World) (t : Tok) : Bool :=
  t.parseOK && sigOK W t && (!W.cfg.audRequired || t.audOK) && (!W.cfg.issRequired || t.issOK)

theorem libAccepts_eq (W : World) (t : Tok) (now : Nat) :
    libAccepts W t now = (staticOK W t && decide (now < t.exp) && decide (t.nbf ≤ now)) := by
  simp only [libAccepts, staticOK, claimsOK]
  cases t.parseOK <;> cases sigOK W t <;> cases decide (now < t.exp) <;> cases decide (t.nbf ≤ now) <;>
    cases (!W.cfg.audRequired || t.audOK) <;> cases (!W.cfg.issRequired || t.issOK) <;> rfl

/-- what must be true of a JWT cache entry -/
structure GoodEntry (W : World) (now tid : Nat) (e : Entry) : Prop where
  static : staticOK W (W.lib tid) = true
  nbf : (W.lib tid).nbf ≤ now
  user : userOf W.cfg (W.lib tid) = some e.user
  exp : e.exp = (W.lib tid).exp
  jti : e.jti = (W.lib tid).jti

/-- `rv` is the ghost "revoked now" predicate of the history so far -/
structure Inv (W : World) (s : St) (rv : Nat → Bool) : Prop where
  store : ∀ j, s.revoked.contains j = rv j
  blc : ∀ j a, lookupK s.blCache j = some a → a = rv j
  cache : ∀ tid e, lookupK s.cache tid = some e → GoodEntry W s.now tid e

theorem inv_init (W : World) (t0 : Nat) : Inv W (init t0) (fun _ => false) :=
  ⟨by simp [init], by simp [init, lookupK], by simp [init, lookupK]⟩

theorem Inv.delCache {W : World} {s : St} {rv : Nat → Bool} (h : Inv W s rv) (tid : Nat) :
    Inv W { s with cache := delK s.cache tid } rv :=
  ⟨h.store, h.blc, fun x e hx => h.cache x e (lookupK_delK_some hx)⟩

theorem Inv.addCache {W : World} {s : St} {rv : Nat → Bool} (h : Inv W s rv) (tid : Nat) (e : Entry)
    (g : GoodEntry W s.now tid e) : Inv W { s with cache := (tid, e) :: delK s.cache tid } rv := by
  refine ⟨h.store, h.blc, fun x e' hx => ?_⟩
  simp only [lookupK] at hx
  by_cases hxt : x = tid
  · subst hxt
    simp at hx
    subst hx
    exact g
  · simp [hxt] at hx
    exact h.cache x e' (lookupK_delK_some hx)

/-- tokens.IsIDBlacklisted answers the truth (the blacklist cache is coherent) and only touches blCache -/
theorem isBL_spec {W : World} {s : St} {rv : Nat → Bool} (h : Inv W s rv) (j : Nat) :
    (isIDBlacklisted s j).2 = rv j ∧ Inv W (isIDBlacklisted s j).1 rv ∧
    (isIDBlacklisted s j).1.now = s.now ∧ (isIDBlacklisted s j).1.cache = s.cache := by
  unfold isIDBlacklisted
  cases hl : lookupK s.blCache j with
  | some a => exact ⟨h.blc j a hl, h, rfl, rfl⟩
  | none =>
    refine ⟨h.store j, ⟨h.store, ?_, h.cache⟩, rfl, rfl⟩
    intro x a hx
    simp only [lookupK] at hx
    by_cases hxj : x = j
    · subst hxj
      simp at hx
      rw [← hx, ← h.store x]
      simp
    · simp [hxj] at hx
      exact h.blc x a hx

/-! ## ValidateJWT computes `spec` whatever the caches hold -/

theorem libAccepts_true {W : World} {t : Tok} {now : Nat} (h : libAccepts W t now = true) :
    staticOK W t = true ∧ now < t.exp ∧ t.nbf ≤ now := by
  rw [libAccepts_eq] at h
  simp at h
  exact ⟨h.1.1, h.1.2, h.2⟩

theorem validate_invalid {W : World} {s : St} {tid : Nat} (hl : libAccepts W (W.lib tid) s.now = false) :
    validate W s tid = (s, .invalid) := by
  simp [validate, hl]

theorem validate_noclaim {W : World} {s : St} {tid : Nat} (hl : libAccepts W (W.lib tid) s.now = true)
    (hu : userOf W.cfg (W.lib tid) = none) : validate W s tid = (s, .noclaim) := by
  have hne : ¬ (W.lib tid).exp < s.now := by have := (libAccepts_true hl).2.1; omega
  simp [validate, hl, hne, hu]

theorem validate_user {W : World} {s : St} {tid : Nat} {u : User} (hl : libAccepts W (W.lib tid) s.now = true)
    (hu : userOf W.cfg (W.lib tid) = some u) :
    validate W s tid =
      (let r := if (W.fixed && decide ((W.lib tid).jti ≠ 0)) = true then isIDBlacklisted s (W.lib tid).jti else (s, false)
       if r.2 = true then (r.1, .revoked)
       else ({ r.1 with cache := (tid, ⟨u, (W.lib tid).exp, (W.lib tid).jti⟩) :: delK r.1.cache tid }, .ok u)) := by
  have hne : ¬ (W.lib tid).exp < s.now := by have := (libAccepts_true hl).2.1; omega
  simp [validate, hl, hne, hu]

theorem spec_invalid {W : World} {t : Tok} {now : Nat} {rv : Nat → Bool} (hl : libAccepts W t now = false) :
    spec W t now rv = .invalid := by
  simp [spec, hl]

theorem spec_noclaim {W : World} {t : Tok} {now : Nat} {rv : Nat → Bool} (hl : libAccepts W t now = true)
    (hu : userOf W.cfg t = none) : spec W t now rv = .noclaim := by
  simp [spec, hl, hu]

theorem spec_user {W : World} {t : Tok} {now : Nat} {rv : Nat → Bool} {u : User} (hl : libAccepts W t now = true)
    (hu : userOf W.cfg t = some u) :
    spec W t now rv = if (decide (t.jti ≠ 0) && rv t.jti) = true then .revoked else .ok u := by
  simp [spec, hl, hu]

theorem validate_spec {W : World} (hf : W.fixed = true) {s : St} {rv : Nat → Bool} (h : Inv W s rv) (tid : Nat) :
    (validate W s tid).2 = spec W (W.lib tid) s.now rv ∧ Inv W (validate W s tid).1 rv ∧
    (validate W s tid).1.now = s.now := by
  cases hl : libAccepts W (W.lib tid) s.now with
  | false => rw [validate_invalid hl, spec_invalid hl]; exact ⟨rfl, h, rfl⟩
  | true =>
    obtain ⟨hst, hexp, hnbf⟩ := libAccepts_true hl
    cases hu : userOf W.cfg (W.lib tid) with
    | none => rw [validate_noclaim hl hu, spec_noclaim hl hu]; exact ⟨rfl, h, rfl⟩
    | some u =>
      rw [validate_user hl hu, spec_user hl hu, hf]
      by_cases hj : (W.lib tid).jti = 0
      · have g : GoodEntry W s.now tid ⟨u, (W.lib tid).exp, (W.lib tid).jti⟩ := ⟨hst, hnbf, hu, rfl, rfl⟩
        simp [hj]
        rw [hj] at g
        exact h.addCache tid _ g
      · obtain ⟨b1, b2, b3, b4⟩ := isBL_spec h (W.lib tid).jti
        have hd : (true && decide ((W.lib tid).jti ≠ 0)) = true := by simp [hj]
        simp only [hd, if_true]
        by_cases hr : rv (W.lib tid).jti = true
        · rw [b1, hr]
          simp [hj]
          exact ⟨b2, b3⟩
        · have hr' : rv (W.lib tid).jti = false := by simpa using hr
          rw [b1, hr']
          simp
          refine ⟨?_, b3⟩
          have g : GoodEntry W (isIDBlacklisted s (W.lib tid).jti).1.now tid ⟨u, (W.lib tid).exp, (W.lib tid).jti⟩ :=
            ⟨hst, by rw [b3]; exact hnbf, hu, rfl, rfl⟩
          exact b2.addCache tid _ g

theorem present_spec {W : World} (hf : W.fixed = true) {s : St} {rv : Nat → Bool} (h : Inv W s rv) (tid : Nat) :
    (present W s tid).2 = spec W (W.lib tid) s.now rv ∧ Inv W (present W s tid).1 rv ∧
    (present W s tid).1.now = s.now := by
  unfold present
  cases hc : lookupK s.cache tid with
  | none => exact validate_spec hf h tid
  | some e =>
    have g := h.cache tid e hc
    by_cases hexp : s.now < e.exp
    · -- fresh entry: the token is still acceptable to the library, so spec is decided by revocation alone
      have hlib : libAccepts W (W.lib tid) s.now = true := by
        rw [libAccepts_eq, g.static]
        have h1 : s.now < (W.lib tid).exp := by rw [← g.exp]; exact hexp
        simp [h1, g.nbf]
      rw [spec_user hlib g.user, ← g.jti]
      simp only [hexp, if_true]
      by_cases hj : e.jti = 0
      · simp [hj]
        exact h
      · obtain ⟨b1, b2, b3, b4⟩ := isBL_spec h e.jti
        have hj' : (e.jti ≠ 0) := hj
        rw [if_pos hj']
        by_cases hr : rv e.jti = true
        · rw [b1, hr]
          simp [hj]
          exact ⟨b2.delCache tid, b3⟩
        · have hr' : rv e.jti = false := by simpa using hr
          rw [b1, hr']
          simp
          exact ⟨b2, b3⟩
    · simp only [hexp, if_false]
      exact validate_spec hf (h.delCache tid) tid

/-! ## histories -/

theorem step_inv {W : World} (hf : W.fixed = true) {s : St} {rv : Nat → Bool} (h : Inv W s rv) (o : Op) :
    Inv W (step W s o).1 (rvStep rv o) ∧ (step W s o).1.now = clkStep s.now o := by
  cases o with
  | present tid =>
    obtain ⟨_, b, c⟩ := present_spec hf h tid
    exact ⟨b, c⟩
  | revoke k =>
    simp only [step, rvStep, clkStep]
    by_cases hk : s.revoked.contains k = true
    · simp only [hk, if_true]
      refine ⟨⟨fun j => ?_, fun j a hj => ?_, h.cache⟩, by trivial⟩
      · by_cases hjk : j = k
        · subst hjk; simpa using hk
        · simp only [hjk, if_false]; exact h.store j
      · by_cases hjk : j = k
        · subst hjk
          have := h.blc j a hj
          rw [← h.store j, hk] at this
          simp [this]
        · simp only [hjk, if_false]; exact h.blc j a hj
    · simp only [hk]
      refine ⟨⟨fun j => ?_, fun j a hj => by simp [lookupK] at hj, h.cache⟩, by trivial⟩
      by_cases hjk : j = k
      · subst hjk; simp
      · have := h.store j
        simp only [hjk, if_false]
        rw [← this]
        simp [hjk]
  | unrevoke k =>
    simp only [step, rvStep, clkStep]
    by_cases hk : s.revoked.contains k = true
    case neg =>
      simp only [hk]
      refine ⟨⟨fun j => ?_, fun j a hj => ?_, h.cache⟩, by trivial⟩
      · by_cases hjk : j = k
        · subst hjk; simpa using hk
        · simp only [hjk, if_false]; exact h.store j
      · by_cases hjk : j = k
        · subst hjk
          have := h.blc j a hj
          rw [← h.store j] at this
          simp only [if_true]
          rw [this]; simpa using hk
        · simp only [hjk, if_false]; exact h.blc j a hj
    simp only [hk, if_true]
    refine ⟨⟨fun j => ?_, fun j a hj => ?_, h.cache⟩, by trivial⟩
    · by_cases hjk : j = k
      · subst hjk; simp
      · have := h.store j
        simp only [hjk, if_false]
        rw [← this]
        simp [List.contains_eq_mem, List.mem_filter, hjk]
    · rw [lookupK_delK] at hj
      by_cases hjk : j = k
      · simp [hjk] at hj
      · simp only [hjk, if_false] at hj ⊢
        exact h.blc j a hj
  | flush =>
    exact ⟨⟨fun j => by simp [step, rvStep], fun j a hj => by simp [step, lookupK] at hj, h.cache⟩, rfl⟩
  | advance dt =>
    refine ⟨⟨h.store, h.blc, fun tid e he => ?_⟩, rfl⟩
    have g := h.cache tid e he
    exact ⟨g.static, Nat.le_trans g.nbf (Nat.le_add_right _ _), g.user, g.exp, g.jti⟩
  | purge =>
    exact ⟨⟨h.store, h.blc, fun tid e he => by simp [step, lookupK] at he⟩, rfl⟩
  | evict tid =>
    exact ⟨h.delCache tid, rfl⟩
  | blEvict k =>
    exact ⟨⟨h.store, fun j a hj => h.blc j a (lookupK_delK_some hj), h.cache⟩, rfl⟩

theorem run_inv {W : World} (hf : W.fixed = true) (ops : List Op) :
    ∀ {s : St} {rv : Nat → Bool}, Inv W s rv →
      Inv W (run W s ops) (revokedAfter rv ops) ∧ (run W s ops).now = clock s.now ops := by
  induction ops with
  | nil => intro s rv h; exact ⟨h, rfl⟩
  | cons o os ih =>
    intro s rv h
    obtain ⟨h1, h2⟩ := step_inv hf h o
    obtain ⟨h3, h4⟩ := ih h1
    simp only [run, revokedAfter, clock]
    exact ⟨h3, by rw [h4, h2]⟩

/-- the answer to "present token `tid`" after the history `pre` that started at time `t0` with empty
    caches and an empty blacklist -/
def answer (W : World) (t0 : Nat) (pre : List Op) (tid : Nat) : Res :=
  (present W (run W (init t0) pre) tid).2

/-- **ValidateJWT is a function of the token, the clock and the revocation store only** — for every
    history, whatever the result cache and the blacklist cache went through (hits, misses, sweeps, purges) -/
theorem C22_present_eq_spec (W : World) (hf : W.fixed = true) (t0 : Nat) (pre : List Op) (tid : Nat) :
    answer W t0 pre tid = spec W (W.lib tid) (clock t0 pre) (revokedAfter (fun _ => false) pre) := by
  obtain ⟨h1, h2⟩ := run_inv hf pre (inv_init W t0)
  have := (present_spec hf h1 tid).1
  rw [h2] at this
  exact this

/-- the conclusion of the property -/
structure Accepted (W : World) (t : Tok) (now : Nat) (rv : Nat → Bool) : Prop where
  parsed : t.parseOK = true
  alg : t.alg = .rsa ∨ t.alg = .ecdsa
  /-- the signature verifies under a key the provider publishes for signatures, selected by the kid -/
  key : ∃ j, j ∈ W.jwks ∧ j.useOK = true ∧ j.ktyOK = true ∧ t.sigBy = some j.id ∧ (t.kid ≠ 0 → j.kid = t.kid)
  iss : W.cfg.issRequired = true → t.issOK = true
  aud : W.cfg.audRequired = true → t.audOK = true
  notExpired : now < t.exp
  notBefore : t.nbf ≤ now
  notRevoked : t.jti ≠ 0 → rv t.jti = false

theorem spec_ok_accepted {W : World} {t : Tok} {now : Nat} {rv : Nat → Bool} {u : User}
    (h : spec W t now rv = .ok u) : Accepted W t now rv := by
  cases hl : libAccepts W t now with
  | false => rw [spec_invalid hl] at h; cases h
  | true =>
    cases hu : userOf W.cfg t with
    | none => rw [spec_noclaim hl hu] at h; cases h
    | some u' =>
      rw [spec_user hl hu] at h
      have hr : (decide (t.jti ≠ 0) && rv t.jti) = false := by
        cases hh : (decide (t.jti ≠ 0) && rv t.jti) with
        | false => rfl
        | true => rw [hh] at h; simp at h
      simp only [libAccepts, claimsOK, sigOK] at hl
      simp only [Bool.and_eq_true, decide_eq_true_eq, Bool.or_eq_true, Bool.not_eq_true'] at hl
      obtain ⟨⟨hp, hs⟩, ⟨⟨hexp, hnbf⟩, haud⟩, hiss⟩ := hl
      cases hk : selectKey (usable W.jwks) t.alg t.kid with
      | none => simp [hk] at hs
      | some k =>
        simp [hk] at hs
        obtain ⟨ha, j, hj, h1, h2, h3, h4⟩ := selectKey_published hk
        refine ⟨hp, ?_, ⟨j, hj, h1, h2, by rw [h3]; exact hs, h4⟩, ?_, ?_, hexp, hnbf, ?_⟩
        · cases hh : t.alg with
          | rsa => exact Or.inl rfl
          | ecdsa => exact Or.inr rfl
          | other => exact absurd hh ha
        · intro hi; cases hiss with
          | inl x => rw [hi] at x; cases x
          | inr x => exact x
        · intro hi; cases haud with
          | inl x => rw [hi] at x; cases x
          | inr x => exact x
        · intro hj0
          simpa [hj0] using hr

/-- **C22, full strength.**  For every world (library verdict, JWKS, configuration) and every history:
    if presenting a token after the history is answered "ok", then at that moment the token parses, its
    algorithm is RSA/ECDSA, its signature verifies under the published signature key its kid selects, issuer
    and audience match the configuration, nbf ≤ now < exp, and its jti is not revoked. -/
theorem C22_accept_implies (W : World) (hf : W.fixed = true) (t0 : Nat) (pre : List Op) (tid : Nat) (u : User)
    (h : answer W t0 pre tid = .ok u) :
    Accepted W (W.lib tid) (clock t0 pre) (revokedAfter (fun _ => false) pre) := by
  rw [C22_present_eq_spec W hf] at h
  exact spec_ok_accepted h

theorem spec_congr {W : World} {t : Tok} {now : Nat} {rv rv' : Nat → Bool} (h : rv t.jti = rv' t.jti) :
    spec W t now rv = spec W t now rv' := by
  simp [spec, h]

/-- **Seen before or not makes no difference.**  Two histories that agree on the clock and on what is
    revoked give the same answer for every token — however different their presentations, cache sweeps and
    purges were (in particular: a history in which the token was never presented). -/
theorem C22_seen_or_not (W : World) (hf : W.fixed = true) (t0 : Nat) (pre pre' : List Op) (tid : Nat)
    (hc : clock t0 pre = clock t0 pre')
    (hr : ∀ j, revokedAfter (fun _ => false) pre j = revokedAfter (fun _ => false) pre' j) :
    answer W t0 pre tid = answer W t0 pre' tid := by
  rw [C22_present_eq_spec W hf, C22_present_eq_spec W hf, hc]
  exact spec_congr (hr _)

theorem revokedAfter_append (r : Nat → Bool) (a b : List Op) :
    revokedAfter r (a ++ b) = revokedAfter (revokedAfter r a) b := by
  induction a generalizing r with
  | nil => rfl
  | cons o os ih => simp [revokedAfter, ih]

theorem revokedAfter_stays (post : List Op) (j : Nat) :
    ∀ (r : Nat → Bool), r j = true → (∀ o, o ∈ post → o ≠ .unrevoke j ∧ o ≠ .flush) →
      revokedAfter r post j = true := by
  induction post with
  | nil => intro r h _; exact h
  | cons o os ih =>
    intro r h hp
    simp only [revokedAfter]
    apply ih
    · have ho := hp o (by simp)
      cases o with
      | revoke k => simp only [rvStep]; by_cases hjk : j = k <;> simp [hjk, h]
      | unrevoke k =>
        simp only [rvStep]
        have : j ≠ k := fun e => ho.1 (by rw [e])
        simp [this, h]
      | flush => exact absurd rfl ho.2
      | present _ => exact h
      | advance _ => exact h
      | purge => exact h
      | evict _ => exact h
      | blEvict _ => exact h
    · intro o' ho'
      exact hp o' (by simp [ho'])

/-- **Revocation takes effect for every later request**: after `revoke j`, as long as `j` is not
    un-revoked (tokens.Delete / tokens.Flush), no token carrying that jti is accepted — whatever happened
    before (seen or never seen), whatever happens in between (time, cache expiry, purges). -/
theorem C22_revocation_effective (W : World) (hf : W.fixed = true) (t0 : Nat) (pre post : List Op)
    (j tid : Nat) (hj : j ≠ 0) (ht : (W.lib tid).jti = j)
    (hpost : ∀ o, o ∈ post → o ≠ .unrevoke j ∧ o ≠ .flush) (u : User) :
    answer W t0 (pre ++ .revoke j :: post) tid ≠ .ok u := by
  intro h
  have acc := C22_accept_implies W hf t0 _ tid u h
  have h1 := acc.notRevoked (by rw [ht]; exact hj)
  rw [ht, revokedAfter_append] at h1
  simp only [revokedAfter] at h1
  have h2 := revokedAfter_stays post j (rvStep (revokedAfter (fun _ => false) pre) (.revoke j)) (by simp [rvStep]) hpost
  rw [h2] at h1
  cases h1

/-- **No spurious rejection** (the theorems above are not vacuous): a token the library accepts now, that
    names a user and whose jti is not revoked, is accepted with that user after every history. -/
theorem C22_valid_accepted (W : World) (hf : W.fixed = true) (t0 : Nat) (pre : List Op) (tid : Nat) (u : User)
    (hl : libAccepts W (W.lib tid) (clock t0 pre) = true) (hu : userOf W.cfg (W.lib tid) = some u)
    (hr : (W.lib tid).jti = 0 ∨ revokedAfter (fun _ => false) pre (W.lib tid).jti = false) :
    answer W t0 pre tid = .ok u := by
  rw [C22_present_eq_spec W hf]
  unfold spec
  simp only [hl, hu, Bool.not_true, Bool.false_eq_true, if_false]
  cases hr with
  | inl h => simp [h]
  | inr h => simp [h]

/-! ## the code before fixes/C22.patch, and non-vacuity -/

def demoTok : Tok :=
  { parseOK := true, alg := .ecdsa, kid := 5, sigBy := some 1, exp := 2000, nbf := 0, issOK := true,
    audOK := true, jti := 9, sub := 7, email := 0, pref := 0, client := 0 }

def demoWorld (fixed : Bool) : World :=
  { cfg := ⟨true, true, .sub⟩, jwks := [⟨5, true, true, 1⟩], lib := fun _ => demoTok, fixed := fixed }

/-- The code BEFORE the patch: an ES256 token with valid signature/iss/aud/exp whose jti was revoked before
    it was ever presented is accepted on first presentation and rejected only on the second. -/
theorem C22_unpatched_counterexample :
    answer (demoWorld false) 1000 [.revoke 9] 1 = .ok (.name 7) ∧
    answer (demoWorld false) 1000 [.revoke 9, .present 1] 1 = .revoked := by
  decide

/-- the same history on the patched code -/
example : answer (demoWorld true) 1000 [.revoke 9] 1 = .revoked := by decide

/-- non-vacuity of `C22_accept_implies`: acceptance happens (before revocation, after un-revocation, from
    the cache and after the cache was purged) -/
example : answer (demoWorld true) 1000 [] 1 = .ok (.name 7) := by decide
example : answer (demoWorld true) 1000 [.present 1, .advance 5, .purge, .revoke 9, .unrevoke 9] 1 = .ok (.name 7) := by
  decide
example : answer (demoWorld true) 1000 [.present 1, .revoke 9] 1 = .revoked := by decide
example : answer (demoWorld true) 1000 [.present 1, .advance 1000] 1 = .invalid := by decide

/-- non-vacuity of `C22_revocation_effective` / `C22_valid_accepted` hypotheses -/
example : libAccepts (demoWorld true) demoTok (clock 1000 [.advance 5]) = true := by decide
example : ∀ o, o ∈ [Op.advance 5, Op.purge, Op.present 1] → o ≠ .unrevoke 9 ∧ o ≠ .flush := by
  intro o ho
  simp at ho
  rcases ho with h | h | h <;> subst h <;> exact ⟨nofun, nofun⟩

end EgoVerif.C22
