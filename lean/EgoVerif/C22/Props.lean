import EgoVerif.C22.Model
/-
C22 theorems.  All of them are about `World.fixed = true` (the code with fixes/C22.patch) except
`C22_unpatched_counterexample`, which shows the code before the patch accepting a revoked token.

Everything is quantified over the library verdict `W.lib`, the JWKS document at start-up, the configuration
(JWKS cache TTL included) and the whole history (a `List Op`, including arbitrary cache evictions/purges and
arbitrary replacements of the provider's JWKS document at arbitrary moments).

  * `C22_accept_implies`            every history: accepted ⇒ parsed, RS*/ES*, signature by a key the provider
                                    HAS PUBLISHED (under the kid the header names) at some instant of the history,
                                    iss, aud, nbf ≤ now < exp, jti not revoked now
  * `C22_key_staleness`             … and, for a token with a kid that has no live result-cache entry, that instant is
                                    NOW or less than one JWKS TTL ago — the staleness keyByID allows, no more
  * `C22_withdrawn_key_rejected`    history form: once the provider has withdrawn the key and one TTL has passed, a
                                    never-presented token signed with it is rejected, whatever else happened
  * `C22_nokid_stale_counterexample` tokens WITHOUT kid escape the bound (allKeys never looks at the age) — known finding
  * `C22_revocation_effective`      revocation takes effect for every later request (every history)
  * `C22_present_eq_spec`, `C22_seen_or_not`, `C22_valid_accepted`, `C22_accept_implies_fixed_keys`
                                    while the provider does not change its document, the JWKS cache (TTL refresh,
                                    unknown-kid cooldown) and the result cache are transparent
-/
namespace EgoVerif.C22

/-! ## association-list lemmas -/

theorem lookupK_delK_self {α : Type} (l : List (Nat × α)) (k : Nat) : lookupK (delK l k) k = none := by
  induction l with
  | nil => rfl
  | cons p l ih =>
    obtain ⟨a, v⟩ := p
    by_cases hk : k = a
    · simp [delK, hk]; rw [← hk]; exact ih
    · simp [delK, lookupK, hk, ih]

theorem lookupK_delK_ne {α : Type} (l : List (Nat × α)) {k x : Nat} (hx : x ≠ k) :
    lookupK (delK l k) x = lookupK l x := by
  induction l with
  | nil => rfl
  | cons p l ih =>
    obtain ⟨a, v⟩ := p
    by_cases hk : k = a
    · have hxa : x ≠ a := by rw [← hk]; exact hx
      simp [delK, lookupK, hk, hxa]; rw [← hk]; exact ih
    · by_cases hxa : x = a
      · simp [delK, lookupK, hk, hxa]
      · simp [delK, lookupK, hk, hxa, ih]

theorem lookupK_delK {α : Type} (l : List (Nat × α)) (k x : Nat) :
    lookupK (delK l k) x = if x = k then none else lookupK l x := by
  by_cases hx : x = k
  · subst hx; simp [lookupK_delK_self]
  · simp [hx, lookupK_delK_ne l hx]

theorem lookupK_delK_some {α : Type} {l : List (Nat × α)} {k x : Nat} {v : α}
    (h : lookupK (delK l k) x = some v) : lookupK l x = some v := by
  rw [lookupK_delK] at h
  by_cases hx : x = k <;> simp [hx] at h
  exact h

/-! ## the published key a token's header selects -/

theorem findKeyByID_mem {ks : List Jwk} {kid k : Nat} (h : findKeyByID (usable ks) kid = some k) :
    ∃ j, j ∈ ks ∧ j.useOK = true ∧ j.ktyOK = true ∧ j.id = k ∧ j.kid = kid := by
  induction ks with
  | nil => simp [usable, findKeyByID] at h
  | cons a ks ih =>
    by_cases hu : (a.useOK && a.ktyOK) = true
    · simp only [usable, hu, if_true, findKeyByID] at h
      by_cases hk : a.kid = kid
      · simp [hk] at h
        simp at hu
        exact ⟨a, by simp, hu.1, hu.2, h, hk⟩
      · simp [hk] at h
        obtain ⟨j, hj, r⟩ := ih h
        exact ⟨j, by simp [hj], r⟩
    · simp only [usable, hu] at h
      obtain ⟨j, hj, r⟩ := ih h
      exact ⟨j, by simp [hj], r⟩

theorem usable_head_mem {ks : List Jwk} {p : PubKey} {rest : List PubKey} (h : usable ks = p :: rest) :
    ∃ j, j ∈ ks ∧ j.useOK = true ∧ j.ktyOK = true ∧ j.id = p.id := by
  induction ks with
  | nil => simp [usable] at h
  | cons a ks ih =>
    by_cases hu : (a.useOK && a.ktyOK) = true
    · simp only [usable, hu, if_true] at h
      simp at hu
      injection h with h1 _
      exact ⟨a, by simp, hu.1, hu.2, by rw [← h1]⟩
    · simp only [usable, hu] at h
      obtain ⟨j, hj, r⟩ := ih h
      exact ⟨j, by simp [hj], r⟩

/-- whatever key selectVerificationKey returns is a key the provider publishes for signatures,
    of a supported type, and (when the header names a kid) under exactly that kid; and the
    algorithm family is RSA or ECDSA -/
theorem selectKey_published {ks : List Jwk} {alg : AlgFam} {kid k : Nat}
    (h : selectKey (usable ks) alg kid = some k) :
    alg ≠ .other ∧ ∃ j, j ∈ ks ∧ j.useOK = true ∧ j.ktyOK = true ∧ j.id = k ∧ (kid ≠ 0 → j.kid = kid) := by
  unfold selectKey at h
  by_cases ha : alg = .other
  · simp [ha] at h
  · refine ⟨ha, ?_⟩
    simp only [ha, if_false] at h
    by_cases hk : kid ≠ 0
    · rw [if_pos hk] at h
      obtain ⟨j, hj, h1, h2, h3, h4⟩ := findKeyByID_mem h
      exact ⟨j, hj, h1, h2, h3, fun _ => h4⟩
    · rw [if_neg hk] at h
      cases hu : usable ks with
      | nil => simp [hu] at h
      | cons p rest =>
        simp [hu] at h
        obtain ⟨j, hj, h1, h2, h3⟩ := usable_head_mem hu
        exact ⟨j, hj, h1, h2, by rw [h3, h], fun hh => absurd hh hk⟩

/-! ## the provider's publication record -/

theorem findKeyByID_some {l : List PubKey} {kid k : Nat} (h : findKeyByID l kid = some k) :
    ∃ e, e ∈ l ∧ e.kid = kid ∧ e.id = k := by
  induction l with
  | nil => simp [findKeyByID] at h
  | cons a l ih =>
    simp only [findKeyByID] at h
    by_cases hk : a.kid = kid
    · simp [hk] at h
      exact ⟨a, by simp, hk, h⟩
    · simp [hk] at h
      obtain ⟨e, he, r⟩ := ih h
      exact ⟨e, by simp [he], r⟩

theorem publishes_of_mem {doc : List Jwk} {e : PubKey} (h : e ∈ usable doc) :
    publishes doc e.kid e.id = true := by
  unfold publishes
  exact List.any_eq_true.mpr ⟨e, h, by simp⟩

/-- `q` knows at least as recent a publication of every key as `p` -/
def Prov.le (p q : Prov) : Prop :=
  ∀ kid id τ, p.last kid id = some τ → ∃ τ', q.last kid id = some τ' ∧ τ ≤ τ'

theorem Prov.le_refl (p : Prov) : p.le p := fun _ _ τ h => ⟨τ, h, Nat.le_refl _⟩

structure Prov.WF (p : Prov) : Prop where
  lastLe : ∀ kid id τ, p.last kid id = some τ → τ ≤ p.now
  cur : ∀ kid id, publishes p.doc kid id = true → p.last kid id = some p.now

theorem Prov.mark_wf {p : Prov} (h : ∀ kid id τ, p.last kid id = some τ → τ ≤ p.now) : p.mark.WF := by
  refine ⟨fun kid id τ hl => ?_, fun kid id hp => ?_⟩
  · simp only [Prov.mark] at hl
    by_cases hp : publishes p.doc kid id = true
    · simp [hp] at hl
      simp only [Prov.mark]
      omega
    · simp [hp] at hl
      exact h kid id τ hl
  · simp only [Prov.mark] at hp ⊢
    simp [hp]

theorem Prov.mark_le {p : Prov} (h : ∀ kid id τ, p.last kid id = some τ → τ ≤ p.now) : p.le p.mark := by
  intro kid id τ hl
  simp only [Prov.mark]
  by_cases hp : publishes p.doc kid id = true
  · exact ⟨p.now, by simp [hp], h kid id τ hl⟩
  · exact ⟨τ, by simp [hp, hl], Nat.le_refl _⟩

theorem Prov.init_wf (t0 : Nat) (jwks : List Jwk) : (Prov.init t0 jwks).WF :=
  Prov.mark_wf (by intro _ _ _ h; cases h)

theorem Prov.step_wf {p : Prov} (h : p.WF) (o : Op) : (p.step o).WF := by
  cases o with
  | advance dt =>
    exact Prov.mark_wf (p := { p with now := p.now + dt })
      (fun kid id τ hl => Nat.le_trans (h.lastLe kid id τ hl) (Nat.le_add_right _ _))
  | setKeys doc => exact Prov.mark_wf (p := { p with doc := doc, rotated := true }) h.lastLe
  | present _ => exact h
  | revoke _ => exact h
  | unrevoke _ => exact h
  | flush => exact h
  | purge => exact h
  | evict _ => exact h
  | blEvict _ => exact h

theorem Prov.step_le {p : Prov} (h : p.WF) (o : Op) : p.le (p.step o) := by
  cases o with
  | advance dt =>
    exact Prov.mark_le (p := { p with now := p.now + dt })
      (fun kid id τ hl => Nat.le_trans (h.lastLe kid id τ hl) (Nat.le_add_right _ _))
  | setKeys doc => exact Prov.mark_le (p := { p with doc := doc, rotated := true }) h.lastLe
  | present _ => exact p.le_refl
  | revoke _ => exact p.le_refl
  | unrevoke _ => exact p.le_refl
  | flush => exact p.le_refl
  | purge => exact p.le_refl
  | evict _ => exact p.le_refl
  | blEvict _ => exact p.le_refl

theorem Prov.step_now (p : Prov) (o : Op) : (p.step o).now = clkStep p.now o := by
  cases o <;> rfl

theorem Prov.step_doc (p : Prov) (o : Op) :
    (p.step o).doc = match o with | .setKeys d => d | _ => p.doc := by
  cases o <;> rfl

theorem Prov.run_now (ops : List Op) : ∀ p : Prov, (Prov.run p ops).now = clock p.now ops := by
  induction ops with
  | nil => intro p; rfl
  | cons o os ih => intro p; simp only [Prov.run, clock]; rw [ih, Prov.step_now]

theorem Prov.run_wf (ops : List Op) : ∀ {p : Prov}, p.WF → (Prov.run p ops).WF := by
  induction ops with
  | nil => intro p h; exact h
  | cons o os ih => intro p h; exact ih (Prov.step_wf h o)

theorem Prov.run_append (a b : List Op) : ∀ p : Prov, Prov.run p (a ++ b) = Prov.run (Prov.run p a) b := by
  induction a with
  | nil => intro p; rfl
  | cons o os ih => intro p; simp only [List.cons_append, Prov.run]; exact ih _

theorem clock_append (a b : List Op) : ∀ t : Nat, clock t (a ++ b) = clock (clock t a) b := by
  induction a with
  | nil => intro t; rfl
  | cons o os ih => intro t; simp only [List.cons_append, clock]; exact ih _

theorem clock_mono (ops : List Op) : ∀ t : Nat, t ≤ clock t ops := by
  induction ops with
  | nil => intro t; exact Nat.le_refl _
  | cons o os ih =>
    intro t
    simp only [clock]
    refine Nat.le_trans ?_ (ih _)
    cases o <;> simp [clkStep]

/-- a history without `setKeys` leaves the provider's document alone -/
theorem Prov.run_noRotation (ops : List Op) : ∀ p : Prov, noRotation ops = true →
    (Prov.run p ops).rotated = p.rotated := by
  induction ops with
  | nil => intro p _; rfl
  | cons o os ih =>
    intro p h
    cases o with
    | setKeys d => simp [noRotation] at h
    | advance dt => simp only [Prov.run]; rw [ih _ (by simpa [noRotation] using h)]; rfl
    | present _ => simp only [Prov.run]; rw [ih _ (by simpa [noRotation] using h)]; rfl
    | revoke _ => simp only [Prov.run]; rw [ih _ (by simpa [noRotation] using h)]; rfl
    | unrevoke _ => simp only [Prov.run]; rw [ih _ (by simpa [noRotation] using h)]; rfl
    | flush => simp only [Prov.run]; rw [ih _ (by simpa [noRotation] using h)]; rfl
    | purge => simp only [Prov.run]; rw [ih _ (by simpa [noRotation] using h)]; rfl
    | evict _ => simp only [Prov.run]; rw [ih _ (by simpa [noRotation] using h)]; rfl
    | blEvict _ => simp only [Prov.run]; rw [ih _ (by simpa [noRotation] using h)]; rfl

/-- a key that no document of the history publishes keeps its record -/
theorem Prov.run_last_unchanged (kid id : Nat) (ops : List Op) : ∀ p : Prov,
    publishes p.doc kid id = false → (∀ d, Op.setKeys d ∈ ops → publishes d kid id = false) →
    (Prov.run p ops).last kid id = p.last kid id := by
  induction ops with
  | nil => intro p _ _; rfl
  | cons o os ih =>
    intro p hp hd
    have hd' : ∀ d, Op.setKeys d ∈ os → publishes d kid id = false := fun d h => hd d (by simp [h])
    cases o with
    | setKeys d =>
      have hdd := hd d (by simp)
      simp only [Prov.run]
      rw [ih _ (by simpa [Prov.step, Prov.mark] using hdd) hd']
      simp [Prov.step, Prov.mark, hdd]
    | advance dt =>
      simp only [Prov.run]
      rw [ih _ (by simpa [Prov.step, Prov.mark] using hp) hd']
      simp [Prov.step, Prov.mark, hp]
    | present _ => exact ih p hp hd'
    | revoke _ => exact ih p hp hd'
    | unrevoke _ => exact ih p hp hd'
    | flush => exact ih p hp hd'
    | purge => exact ih p hp hd'
    | evict _ => exact ih p hp hd'
    | blEvict _ => exact ih p hp hd'

/-- **The verifying key was published, and recently enough**, relative to the instant `v` at which the
    token's signature was checked: the signature verifies under key `id`; the provider's document published
    `id` (under the kid the header names, if it names one) at an instant `τ`; and for a token WITH a kid,
    `τ` is not before `v` or less than one JWKS TTL before `v`. -/
def KeyWas (W : World) (p : Prov) (t : Tok) (v : Nat) : Prop :=
  (t.alg = .rsa ∨ t.alg = .ecdsa) ∧
  ∃ kid id τ, t.sigBy = some id ∧ (t.kid ≠ 0 → kid = t.kid) ∧ p.last kid id = some τ ∧
    (t.kid ≠ 0 → v ≤ τ ∨ v < τ + W.jwksTTL)

theorem KeyWas.mono {W : World} {p q : Prov} {t : Tok} {v : Nat} (h : KeyWas W p t v) (hle : p.le q) :
    KeyWas W q t v := by
  obtain ⟨ha, kid, id, τ, h1, h2, h3, h4⟩ := h
  obtain ⟨τ', h5, h6⟩ := hle kid id τ h3
  refine ⟨ha, kid, id, τ', h1, h2, h5, fun hk => ?_⟩
  have := h4 hk
  omega

/-! ## the JWKS cache: jwks.go -/

/-- what the JWKS cache holds was published by the provider at the time of the fetch or later -/
structure JInv (s : St) (p : Prov) : Prop where
  hnow : s.now = p.now
  hdoc : s.pub = p.doc
  jc : ∀ e, e ∈ s.jc → ∃ τ, p.last e.kid e.id = some τ ∧ s.jcAt ≤ τ

/-- the parts of the state the key lookup never touches -/
structure Frame (s s' : St) : Prop where
  now : s'.now = s.now
  cache : s'.cache = s.cache
  revoked : s'.revoked = s.revoked
  blCache : s'.blCache = s.blCache
  pub : s'.pub = s.pub

theorem Frame.rfl' (s : St) : Frame s s := ⟨rfl, rfl, rfl, rfl, rfl⟩

theorem Frame.trans {a b c : St} (h1 : Frame a b) (h2 : Frame b c) : Frame a c :=
  ⟨h2.now.trans h1.now, h2.cache.trans h1.cache, h2.revoked.trans h1.revoked, h2.blCache.trans h1.blCache,
   h2.pub.trans h1.pub⟩

/-- the provider still serves its start-up document and the JWKS cache holds exactly its usable keys -/
def FixJ (W : World) (s : St) : Prop := s.pub = W.jwks ∧ s.jc = usable W.jwks

theorem refresh_cases (s : St) :
    ((refreshJWKS s).2 = false ∧ (refreshJWKS s).1 = s ∧ usable s.pub = []) ∨
    ((refreshJWKS s).2 = true ∧ (refreshJWKS s).1 = { s with jc := usable s.pub, jcAt := s.now } ∧
      usable s.pub ≠ []) := by
  unfold refreshJWKS
  cases h : usable s.pub with
  | nil => exact Or.inl ⟨rfl, rfl, rfl⟩
  | cons e es => exact Or.inr ⟨rfl, rfl, by simp⟩

structure LookOK (W : World) (p : Prov) (s : St) (kid : Nat) (r : St × Option Nat) : Prop where
  frame : Frame s r.1
  jinv : JInv r.1 p
  key : ∀ k, r.2 = some k → ∃ τ, p.last kid k = some τ ∧ s.now ≤ τ
  fix : FixJ W s → FixJ W r.1 ∧ r.2 = findKeyByID (usable W.jwks) kid

theorem lookupAfterRefresh_ok {W : World} {p : Prov} {s : St} (hw : p.WF) (hj : JInv s p) (kid : Nat) :
    LookOK W p s kid (lookupAfterRefresh s kid) := by
  unfold lookupAfterRefresh
  rcases refresh_cases s with ⟨h2, h1, hu⟩ | ⟨h2, h1, hu⟩
  · simp only [h2, h1]
    refine ⟨Frame.rfl' s, hj, fun k hk => by simp at hk, fun hf => ⟨hf, ?_⟩⟩
    rw [← hf.1, hu]
    simp [findKeyByID]
  · simp only [h2, h1, if_true]
    have hjc : ∀ e, e ∈ usable s.pub → p.last e.kid e.id = some p.now := by
      intro e he
      apply hw.cur
      rw [← hj.hdoc]
      exact publishes_of_mem he
    refine ⟨⟨rfl, rfl, rfl, rfl, rfl⟩, ⟨hj.hnow, hj.hdoc, fun e he => ⟨p.now, hjc e he, Nat.le_of_eq hj.hnow⟩⟩,
      fun k hk => ?_, fun hf => ⟨⟨hf.1, by show usable s.pub = usable W.jwks; rw [hf.1]⟩, ?_⟩⟩
    · obtain ⟨e, he, h3, h4⟩ := findKeyByID_some hk
      have := hjc e he
      rw [h3, h4] at this
      exact ⟨p.now, this, Nat.le_of_eq hj.hnow⟩
    · show findKeyByID (usable s.pub) kid = _
      rw [hf.1]

structure SelOK (W : World) (p : Prov) (s : St) (alg : AlgFam) (kid : Nat) (r : St × Option Nat) : Prop where
  frame : Frame s r.1
  jinv : JInv r.1 p
  key : ∀ k, r.2 = some k → alg ≠ .other ∧ ∃ kid' τ, (kid ≠ 0 → kid' = kid) ∧ p.last kid' k = some τ ∧
    (kid ≠ 0 → s.now ≤ τ ∨ s.now < τ + W.jwksTTL)
  fix : FixJ W s → FixJ W r.1 ∧ r.2 = selectKey (usable W.jwks) alg kid

theorem selectKey_kid {keys : List PubKey} {alg : AlgFam} {kid : Nat} (ha : alg ≠ .other) (hk : kid ≠ 0) :
    selectKey keys alg kid = findKeyByID keys kid := by
  simp [selectKey, ha, hk]

/-- keyByID: whatever it returns was published under that kid now or less than one TTL ago -/
theorem keyByID_ok {W : World} {p : Prov} {s : St} (hw : p.WF) (hj : JInv s p) {alg : AlgFam} (ha : alg ≠ .other)
    {kid : Nat} (hk : kid ≠ 0) : SelOK W p s alg kid (keyByID W s kid) := by
  unfold keyByID
  by_cases hfresh : jcFresh W s = true
  · simp only [hfresh, if_true]
    cases hfind : findKeyByID s.jc kid with
    | some k =>
      refine ⟨Frame.rfl' s, hj, fun k' hk' => ?_, fun hf => ⟨hf, ?_⟩⟩
      · simp at hk'
        subst hk'
        obtain ⟨e, he, h3, h4⟩ := findKeyByID_some hfind
        obtain ⟨τ, h5, h6⟩ := hj.jc e he
        rw [h3, h4] at h5
        refine ⟨ha, kid, τ, fun _ => rfl, h5, fun _ => ?_⟩
        simp only [jcFresh, Bool.and_eq_true, decide_eq_true_eq] at hfresh
        omega
      · rw [selectKey_kid ha hk, ← hf.2, hfind]
    | none =>
      by_cases hc : coolingDown s = true
      · simp only [hc, if_true]
        refine ⟨Frame.rfl' s, hj, fun k' hk' => by simp at hk', fun hf => ⟨hf, ?_⟩⟩
        rw [selectKey_kid ha hk, ← hf.2, hfind]
      · simp only [hc, Bool.false_eq_true, if_false]
        have hj' : JInv { s with missLast := some s.now } p := ⟨hj.hnow, hj.hdoc, hj.jc⟩
        have l := lookupAfterRefresh_ok (W := W) hw hj' kid
        refine ⟨Frame.trans (b := { s with missLast := some s.now }) ⟨rfl, rfl, rfl, rfl, rfl⟩ l.frame, l.jinv, fun k' hk' => ?_, fun hf => ?_⟩
        · obtain ⟨τ, h5, h6⟩ := l.key k' hk'
          exact ⟨ha, kid, τ, fun _ => rfl, h5, fun _ => Or.inl h6⟩
        · have := l.fix hf
          exact ⟨this.1, by rw [selectKey_kid ha hk]; exact this.2⟩
  · simp only [hfresh]
    have l := lookupAfterRefresh_ok (W := W) hw hj kid
    refine ⟨l.frame, l.jinv, fun k' hk' => ?_, fun hf => ?_⟩
    · obtain ⟨τ, h5, h6⟩ := l.key k' hk'
      exact ⟨ha, kid, τ, fun _ => rfl, h5, fun _ => Or.inl h6⟩
    · have := l.fix hf
      exact ⟨this.1, by rw [selectKey_kid ha hk]; exact this.2⟩

/-- selectVerificationKey -/
theorem selectKeyS_ok {W : World} {p : Prov} {s : St} (hw : p.WF) (hj : JInv s p) (alg : AlgFam) (kid : Nat) :
    SelOK W p s alg kid (selectKeyS W s alg kid) := by
  unfold selectKeyS
  by_cases ha : alg = .other
  · rw [if_pos ha]
    exact ⟨Frame.rfl' s, hj, fun k hk => by simp at hk, fun hf => ⟨hf, by simp [selectKey, ha]⟩⟩
  · rw [if_neg ha]
    by_cases hk : kid ≠ 0
    · rw [if_pos hk]
      exact keyByID_ok hw hj ha hk
    · have hk0 : kid = 0 := by omega
      subst hk0
      simp only [ne_eq, not_true_eq_false, if_false]
      -- the state after the optional refresh
      have hs1 : ∃ s1, (if s.jc.isEmpty = true then (refreshJWKS s).1 else s) = s1 ∧ Frame s s1 ∧ JInv s1 p ∧
          (FixJ W s → FixJ W s1) := by
        by_cases he : s.jc.isEmpty = true
        · simp only [he, if_true]
          rcases refresh_cases s with ⟨_, h1, _⟩ | ⟨_, h1, _⟩
          · exact ⟨_, rfl, by rw [h1]; exact Frame.rfl' s, by rw [h1]; exact hj, fun hf => by rw [h1]; exact hf⟩
          · refine ⟨_, rfl, by rw [h1]; exact ⟨rfl, rfl, rfl, rfl, rfl⟩, ?_, fun hf => ?_⟩
            · rw [h1]
              refine ⟨hj.hnow, hj.hdoc, fun e he' => ⟨p.now, ?_, Nat.le_of_eq hj.hnow⟩⟩
              apply hw.cur
              rw [← hj.hdoc]
              exact publishes_of_mem he'
            · rw [h1]
              exact ⟨hf.1, by show usable s.pub = usable W.jwks; rw [hf.1]⟩
        · simp only [he]
          exact ⟨s, rfl, Frame.rfl' s, hj, fun hf => hf⟩
      obtain ⟨s1, hs1, hfr, hj1, hfx⟩ := hs1
      rw [hs1]
      cases hjc : s1.jc with
      | nil =>
        refine ⟨hfr, hj1, fun k hk' => by simp at hk', fun hf => ⟨hfx hf, ?_⟩⟩
        have := (hfx hf).2
        rw [hjc] at this
        simp [selectKey, ha, ← this]
      | cons e es =>
        refine ⟨hfr, hj1, fun k hk' => ?_, fun hf => ⟨hfx hf, ?_⟩⟩
        · simp at hk'
          subst hk'
          obtain ⟨τ, h5, _⟩ := hj1.jc e (by rw [hjc]; simp)
          exact ⟨ha, e.kid, τ, fun h => absurd rfl h, h5, fun h => absurd rfl h⟩
        · have := (hfx hf).2
          rw [hjc] at this
          simp [selectKey, ha, ← this]

structure LibOK (W : World) (p : Prov) (s : St) (t : Tok) (r : St × Bool) : Prop where
  frame : Frame s r.1
  jinv : JInv r.1 p
  acc : r.2 = true → t.parseOK = true ∧ claimsOK W.cfg t s.now = true ∧ KeyWas W p t s.now
  fix : FixJ W s → FixJ W r.1 ∧ r.2 = libAccepts W t s.now

/-- jwt.ParseWithClaims with the keyfunc of parseAndValidateJWT -/
theorem libRun_ok {W : World} {p : Prov} {s : St} (hw : p.WF) (hj : JInv s p) (t : Tok) :
    LibOK W p s t (libRun W s t) := by
  unfold libRun
  by_cases hp : t.parseOK = true
  · simp only [hp, Bool.not_true, Bool.false_eq_true, if_false]
    have sel := selectKeyS_ok (W := W) hw hj t.alg t.kid
    refine ⟨sel.frame, sel.jinv, fun hacc => ?_, fun hf => ⟨(sel.fix hf).1, ?_⟩⟩
    · simp only [Bool.and_eq_true] at hacc
      obtain ⟨hs, hc⟩ := hacc
      refine ⟨hp, hc, ?_⟩
      cases hk : (selectKeyS W s t.alg t.kid).2 with
      | none => simp [hk] at hs
      | some k =>
        simp [hk] at hs
        obtain ⟨ha, kid', τ, h1, h2, h3⟩ := sel.key k hk
        refine ⟨?_, kid', k, τ, hs, h1, h2, h3⟩
        cases hh : t.alg with
        | rsa => exact Or.inl rfl
        | ecdsa => exact Or.inr rfl
        | other => exact absurd hh ha
    · rw [(sel.fix hf).2]
      simp [libAccepts, sigOK, hp]
  · have hp' : t.parseOK = false := by simpa using hp
    simp only [hp', Bool.not_false, if_true]
    exact ⟨Frame.rfl' s, hj, fun h => by simp at h, fun hf => ⟨hf, by simp [libAccepts, hp']⟩⟩

/-- under a provider that never changed its document, the stateful key selection is the pure one -/
theorem selectKeyS_fixed {W : World} {p : Prov} {s : St} (hw : p.WF) (hj : JInv s p) (hf : FixJ W s)
    (alg : AlgFam) (kid : Nat) : (selectKeyS W s alg kid).2 = selectKey (usable W.jwks) alg kid :=
  ((selectKeyS_ok (W := W) hw hj alg kid).fix hf).2

/-! ## the invariant -/

/-- the time-independent part of the library's verdict (fixed key set) -/
def staticOK (W : World) (t : Tok) : Bool :=
  t.parseOK && sigOK W t && (!W.cfg.audRequired || t.audOK) && (!W.cfg.issRequired || t.issOK)

theorem libAccepts_eq (W : World) (t : Tok) (now : Nat) :
    libAccepts W t now = (staticOK W t && decide (now < t.exp) && decide (t.nbf ≤ now)) := by
  simp only [libAccepts, staticOK, claimsOK]
  cases t.parseOK <;> cases sigOK W t <;> cases decide (now < t.exp) <;> cases decide (t.nbf ≤ now) <;>
    cases (!W.cfg.audRequired || t.audOK) <;> cases (!W.cfg.issRequired || t.issOK) <;> rfl

theorem claimsOK_true {c : Cfg} {t : Tok} {now : Nat} (h : claimsOK c t now = true) :
    now < t.exp ∧ t.nbf ≤ now ∧ (!c.audRequired || t.audOK) = true ∧ (!c.issRequired || t.issOK) = true := by
  simp only [claimsOK, Bool.and_eq_true, decide_eq_true_eq] at h
  exact ⟨h.1.1.1, h.1.1.2, h.1.2, h.2⟩

/-- what must be true of a JWT cache entry -/
structure GoodEntry (W : World) (p : Prov) (now tid : Nat) (e : Entry) : Prop where
  parsed : (W.lib tid).parseOK = true
  aud : (!W.cfg.audRequired || (W.lib tid).audOK) = true
  iss : (!W.cfg.issRequired || (W.lib tid).issOK) = true
  nbf : (W.lib tid).nbf ≤ now
  user : userOf W.cfg (W.lib tid) = some e.user
  exp : e.exp = (W.lib tid).exp
  jti : e.jti = (W.lib tid).jti
  /-- the signature was checked at some instant `v` of the past against a key published recently enough THEN -/
  key : ∃ v, v ≤ now ∧ KeyWas W p (W.lib tid) v
  /-- … and while the provider has not changed its document, against the key the specification selects -/
  keyF : p.rotated = false → sigOK W (W.lib tid) = true

theorem GoodEntry.mono {W : World} {p q : Prov} {now now' tid : Nat} {e : Entry} (g : GoodEntry W p now tid e)
    (hle : p.le q) (hn : now ≤ now') (hr : q.rotated = false → p.rotated = false) : GoodEntry W q now' tid e := by
  obtain ⟨v, hv, hk⟩ := g.key
  exact ⟨g.parsed, g.aud, g.iss, Nat.le_trans g.nbf hn, g.user, g.exp, g.jti, ⟨v, Nat.le_trans hv hn, hk.mono hle⟩,
    fun h => g.keyF (hr h)⟩

/-- `rv` is the ghost "revoked now" predicate of the history so far, `p` the provider's publication record -/
structure Inv (W : World) (s : St) (rv : Nat → Bool) (p : Prov) : Prop where
  store : ∀ j, s.revoked.contains j = rv j
  blc : ∀ j a, lookupK s.blCache j = some a → a = rv j
  wf : p.WF
  j : JInv s p
  fix : p.rotated = false → FixJ W s
  cache : ∀ tid e, lookupK s.cache tid = some e → GoodEntry W p s.now tid e

theorem inv_init (W : World) (t0 : Nat) : Inv W (init t0 W.jwks) (fun _ => false) (Prov.init t0 W.jwks) := by
  refine ⟨by simp [init], by simp [init, lookupK], Prov.init_wf t0 W.jwks, ⟨rfl, rfl, fun e he => ?_⟩,
    fun _ => ⟨rfl, rfl⟩, by simp [init, lookupK]⟩
  refine ⟨t0, ?_, Nat.le_refl _⟩
  exact (Prov.init_wf t0 W.jwks).cur e.kid e.id (publishes_of_mem he)

/-- the key lookup only touched the JWKS cache -/
theorem Inv.reframe {W : World} {s s' : St} {rv : Nat → Bool} {p : Prov} (h : Inv W s rv p) (hfr : Frame s s')
    (hj : JInv s' p) (hfx : p.rotated = false → FixJ W s') : Inv W s' rv p := by
  refine ⟨fun j => ?_, fun j a hl => ?_, h.wf, hj, hfx, fun tid e hl => ?_⟩
  · rw [hfr.revoked]; exact h.store j
  · rw [hfr.blCache] at hl; exact h.blc j a hl
  · rw [hfr.cache] at hl; rw [hfr.now]; exact h.cache tid e hl

theorem Inv.delCache {W : World} {s : St} {rv : Nat → Bool} {p : Prov} (h : Inv W s rv p) (tid : Nat) :
    Inv W { s with cache := delK s.cache tid } rv p :=
  ⟨h.store, h.blc, h.wf, ⟨h.j.hnow, h.j.hdoc, h.j.jc⟩, h.fix, fun x e hx => h.cache x e (lookupK_delK_some hx)⟩

theorem Inv.addCache {W : World} {s : St} {rv : Nat → Bool} {p : Prov} (h : Inv W s rv p) (tid : Nat) (e : Entry)
    (g : GoodEntry W p s.now tid e) : Inv W { s with cache := (tid, e) :: delK s.cache tid } rv p := by
  refine ⟨h.store, h.blc, h.wf, ⟨h.j.hnow, h.j.hdoc, h.j.jc⟩, h.fix, fun x e' hx => ?_⟩
  simp only [lookupK] at hx
  by_cases hxt : x = tid
  · subst hxt
    simp at hx
    subst hx
    exact g
  · simp [hxt] at hx
    exact h.cache x e' (lookupK_delK_some hx)

/-- tokens.IsIDBlacklisted answers the truth (the blacklist cache is coherent) and only touches blCache -/
theorem isBL_spec {W : World} {s : St} {rv : Nat → Bool} {p : Prov} (h : Inv W s rv p) (j : Nat) :
    (isIDBlacklisted s j).2 = rv j ∧ Inv W (isIDBlacklisted s j).1 rv p ∧
    (isIDBlacklisted s j).1.now = s.now ∧ (isIDBlacklisted s j).1.cache = s.cache ∧
    (isIDBlacklisted s j).1.pub = s.pub := by
  unfold isIDBlacklisted
  cases hl : lookupK s.blCache j with
  | some a => exact ⟨h.blc j a hl, h, rfl, rfl, rfl⟩
  | none =>
    refine ⟨h.store j, ⟨h.store, ?_, h.wf, ⟨h.j.hnow, h.j.hdoc, h.j.jc⟩, h.fix, h.cache⟩, rfl, rfl, rfl⟩
    intro x a hx
    simp only [lookupK] at hx
    by_cases hxj : x = j
    · subst hxj
      simp at hx
      rw [← hx, ← h.store x]
      simp
    · simp [hxj] at hx
      exact h.blc x a hx

/-! ## ValidateJWT -/

theorem libAccepts_true {W : World} {t : Tok} {now : Nat} (h : libAccepts W t now = true) :
    staticOK W t = true ∧ now < t.exp ∧ t.nbf ≤ now := by
  rw [libAccepts_eq] at h
  simp at h
  exact ⟨h.1.1, h.1.2, h.2⟩

theorem core_invalid {W : World} {s : St} {tid : Nat} : validateCore W s tid false = (s, .invalid) := by
  simp [validateCore]

theorem core_noclaim {W : World} {s : St} {tid : Nat} (hne : ¬ (W.lib tid).exp < s.now)
    (hu : userOf W.cfg (W.lib tid) = none) : validateCore W s tid true = (s, .noclaim) := by
  simp [validateCore, hne, hu]

theorem core_user {W : World} {s : St} {tid : Nat} {u : User} (hne : ¬ (W.lib tid).exp < s.now)
    (hu : userOf W.cfg (W.lib tid) = some u) :
    validateCore W s tid true =
      (let r := if (W.fixed && decide ((W.lib tid).jti ≠ 0)) = true then isIDBlacklisted s (W.lib tid).jti else (s, false)
       if r.2 = true then (r.1, .revoked)
       else ({ r.1 with cache := (tid, ⟨u, (W.lib tid).exp, (W.lib tid).jti⟩) :: delK r.1.cache tid }, .ok u)) := by
  simp [validateCore, hne, hu]

theorem spec_invalid {W : World} {t : Tok} {now : Nat} {rv : Nat → Bool} (hl : libAccepts W t now = false) :
    spec W t now rv = .invalid := by
  simp [spec, hl]

theorem spec_noclaim {W : World} {t : Tok} {now : Nat} {rv : Nat → Bool} (hl : libAccepts W t now = true)
    (hu : userOf W.cfg t = none) : spec W t now rv = .noclaim := by
  simp [spec, hl, hu]

theorem spec_user {W : World} {t : Tok} {now : Nat} {rv : Nat → Bool} {u : User} (hl : libAccepts W t now = true)
    (hu : userOf W.cfg t = some u) :
    spec W t now rv = if (decide (t.jti ≠ 0) && rv t.jti) = true then .revoked else .ok u := by
  simp [spec, hl, hu]

/-- the conclusion of the property, for histories in which the provider may change its document -/
structure Accepted (W : World) (t : Tok) (p : Prov) (rv : Nat → Bool) : Prop where
  parsed : t.parseOK = true
  /-- RS*/ES*, and the signature verifies under a key that the provider's document published for signatures
      (under the kid the header names) at an instant of this history; that instant is not more than one
      JWKS TTL before the instant `v ≤ now` at which the signature was checked (tokens with a kid) -/
  key : ∃ v, v ≤ p.now ∧ KeyWas W p t v
  iss : W.cfg.issRequired = true → t.issOK = true
  aud : W.cfg.audRequired = true → t.audOK = true
  notExpired : p.now < t.exp
  notBefore : t.nbf ≤ p.now
  notRevoked : t.jti ≠ 0 → rv t.jti = false

theorem orNot_imp {a b : Bool} (h : (!a || b) = true) : a = true → b = true := by
  cases a <;> cases b <;> simp at h ⊢

/-- what one call of ValidateJWT guarantees -/
structure CallOK (W : World) (s : St) (rv : Nat → Bool) (p : Prov) (tid : Nat) (r : St × Res) : Prop where
  inv : Inv W r.1 rv p
  now : r.1.now = s.now
  pub : r.1.pub = s.pub
  /-- the provider never changed its document: the answer is the specification's -/
  spec : p.rotated = false → r.2 = spec W (W.lib tid) s.now rv
  acc : ∀ u, r.2 = .ok u → Accepted W (W.lib tid) p rv
  /-- without a result-cache entry the signature was checked in this very call -/
  fresh : ∀ u, r.2 = .ok u → lookupK s.cache tid = none → KeyWas W p (W.lib tid) p.now
  /-- other tokens' result-cache entries are not created here -/
  other : ∀ x, x ≠ tid → lookupK s.cache x = none → lookupK r.1.cache x = none

theorem validateCore_ok {W : World} (hf : W.fixed = true) {s : St} {rv : Nat → Bool} {p : Prov} (h : Inv W s rv p)
    (tid : Nat) (la : Bool)
    (hacc : la = true → (W.lib tid).parseOK = true ∧ claimsOK W.cfg (W.lib tid) s.now = true ∧
      KeyWas W p (W.lib tid) s.now)
    (hfix : p.rotated = false → la = libAccepts W (W.lib tid) s.now ∧ (la = true → sigOK W (W.lib tid) = true)) :
    Inv W (validateCore W s tid la).1 rv p ∧ (validateCore W s tid la).1.now = s.now ∧
    (validateCore W s tid la).1.pub = s.pub ∧
    (p.rotated = false → (validateCore W s tid la).2 = spec W (W.lib tid) s.now rv) ∧
    (∀ u, (validateCore W s tid la).2 = .ok u →
      Accepted W (W.lib tid) p rv ∧ KeyWas W p (W.lib tid) p.now) ∧
    (∀ x, x ≠ tid → lookupK s.cache x = none → lookupK (validateCore W s tid la).1.cache x = none) := by
  cases la with
  | false =>
    rw [core_invalid]
    refine ⟨h, rfl, rfl, fun hr => ?_, fun u hu => (by cases hu), fun x _ hx => hx⟩
    rw [spec_invalid ((hfix hr).1.symm)]
  | true =>
    obtain ⟨hp, hc, hk⟩ := hacc rfl
    obtain ⟨hexp, hnbf, haud, hiss⟩ := claimsOK_true hc
    have hne : ¬ (W.lib tid).exp < s.now := by omega
    cases hu : userOf W.cfg (W.lib tid) with
    | none =>
      rw [core_noclaim hne hu]
      refine ⟨h, rfl, rfl, fun hr => ?_, fun u hu' => (by cases hu'), fun x _ hx => hx⟩
      rw [spec_noclaim ((hfix hr).1.symm) hu]
    | some u =>
      rw [core_user hne hu, hf]
      have hk' : KeyWas W p (W.lib tid) p.now := by rw [← h.j.hnow]; exact hk
      have mkAcc : ((W.lib tid).jti ≠ 0 → rv (W.lib tid).jti = false) → Accepted W (W.lib tid) p rv := fun hr =>
        ⟨hp, ⟨p.now, Nat.le_refl _, hk'⟩, orNot_imp hiss, orNot_imp haud, by rw [← h.j.hnow]; exact hexp,
          by rw [← h.j.hnow]; exact hnbf, hr⟩
      have other : ∀ (c : List (Nat × Entry)) (e : Entry) (x : Nat), x ≠ tid → lookupK c x = none →
          lookupK ((tid, e) :: delK c tid) x = none := by
        intro c e x hx hc'
        simp only [lookupK, hx, if_false]
        rw [lookupK_delK_ne c hx]
        exact hc'
      by_cases hj : (W.lib tid).jti = 0
      · have g : GoodEntry W p s.now tid ⟨u, (W.lib tid).exp, (W.lib tid).jti⟩ :=
          ⟨hp, haud, hiss, hnbf, hu, rfl, rfl, ⟨s.now, Nat.le_refl _, hk⟩, fun hr => (hfix hr).2 rfl⟩
        simp [hj]
        rw [hj] at g
        refine ⟨h.addCache tid _ g, fun hr => ?_, ⟨mkAcc (fun h0 => absurd hj h0), hk'⟩, fun x hx hc' => ?_⟩
        · rw [spec_user ((hfix hr).1.symm) hu]
          simp [hj]
        · have := other s.cache ⟨u, (W.lib tid).exp, 0⟩ x hx hc'
          simpa [lookupK, hx] using this
      · obtain ⟨b1, b2, b3, b4, b5⟩ := isBL_spec h (W.lib tid).jti
        have hd : (true && decide ((W.lib tid).jti ≠ 0)) = true := by simp [hj]
        simp only [hd, if_true]
        by_cases hr : rv (W.lib tid).jti = true
        · rw [b1, hr]
          simp only [if_true]
          refine ⟨b2, b3, b5, fun hrot => ?_, fun u' hu' => (by cases hu'), fun x _ hx => by rw [b4]; exact hx⟩
          rw [spec_user ((hfix hrot).1.symm) hu]
          simp [hj, hr]
        · have hr' : rv (W.lib tid).jti = false := by simpa using hr
          rw [b1, hr']
          simp only [Bool.false_eq_true, if_false]
          have g : GoodEntry W p (isIDBlacklisted s (W.lib tid).jti).1.now tid ⟨u, (W.lib tid).exp, (W.lib tid).jti⟩ :=
            ⟨hp, haud, hiss, by rw [b3]; exact hnbf, hu, rfl, rfl, ⟨s.now, by rw [b3]; exact Nat.le_refl _, hk⟩,
              fun hrot => (hfix hrot).2 rfl⟩
          refine ⟨b2.addCache tid _ g, b3, b5, fun hrot => ?_, fun u' hu' => ⟨mkAcc (fun _ => hr'), hk'⟩,
            fun x hx hc' => ?_⟩
          · rw [spec_user ((hfix hrot).1.symm) hu]
            simp [hr']
          · show lookupK ((tid, _) :: delK (isIDBlacklisted s (W.lib tid).jti).1.cache tid) x = none
            rw [b4]
            exact other s.cache _ x hx hc'

theorem validate_ok {W : World} (hf : W.fixed = true) {s : St} {rv : Nat → Bool} {p : Prov} (h : Inv W s rv p)
    (tid : Nat) :
    Inv W (validate W s tid).1 rv p ∧ (validate W s tid).1.now = s.now ∧ (validate W s tid).1.pub = s.pub ∧
    (p.rotated = false → (validate W s tid).2 = spec W (W.lib tid) s.now rv) ∧
    (∀ u, (validate W s tid).2 = .ok u → Accepted W (W.lib tid) p rv ∧ KeyWas W p (W.lib tid) p.now) ∧
    (∀ x, x ≠ tid → lookupK s.cache x = none → lookupK (validate W s tid).1.cache x = none) := by
  unfold validate
  have l := libRun_ok (W := W) h.wf h.j (W.lib tid)
  have hfx : p.rotated = false → FixJ W (libRun W s (W.lib tid)).1 := fun hr => (l.fix (h.fix hr)).1
  have h1 : Inv W (libRun W s (W.lib tid)).1 rv p := h.reframe l.frame l.jinv hfx
  have := validateCore_ok hf h1 tid (libRun W s (W.lib tid)).2
    (by rw [l.frame.now]; exact l.acc)
    (fun hr => by
      rw [l.frame.now]
      refine ⟨(l.fix (h.fix hr)).2, fun hla => ?_⟩
      have := (l.fix (h.fix hr)).2
      rw [hla] at this
      have h2 := (libAccepts_true this.symm).1
      simp only [staticOK, Bool.and_eq_true] at h2
      exact h2.1.1.2)
  simp only [l.frame.now, l.frame.pub, l.frame.cache] at this
  exact this

/-- ValidateJWT -/
theorem present_ok {W : World} (hf : W.fixed = true) {s : St} {rv : Nat → Bool} {p : Prov} (h : Inv W s rv p)
    (tid : Nat) : CallOK W s rv p tid (present W s tid) := by
  unfold present
  cases hc : lookupK s.cache tid with
  | none =>
    obtain ⟨a1, a2, a3, a4, a5, a6⟩ := validate_ok hf h tid
    exact ⟨a1, a2, a3, a4, fun u hu => (a5 u hu).1, fun u hu _ => (a5 u hu).2, a6⟩
  | some e =>
    have g := h.cache tid e hc
    by_cases hexp : s.now < e.exp
    · -- fresh entry: no re-verification
      have hexp' : s.now < (W.lib tid).exp := by rw [← g.exp]; exact hexp
      have hlib : p.rotated = false → libAccepts W (W.lib tid) s.now = true := by
        intro hr
        rw [libAccepts_eq]
        simp [staticOK, g.parsed, g.keyF hr, g.aud, g.iss, hexp', g.nbf]
      have mkAcc : ((W.lib tid).jti ≠ 0 → rv (W.lib tid).jti = false) → Accepted W (W.lib tid) p rv := fun hr =>
        ⟨g.parsed, by rw [← h.j.hnow]; exact g.key, orNot_imp g.iss, orNot_imp g.aud, by rw [← h.j.hnow]; exact hexp',
          by rw [← h.j.hnow]; exact g.nbf, hr⟩
      simp only [hexp, if_true]
      by_cases hj : e.jti = 0
      · simp only [hj, ne_eq, not_true_eq_false, if_false]
        refine ⟨h, rfl, rfl, fun hr => ?_, fun u _ => mkAcc (fun h0 => absurd (g.jti ▸ hj) h0),
          fun u _ hn => (by rw [hc] at hn; cases hn), fun x _ hx => hx⟩
        rw [spec_user (hlib hr) g.user, ← g.jti]
        simp [hj]
      · obtain ⟨b1, b2, b3, b4, b5⟩ := isBL_spec h e.jti
        have hj' : (e.jti ≠ 0) := hj
        rw [if_pos hj']
        by_cases hr : rv e.jti = true
        · rw [b1, hr]
          simp only [if_true]
          refine ⟨b2.delCache tid, b3, b5, fun hrot => ?_, fun u hu => (by cases hu), fun u hu => (by cases hu),
            fun x hx hcx => ?_⟩
          · rw [spec_user (hlib hrot) g.user, ← g.jti]
            simp [hj, hr]
          · show lookupK (delK (isIDBlacklisted s e.jti).1.cache tid) x = none
            rw [b4, lookupK_delK_ne s.cache hx]
            exact hcx
        · have hr' : rv e.jti = false := by simpa using hr
          rw [b1, hr']
          simp only [Bool.false_eq_true, if_false]
          refine ⟨b2, b3, b5, fun hrot => ?_, fun u _ => mkAcc (fun _ => by rw [← g.jti]; exact hr'),
            fun u _ hn => (by rw [hc] at hn; cases hn), fun x _ hx => by rw [b4]; exact hx⟩
          rw [spec_user (hlib hrot) g.user, ← g.jti]
          simp [hr']
    · simp only [hexp, if_false]
      obtain ⟨a1, a2, a3, a4, a5, a6⟩ := validate_ok hf (h.delCache tid) tid
      refine ⟨a1, a2, a3, a4, fun u hu => (a5 u hu).1, fun u _ hn => (by rw [hc] at hn; cases hn), fun x hx hcx => ?_⟩
      apply a6 x hx
      show lookupK (delK s.cache tid) x = none
      rw [lookupK_delK_ne s.cache hx]
      exact hcx

/-! ## histories -/

theorem step_inv {W : World} (hf : W.fixed = true) {s : St} {rv : Nat → Bool} {p : Prov} (h : Inv W s rv p) (o : Op) :
    Inv W (step W s o).1 (rvStep rv o) (p.step o) := by
  cases o with
  | present tid => exact (present_ok hf h tid).inv
  | revoke k =>
    simp only [step, rvStep]
    by_cases hk : s.revoked.contains k = true
    · simp only [hk, if_true]
      refine ⟨fun j => ?_, fun j a hj => ?_, h.wf, h.j, h.fix, h.cache⟩
      · by_cases hjk : j = k
        · subst hjk; simpa using hk
        · simp only [hjk, if_false]; exact h.store j
      · by_cases hjk : j = k
        · subst hjk
          have := h.blc j a hj
          rw [← h.store j, hk] at this
          simp [this]
        · simp only [hjk, if_false]; exact h.blc j a hj
    · simp only [hk]
      refine ⟨fun j => ?_, fun j a hj => by simp [lookupK] at hj, h.wf, ⟨h.j.hnow, h.j.hdoc, h.j.jc⟩, h.fix, h.cache⟩
      by_cases hjk : j = k
      · subst hjk; simp
      · have := h.store j
        simp only [hjk, if_false]
        rw [← this]
        simp [hjk]
  | unrevoke k =>
    simp only [step, rvStep]
    by_cases hk : s.revoked.contains k = true
    case neg =>
      simp only [hk]
      refine ⟨fun j => ?_, fun j a hj => ?_, h.wf, h.j, h.fix, h.cache⟩
      · by_cases hjk : j = k
        · subst hjk; simpa using hk
        · simp only [hjk, if_false]; exact h.store j
      · by_cases hjk : j = k
        · subst hjk
          have := h.blc j a hj
          rw [← h.store j] at this
          simp only [if_true]
          rw [this]; simpa using hk
        · simp only [hjk, if_false]; exact h.blc j a hj
    simp only [hk, if_true]
    refine ⟨fun j => ?_, fun j a hj => ?_, h.wf, ⟨h.j.hnow, h.j.hdoc, h.j.jc⟩, h.fix, h.cache⟩
    · by_cases hjk : j = k
      · subst hjk; simp
      · have := h.store j
        simp only [hjk, if_false]
        rw [← this]
        simp [List.contains_eq_mem, List.mem_filter, hjk]
    · rw [lookupK_delK] at hj
      by_cases hjk : j = k
      · simp [hjk] at hj
      · simp only [hjk, if_false] at hj ⊢
        exact h.blc j a hj
  | flush =>
    exact ⟨fun j => by simp [step, rvStep], fun j a hj => by simp [step, lookupK] at hj, h.wf,
      ⟨h.j.hnow, h.j.hdoc, h.j.jc⟩, h.fix, h.cache⟩
  | advance dt =>
    have hle := Prov.step_le h.wf (.advance dt)
    refine ⟨h.store, h.blc, Prov.step_wf h.wf _, ⟨?_, h.j.hdoc, fun e he => ?_⟩, h.fix, fun tid e he => ?_⟩
    · show s.now + dt = p.now + dt
      rw [h.j.hnow]
    · obtain ⟨τ, h1, h2⟩ := h.j.jc e he
      obtain ⟨τ', h3, h4⟩ := hle _ _ _ h1
      exact ⟨τ', h3, Nat.le_trans h2 h4⟩
    · exact (h.cache tid e he).mono hle (Nat.le_add_right _ _) (fun hr => hr)
  | purge =>
    exact ⟨h.store, h.blc, h.wf, ⟨h.j.hnow, h.j.hdoc, h.j.jc⟩, h.fix, fun tid e he => by simp [step, lookupK] at he⟩
  | evict tid => exact h.delCache tid
  | blEvict k =>
    exact ⟨h.store, fun j a hj => h.blc j a (lookupK_delK_some hj), h.wf, ⟨h.j.hnow, h.j.hdoc, h.j.jc⟩, h.fix, h.cache⟩
  | setKeys doc =>
    have hle := Prov.step_le h.wf (.setKeys doc)
    refine ⟨h.store, h.blc, Prov.step_wf h.wf _, ⟨h.j.hnow, rfl, fun e he => ?_⟩, fun hr => (by cases hr),
      fun tid e he => ?_⟩
    · obtain ⟨τ, h1, h2⟩ := h.j.jc e he
      obtain ⟨τ', h3, h4⟩ := hle _ _ _ h1
      exact ⟨τ', h3, Nat.le_trans h2 h4⟩
    · exact (h.cache tid e he).mono hle (Nat.le_refl _) (fun hr => by cases hr)

theorem run_inv {W : World} (hf : W.fixed = true) (ops : List Op) :
    ∀ {s : St} {rv : Nat → Bool} {p : Prov}, Inv W s rv p →
      Inv W (run W s ops) (revokedAfter rv ops) (Prov.run p ops) := by
  induction ops with
  | nil => intro s rv p h; exact h
  | cons o os ih =>
    intro s rv p h
    simp only [run, revokedAfter, Prov.run]
    exact ih (step_inv hf h o)

/-- a token that the history never presents has no result-cache entry -/
theorem run_notCached {W : World} (hf : W.fixed = true) (tid : Nat) (ops : List Op) :
    ∀ {s : St} {rv : Nat → Bool} {p : Prov}, Inv W s rv p → lookupK s.cache tid = none →
      (∀ o, o ∈ ops → o ≠ .present tid) → lookupK (run W s ops).cache tid = none := by
  induction ops with
  | nil => intro s rv p _ hc _; exact hc
  | cons o os ih =>
    intro s rv p h hc hn
    simp only [run]
    refine ih (step_inv hf h o) ?_ (fun o' ho' => hn o' (by simp [ho']))
    have hno := hn o (by simp)
    cases o with
    | present x =>
      have hx : tid ≠ x := fun e => hno (by rw [e])
      exact (present_ok hf h x).other tid hx hc
    | revoke k =>
      simp only [step]
      split <;> exact hc
    | unrevoke k =>
      simp only [step]
      split <;> exact hc
    | flush => exact hc
    | advance _ => exact hc
    | purge => rfl
    | evict x =>
      show lookupK (delK s.cache x) tid = none
      rw [lookupK_delK]
      by_cases hx : tid = x <;> simp [hx, hc]
    | blEvict _ => exact hc
    | setKeys _ => exact hc

/-- the provider as an outside observer sees it after the history -/
def provAfter (W : World) (t0 : Nat) (pre : List Op) : Prov := Prov.run (Prov.init t0 W.jwks) pre

theorem provAfter_now (W : World) (t0 : Nat) (pre : List Op) : (provAfter W t0 pre).now = clock t0 pre := by
  unfold provAfter
  rw [Prov.run_now]
  rfl

/-- the answer to "present token `tid`" after the history `pre` that started at time `t0` with empty
    caches, an empty blacklist and the JWKS cache just filled from the provider's start-up document -/
def answer (W : World) (t0 : Nat) (pre : List Op) (tid : Nat) : Res :=
  (present W (run W (init t0 W.jwks) pre) tid).2

theorem answer_ok (W : World) (hf : W.fixed = true) (t0 : Nat) (pre : List Op) (tid : Nat) :
    CallOK W (run W (init t0 W.jwks) pre) (revokedAfter (fun _ => false) pre) (provAfter W t0 pre) tid
      (present W (run W (init t0 W.jwks) pre) tid) :=
  present_ok hf (run_inv hf pre (inv_init W t0)) tid

/-- **C22, full strength, with a provider that may change its JWKS document at any moment.**  For every world
    (library verdict, start-up JWKS, configuration, JWKS TTL) and every history: if presenting a token after the
    history is answered "ok", then at that moment the token parses, its algorithm is RSA/ECDSA, its signature
    verifies under a key that the provider's document has published for signatures — under the kid the header
    names — at an instant of this history, issuer and audience match the configuration, nbf ≤ now < exp, and its
    jti is not revoked. -/
theorem C22_accept_implies (W : World) (hf : W.fixed = true) (t0 : Nat) (pre : List Op) (tid : Nat) (u : User)
    (h : answer W t0 pre tid = .ok u) :
    Accepted W (W.lib tid) (provAfter W t0 pre) (revokedAfter (fun _ => false) pre) :=
  (answer_ok W hf t0 pre tid).acc u h

/-- **Bounded staleness of the JWKS cache.**  A token WITH a kid that has no live result-cache entry (its
    signature is checked in this call) is accepted only if the provider's document publishes the verifying key
    under that kid NOW (`τ = now`), or did so less than one JWKS TTL ago (`now < τ + ttl`, where `τ` is the LAST
    instant at which the provider published it): a withdrawn key stays trusted for less than one TTL. -/
theorem C22_key_staleness (W : World) (hf : W.fixed = true) (t0 : Nat) (pre : List Op) (tid : Nat) (u : User)
    (h : answer W t0 pre tid = .ok u) (hk : (W.lib tid).kid ≠ 0)
    (hc : lookupK (run W (init t0 W.jwks) pre).cache tid = none) :
    ∃ id τ, (W.lib tid).sigBy = some id ∧ (provAfter W t0 pre).last (W.lib tid).kid id = some τ ∧
      τ ≤ clock t0 pre ∧ (τ = clock t0 pre ∨ clock t0 pre < τ + W.jwksTTL) := by
  have c := answer_ok W hf t0 pre tid
  obtain ⟨_, kid, id, τ, h1, h2, h3, h4⟩ := c.fresh u h hc
  have hle := c.inv.wf.lastLe kid id τ h3
  rw [h2 hk] at h3
  rw [provAfter_now] at hle h4
  refine ⟨id, τ, h1, h3, hle, ?_⟩
  have := h4 hk
  omega

/-- a token the history never presented has no result-cache entry -/
theorem C22_never_presented_not_cached (W : World) (hf : W.fixed = true) (t0 : Nat) (pre : List Op) (tid : Nat)
    (hn : ∀ o, o ∈ pre → o ≠ .present tid) : lookupK (run W (init t0 W.jwks) pre).cache tid = none :=
  run_notCached hf tid pre (inv_init W t0) (by simp [init, lookupK]) hn

/-- **A withdrawn key stops being trusted after one JWKS TTL** (history form).  After `pre` the provider's
    document does not publish key `k` under the token's kid, no document served during `post` does, and at least
    one JWKS TTL passes during `post`: a token signed with `k` that was never presented is rejected — whatever
    else happened in between (other tokens, unknown kids, cooldowns, purges, revocations). -/
theorem C22_withdrawn_key_rejected (W : World) (hf : W.fixed = true) (httl : 0 < W.jwksTTL) (t0 : Nat)
    (pre post : List Op) (tid k : Nat) (hkid : (W.lib tid).kid ≠ 0) (hsig : (W.lib tid).sigBy = some k)
    (hnever : ∀ o, o ∈ pre ++ post → o ≠ .present tid)
    (hgone : publishes (provAfter W t0 pre).doc (W.lib tid).kid k = false)
    (hstay : ∀ d, Op.setKeys d ∈ post → publishes d (W.lib tid).kid k = false)
    (htime : clock t0 pre + W.jwksTTL ≤ clock t0 (pre ++ post)) (u : User) :
    answer W t0 (pre ++ post) tid ≠ .ok u := by
  intro h
  obtain ⟨id, τ, h1, h2, h3, h4⟩ := C22_key_staleness W hf t0 (pre ++ post) tid u h hkid
    (C22_never_presented_not_cached W hf t0 _ tid hnever)
  rw [hsig] at h1
  injection h1 with h1
  subst h1
  have hl : (provAfter W t0 (pre ++ post)).last (W.lib tid).kid k = (provAfter W t0 pre).last (W.lib tid).kid k := by
    unfold provAfter
    rw [Prov.run_append]
    exact Prov.run_last_unchanged _ _ post _ hgone hstay
  rw [hl] at h2
  have hle := (Prov.run_wf pre (Prov.init_wf t0 W.jwks)).lastLe _ _ _ h2
  have hnow : (Prov.run (Prov.init t0 W.jwks) pre).now = clock t0 pre := provAfter_now W t0 pre
  rw [hnow] at hle
  omega

/-! ## revocation (every history) -/

theorem revokedAfter_append (r : Nat → Bool) (a b : List Op) :
    revokedAfter r (a ++ b) = revokedAfter (revokedAfter r a) b := by
  induction a generalizing r with
  | nil => rfl
  | cons o os ih => simp [revokedAfter, ih]

theorem revokedAfter_stays (post : List Op) (j : Nat) :
    ∀ (r : Nat → Bool), r j = true → (∀ o, o ∈ post → o ≠ .unrevoke j ∧ o ≠ .flush) →
      revokedAfter r post j = true := by
  induction post with
  | nil => intro r h _; exact h
  | cons o os ih =>
    intro r h hp
    simp only [revokedAfter]
    apply ih
    · have ho := hp o (by simp)
      cases o with
      | revoke k => simp only [rvStep]; by_cases hjk : j = k <;> simp [hjk, h]
      | unrevoke k =>
        simp only [rvStep]
        have : j ≠ k := fun e => ho.1 (by rw [e])
        simp [this, h]
      | flush => exact absurd rfl ho.2
      | present _ => exact h
      | advance _ => exact h
      | purge => exact h
      | evict _ => exact h
      | blEvict _ => exact h
      | setKeys _ => exact h
    · intro o' ho'
      exact hp o' (by simp [ho'])

/-- **Revocation takes effect for every later request**: after `revoke j`, as long as `j` is not
    un-revoked (tokens.Delete / tokens.Flush), no token carrying that jti is accepted — whatever happened
    before (seen or never seen), whatever happens in between (time, cache expiry, purges, key rotations). -/
theorem C22_revocation_effective (W : World) (hf : W.fixed = true) (t0 : Nat) (pre post : List Op)
    (j tid : Nat) (hj : j ≠ 0) (ht : (W.lib tid).jti = j)
    (hpost : ∀ o, o ∈ post → o ≠ .unrevoke j ∧ o ≠ .flush) (u : User) :
    answer W t0 (pre ++ .revoke j :: post) tid ≠ .ok u := by
  intro h
  have acc := C22_accept_implies W hf t0 _ tid u h
  have h1 := acc.notRevoked (by rw [ht]; exact hj)
  rw [ht, revokedAfter_append] at h1
  simp only [revokedAfter] at h1
  have h2 := revokedAfter_stays post j (rvStep (revokedAfter (fun _ => false) pre) (.revoke j)) (by simp [rvStep]) hpost
  rw [h2] at h1
  cases h1

/-! ## while the provider does not change its document: both caches are transparent -/

theorem provAfter_fixed (W : World) (t0 : Nat) (pre : List Op) (hnr : noRotation pre = true) :
    (provAfter W t0 pre).rotated = false := by
  unfold provAfter
  rw [Prov.run_noRotation pre _ hnr]
  rfl

theorem run_now {W : World} (hf : W.fixed = true) (t0 : Nat) (pre : List Op) :
    (run W (init t0 W.jwks) pre).now = clock t0 pre := by
  have := (run_inv hf pre (inv_init W t0)).j.hnow
  rw [this]
  exact provAfter_now W t0 pre

/-- **ValidateJWT is a function of the token, the clock and the revocation store only** — for every
    history in which the provider keeps its document, whatever the result cache, the blacklist cache and the JWKS
    cache went through (hits, misses, sweeps, purges, TTL refreshes, unknown-kid refreshes and cooldowns) -/
theorem C22_present_eq_spec (W : World) (hf : W.fixed = true) (t0 : Nat) (pre : List Op) (tid : Nat)
    (hnr : noRotation pre = true) :
    answer W t0 pre tid = spec W (W.lib tid) (clock t0 pre) (revokedAfter (fun _ => false) pre) := by
  have := (answer_ok W hf t0 pre tid).spec (provAfter_fixed W t0 pre hnr)
  rw [run_now hf] at this
  exact this

/-- the conclusion of the property for a provider with a fixed document -/
structure AcceptedFixed (W : World) (t : Tok) (now : Nat) (rv : Nat → Bool) : Prop where
  parsed : t.parseOK = true
  alg : t.alg = .rsa ∨ t.alg = .ecdsa
  /-- the signature verifies under a key the provider publishes for signatures, selected by the kid -/
  key : ∃ j, j ∈ W.jwks ∧ j.useOK = true ∧ j.ktyOK = true ∧ t.sigBy = some j.id ∧ (t.kid ≠ 0 → j.kid = t.kid)
  iss : W.cfg.issRequired = true → t.issOK = true
  aud : W.cfg.audRequired = true → t.audOK = true
  notExpired : now < t.exp
  notBefore : t.nbf ≤ now
  notRevoked : t.jti ≠ 0 → rv t.jti = false

theorem spec_ok_accepted {W : World} {t : Tok} {now : Nat} {rv : Nat → Bool} {u : User}
    (h : spec W t now rv = .ok u) : AcceptedFixed W t now rv := by
  cases hl : libAccepts W t now with
  | false => rw [spec_invalid hl] at h; cases h
  | true =>
    cases hu : userOf W.cfg t with
    | none => rw [spec_noclaim hl hu] at h; cases h
    | some u' =>
      rw [spec_user hl hu] at h
      have hr : (decide (t.jti ≠ 0) && rv t.jti) = false := by
        cases hh : (decide (t.jti ≠ 0) && rv t.jti) with
        | false => rfl
        | true => rw [hh] at h; simp at h
      simp only [libAccepts, claimsOK, sigOK] at hl
      simp only [Bool.and_eq_true, decide_eq_true_eq, Bool.or_eq_true, Bool.not_eq_true'] at hl
      obtain ⟨⟨hp, hs⟩, ⟨⟨hexp, hnbf⟩, haud⟩, hiss⟩ := hl
      cases hk : selectKey (usable W.jwks) t.alg t.kid with
      | none => simp [hk] at hs
      | some k =>
        simp [hk] at hs
        obtain ⟨ha, j, hj, h1, h2, h3, h4⟩ := selectKey_published hk
        refine ⟨hp, ?_, ⟨j, hj, h1, h2, by rw [h3]; exact hs, h4⟩, ?_, ?_, hexp, hnbf, ?_⟩
        · cases hh : t.alg with
          | rsa => exact Or.inl rfl
          | ecdsa => exact Or.inr rfl
          | other => exact absurd hh ha
        · intro hi; cases hiss with
          | inl x => rw [hi] at x; cases x
          | inr x => exact x
        · intro hi; cases haud with
          | inl x => rw [hi] at x; cases x
          | inr x => exact x
        · intro hj0
          simpa [hj0] using hr

/-- the provider keeps its document: accepted ⇒ the signature verifies under the entry of THAT document which
    the header's kid selects (first usable entry with the kid; without kid the first usable entry) -/
theorem C22_accept_implies_fixed_keys (W : World) (hf : W.fixed = true) (t0 : Nat) (pre : List Op) (tid : Nat)
    (u : User) (hnr : noRotation pre = true) (h : answer W t0 pre tid = .ok u) :
    AcceptedFixed W (W.lib tid) (clock t0 pre) (revokedAfter (fun _ => false) pre) := by
  rw [C22_present_eq_spec W hf t0 pre tid hnr] at h
  exact spec_ok_accepted h

theorem spec_congr {W : World} {t : Tok} {now : Nat} {rv rv' : Nat → Bool} (h : rv t.jti = rv' t.jti) :
    spec W t now rv = spec W t now rv' := by
  simp [spec, h]

/-- **Seen before or not makes no difference.**  Two histories (with a provider that keeps its document) that
    agree on the clock and on what is revoked give the same answer for every token — however different their
    presentations, cache sweeps, purges and JWKS refreshes were (in particular: a history in which the token was
    never presented). -/
theorem C22_seen_or_not (W : World) (hf : W.fixed = true) (t0 : Nat) (pre pre' : List Op) (tid : Nat)
    (hnr : noRotation pre = true) (hnr' : noRotation pre' = true)
    (hc : clock t0 pre = clock t0 pre')
    (hr : ∀ j, revokedAfter (fun _ => false) pre j = revokedAfter (fun _ => false) pre' j) :
    answer W t0 pre tid = answer W t0 pre' tid := by
  rw [C22_present_eq_spec W hf _ _ _ hnr, C22_present_eq_spec W hf _ _ _ hnr', hc]
  exact spec_congr (hr _)

/-- **No spurious rejection** (the theorems above are not vacuous): a token the library accepts now, that
    names a user and whose jti is not revoked, is accepted with that user after every history in which the
    provider keeps its document. -/
theorem C22_valid_accepted (W : World) (hf : W.fixed = true) (t0 : Nat) (pre : List Op) (tid : Nat) (u : User)
    (hnr : noRotation pre = true)
    (hl : libAccepts W (W.lib tid) (clock t0 pre) = true) (hu : userOf W.cfg (W.lib tid) = some u)
    (hr : (W.lib tid).jti = 0 ∨ revokedAfter (fun _ => false) pre (W.lib tid).jti = false) :
    answer W t0 pre tid = .ok u := by
  rw [C22_present_eq_spec W hf _ _ _ hnr]
  unfold spec
  simp only [hl, hu, Bool.not_true, Bool.false_eq_true, if_false]
  cases hr with
  | inl h => simp [h]
  | inr h => simp [h]

/-! ## the code before fixes/C22.patch, tokens without kid, and non-vacuity -/

def demoTok : Tok :=
  { parseOK := true, alg := .ecdsa, kid := 5, sigBy := some 1, exp := 2000, nbf := 0, issOK := true,
    audOK := true, jti := 9, sub := 7, email := 0, pref := 0, client := 0 }

def demoWorld (fixed : Bool) : World :=
  { cfg := ⟨true, true, .sub⟩, jwks := [⟨5, true, true, 1⟩], lib := fun _ => demoTok, fixed := fixed, jwksTTL := 120 }

/-- The code BEFORE the patch: an ES256 token with valid signature/iss/aud/exp whose jti was revoked before
    it was ever presented is accepted on first presentation and rejected only on the second. -/
theorem C22_unpatched_counterexample :
    answer (demoWorld false) 1000 [.revoke 9] 1 = .ok (.name 7) ∧
    answer (demoWorld false) 1000 [.revoke 9, .present 1] 1 = .revoked := by
  decide

/-- the same history on the patched code -/
example : answer (demoWorld true) 1000 [.revoke 9] 1 = .revoked := by decide

/-- non-vacuity of `C22_accept_implies`: acceptance happens (before revocation, after un-revocation, from
    the cache and after the cache was purged) -/
example : answer (demoWorld true) 1000 [] 1 = .ok (.name 7) := by decide
example : answer (demoWorld true) 1000 [.present 1, .advance 5, .purge, .revoke 9, .unrevoke 9] 1 = .ok (.name 7) := by
  decide
example : answer (demoWorld true) 1000 [.present 1, .revoke 9] 1 = .revoked := by decide
example : answer (demoWorld true) 1000 [.present 1, .advance 1000] 1 = .invalid := by decide

/-- non-vacuity of `C22_revocation_effective` / `C22_valid_accepted` hypotheses -/
example : libAccepts (demoWorld true) demoTok (clock 1000 [.advance 5]) = true := by decide
example : ∀ o, o ∈ [Op.advance 5, Op.purge, Op.present 1] → o ≠ .unrevoke 9 ∧ o ≠ .flush := by
  intro o ho
  simp at ho
  rcases ho with h | h | h <;> subst h <;> exact ⟨nofun, nofun⟩

/-- the provider withdraws key 1 (kid 5) and publishes key 2 (kid 6) instead -/
def rotatedDoc : List Jwk := [⟨6, true, true, 2⟩]

/-- token 2 is like `demoTok` but carries NO kid -/
def demoWorld2 : World :=
  { demoWorld true with lib := fun tid => if tid = 2 then { demoTok with kid := 0 } else demoTok }

/-- the staleness the JWKS TTL allows: 119 s after the withdrawal the (never presented) token signed with the
    withdrawn key is still accepted from the cached key set; 120 s after it the key set is re-fetched and the
    token is rejected; a token signed with the newly published key is accepted (non-vacuity of
    `C22_key_staleness` and `C22_withdrawn_key_rejected`: both outcomes occur) -/
example : answer demoWorld2 1000 [.setKeys rotatedDoc, .advance 119] 1 = .ok (.name 7) := by decide
example : answer demoWorld2 1000 [.setKeys rotatedDoc, .advance 120] 1 = .invalid := by decide
example : publishes (provAfter demoWorld2 1000 [.setKeys rotatedDoc]).doc 5 1 = false := by decide
example : clock 1000 [.setKeys rotatedDoc] + demoWorld2.jwksTTL ≤ clock 1000 ([.setKeys rotatedDoc] ++ [.advance 120]) := by
  decide

/-- **Tokens WITHOUT a kid escape the bound** (selectVerificationKey → allKeys never looks at the age of the
    cache): 900 seconds after the provider withdrew the key — the JWKS TTL is 120 s — a never-presented
    token without kid that is signed with the withdrawn key is still accepted, while the same token WITH the kid is
    rejected.  This is the excluded class of `C22_key_staleness` (hypothesis `kid ≠ 0`); known finding
    `accept-withdrawn-key-token-without-kid`. -/
theorem C22_nokid_stale_counterexample :
    answer demoWorld2 1000 [.setKeys rotatedDoc, .advance 900] 2 = .ok (.name 7) ∧
    answer demoWorld2 1000 [.setKeys rotatedDoc, .advance 900] 1 = .invalid := by
  decide

end EgoVerif.C22
