import EgoVerif.Common.Drv
import EgoVerif.C13.Model
/- line protocol:
   `file <block>;<block>;…`   block = `<name>:<kind>:<junk>:<leak>:<brace>`
      kind  P pass | A assertFail | R runtimeErr | C compileErr | F @fail
      leak  `-` or comma separated handler addresses (0 = spent)
      brace 0 braced | 1 missing `}` | 2 extra `}` | 3 bare statements | 4 / 6 braced / bare with an `@compile eof=`
            whose marker is missing | 5 / 7 braced / bare with an `@compile eof=` span that ends at its marker
   → `<name>=P|F,…|run=ok|stopped`  (lines printed, in order; whether Run() failed)
   The model runs the whole pipeline: tokens → split at @test → compile → VM. -/
namespace EgoVerif.C13

def parseKind : String → Option Outcome
  | "P" => some Outcome.pass | "A" => some Outcome.assertFail | "R" => some Outcome.runtimeErr
  | "C" => some Outcome.compileErr | "F" => some Outcome.atFail | _ => none

def parseLeak (s : String) : Option (List Nat) :=
  if s == "-" then some [] else (s.splitOn ",").mapM String.toNat?

def parseBlock (s : String) : Option Block :=
  match s.splitOn ":" with
  | [n, k, j, l, b] =>
    match n.toNat?, parseKind k, j.toNat?, parseLeak l, b.toNat? with
    | some n, some k, some j, some l, some b => some { name := n, body := { junk := j, leak := l, outcome := k }, brace := b }
    | _, _, _, _, _ => none
  | _ => none

def showOut (o : List (Nat × Verdict)) : String :=
  if o.isEmpty then "-" else
  ",".intercalate (o.map fun p => toString p.1 ++ "=" ++ (match p.2 with | Verdict.PASS => "P" | Verdict.FAIL => "F"))

def handle (line : String) : String :=
  match fields line with
  | ["file", spec] =>
    match (spec.splitOn ";").mapM parseBlock with
    | some blocks =>
      let r := runTests blocks
      showOut r.out ++ "|run=" ++ (if r.halted then "stopped" else "ok")
    | none => "bad-input"
  | _ => "bad-op"

def drv : Drv := Drv.pure handle

end EgoVerif.C13
