import EgoVerif.C13.Model
/-
C13 — `ego test` isolates each test.

Main theorem `C13_isolated`: for EVERY list of generated blocks (any order of the five outcomes, any
brace shape, bodies leaving any number of values and any try entries behind) the PASS/FAIL lines
printed are exactly the verdicts of the blocks before the first `@fail`, in order. The invariant
behind it is `C13_block_restores`: a block that does not run `@fail` leaves the value stack, the
try stack, the output stack and the active-test count exactly as it found them — for any starting
stacks — which is why the argument composes over any sequence (`C13_run_invariant`).
-/
namespace EgoVerif.C13

/-! ### try-stack arithmetic -/

theorem truncate_length (ts : List Nat) : truncate ts ts.length = ts := by
  simp [truncate]

theorem truncate_append (l t : List Nat) : truncate (l ++ t) t.length = t := by
  simp [truncate]

theorem liveLen_le (ts : List Nat) : liveLen ts ≤ ts.length := by
  induction ts with
  | nil => simp [liveLen]
  | cons a t ih => simp only [liveLen]; split <;> simp <;> omega

theorem liveLen_append_live (l t : List Nat) (a : Nat) (ha : a > 0) :
    t.length + 1 ≤ liveLen (l ++ a :: t) := by
  induction l with
  | nil => simp [liveLen, ha]
  | cons x l ih =>
    simp only [List.cons_append, liveLen]
    split
    · simp; omega
    · exact ih

theorem unwind_junk (j : Nat) (s : List Val) (ts : List Nat) (n : Nat) :
    unwind (List.replicate j Val.junk ++ s) ts n = unwind s ts n := by
  induction j with
  | zero => simp
  | succ j ih => simp [List.replicate_succ, unwind, ih]

theorem popFrame_junk (j : Nat) (d : Nat) (s : List Val) (ts : List Nat) :
    popFrame (List.replicate j Val.junk ++ Val.frame d :: s) ts =
      some (s, if ts.length > d then truncate ts d else ts) := by
  induction j with
  | zero => simp [popFrame]
  | succ j ih => simp [List.replicate_succ, popFrame, ih]

/-- callFramePop's truncation gives back the caller's try stack, whatever the body left on top -/
theorem frame_truncate (l t : List Nat) (a : Nat) :
    (if (l ++ a :: t).length > t.length + 1 then truncate (l ++ a :: t) (t.length + 1) else l ++ a :: t)
      = a :: t := by
  cases l with
  | nil => simp
  | cons x l =>
    have h : truncate ((x :: l) ++ a :: t) (a :: t).length = a :: t := truncate_append (x :: l) (a :: t)
    simp only [List.length_cons, List.cons_append] at h
    simp only [List.cons_append, List.length_cons, List.length_append, h]
    split
    · rfl
    · omega

/-- The heart of the guard: an error that leaves the body (value stack: `j` values, the CallTest
    frame, the test's marker; try stack: whatever the body leaked, then the test's own live entry)
    is delivered to the test's own handler, with both stacks cut back to the caller's. -/
theorem unwind_to_own_handler (j : Nat) (l t : List Nat) (a : Nat) (ha : a > 0) (s : List Val) (n : Nat)
    (hn1 : t.length + 1 ≤ n) (hn2 : n ≤ (l ++ a :: t).length) (hn3 : n = liveLen (l ++ a :: t)) :
    unwind (List.replicate j Val.junk ++ Val.frame (t.length + 1) :: Val.marker :: s) (l ++ a :: t) n
      = Caught.to a s (0 :: t) := by
  rw [unwind_junk]
  simp only [unwind]
  rw [frame_truncate]
  have hl : liveLen (a :: t) = t.length + 1 := by simp [liveLen, ha]
  have ht : truncate (a :: t) (t.length + 1) = a :: t := by
    have := truncate_length (a :: t); simpa using this
  by_cases h : n > (a :: t).length
  · simp only [h, if_true, hl, ht]
  · have : n = t.length + 1 := by simp at h; omega
    subst this
    simp only [h, if_false, ht]

theorem unwind_marker (a : Nat) (t : List Nat) (s : List Val) :
    unwind (Val.marker :: s) (a :: t) (t.length + 1) = Caught.to a s (0 :: t) := by
  have ht : truncate (a :: t) (t.length + 1) = a :: t := by
    have := truncate_length (a :: t); simpa using this
  simp only [unwind, ht]

/-! ### one block -/

/-- the state after a block that reported `v`: everything as before, one more line -/
def restored (st : St) (name : Nat) (v : Verdict) : St :=
  { stack := st.stack, tries := st.tries, outStack := st.outStack, capturing := false,
    active := st.active, out := st.out ++ [(name, v)], halted := false }

theorem block_compileErr (name : Nat) (st : St) (h : st.halted = false) :
    exec (blockCode name none) 13 0 st = restored st name Verdict.FAIL := by
  simp [blockCode, exec, step, raise, liveLen, unwind_marker, restored, h]


theorem frame_truncate' (l t : List Nat) (a : Nat) :
    (if 0 < l.length then truncate (l ++ a :: t) (t.length + 1) else l ++ a :: t) = a :: t := by
  cases l with
  | nil => simp
  | cons x l =>
    have h : truncate ((x :: l) ++ a :: t) (a :: t).length = a :: t := truncate_append (x :: l) (a :: t)
    simp only [List.length_cons, List.cons_append] at h
    simp [h]

theorem block_pass (name : Nat) (b : Body) (st : St) (h : st.halted = false) (hb : b.outcome = Outcome.pass) :
    exec (blockCode name (some b)) 14 0 st = restored st name Verdict.PASS := by
  obtain ⟨stack, tries, outStack, capturing, active, out, halted⟩ := st
  simp only at h
  subst h
  have hf := frame_truncate' b.leak tries 10
  simp [blockCode, exec, step, callTest, hb, popFrame_junk, dropToMarker, restored, hf]

/-- raising out of the body: handleCatch on the state `callTest` builds -/
theorem raise_from_body (j : Nat) (l t0 : List Nat) (s0 : List Val) (a : Nat) (ha : a > 0)
    (o : List Bool) (c : Bool) (act : Nat) (out : List (Nat × Verdict)) (hl : Bool) :
    raise { stack := List.replicate j Val.junk ++ Val.frame (t0.length + 1) :: Val.marker :: s0,
            tries := l ++ a :: t0, outStack := o, capturing := c, active := act, out := out, halted := hl }
      = ({ stack := s0, tries := 0 :: t0, outStack := o, capturing := c, active := act, out := out, halted := hl }, a) := by
  have h1 := liveLen_append_live l t0 a ha
  have h2 := liveLen_le (l ++ a :: t0)
  unfold raise
  cases hn : liveLen (l ++ a :: t0) with
  | zero => omega
  | succ n =>
    have := unwind_to_own_handler j l t0 a ha s0 (n + 1) (by omega) (by omega) hn.symm
    simp only [this]

theorem block_err (name : Nat) (b : Body) (st : St) (h : st.halted = false)
    (hb : b.outcome = Outcome.assertFail ∨ b.outcome = Outcome.runtimeErr) :
    exec (blockCode name (some b)) 14 0 st = restored st name Verdict.FAIL := by
  obtain ⟨stack, tries, outStack, capturing, active, out, halted⟩ := st
  simp only at h
  subst h
  have hr := raise_from_body b.junk b.leak tries stack 10 (by omega) (false :: outStack) true (active + 1) out false
  rcases hb with hb | hb <;>
    simp [blockCode, exec, step, callTest, hb, restored, hr]

/-- `@fail`: TryFlush empties the try stack, nothing can catch the Signal, Run() returns the error
    and nothing more is printed -/
theorem block_atFail (name : Nat) (b : Body) (st : St) (h : st.halted = false) (hb : b.outcome = Outcome.atFail) :
    (exec (blockCode name (some b)) 14 0 st).halted = true ∧
    (exec (blockCode name (some b)) 14 0 st).out = st.out := by
  obtain ⟨stack, tries, outStack, capturing, active, out, halted⟩ := st
  simp only at h
  subst h
  simp [blockCode, exec, step, callTest, hb, raise, liveLen]

/-! ### the file: split at `@test`, compile, run -/

theorem collectBody_tokensOf (rest : List Block) : collectBody (tokensOf rest) = ([], tokensOf rest) := by
  cases rest with
  | nil => simp [tokensOf, collectBody]
  | cons b rest =>
    obtain ⟨name, body, brace⟩ := b
    match brace with
    | 0 => simp [tokensOf, Block.toks, collectBody]
    | 1 => simp [tokensOf, Block.toks, collectBody]
    | n + 2 => simp [tokensOf, Block.toks, collectBody]

theorem collectBody_block (b : Block) (rest : List Block) :
    collectBody (b.toks.tail ++ tokensOf rest) = (b.toks.tail, tokensOf rest) := by
  have h := collectBody_tokensOf rest
  obtain ⟨name, body, brace⟩ := b
  match brace with
  | 0 => simp [Block.toks, collectBody, h]
  | 1 => simp [Block.toks, collectBody, h]
  | n + 2 => simp [Block.toks, collectBody, h]

theorem toks_head (b : Block) : b.toks = Tok.test b.name :: b.toks.tail := by
  obtain ⟨name, body, brace⟩ := b
  match brace with
  | 0 => simp [Block.toks]
  | 1 => simp [Block.toks]
  | n + 2 => simp [Block.toks]

/-- the split finds every generated block, whatever its braces look like -/
theorem C13_split_every_test (blocks : List Block) (fuel : Nat) (hf : (tokensOf blocks).length ≤ fuel) :
    splitTests fuel (tokensOf blocks) = blocks.map fun b => (b.name, b.toks.tail) := by
  induction blocks generalizing fuel with
  | nil => cases fuel <;> simp [tokensOf, splitTests]
  | cons b rest ih =>
    have hcons : tokensOf (b :: rest) = Tok.test b.name :: (b.toks.tail ++ tokensOf rest) := by
      have := toks_head b
      simp only [tokensOf, List.flatMap_cons]
      rw [this]; simp
    rw [hcons] at hf ⊢
    cases fuel with
    | zero => simp at hf
    | succ f =>
      simp only [splitTests, collectBody_block, List.map_cons]
      rw [ih f (by simp at hf; omega)]

theorem compileBody_block (b : Block) :
    compileBody b.toks.tail = if b.eff = Outcome.compileErr then none else some b.body := by
  obtain ⟨name, body, brace⟩ := b
  match brace with
  | 0 => simp [Block.toks, compileBody, balanced, firstStmt, Block.eff]
  | 1 => simp [Block.toks, compileBody, balanced, Block.eff]
  | n + 2 => simp [Block.toks, compileBody, balanced, Block.eff]

theorem eff_body (b : Block) (h : b.eff ≠ Outcome.compileErr) : b.body.outcome = b.eff := by
  unfold Block.eff at h ⊢
  split <;> simp_all

theorem block_spec (b : Block) (st : St) (h : st.halted = false) :
    (b.eff = Outcome.atFail →
      (exec (compileBlock b.name b.toks.tail) ((compileBlock b.name b.toks.tail).length + 1) 0 st).halted = true ∧
      (exec (compileBlock b.name b.toks.tail) ((compileBlock b.name b.toks.tail).length + 1) 0 st).out = st.out) ∧
    (b.eff ≠ Outcome.atFail →
      exec (compileBlock b.name b.toks.tail) ((compileBlock b.name b.toks.tail).length + 1) 0 st
        = restored st b.name (verdict b).2) := by
  unfold compileBlock
  rw [compileBody_block]
  by_cases hc : b.eff = Outcome.compileErr
  · have hl : (blockCode b.name none).length + 1 = 13 := by simp [blockCode]
    rw [if_pos hc, hl]
    refine ⟨fun h' => (by rw [hc] at h'; cases h'), fun _ => ?_⟩
    rw [block_compileErr b.name st h]; simp [verdict, hc]
  · have hl : (blockCode b.name (some b.body)).length + 1 = 14 := by simp [blockCode]
    have hb := eff_body b hc
    rw [if_neg hc, hl]
    refine ⟨fun h' => block_atFail b.name b.body st h (hb.trans h'), fun h' => ?_⟩
    cases he : b.eff with
    | pass => rw [block_pass b.name b.body st h (hb.trans he)]; simp [verdict, he]
    | assertFail => rw [block_err b.name b.body st h (Or.inl (hb.trans he))]; simp [verdict, he]
    | runtimeErr => rw [block_err b.name b.body st h (Or.inr (hb.trans he))]; simp [verdict, he]
    | compileErr => exact absurd he hc
    | atFail => exact absurd he h'

/-- the blocks before the first one that runs `@fail` -/
def beforeFail (blocks : List Block) : List Block := blocks.takeWhile fun b => decide (b.eff ≠ Outcome.atFail)

/-- Invariant over ANY sequence of blocks and ANY starting state: the lines printed are the verdicts
    of the blocks before the first `@fail`; the run is stopped iff some block runs `@fail`; and if it
    is not, the value stack, try stack, output stack and active-test count are as at the start. -/
theorem C13_run_invariant (blocks : List Block) (st : St) (h : st.halted = false) :
    let r := runFile st (blocks.map fun b => compileBlock b.name b.toks.tail)
    r.out = st.out ++ (beforeFail blocks).map verdict ∧
    (r.halted = true ↔ ∃ b ∈ blocks, b.eff = Outcome.atFail) ∧
    (r.halted = false → r.stack = st.stack ∧ r.tries = st.tries ∧ r.outStack = st.outStack ∧ r.active = st.active) := by
  induction blocks generalizing st with
  | nil => simp [runFile, beforeFail, h]
  | cons b rest ih =>
    have hs := block_spec b st h
    simp only [List.map_cons, runFile]
    by_cases hf : b.eff = Outcome.atFail
    · obtain ⟨hh, ho⟩ := hs.1 hf
      simp only [hh, if_true]
      refine ⟨?_, ?_, ?_⟩
      · simp [ho, beforeFail, hf]
      · simp only [true_iff]; exact ⟨b, List.mem_cons_self, hf⟩
      · intro hcontra; simp at hcontra
    · have hr := hs.2 hf
      rw [hr]
      have hnh : (restored st b.name (verdict b).2).halted = false := rfl
      simp only [hnh]
      have := ih (restored st b.name (verdict b).2) hnh
      simp only at this
      obtain ⟨h1, h2, h3⟩ := this
      refine ⟨?_, ?_, ?_⟩
      · simp only [Bool.false_eq_true, if_false]
        rw [h1]; simp [restored, beforeFail, hf, verdict]
      · simp only [Bool.false_eq_true, if_false]
        rw [h2]; simp [hf]
      · simp only [Bool.false_eq_true, if_false]
        intro hh; have := h3 hh; simpa [restored] using this

theorem runTests_eq (blocks : List Block) :
    runTests blocks = runFile init (blocks.map fun b => compileBlock b.name b.toks.tail) := by
  unfold runTests compileFile
  rw [C13_split_every_test blocks _ (Nat.le_refl _), List.map_map]
  rfl

theorem takeWhile_all {α : Type} (p : α → Bool) (l : List α) (h : ∀ a ∈ l, p a = true) : l.takeWhile p = l := by
  induction l with
  | nil => rfl
  | cons a l ih =>
    have ha := h a List.mem_cons_self
    simp only [List.takeWhile_cons, ha, if_true]
    rw [ih (fun x hx => h x (List.mem_cons_of_mem a hx))]

/-- C13: every generated test file prints exactly the verdicts of the blocks before the first
    `@fail`, each once, in order -/
theorem C13_isolated (blocks : List Block) :
    (runTests blocks).out = (beforeFail blocks).map verdict := by
  have h := (C13_run_invariant blocks init rfl).1
  rw [runTests_eq]
  simpa [init] using h

/-- without an `@fail` every block is reported, and the run ends with all stacks empty again -/
theorem C13_all_reported (blocks : List Block) (hno : ∀ b ∈ blocks, b.eff ≠ Outcome.atFail) :
    (runTests blocks).out = blocks.map verdict ∧ (runTests blocks).halted = false ∧
    (runTests blocks).stack = [] ∧ (runTests blocks).tries = [] ∧ (runTests blocks).outStack = [] := by
  have hall : beforeFail blocks = blocks :=
    takeWhile_all _ blocks (fun b hb => by simpa using hno b hb)
  have hi := C13_isolated blocks
  rw [hall] at hi
  obtain ⟨_, h2, h3⟩ := C13_run_invariant blocks init rfl
  have hnh : (runTests blocks).halted = false := by
    rw [runTests_eq]
    cases hh : (runFile init (blocks.map fun b => compileBlock b.name b.toks.tail)).halted with
    | false => rfl
    | true => obtain ⟨b, hb, he⟩ := h2.1 hh; exact absurd he (hno b hb)
  refine ⟨hi, hnh, ?_⟩
  rw [runTests_eq] at hnh ⊢
  have := h3 hnh
  exact ⟨this.1, this.2.1, this.2.2.1⟩

/-- only an `@fail` stops the run -/
theorem C13_only_atFail_stops (blocks : List Block) :
    (runTests blocks).halted = true ↔ ∃ b ∈ blocks, b.eff = Outcome.atFail := by
  rw [runTests_eq]
  exact (C13_run_invariant blocks init rfl).2.1


/-- the per-block invariant, stated on its own: a block that does not run `@fail` gives back the
    value stack, the try stack, the output stack and the active-test count exactly as it found
    them (for ANY such state) and adds exactly its own line -/
theorem C13_block_restores (b : Block) (st : St) (h : st.halted = false) (hf : b.eff ≠ Outcome.atFail) :
    exec (compileBlock b.name b.toks.tail) ((compileBlock b.name b.toks.tail).length + 1) 0 st
      = { stack := st.stack, tries := st.tries, outStack := st.outStack, capturing := false,
          active := st.active, out := st.out ++ [verdict b], halted := false } := by
  rw [(block_spec b st h).2 hf]; rfl

/-! ### non-vacuity, and what the code did before fixes/C13.patch -/

def exBlocks : List Block :=
  [ { name := 1, body := { junk := 0, leak := [], outcome := Outcome.pass }, brace := 0 },
    { name := 2, body := { junk := 3, leak := [7, 0], outcome := Outcome.assertFail }, brace := 0 },
    { name := 3, body := { junk := 0, leak := [], outcome := Outcome.pass }, brace := 1 },
    { name := 4, body := { junk := 1, leak := [4], outcome := Outcome.runtimeErr }, brace := 0 },
    { name := 5, body := { junk := 0, leak := [], outcome := Outcome.compileErr }, brace := 2 },
    { name := 6, body := { junk := 2, leak := [9], outcome := Outcome.pass }, brace := 0 },
    { name := 7, body := { junk := 0, leak := [], outcome := Outcome.atFail }, brace := 0 },
    { name := 8, body := { junk := 0, leak := [], outcome := Outcome.pass }, brace := 0 } ]

example : (runTests exBlocks).out =
    [(1, Verdict.PASS), (2, Verdict.FAIL), (3, Verdict.FAIL), (4, Verdict.FAIL), (5, Verdict.FAIL), (6, Verdict.PASS)] := by
  rw [C13_isolated]; decide
example : (runTests exBlocks).halted = true := by decide
example : ∃ b ∈ exBlocks.take 6, b.eff ≠ Outcome.atFail ∧ b.body.leak ≠ [] := by decide

/-- before the fix: a body with a missing `}` swallows the `@test` that follows it -/
theorem C13_split_old_counterexample :
    (collectBodyOld 0 ([Tok.open, Tok.open, Tok.stmt ⟨0, [], Outcome.pass⟩, Tok.close] ++
        [Tok.test 2, Tok.open, Tok.stmt ⟨0, [], Outcome.pass⟩, Tok.close])).2 = [] := by decide

/-- handleCatch's unwind loop before the fix: no new search after a frame is popped; the handler
    address is the one of the entry chosen before the unwind (`try := c.tryStack[tryIndex]`) -/
def unwindOld : List Val → List Nat → Nat → Nat → Caught
  | [], _, _, _ => Caught.abort
  | Val.marker :: s, ts, n, addr => Caught.to addr s (0 :: (truncate ts n).tail)
  | Val.frame d :: s, ts, n, addr => unwindOld s (if ts.length > d then truncate ts d else ts) n addr
  | _ :: s, ts, n, addr => unwindOld s ts n addr

/-- before the fix: with a stale live entry (handler 5, left by `break` out of a try block) above
    the test's own entry (handler 10), control goes to the stale address 5 — in the main program's
    code, since the body's frame has been popped — instead of the test's own handler -/
theorem C13_stale_try_old_counterexample :
    unwindOld [Val.frame 1, Val.marker] [5, 10] 2 5 = Caught.to 5 [] [0] ∧
    unwind [Val.frame 1, Val.marker] [5, 10] 2 = Caught.to 10 [] [0] := by decide

/-- compileTestBody before the fix: BeginCapture only on the run path, no EndCapture in the handler -/
def blockCodeOld (name : Nat) (b : Body) : List Instr :=
  [Instr.console, Instr.pushTest, Instr.try_ 10, Instr.pushMarker, Instr.beginCapture, Instr.callTest b,
   Instr.endCapture, Instr.dropToMarker, Instr.report name Verdict.PASS 9, Instr.branch 11,
   Instr.report name Verdict.FAIL 11, Instr.tryPop]

/-- before the fix: the (FAIL) line of a test that fails at run time is printed into the capture
    buffer of the body and never reaches the console -/
theorem C13_fail_line_old_counterexample :
    (exec (blockCodeOld 1 ⟨0, [], Outcome.assertFail⟩) 13 0 init).out = [] ∧
    (exec (blockCode 1 (some ⟨0, [], Outcome.assertFail⟩)) 14 0 init).out = [(1, Verdict.FAIL)] := by decide

end EgoVerif.C13
