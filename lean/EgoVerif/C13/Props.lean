import EgoVerif.C13.Model
/-
C13 — `ego test` isolates each test.

Main theorem `C13_isolated`: for EVERY list of generated blocks (any order of the five outcomes, any
brace shape, bodies leaving any number of values and any try entries behind) the PASS/FAIL lines
printed are exactly the verdicts of the blocks before the first `@fail`, in order. The invariant
behind it is `C13_block_restores`: a block that does not run `@fail` leaves the value stack, the
try stack, the output stack and the active-test count exactly as it found them — for any starting
stacks — which is why the argument composes over any sequence (`C13_run_invariant`).
-/
namespace EgoVerif.C13

/-! ### try-stack arithmetic -/

theorem truncate_length (ts : List Nat) : truncate ts ts.length = ts := by
  simp [truncate]

theorem truncate_append (l t : List Nat) : truncate (l ++ t) t.length = t := by
  simp [truncate]

theorem liveLen_le (ts : List Nat) : liveLen ts ≤ ts.length := by
  induction ts with
  | nil => simp [liveLen]
  | cons a t ih => simp only [liveLen]; split <;> simp <;> omega

theorem liveLen_append_live (l t : List Nat) (a : Nat) (ha : a > 0) :
    t.length + 1 ≤ liveLen (l ++ a :: t) := by
  induction l with
  | nil => simp [liveLen, ha]
  | cons x l ih =>
    simp only [List.cons_append, liveLen]
    split
    · simp; omega
    · exact ih

theorem unwind_junk (j : Nat) (s : List Val) (ts : List Nat) (n : Nat) :
    unwind (List.replicate j Val.junk ++ s) ts n = unwind s ts n := by
  induction j with
  | zero => simp
  | succ j ih => simp [List.replicate_succ, unwind, ih]

theorem popFrame_junk (j : Nat) (d : Nat) (s : List Val) (ts : List Nat) :
    popFrame (List.replicate j Val.junk ++ Val.frame d :: s) ts =
      some (s, if ts.length > d then truncate ts d else ts) := by
  induction j with
  | zero => simp [popFrame]
  | succ j ih => simp [List.replicate_succ, popFrame, ih]

/-- callFramePop's truncation gives back the caller's try stack, whatever the body left on top -/
theorem frame_truncate (l t : List Nat) (a : Nat) :
    (if (l ++ a :: t).length > t.length + 1 then truncate (l ++ a :: t) (t.length + 1) else l ++ a :: t)
      = a :: t := by
  cases l with
  | nil => simp
  | cons x l =>
    have h : truncate ((x :: l) ++ a :: t) (a :: t).length = a :: t := truncate_append (x :: l) (a :: t)
    simp only [List.length_cons, List.cons_append] at h
    simp only [List.cons_append, List.length_cons, List.length_append, h]
    split
    · rfl
    · omega

/-- The heart of the guard: an error that leaves the body (value stack: `j` values, the CallTest
    frame, the test's marker; try stack: whatever the body leaked, then the test's own live entry)
    is delivered to the test's own handler, with both stacks cut back to the caller's. -/
theorem unwind_to_own_handler (j : Nat) (l t : List Nat) (a : Nat) (ha : a > 0) (s : List Val) (n : Nat)
    (hn1 : t.length + 1 ≤ n) (hn2 : n ≤ (l ++ a :: t).length) (hn3 : n = liveLen (l ++ a :: t)) :
    unwind (List.replicate j Val.junk ++ Val.frame (t.length + 1) :: Val.marker :: s) (l ++ a :: t) n
      = Caught.to a s (0 :: t) := by
  rw [unwind_junk]
  simp only [unwind]
  rw [frame_truncate]
  have hl : liveLen (a :: t) = t.length + 1 := by simp [liveLen, ha]
  have ht : truncate (a :: t) (t.length + 1) = a :: t := by
    have := truncate_length (a :: t); simpa using this
  by_cases h : n > (a :: t).length
  · simp only [h, if_true, hl, ht]
  · have : n = t.length + 1 := by simp at h; omega
    subst this
    simp only [h, if_false, ht]

theorem unwind_marker (a : Nat) (t : List Nat) (s : List Val) :
    unwind (Val.marker :: s) (a :: t) (t.length + 1) = Caught.to a s (0 :: t) := by
  have ht : truncate (a :: t) (t.length + 1) = a :: t := by
    have := truncate_length (a :: t); simpa using this
  simp only [unwind, ht]

/-! ### one block -/

/-- the state after a block that reported `v`: everything as before, one more line -/
def restored (st : St) (name : Nat) (v : Verdict) : St :=
  { stack := st.stack, tries := st.tries, outStack := st.outStack, capturing := false,
    active := st.active, out := st.out ++ [(name, v)], halted := false }

theorem block_compileErr (name : Nat) (st : St) (h : st.halted = false) :
    exec (blockCode name none) 13 0 st = restored st name Verdict.FAIL := by
  simp [blockCode, exec, step, raise, liveLen, unwind_marker, restored, h]


theorem frame_truncate' (l t : List Nat) (a : Nat) :
    (if 0 < l.length then truncate (l ++ a :: t) (t.length + 1) else l ++ a :: t) = a :: t := by
  cases l with
  | nil => simp
  | cons x l =>
    have h : truncate ((x :: l) ++ a :: t) (a :: t).length = a :: t := truncate_append (x :: l) (a :: t)
    simp only [List.length_cons, List.cons_append] at h
    simp [h]

theorem block_pass (name : Nat) (b : Body) (st : St) (h : st.halted = false) (hb : b.outcome = Outcome.pass) :
    exec (blockCode name (some b)) 14 0 st = restored st name Verdict.PASS := by
  obtain ⟨stack, tries, outStack, capturing, active, out, halted⟩ := st
  simp only at h
  subst h
  have hf := frame_truncate' b.leak tries 10
  simp [blockCode, exec, step, callTest, hb, popFrame_junk, dropToMarker, restored, hf]

/-- raising out of the body: handleCatch on the state `callTest` builds -/
theorem raise_from_body (j : Nat) (l t0 : List Nat) (s0 : List Val) (a : Nat) (ha : a > 0)
    (o : List Bool) (c : Bool) (act : Nat) (out : List (Nat × Verdict)) (hl : Bool) :
    raise { stack := List.replicate j Val.junk ++ Val.frame (t0.length + 1) :: Val.marker :: s0,
            tries := l ++ a :: t0, outStack := o, capturing := c, active := act, out := out, halted := hl }
      = ({ stack := s0, tries := 0 :: t0, outStack := o, capturing := c, active := act, out := out, halted := hl }, a) := by
  have h1 := liveLen_append_live l t0 a ha
  have h2 := liveLen_le (l ++ a :: t0)
  unfold raise
  cases hn : liveLen (l ++ a :: t0) with
  | zero => omega
  | succ n =>
    have := unwind_to_own_handler j l t0 a ha s0 (n + 1) (by omega) (by omega) hn.symm
    simp only [this]

theorem block_err (name : Nat) (b : Body) (st : St) (h : st.halted = false)
    (hb : b.outcome = Outcome.assertFail ∨ b.outcome = Outcome.runtimeErr) :
    exec (blockCode name (some b)) 14 0 st = restored st name Verdict.FAIL := by
  obtain ⟨stack, tries, outStack, capturing, active, out, halted⟩ := st
  simp only at h
  subst h
  have hr := raise_from_body b.junk b.leak tries stack 10 (by omega) (false :: outStack) true (active + 1) out false
  rcases hb with hb | hb <;>
    simp [blockCode, exec, step, callTest, hb, restored, hr]

/-- `@fail`: TryFlush empties the try stack, nothing can catch the Signal, Run() returns the error
    and nothing more is printed -/
theorem block_atFail (name : Nat) (b : Body) (st : St) (h : st.halted = false) (hb : b.outcome = Outcome.atFail) :
    (exec (blockCode name (some b)) 14 0 st).halted = true ∧
    (exec (blockCode name (some b)) 14 0 st).out = st.out := by
  obtain ⟨stack, tries, outStack, capturing, active, out, halted⟩ := st
  simp only at h
  subst h
  simp [blockCode, exec, step, callTest, hb, raise, liveLen]

/-! ### the file: split at `@test`, compile, run -/

theorem collectBody_tokensOf (rest : List Block) : collectBody (tokensOf rest) = ([], tokensOf rest) := by
  cases rest with
  | nil => simp [tokensOf, collectBody, collect]
  | cons b rest => simp [tokensOf, Block.toks, collectBody, collect]

/-- no generated block carries the marker of a directive whose marker is missing -/
theorem hasMark_tokensOf (k : Nat) (rest : List Block) : hasMark (2 * k) (tokensOf rest) = false := by
  induction rest with
  | nil => simp [tokensOf, hasMark]
  | cons b rest ih =>
    have ih' : hasMark (2 * k) (List.flatMap Block.toks rest) = false := ih
    have hne : (2 * b.name + 1 == 2 * k) = false := by
      simp only [beq_eq_false_iff_ne, ne_eq]; omega
    obtain ⟨name, body, brace⟩ := b
    match brace with
    | 0 | 1 | 2 | 3 | 4 | 6 => simp [tokensOf, Block.toks, hasMark, ih']
    | 5 => simpa [tokensOf, Block.toks, hasMark, ih'] using hne
    | n + 7 => simpa [tokensOf, Block.toks, hasMark, ih'] using hne

theorem collectBody_block (b : Block) (rest : List Block) :
    collectBody (b.toks.tail ++ tokensOf rest) = (b.toks.tail, tokensOf rest) := by
  have h : collect none (tokensOf rest) = ([], tokensOf rest) := collectBody_tokensOf rest
  have hm := hasMark_tokensOf b.name rest
  obtain ⟨name, body, brace⟩ := b
  match brace with
  | 0 | 1 | 2 | 3 => simp [Block.toks, collectBody, collect, h]
  | 4 | 6 => simp [Block.toks, collectBody, collect, hasMark, h, hm]
  | 5 => simp [Block.toks, collectBody, collect, hasMark, h]
  | n + 7 => simp [Block.toks, collectBody, collect, hasMark, h]

theorem toks_head (b : Block) : b.toks = Tok.test b.name :: b.toks.tail := by
  simp [Block.toks]

/-- the split finds every generated block, whatever its braces look like -/
theorem C13_split_every_test (blocks : List Block) (fuel : Nat) (hf : (tokensOf blocks).length ≤ fuel) :
    splitTests fuel (tokensOf blocks) = blocks.map fun b => (b.name, b.toks.tail) := by
  induction blocks generalizing fuel with
  | nil => cases fuel <;> simp [tokensOf, splitTests]
  | cons b rest ih =>
    have hcons : tokensOf (b :: rest) = Tok.test b.name :: (b.toks.tail ++ tokensOf rest) := by
      have := toks_head b
      simp only [tokensOf, List.flatMap_cons]
      rw [this]; simp
    rw [hcons] at hf ⊢
    cases fuel with
    | zero => simp at hf
    | succ f =>
      simp only [splitTests, collectBody_block, List.map_cons]
      rw [ih f (by simp at hf; omega)]

theorem compileBody_block (b : Block) :
    compileBody b.toks.tail = if b.eff = Outcome.compileErr then none else some b.body := by
  obtain ⟨name, body, brace⟩ := b
  match brace with
  | 0 | 3 | 5 => simp [Block.toks, compileBody, stripSpans, balanced, firstStmt, Block.eff, Block.damaged]
  | 1 | 2 | 4 | 6 => simp [Block.toks, compileBody, stripSpans, balanced, Block.eff, Block.damaged]
  | n + 7 => simp [Block.toks, compileBody, stripSpans, balanced, firstStmt, Block.eff, Block.damaged]

theorem eff_body (b : Block) (h : b.eff ≠ Outcome.compileErr) : b.body.outcome = b.eff := by
  unfold Block.eff at h ⊢
  split <;> simp_all

theorem block_spec (b : Block) (st : St) (h : st.halted = false) :
    (b.eff = Outcome.atFail →
      (exec (compileBlock b.name b.toks.tail) ((compileBlock b.name b.toks.tail).length + 1) 0 st).halted = true ∧
      (exec (compileBlock b.name b.toks.tail) ((compileBlock b.name b.toks.tail).length + 1) 0 st).out = st.out) ∧
    (b.eff ≠ Outcome.atFail →
      exec (compileBlock b.name b.toks.tail) ((compileBlock b.name b.toks.tail).length + 1) 0 st
        = restored st b.name (verdict b).2) := by
  unfold compileBlock
  rw [compileBody_block]
  by_cases hc : b.eff = Outcome.compileErr
  · have hl : (blockCode b.name none).length + 1 = 13 := by simp [blockCode]
    rw [if_pos hc, hl]
    refine ⟨fun h' => (by rw [hc] at h'; cases h'), fun _ => ?_⟩
    rw [block_compileErr b.name st h]; simp [verdict, hc]
  · have hl : (blockCode b.name (some b.body)).length + 1 = 14 := by simp [blockCode]
    have hb := eff_body b hc
    rw [if_neg hc, hl]
    refine ⟨fun h' => block_atFail b.name b.body st h (hb.trans h'), fun h' => ?_⟩
    cases he : b.eff with
    | pass => rw [block_pass b.name b.body st h (hb.trans he)]; simp [verdict, he]
    | assertFail => rw [block_err b.name b.body st h (Or.inl (hb.trans he))]; simp [verdict, he]
    | runtimeErr => rw [block_err b.name b.body st h (Or.inr (hb.trans he))]; simp [verdict, he]
    | compileErr => exact absurd he hc
    | atFail => exact absurd he h'

/-- the blocks before the first one that runs `@fail` -/
def beforeFail (blocks : List Block) : List Block := blocks.takeWhile fun b => decide (b.eff ≠ Outcome.atFail)

/-- Invariant over ANY sequence of blocks and ANY starting state: the lines printed are the verdicts
    of the blocks before the first `@fail`; the run is stopped iff some block runs `@fail`; and if it
    is not, the value stack, try stack, output stack and active-test count are as at the start. -/
theorem C13_run_invariant (blocks : List Block) (st : St) (h : st.halted = false) :
    let r := runFile st (blocks.map fun b => compileBlock b.name b.toks.tail)
    r.out = st.out ++ (beforeFail blocks).map verdict ∧
    (r.halted = true ↔ ∃ b ∈ blocks, b.eff = Outcome.atFail) ∧
    (r.halted = false → r.stack = st.stack ∧ r.tries = st.tries ∧ r.outStack = st.outStack ∧ r.active = st.active) := by
  induction blocks generalizing st with
  | nil => simp [runFile, beforeFail, h]
  | cons b rest ih =>
    have hs := block_spec b st h
    simp only [List.map_cons, runFile]
    by_cases hf : b.eff = Outcome.atFail
    · obtain ⟨hh, ho⟩ := hs.1 hf
      simp only [hh, if_true]
      refine ⟨?_, ?_, ?_⟩
      · simp [ho, beforeFail, hf]
      · simp only [true_iff]; exact ⟨b, List.mem_cons_self, hf⟩
      · intro hcontra; simp at hcontra
    · have hr := hs.2 hf
      rw [hr]
      have hnh : (restored st b.name (verdict b).2).halted = false := rfl
      simp only [hnh]
      have := ih (restored st b.name (verdict b).2) hnh
      simp only at this
      obtain ⟨h1, h2, h3⟩ := this
      refine ⟨?_, ?_, ?_⟩
      · simp only [Bool.false_eq_true, if_false]
        rw [h1]; simp [restored, beforeFail, hf, verdict]
      · simp only [Bool.false_eq_true, if_false]
        rw [h2]; simp [hf]
      · simp only [Bool.false_eq_true, if_false]
        intro hh; have := h3 hh; simpa [restored] using this

theorem runTests_eq (blocks : List Block) :
    runTests blocks = runFile init (blocks.map fun b => compileBlock b.name b.toks.tail) := by
  unfold runTests compileFile
  rw [C13_split_every_test blocks _ (Nat.le_refl _), List.map_map]
  rfl

theorem takeWhile_all {α : Type} (p : α → Bool) (l : List α) (h : ∀ a ∈ l, p a = true) : l.takeWhile p = l := by
  induction l with
  | nil => rfl
  | cons a l ih =>
    have ha := h a List.mem_cons_self
    simp only [List.takeWhile_cons, ha, if_true]
    rw [ih (fun x hx => h x (List.mem_cons_of_mem a hx))]

/-- C13: every generated test file prints exactly the verdicts of the blocks before the first
    `@fail`, each once, in order -/
theorem C13_isolated (blocks : List Block) :
    (runTests blocks).out = (beforeFail blocks).map verdict := by
  have h := (C13_run_invariant blocks init rfl).1
  rw [runTests_eq]
  simpa [init] using h

/-- without an `@fail` every block is reported, and the run ends with all stacks empty again -/
theorem C13_all_reported (blocks : List Block) (hno : ∀ b ∈ blocks, b.eff ≠ Outcome.atFail) :
    (runTests blocks).out = blocks.map verdict ∧ (runTests blocks).halted = false ∧
    (runTests blocks).stack = [] ∧ (runTests blocks).tries = [] ∧ (runTests blocks).outStack = [] := by
  have hall : beforeFail blocks = blocks :=
    takeWhile_all _ blocks (fun b hb => by simpa using hno b hb)
  have hi := C13_isolated blocks
  rw [hall] at hi
  obtain ⟨_, h2, h3⟩ := C13_run_invariant blocks init rfl
  have hnh : (runTests blocks).halted = false := by
    rw [runTests_eq]
    cases hh : (runFile init (blocks.map fun b => compileBlock b.name b.toks.tail)).halted with
    | false => rfl
    | true => obtain ⟨b, hb, he⟩ := h2.1 hh; exact absurd he (hno b hb)
  refine ⟨hi, hnh, ?_⟩
  rw [runTests_eq] at hnh ⊢
  have := h3 hnh
  exact ⟨this.1, this.2.1, this.2.2.1⟩

/-- only an `@fail` stops the run -/
theorem C13_only_atFail_stops (blocks : List Block) :
    (runTests blocks).halted = true ↔ ∃ b ∈ blocks, b.eff = Outcome.atFail := by
  rw [runTests_eq]
  exact (C13_run_invariant blocks init rfl).2.1


/-- the per-block invariant, stated on its own: a block that does not run `@fail` gives back the
    value stack, the try stack, the output stack and the active-test count exactly as it found
    them (for ANY such state) and adds exactly its own line -/
theorem C13_block_restores (b : Block) (st : St) (h : st.halted = false) (hf : b.eff ≠ Outcome.atFail) :
    exec (compileBlock b.name b.toks.tail) ((compileBlock b.name b.toks.tail).length + 1) 0 st
      = { stack := st.stack, tries := st.tries, outStack := st.outStack, capturing := false,
          active := st.active, out := st.out ++ [verdict b], halted := false } := by
  rw [(block_spec b st h).2 hf]; rfl

/-! ### non-vacuity, and what the code did before fixes/C13.patch -/

def exBlocks : List Block :=
  [ { name := 1, body := { junk := 0, leak := [], outcome := Outcome.pass }, brace := 0 },
    { name := 2, body := { junk := 3, leak := [7, 0], outcome := Outcome.assertFail }, brace := 0 },
    { name := 3, body := { junk := 0, leak := [], outcome := Outcome.pass }, brace := 1 },
    { name := 4, body := { junk := 1, leak := [4], outcome := Outcome.runtimeErr }, brace := 0 },
    { name := 5, body := { junk := 0, leak := [], outcome := Outcome.compileErr }, brace := 2 },
    { name := 6, body := { junk := 2, leak := [9], outcome := Outcome.pass }, brace := 0 },
    { name := 7, body := { junk := 0, leak := [], outcome := Outcome.atFail }, brace := 0 },
    { name := 8, body := { junk := 0, leak := [], outcome := Outcome.pass }, brace := 0 } ]

example : (runTests exBlocks).out =
    [(1, Verdict.PASS), (2, Verdict.FAIL), (3, Verdict.FAIL), (4, Verdict.FAIL), (5, Verdict.FAIL), (6, Verdict.PASS)] := by
  rw [C13_isolated]; decide
example : (runTests exBlocks).halted = true := by decide
example : ∃ b ∈ exBlocks.take 6, b.eff ≠ Outcome.atFail ∧ b.body.leak ≠ [] := by decide

/-- before the fix: a body with a missing `}` swallows the `@test` that follows it -/
theorem C13_split_old_counterexample :
    (collectBodyOld 0 ([Tok.open, Tok.open, Tok.stmt ⟨0, [], Outcome.pass⟩, Tok.close] ++
        [Tok.test 2, Tok.open, Tok.stmt ⟨0, [], Outcome.pass⟩, Tok.close])).2 = [] := by decide

/-- handleCatch's unwind loop before the fix: no new search after a frame is popped; the handler
    address is the one of the entry chosen before the unwind (`try := c.tryStack[tryIndex]`) -/
def unwindOld : List Val → List Nat → Nat → Nat → Caught
  | [], _, _, _ => Caught.abort
  | Val.marker :: s, ts, n, addr => Caught.to addr s (0 :: (truncate ts n).tail)
  | Val.frame d :: s, ts, n, addr => unwindOld s (if ts.length > d then truncate ts d else ts) n addr
  | _ :: s, ts, n, addr => unwindOld s ts n addr

/-- before the fix: with a stale live entry (handler 5, left by `break` out of a try block) above
    the test's own entry (handler 10), control goes to the stale address 5 — in the main program's
    code, since the body's frame has been popped — instead of the test's own handler -/
theorem C13_stale_try_old_counterexample :
    unwindOld [Val.frame 1, Val.marker] [5, 10] 2 5 = Caught.to 5 [] [0] ∧
    unwind [Val.frame 1, Val.marker] [5, 10] 2 = Caught.to 10 [] [0] := by decide

/-- compileTestBody before the fix: BeginCapture only on the run path, no EndCapture in the handler -/
def blockCodeOld (name : Nat) (b : Body) : List Instr :=
  [Instr.console, Instr.pushTest, Instr.try_ 10, Instr.pushMarker, Instr.beginCapture, Instr.callTest b,
   Instr.endCapture, Instr.dropToMarker, Instr.report name Verdict.PASS 9, Instr.branch 11,
   Instr.report name Verdict.FAIL 11, Instr.tryPop]

/-- before the fix: the (FAIL) line of a test that fails at run time is printed into the capture
    buffer of the body and never reaches the console -/
theorem C13_fail_line_old_counterexample :
    (exec (blockCodeOld 1 ⟨0, [], Outcome.assertFail⟩) 13 0 init).out = [] ∧
    (exec (blockCode 1 (some ⟨0, [], Outcome.assertFail⟩)) 14 0 init).out = [(1, Verdict.FAIL)] := by decide

/-! ### `return` out of an `@capture` block (fixes/C13-4.patch, callframe.go)

With the fix callFramePop cuts c.outputStack back to the depth recorded in the frame (as it does for the
try stack), so whatever BeginCapture a body or a function it calls leaves open is closed when the frame
is popped: at the big-step level of `callTest` a body cannot change `outStack` / `capturing`, which is
what the model says. Before the fix the frame pop gave back the value and try stacks only. -/

/-- `n` BeginCapture instructions whose EndCapture is never reached (`return` inside `@capture … { }`) -/
def beginN : Nat → St → St
  | 0, st => st
  | n + 1, st => beginN n (step Instr.beginCapture 0 st).1

/-- one block before the fix, for a body that leaves `caps` @capture blocks open: the skeleton up to
    CallTest, the body (the open captures survive the frame pop / the unwind), the rest of the skeleton -/
def runBlockCapsOld (name : Nat) (caps : Nat) (b : Body) : St :=
  let code := blockCode name (some b)
  let r := callTest b 5 (beginN caps (exec (code.take 5) 6 0 init))
  exec code 14 r.2 r.1

/-- before the fix: the skeleton's EndCapture closes the body's abandoned @capture instead of its own
    BeginCapture, so the test's own (PASS) / (FAIL) line is printed into the skeleton's capture buffer and
    never reaches the console; with no open capture (and with the fix, for any body) the line is printed.
    The next block starts with `Console false`, which is why later tests are still reported. -/
theorem C13_capture_return_old_counterexample :
    (runBlockCapsOld 1 1 ⟨1, [7], Outcome.pass⟩).out = [] ∧
    (runBlockCapsOld 1 1 ⟨0, [], Outcome.assertFail⟩).out = [] ∧
    (runBlockCapsOld 1 2 ⟨0, [], Outcome.runtimeErr⟩).out = [] ∧
    (runBlockCapsOld 1 1 ⟨1, [7], Outcome.pass⟩).outStack = [false] ∧
    (runBlockCapsOld 1 0 ⟨1, [7], Outcome.pass⟩).out = [(1, Verdict.PASS)] ∧
    (runBlockCapsOld 1 0 ⟨1, [7], Outcome.pass⟩) = exec (blockCode 1 (some ⟨1, [7], Outcome.pass⟩)) 14 0 init ∧
    (exec (blockCode 1 (some ⟨0, [], Outcome.assertFail⟩)) 14 0 init).out = [(1, Verdict.FAIL)] := by decide


/-! ### `@compile eof=` spans at the split (fixes/C13-3.patch) -/

/-- a directive whose marker is nowhere in the rest of the file does not change where the body ends:
    the body is collected exactly as if the directive were an ordinary token -/
theorem C13_eof_missing_marker_plain (m : Nat) (rest : List Tok) (h : hasMark m rest = false) :
    collectBody (Tok.eofOpen m :: rest) = ((Tok.eofOpen m :: (collectBody rest).1), (collectBody rest).2) := by
  simp [collectBody, collect, h]

/-- outside a span every `@test` is a boundary: a body never reaches past an `@test` unless an
    `@compile eof=` directive of the body has its marker beyond it -/
theorem C13_eof_no_span_stops_at_test (pre : List Tok) (n : Nat) (rest : List Tok)
    (hp : ∀ t ∈ pre, (∀ k, t ≠ Tok.test k) ∧ (∀ m, t ≠ Tok.eofOpen m)) :
    collectBody (pre ++ Tok.test n :: rest) = (pre, Tok.test n :: rest) := by
  induction pre with
  | nil => simp [collectBody, collect]
  | cons t pre ih =>
    have ih' := ih (fun t' ht' => hp t' (List.mem_cons_of_mem _ ht'))
    have ht := hp t (List.mem_cons_self)
    unfold collectBody at ih' ⊢
    cases t with
    | test k => exact absurd rfl (ht.1 k)
    | eofOpen m => exact absurd rfl (ht.2 m)
    | «open» => simp [collect, ih']
    | close => simp [collect, ih']
    | stmt b => simp [collect, ih']
    | eofMark k => simp [collect, ih']

example : hasMark 4 [Tok.stmt ⟨0, [], Outcome.pass⟩, Tok.close, Tok.test 3, Tok.open, Tok.close] = false := by decide

/-- before fixes/C13-3.patch: an `@compile eof=` directive whose marker is missing swallows every test
    after it (with the fix the second test is still there) -/
theorem C13_eof_marker_old_counterexample :
    (collectEofOld none ([Tok.open, Tok.eofOpen 4, Tok.stmt ⟨0, [], Outcome.pass⟩, Tok.close] ++
        [Tok.test 3, Tok.open, Tok.stmt ⟨0, [], Outcome.pass⟩, Tok.close])).2 = [] ∧
    (collectBody ([Tok.open, Tok.eofOpen 4, Tok.stmt ⟨0, [], Outcome.pass⟩, Tok.close] ++
        [Tok.test 3, Tok.open, Tok.stmt ⟨0, [], Outcome.pass⟩, Tok.close])).2
      = [Tok.test 3, Tok.open, Tok.stmt ⟨0, [], Outcome.pass⟩, Tok.close] := by decide

/-- the new shapes are exercised: bare statements, a missing marker, an unbalanced span that ends at its marker -/
def exBlocks2 : List Block :=
  [ { name := 1, body := { junk := 0, leak := [], outcome := Outcome.pass }, brace := 3 },
    { name := 2, body := { junk := 0, leak := [], outcome := Outcome.pass }, brace := 4 },
    { name := 3, body := { junk := 1, leak := [7], outcome := Outcome.runtimeErr }, brace := 3 },
    { name := 4, body := { junk := 0, leak := [], outcome := Outcome.pass }, brace := 6 },
    { name := 5, body := { junk := 0, leak := [], outcome := Outcome.pass }, brace := 5 },
    { name := 6, body := { junk := 0, leak := [], outcome := Outcome.assertFail }, brace := 7 },
    { name := 7, body := { junk := 0, leak := [], outcome := Outcome.pass }, brace := 0 } ]

example : (runTests exBlocks2).out =
    [(1, Verdict.PASS), (2, Verdict.FAIL), (3, Verdict.FAIL), (4, Verdict.FAIL), (5, Verdict.PASS), (6, Verdict.FAIL),
     (7, Verdict.PASS)] := by
  rw [C13_isolated]; decide

/-! ### the file scope shared with the clones (fixes/C13-2.patch) -/

theorem any_define (u : Usage) (n k : Nat) (h : u.any (fun p => p.1 == k) = true) :
    (define u n).any (fun p => p.1 == k) = true := by
  unfold define; split <;> simp_all

theorem any_reference (u : Usage) (n k : Nat) :
    (reference u n).any (fun p => p.1 == k) = u.any (fun p => p.1 == k) := by
  unfold reference
  induction u with
  | nil => simp
  | cons p u ih => by_cases hp : p.1 = n <;> simp_all

/-- the invariant of compiling a body: a name that is "not read yet" and was not so before the body
    is a name the scope did not hold before the body; names are never removed -/
theorem applyEvs_inv (u0 : Usage) (evs : List ScopeEv) (u : Usage)
    (h1 : ∀ p ∈ u, p.2 = true → u0.any (fun q => q.1 == p.1) = false)
    (h2 : ∀ q ∈ u0, u.any (fun p => p.1 == q.1) = true) :
    ∀ p ∈ applyEvs u evs, p.2 = true → u0.any (fun q => q.1 == p.1) = false := by
  induction evs generalizing u with
  | nil => simpa [applyEvs] using h1
  | cons e evs ih =>
    cases e with
    | decl n =>
      apply ih (define u n)
      · intro p hp hpt
        unfold define at hp
        split at hp
        · exact h1 p hp hpt
        · rename_i hn
          rcases List.mem_cons.1 hp with rfl | hp
          · cases hq : u0.any (fun q => q.1 == n) with
            | false => simp
            | true =>
              obtain ⟨q, hq1, hq2⟩ := List.any_eq_true.1 hq
              have := h2 q hq1
              have hqn : q.1 = n := by simpa using hq2
              rw [hqn] at this
              exact absurd this hn
          · exact h1 p hp hpt
      · intro q hq; exact any_define u n q.1 (h2 q hq)
    | use n =>
      apply ih (reference u n)
      · intro p hp hpt
        unfold reference at hp
        obtain ⟨p', hp', rfl⟩ := List.mem_map.1 hp
        by_cases hn : p'.1 = n
        · simp [hn] at hpt
        · simp only [hn, if_false] at hpt ⊢; exact h1 p' hp' hpt
      · intro q hq; rw [any_reference]; exact h2 q hq

/-- a body that fails to compile cannot make the FILE fail to compile: whatever it declared and
    read before it stopped, the scope it leaves behind has no unread name if it had none before
    (so the unused-variable check at the end of the file cannot take the other tests down with it) -/
theorem C13_failed_body_keeps_file_compiling (u : Usage) (evs : List ScopeEv) (h : fileCompiles u = true) :
    fileCompiles (afterBody u evs true) = true := by
  have inv := applyEvs_inv u evs u
    (fun p hp hpt => by
      have := (List.all_eq_true.1 h) p hp
      simp [hpt] at this)
    (fun q hq => List.any_eq_true.2 ⟨q, hq, by simp⟩)
  unfold fileCompiles afterBody
  simp only [if_true]
  apply List.all_eq_true.2
  intro p hp
  obtain ⟨hp1, hp2⟩ := List.mem_filter.1 hp
  cases hpt : p.2 with
  | false => rfl
  | true => rw [inv p hp1 hpt] at hp2; cases hp2

/-- the names of the scope and what is known about them before the body are still there afterwards
    (the repair removes only what the failed body added) -/
example : afterBody [(9, false)] [ScopeEv.decl 5, ScopeEv.use 9, ScopeEv.decl 6, ScopeEv.use 6] true = [(9, false)] := by decide
example : afterBody [(9, false)] [ScopeEv.decl 5, ScopeEv.use 5] false = [(5, false), (9, false)] := by decide

/-- before fixes/C13-2.patch: `y := 5` followed by a statement that does not compile, written without
    braces after `@test`, leaves `y` unread in the file scope: the file does not compile, no test runs -/
theorem C13_scope_leak_old_counterexample :
    fileCompiles [] = true ∧ fileCompiles (afterBodyOld [] [ScopeEv.decl 5] true) = false ∧
    fileCompiles (afterBody [] [ScopeEv.decl 5] true) = true := by decide

end EgoVerif.C13
