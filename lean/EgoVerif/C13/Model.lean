/-
C13 — model of the per-test guard of `ego test` (core Lean only).

Go sources mirrored (with fixes/C13.patch, fixes/C13-2.patch and fixes/C13-3.patch applied):
  internal/language/compiler/testing.go   testDirective, collectTestBodyTokens, collectVerbatimUntilMarker,
                                          compileTestBody, emitTestPass, emitTestFail, Fail (@fail)
  internal/language/compiler/directives.go compileBlockDirective / collectTokensUntilEOFMarker (the eof= span)
  internal/language/compiler/symbols.go   DefineSymbol / ReferenceSymbol / the file scope's usage map (`Scope` section)
  internal/language/bytecode/try.go       tryByteCode, tryPopByteCode, tryFlushByteCode
  internal/language/bytecode/catch.go     handleCatch (search from the top, unwind to the "try" marker)
  internal/language/bytecode/callframe.go callFramePush (tryDepth) / callFramePop (try stack truncation)
  internal/language/bytecode/return.go    returnByteCode (void return discards the callee's values)
  internal/language/bytecode/capture.go   beginCaptureByteCode / endCaptureByteCode
  internal/language/bytecode/test.go      pushTestByteCode / popTestByteCode
  internal/language/bytecode/logging.go   consoleByteCode / sayByteCode

Abstractions: a test body is run big-step (`Body`: how many values and which try entries it leaves
behind, and how it ends); addresses are relative to the block (every address `compileTestBody`
patches points inside the code it emitted itself); every try entry catches every error (selective
catch sets only occur inside bodies); the text of a line is reduced to (test name, verdict).
-/
namespace EgoVerif.C13

/-! ## source level: tokens and the split at `@test` (collectTestBodyTokens) -/

inductive Outcome | pass | assertFail | runtimeErr | compileErr | atFail
  deriving Repr, DecidableEq

/-- what a (compiled) body does when called through `CallTest`: it leaves `junk` values and the try
    entries `leak` (handler address, 0 = spent) behind and then returns, raises or runs `@fail`. -/
structure Body where
  junk : Nat
  leak : List Nat
  outcome : Outcome
  deriving Repr, DecidableEq

inductive Tok
  | test (name : Nat)        -- the two tokens `@` `test` and the description
  | open                     -- `{`
  | close                    -- `}`
  | stmt (b : Body)          -- the statements of a body (one token per generated body)
  | eofOpen (m : Nat)        -- `@compile … eof="m"` up to the `;` that ends the directive line
  | eofMark (m : Nat)        -- the tokens that spell the marker text `m`
  deriving Repr, DecidableEq

/-- does the marker `m` appear in the rest of the stream (collectVerbatimUntilMarker returns true) -/
def hasMark (m : Nat) : List Tok → Bool
  | [] => false
  | Tok.eofMark k :: r => k == m || hasMark m r
  | _ :: r => hasMark m r

/-- collectTestBodyTokens (fixed) as a state machine; the state is `some m` while
    collectVerbatimUntilMarker copies the span of an `@compile eof="m"` directive (nothing in the span
    is a boundary, braces are not looked at) and `none` otherwise (every `@test` is a boundary,
    whatever the brace depth). fixes/C13-3.patch: a directive whose marker never appears is copied as
    plain tokens (the tokenizer is set back to the directive), so it ends at the next `@test` like any
    other body. Returns the body tokens and the rest of the stream (which starts at the next `@test`). -/
def collect : Option Nat → List Tok → List Tok × List Tok
  | _, [] => ([], [])
  | some m, Tok.eofMark k :: rest =>
      let (b, r) := collect (if k = m then none else some m) rest; (Tok.eofMark k :: b, r)
  | some m, t :: rest => let (b, r) := collect (some m) rest; (t :: b, r)
  | none, Tok.test n :: rest => ([], Tok.test n :: rest)
  | none, Tok.eofOpen m :: rest =>
      let (b, r) := collect (if hasMark m rest then some m else none) rest; (Tok.eofOpen m :: b, r)
  | none, t :: rest => let (b, r) := collect none rest; (t :: b, r)

def collectBody (ts : List Tok) : List Tok × List Tok := collect none ts

/-- collectTestBodyTokens before fixes/C13-3.patch: the span of an `@compile eof="m"` directive is
    copied up to the marker or, if the marker is missing, up to the end of the file. -/
def collectEofOld : Option Nat → List Tok → List Tok × List Tok
  | _, [] => ([], [])
  | some m, Tok.eofMark k :: rest =>
      let (b, r) := collectEofOld (if k = m then none else some m) rest; (Tok.eofMark k :: b, r)
  | some m, t :: rest => let (b, r) := collectEofOld (some m) rest; (t :: b, r)
  | none, Tok.test n :: rest => ([], Tok.test n :: rest)
  | none, Tok.eofOpen m :: rest => let (b, r) := collectEofOld (some m) rest; (Tok.eofOpen m :: b, r)
  | none, t :: rest => let (b, r) := collectEofOld none rest; (t :: b, r)

/-- collectTestBodyTokens as it was before the fix: only an `@test` at brace depth 0 is a boundary
    (`depth` is an `Int`: an extra `}` drives it to -1 and it never returns to 0). -/
def collectBodyOld : Int → List Tok → List Tok × List Tok
  | _, [] => ([], [])
  | d, Tok.test n :: rest =>
      if d = 0 then ([], Tok.test n :: rest)
      else let (b, r) := collectBodyOld d rest; (Tok.test n :: b, r)
  | d, Tok.open :: rest => let (b, r) := collectBodyOld (d + 1) rest; (Tok.open :: b, r)
  | d, Tok.close :: rest => let (b, r) := collectBodyOld (d - 1) rest; (Tok.close :: b, r)
  | d, t :: rest => let (b, r) := collectBodyOld d rest; (t :: b, r)

theorem collect_rest_le (md : Option Nat) (ts : List Tok) : (collect md ts).2.length ≤ ts.length := by
  induction ts generalizing md with
  | nil => cases md <;> simp [collect]
  | cons t rest ih =>
    cases md <;> cases t <;> simp only [collect, List.length_cons] <;>
      first | exact Nat.le_succ_of_le (ih _) | exact Nat.le_refl _

theorem collectBody_rest_le (ts : List Tok) : (collectBody ts).2.length ≤ ts.length :=
  collect_rest_le none ts

/-- the statement loop of the file compiler: each `@test` takes its body; tokens before the first
    `@test` are not a test. `fuel` bounds the recursion (length of the stream is enough). -/
def splitTests : Nat → List Tok → List (Nat × List Tok)
  | 0, _ => []
  | _, [] => []
  | fuel + 1, Tok.test n :: rest =>
      let (b, r) := collectBody rest
      (n, b) :: splitTests fuel r
  | fuel + 1, _ :: rest => splitTests fuel rest

/-- brace balance of a body as the block compiler sees it: never negative, zero at the end -/
def balanced : Nat → List Tok → Bool
  | d, [] => d == 0
  | d, Tok.open :: r => balanced (d + 1) r
  | 0, Tok.close :: _ => false
  | d + 1, Tok.close :: r => balanced d r
  | d, _ :: r => balanced d r

def firstStmt : List Tok → Option Body
  | [] => none
  | Tok.stmt b :: _ => some b
  | _ :: r => firstStmt r

/-- compileBlockDirective + collectTokensUntilEOFMarker as the block compiler meets them: the span of
    an `@compile eof="m"` directive (up to and including its marker) is taken out of the body's token
    stream and compiled on its own (its braces never count for the body); a directive whose marker is
    missing is a compile error of the body (`none`). -/
def stripSpans : Option Nat → List Tok → Option (List Tok)
  | none, [] => some []
  | some _, [] => none
  | some m, Tok.eofMark k :: r => if k = m then stripSpans none r else stripSpans (some m) r
  | some m, _ :: r => stripSpans (some m) r
  | none, Tok.eofOpen m :: r => stripSpans (some m) r
  | none, t :: r => (stripSpans none r).map (t :: ·)

/-- result of `subCompiler.Compile("@test", tokens)`: a compile error, or the body to call -/
def compileBody (toks : List Tok) : Option Body :=
  match stripSpans none toks with
  | none => none
  | some toks =>
    if balanced 0 toks then
      match firstStmt toks with
      | some b => if b.outcome = Outcome.compileErr then none else some b
      | none => some { junk := 0, leak := [], outcome := Outcome.pass }
    else none

/-! ## the file scope shared by every test's clone (compiler/symbols.go, compiler/compiler.go Clone)

`Clone` copies the slice of scopes but not the `usage` maps in it, so what a test body declares at file
level (bare statements after `@test "name"`, the older style without braces) lands in the map the file's
own compiler checks in `Errors()` when the whole file has been compiled. -/

/-- what compiling a body does to the file scope, in source order, up to the point where it stops -/
inductive ScopeEv | decl (n : Nat) | use (n : Nat)
  deriving Repr, DecidableEq

/-- `scope.usage` of the file scope: name ↦ `true` (declared, not read yet) | `false` (read) -/
abbrev Usage := List (Nat × Bool)

/-- DefineSymbol: a name that is not in the map yet is entered as "not read yet" -/
def define (u : Usage) (n : Nat) : Usage := if u.any (fun p => p.1 == n) then u else (n, true) :: u

/-- validateSymbol: the name is marked as read -/
def reference (u : Usage) (n : Nat) : Usage := u.map fun p => if p.1 = n then (p.1, false) else p

def applyEvs (u : Usage) : List ScopeEv → Usage
  | [] => u
  | ScopeEv.decl n :: r => applyEvs (define u n) r
  | ScopeEv.use n :: r => applyEvs (reference u n) r

/-- compileTestBody (fixes/C13-2.patch): the names a body that failed to compile added are deleted -/
def afterBody (u : Usage) (evs : List ScopeEv) (failed : Bool) : Usage :=
  if failed then (applyEvs u evs).filter fun p => u.any (fun q => q.1 == p.1) else applyEvs u evs

/-- compileTestBody before fixes/C13-2.patch: the abandoned clone's declarations stay in the shared map -/
def afterBodyOld (u : Usage) (evs : List ScopeEv) (_failed : Bool) : Usage := applyEvs u evs

/-- Errors() at the end of the file: every name still "not read yet" is a compile error of the file -/
def fileCompiles (u : Usage) : Bool := u.all fun p => !p.2

/-! ## the VM -/

inductive Val | marker | frame (tryDepth : Nat) | junk | str
  deriving Repr, DecidableEq

inductive Verdict | PASS | FAIL
  deriving Repr, DecidableEq

structure St where
  stack : List Val            -- head = top
  tries : List Nat            -- c.tryStack, head = top; value = handler address, 0 = spent
  outStack : List Bool        -- c.outputStack: saved "output is not the console buffer" flags
  capturing : Bool            -- c.output is a BeginCapture builder (not c.captureBuffer)
  active : Nat                -- __activeTests
  out : List (Nat × Verdict)  -- the PASS/FAIL lines that reached the console
  halted : Bool               -- Run() returned an error
  deriving Repr, DecidableEq

inductive Instr
  | console                   -- Console false
  | pushTest                  -- PushTest
  | try_ (addr : Nat)         -- Try addr
  | pushMarker                -- Push Marker<try>
  | beginCapture
  | signal                    -- Push compileErr; Signal
  | callTest (b : Body)       -- CallTest bc  (… Return 0), big-step
  | endCapture                -- EndCapture; SyncOutputWriter; then the string is printed or dropped
  | dropToMarker
  | report (name : Nat) (v : Verdict) (skip : Nat)   -- RunDefers; PopTest skip; count; Print…; Say
  | branch (addr : Nat)
  | tryPop
  deriving Repr, DecidableEq

/-- handleCatch's search: the length of the try stack from its first live entry (from the top)
    down to the bottom (= tryIndex+1); 0 = no live entry. -/
def liveLen : List Nat → Nat
  | [] => 0
  | a :: ts => if a > 0 then ts.length + 1 else liveLen ts

/-- `c.tryStack[:d]` in the head-is-top representation -/
def truncate (ts : List Nat) (d : Nat) : List Nat := ts.drop (ts.length - d)

inductive Caught
  | abort                                                   -- the error is returned by Run()
  | to (pc : Nat) (stack : List Val) (tries : List Nat)     -- redirected to a catch handler
  deriving Repr, DecidableEq

/-- handleCatch's unwind loop: pop values down to the "try" marker; a call frame on the way is
    popped with callFramePop (which truncates the try stack to the frame's tryDepth); if that
    discarded the chosen entry, the search starts again (fixes/C13.patch, catch.go). -/
def unwind : List Val → List Nat → Nat → Caught
  | [], _, _ => Caught.abort
  | Val.marker :: s, ts, n =>
      match truncate ts n with
      | a :: below => Caught.to a s (0 :: below)
      | [] => Caught.abort
  | Val.frame d :: s, ts, n =>
      let ts' := if ts.length > d then truncate ts d else ts
      if n > ts'.length then
        match liveLen ts' with
        | 0 => Caught.abort
        | m + 1 => unwind s ts' (m + 1)
      else unwind s ts' n
  | _ :: s, ts, n => unwind s ts n

/-- an instruction returned a catchable error: handleCatch -/
def raise (st : St) : St × Nat :=
  match liveLen st.tries with
  | 0 => ({ st with halted := true }, 0)
  | n + 1 =>
    match unwind st.stack st.tries (n + 1) with
    | Caught.abort => ({ st with halted := true }, 0)
    | Caught.to pc s ts => ({ st with stack := s, tries := ts }, pc)

/-- callFramePop after a void Return: values above the frame are discarded, the frame is popped
    and the try stack is cut back to the depth recorded in the frame. The output-capture stack is cut
    back to the frame's outputDepth in the same place (fixes/C13-4.patch), so an `@capture` block left
    through `return` is closed with the frame: a body, taken big-step, never changes
    `outStack` / `capturing` (Props: C13_capture_return_old_counterexample for the code before the fix). -/
def popFrame : List Val → List Nat → Option (List Val × List Nat)
  | [], _ => none
  | Val.frame d :: s, ts => some (s, if ts.length > d then truncate ts d else ts)
  | _ :: s, ts => popFrame s ts

def dropToMarker : List Val → List Val
  | [] => []
  | Val.marker :: s => s
  | _ :: s => dropToMarker s

/-- CallTest bc … Return 0, big-step over the abstract body -/
def callTest (b : Body) (pc : Nat) (st : St) : St × Nat :=
  let st1 := { st with stack := List.replicate b.junk Val.junk ++ Val.frame st.tries.length :: st.stack,
                       tries := b.leak ++ st.tries }
  match b.outcome with
  | Outcome.pass =>
      match popFrame st1.stack st1.tries with
      | some (s, ts) => ({ st1 with stack := s, tries := ts }, pc + 1)
      | none => ({ st1 with halted := true }, 0)
  | Outcome.atFail => raise { st1 with tries := [] }          -- TryFlush; Signal
  | _ => raise st1                                            -- a catchable runtime error

def step (i : Instr) (pc : Nat) (st : St) : St × Nat :=
  match i with
  | Instr.console => ({ st with capturing := false }, pc + 1)
  | Instr.pushTest => ({ st with active := st.active + 1 }, pc + 1)
  | Instr.try_ a => ({ st with tries := a :: st.tries }, pc + 1)
  | Instr.pushMarker => ({ st with stack := Val.marker :: st.stack }, pc + 1)
  | Instr.beginCapture => ({ st with outStack := st.capturing :: st.outStack, capturing := true }, pc + 1)
  | Instr.signal => raise st
  | Instr.callTest b => callTest b pc st
  | Instr.endCapture =>
      match st.outStack with
      | [] => raise st                                          -- ErrStackUnderflow
      | f :: o => ({ st with outStack := o, capturing := f }, pc + 1)
  | Instr.dropToMarker => ({ st with stack := dropToMarker st.stack }, pc + 1)
  | Instr.report name v skip =>
      if st.active = 0 then (st, skip)                          -- PopTest: no active test
      else ({ st with active := st.active - 1,
                      out := if st.capturing then st.out else st.out ++ [(name, v)],
                      capturing := false }, pc + 1)             -- Print… ; Say
  | Instr.branch a => (st, a)
  | Instr.tryPop =>
      match st.tries with
      | [] => raise st                                          -- ErrTryCatchMismatch
      | _ :: t => ({ st with tries := t }, pc + 1)

/-- the run loop over one block's code; it ends when the pc leaves the code or Run() fails -/
def exec (code : List Instr) : Nat → Nat → St → St
  | 0, _, st => { st with halted := true }
  | fuel + 1, pc, st =>
    if st.halted then st else
    match code[pc]? with
    | none => st
    | some i => let r := step i pc st; exec code fuel r.2 r.1

/-- testDirective + compileTestBody for one `@test name`; `src` is the result of compiling the
    body (`none` = compile error). Addresses as patched by Mark/SetAddressHere. -/
def blockCode (name : Nat) (src : Option Body) : List Instr :=
  let mid := match src with
    | none => [Instr.signal]
    | some b => [Instr.callTest b, Instr.endCapture]
  let tryAddr := 8 + mid.length
  [Instr.console, Instr.pushTest, Instr.try_ tryAddr, Instr.pushMarker, Instr.beginCapture] ++ mid ++
  [Instr.dropToMarker, Instr.report name Verdict.PASS (tryAddr - 1), Instr.branch (tryAddr + 2),
   Instr.endCapture, Instr.report name Verdict.FAIL (tryAddr + 2), Instr.tryPop]

def compileBlock (name : Nat) (toks : List Tok) : List Instr := blockCode name (compileBody toks)

def compileFile (toks : List Tok) : List (List Instr) :=
  (splitTests toks.length toks).map fun p => compileBlock p.1 p.2

/-- Run(): the blocks one after the other; an error nobody caught ends the run -/
def runFile : St → List (List Instr) → St
  | st, [] => st
  | st, code :: rest =>
    let st' := exec code (code.length + 1) 0 st
    if st'.halted then st' else runFile st' rest

def init : St := { stack := [], tries := [], outStack := [], capturing := false, active := 0, out := [], halted := false }

/-! ## generated test files -/

/-- a generated @test block: its name, the body, and the shape of its source:
    0 a braced block, 1 a missing `}`, 2 an extra `}`, 3 bare statements (the older style without braces),
    4 / 6 a braced / bare body with an `@compile eof=` directive whose marker is missing,
    5 / 7 (and above) a braced / bare body with an `@compile eof=` directive whose span (unbalanced on
    purpose) ends at its marker. The markers of the directives without a marker in the file (`2*name`)
    differ from every marker that is in the file (`2*name+1`). -/
structure Block where
  name : Nat
  body : Body
  brace : Nat
  deriving Repr, DecidableEq

def Block.toks (b : Block) : List Tok :=
  Tok.test b.name ::
  match b.brace with
  | 0 => [Tok.open, Tok.stmt b.body, Tok.close]
  | 1 => [Tok.open, Tok.open, Tok.stmt b.body, Tok.close]
  | 2 => [Tok.open, Tok.stmt b.body, Tok.close, Tok.close]
  | 3 => [Tok.stmt b.body]
  | 4 => [Tok.open, Tok.eofOpen (2 * b.name), Tok.stmt b.body, Tok.close]
  | 5 => [Tok.open, Tok.eofOpen (2 * b.name + 1), Tok.open, Tok.eofMark (2 * b.name + 1), Tok.stmt b.body, Tok.close]
  | 6 => [Tok.eofOpen (2 * b.name), Tok.stmt b.body]
  | _ => [Tok.eofOpen (2 * b.name + 1), Tok.close, Tok.eofMark (2 * b.name + 1), Tok.stmt b.body]

def tokensOf (blocks : List Block) : List Tok := blocks.flatMap Block.toks

/-- shapes whose source cannot compile whatever the statements are -/
def Block.damaged (b : Block) : Bool := b.brace == 1 || b.brace == 2 || b.brace == 4 || b.brace == 6

/-- the outcome a block is meant to have -/
def Block.eff (b : Block) : Outcome := if b.damaged then Outcome.compileErr else b.body.outcome

def verdict (b : Block) : Nat × Verdict :=
  (b.name, if b.eff = Outcome.pass then Verdict.PASS else Verdict.FAIL)

def runTests (blocks : List Block) : St := runFile init (compileFile (tokensOf blocks))

end EgoVerif.C13
