import EgoVerif.Common.Drv
import EgoVerif.C38.Model
/- line protocol
   `neg <lang,lang,…> <hex utf8 header>`  → `<hex utf8 of NegotiateLanguage(header)>` ("-" = "")
                                            | `oom` when a q= value is outside the decimal model
   `res <hasOwn 0|1> <hasEn 0|1> <hex own> <hex en> <hex key>` → hex of translate's text (no substitution)
   `sp <code point>`  → `1` | `0`   (unicode.IsSpace)
   `lo <code point>`  → code point of the lower-cased character (ASCII, U+0130, U+212A only) -/
namespace EgoVerif.C38

def handle (line : String) : String :=
  match fields line with
  | ["neg", langs, h] =>
    match stringOfHex h with
    | some s =>
      let hdr := s.toList
      if headerOom hdr then "oom"
      else
        let supported := (langs.splitOn ",").map String.toList
        hexOfString (String.ofList (negotiate pfDec gtDec supported hdr))
    | none => "bad-input"
  | ["res", o, e, ho, he, hk] =>
    match stringOfHex ho, stringOfHex he, stringOfHex hk with
    | some so, some se, some sk =>
      let own := if o == "1" then some so.toList else none
      let en := if e == "1" then some se.toList else none
      hexOfString (String.ofList (translateText own en sk.toList))
    | _, _, _ => "bad-input"
  | ["sp", n] =>
    match n.toNat? with
    | some v => if isSpace (Char.ofNat v) then "1" else "0"
    | none => "bad-input"
  | ["lo", n] =>
    match n.toNat? with
    | some v => toString (lowerChar (Char.ofNat v)).toNat
    | none => "bad-input"
  | _ => "bad-op"

def drv : Drv := Drv.pure handle

end EgoVerif.C38
