/-
C38 — every user-visible message has localized text.

Two models, core Lean only.

1. The catalog lookup of internal/i18n/strings.go `translate`:
     text, ok := messages[key][lang]; if !ok { text, ok = messages[key]["en"]; if !ok { text = key } }
   over rows regenerated on every run by tools/extract_c38 from the four language files exactly as
   tools/lang/compile.go builds the generated map (a translation identical to the English text is not
   written, so it resolves through the English fallback).  A row carries, per shipped language, the
   entry of the generated map abstracted to (byte length, sorted placeholder ids): that is all the
   property talks about.  `translateText` is the same lookup on concrete texts (driver op `res`).

2. internal/i18n/negotiate.go `NegotiateLanguage`, character by character.  strconv.ParseFloat and the
   float comparison are external primitives: the model takes the parse function `pf` and the order `gt`
   as parameters (the theorems hold for every choice); the driver instantiates them with an exact
   decimal parser that declares everything else out of its domain (`oom`).
-/
namespace EgoVerif.C38

/-! ## 1. catalog rows and lookup with English fallback -/

/-- one entry of the generated `messages` map: byte length of the text, sorted placeholder-name ids -/
structure Cell where
  len : Nat
  phs : List Nat
deriving DecidableEq, Repr

/-- a constant message key found in the source (`key` = its id) and `messages[key]`, indexed by language -/
structure Row where
  key : Nat
  cells : List (Option Cell)
deriving Repr

/-- strings.go translate: own entry, else the English entry, else `none` (= the raw key is shown) -/
def resolve (en : Nat) (r : Row) (l : Nat) : Option Cell :=
  match r.cells.getD l none with
  | some c => some c
  | none => r.cells.getD en none

/-- strings.go translate on concrete texts (without substitution) -/
def translateText (own en : Option (List Char)) (key : List Char) : List Char :=
  match own with
  | some t => t
  | none =>
    match en with
    | some t => t
    | none => key

/-- the obligation of one (key, language) pair; pairs in `exclR` / `exclP` are the recorded known findings -/
def cellOk (en : Nat) (exclR exclP : List (Nat × Nat)) (r : Row) (l : Nat) : Bool :=
  match resolve en r l with
  | none => exclR.contains (r.key, l)
  | some c =>
    (decide (0 < c.len) || exclR.contains (r.key, l)) &&
    (match resolve en r en with
     | some ce => c.phs == ce.phs || exclP.contains (r.key, l)
     | none => true)

def rowOk (en n : Nat) (exclR exclP : List (Nat × Nat)) (r : Row) : Bool :=
  r.cells.length == n && (List.range n).all (cellOk en exclR exclP r)

def allOk (en n : Nat) (exclR exclP : List (Nat × Nat)) (rows : List Row) : Bool :=
  rows.all (rowOk en n exclR exclP)

/-! ## 2. NegotiateLanguage -/

abbrev Str := List Char

/-- unicode.IsSpace -/
def isSpace (c : Char) : Bool :=
  let n := c.toNat
  (9 ≤ n && n ≤ 13) || n == 0x20 || n == 0x85 || n == 0xA0 || n == 0x1680 ||
  (0x2000 ≤ n && n ≤ 0x200A) || n == 0x2028 || n == 0x2029 || n == 0x202F || n == 0x205F || n == 0x3000

def trimLeft (s : Str) : Str := s.dropWhile isSpace

/-- strings.TrimSpace -/
def trimSpace (s : Str) : Str := (trimLeft (trimLeft s).reverse).reverse

/-- strings.Split(s, sep) for a one-character separator: always at least one piece -/
def splitOn (sep : Char) : Str → List Str
  | [] => [[]]
  | c :: cs =>
    if c == sep then [] :: splitOn sep cs
    else
      match splitOn sep cs with
      | [] => [[c]]
      | p :: ps => (c :: p) :: ps

def hasPrefix (p s : Str) : Bool := p.isPrefixOf s

/-- strings.ToLower restricted to what can produce an ASCII letter: A–Z, U+0130 (→ i), U+212A (→ k).
    Every other code point is left alone; Go maps it to another NON-ASCII code point (checked by the
    harness over all of Unicode on every run), so membership in an ASCII language list is unaffected. -/
def lowerChar (c : Char) : Char :=
  if 'A' ≤ c ∧ c ≤ 'Z' then Char.ofNat (c.toNat + 32)
  else if c.toNat == 0x130 then 'i'
  else if c.toNat == 0x212A then 'k'
  else c

def toLower (s : Str) : Str := s.map lowerChar

/-- the quality of a candidate: an exact decimal (-1)^neg · mant · 10^exp -/
structure Q where
  neg : Bool
  mant : Nat
  exp : Int
deriving Repr, DecidableEq

/-- the default quality 1.0 -/
def Q.one : Q := ⟨false, 1, 0⟩

structure Cand where
  lang : Str
  q : Q
deriving Repr

/-- the `for _, param := range parts[1:]` loop: the last parsable `q=` parameter wins -/
def qualityOf (pf : Str → Option Q) (params : List Str) : Q :=
  params.foldl (fun q p =>
    let p := trimSpace p
    if hasPrefix ['q', '='] p then
      match pf (p.drop 2) with
      | some v => v
      | none => q
    else q) Q.one

/-- one iteration of the `for _, rawTag := range strings.Split(header, ",")` loop -/
def parseTag (pf : Str → Option Q) (rawTag : Str) : Option Cand :=
  let rawTag := trimSpace rawTag
  if rawTag = [] then none
  else
    match splitOn ';' rawTag with
    | [] => none
    | first :: params =>
      let tag := trimSpace first
      if tag = [] ∨ tag = ['*'] then none
      else
        let quality := qualityOf pf params
        let primary := toLower (tag.takeWhile (· != '-'))
        if primary = [] then none else some ⟨primary, quality⟩

/-- insert `c` after every element strictly preferred to it, before the first that is not -/
def insertBy (gt : Q → Q → Bool) (c : Cand) : List Cand → List Cand
  | [] => [c]
  | d :: ds => if gt d.q c.q then d :: insertBy gt c ds else c :: d :: ds

/-- sort.SliceStable(candidates, quality descending): the stable sort (unique when `gt` is a strict weak order) -/
def sortBy (gt : Q → Q → Bool) : List Cand → List Cand
  | [] => []
  | c :: cs => insertBy gt c (sortBy gt cs)

def candidates (pf : Str → Option Q) (header : Str) : List Cand :=
  (splitOn ',' (trimSpace header)).filterMap (parseTag pf)

/-- the final loop: the first candidate (in preference order) that SupportedLanguages() contains -/
def pick (supported : List Str) (l : List Cand) : Str :=
  match l.find? (fun c => supported.contains c.lang) with
  | some c => c.lang
  | none => []

/-- NegotiateLanguage(header); `supported` is SupportedLanguages() -/
def negotiate (pf : Str → Option Q) (gt : Q → Q → Bool) (supported : List Str) (header : Str) : Str :=
  if trimSpace header = [] then []
  else pick supported (sortBy gt (candidates pf header))

/-! ### the driver's instance of ParseFloat / `>` : exact short decimals -/

inductive PF where
  | ok (q : Q)
  | err          -- strconv.ParseFloat returns an error: the quality keeps its previous value
  | oom          -- outside the modelled domain (inf, nan, hex, underscores, > 15 digits, huge exponents)
deriving Repr

def isDigit (c : Char) : Bool := '0' ≤ c ∧ c ≤ '9'

def natOfDigits (ds : Str) : Nat := ds.foldl (fun n c => n * 10 + (c.toNat - 48)) 0

def stripSign (s : Str) : Bool × Str :=
  match s with
  | '+' :: r => (false, r)
  | '-' :: r => (true, r)
  | r => (false, r)

/-- strconv.ParseFloat(s, 64) on decimal literals -/
def parseDec (s : Str) : PF :=
  if s.contains '_' then PF.oom
  else
    let (neg, r) := stripSign s
    let low := toLower r
    if hasPrefix ['i', 'n', 'f'] low || hasPrefix ['n', 'a', 'n'] low then PF.oom
    else if hasPrefix ['0', 'x'] low && r.length > 2 then PF.oom
    else
      let d1 := r.takeWhile isDigit
      let r1 := r.dropWhile isDigit
      let (d2, r2) : Str × Str :=
        match r1 with
        | '.' :: t => (t.takeWhile isDigit, t.dropWhile isDigit)
        | _ => ([], r1)
      if d1 = [] ∧ d2 = [] then PF.err
      else
        let digits := d1 ++ d2
        let fin (e : Int) (edigits : Nat) (rest : Str) : PF :=
          if rest ≠ [] then PF.err
          else if digits.length > 15 || edigits > 3 then PF.oom
          else
            let ex : Int := e - (d2.length : Int)
            if natOfDigits digits ≠ 0 ∧ (ex < -290 ∨ ex + (digits.length : Int) > 290) then PF.oom
            else PF.ok ⟨neg, natOfDigits digits, ex⟩
        match r2 with
        | c :: t =>
          if c == 'e' || c == 'E' then
            let (eneg, t') := stripSign t
            let ed := t'.takeWhile isDigit
            if ed = [] then PF.err
            else
              let e : Int := natOfDigits ed
              fin (if eneg then -e else e) ed.length (t'.dropWhile isDigit)
          else PF.err
        | [] => fin 0 0 []

def pfDec (s : Str) : Option Q :=
  match parseDec s with
  | PF.ok q => some q
  | _ => none

def Q.toInt (q : Q) (e : Int) : Int :=
  let v : Int := q.mant * (10 : Int) ^ (q.exp - e).toNat
  if q.neg then -v else v

/-- a > b as rationals -/
def gtDec (a b : Q) : Bool :=
  let e := if a.exp ≤ b.exp then a.exp else b.exp
  decide (b.toInt e < a.toInt e)

/-- every string the header hands to ParseFloat -/
def qStrings (header : Str) : List Str :=
  (splitOn ',' (trimSpace header)).flatMap fun rawTag =>
    match splitOn ';' (trimSpace rawTag) with
    | [] => []
    | _ :: params => params.filterMap fun p =>
        let p := trimSpace p
        if hasPrefix ['q', '='] p then some (p.drop 2) else none

def headerOom (header : Str) : Bool :=
  (qStrings header).any fun s => match parseDec s with | PF.oom => true | _ => false

end EgoVerif.C38
