import EgoVerif.C38.Model
/-
C38 theorems.

Static part (this file):
  * `allOk_append` + `C38_resolves` / `C38_placeholders`: lift the per-chunk `decide +kernel` facts of the
    generated file (tools/extract_c38 → C38Gen.lean, ≤ 100 rows per chunk) to
    `∀ key ∈ rows, ∀ shipped language, …` over the whole regenerated table.
  * `C38_negotiate`: for EVERY header, EVERY ParseFloat behaviour `pf`, EVERY comparison `gt` and EVERY
    supported-language list, NegotiateLanguage answers "" or a supported language (unbounded).
  * secondary: the answer is the lower-cased primary subtag of a tag of the header; no supported
    candidate is strictly preferred to the chosen one (for a transitive `gt`).
-/
namespace EgoVerif.C38

/-! ## catalog -/

theorem allOk_append (en n : Nat) (eR eP : List (Nat × Nat)) (a b : List Row) :
    allOk en n eR eP (a ++ b) = (allOk en n eR eP a && allOk en n eR eP b) := by
  simp [allOk, List.all_append]

theorem allOk_mem {en n : Nat} {eR eP : List (Nat × Nat)} {rows : List Row}
    (h : allOk en n eR eP rows = true) {r : Row} (hr : r ∈ rows) : rowOk en n eR eP r = true := by
  simp only [allOk, List.all_eq_true] at h
  exact h r hr

theorem rowOk_cell {en n : Nat} {eR eP : List (Nat × Nat)} {r : Row}
    (h : rowOk en n eR eP r = true) {l : Nat} (hl : l < n) : cellOk en eR eP r l = true := by
  simp only [rowOk, Bool.and_eq_true, List.all_eq_true] at h
  exact h.2 l (List.mem_range.mpr hl)

theorem contains_pair {k l : Nat} {xs : List (Nat × Nat)} (h : xs.contains (k, l) = true) : (k, l) ∈ xs := by
  simpa using h

/-- Every row (= constant message key of the source) × every shipped language resolves — by its own
    entry or by the English fallback of `translate` — to NON-EMPTY text, except the (key, language)
    pairs listed as known findings. -/
theorem C38_resolves (en n : Nat) (eR eP : List (Nat × Nat)) (rows : List Row)
    (h : allOk en n eR eP rows = true) :
    ∀ r ∈ rows, ∀ l, l < n → (r.key, l) ∉ eR → ∃ c, resolve en r l = some c ∧ 0 < c.len := by
  intro r hr l hl hx
  have hc := rowOk_cell (allOk_mem h hr) hl
  unfold cellOk at hc
  cases hres : resolve en r l with
  | none =>
    rw [hres] at hc
    exact absurd (contains_pair hc) hx
  | some c =>
    rw [hres] at hc
    simp only [Bool.and_eq_true, Bool.or_eq_true, decide_eq_true_eq] at hc
    refine ⟨c, rfl, ?_⟩
    rcases hc.1 with h1 | h1
    · exact h1
    · exact absurd (contains_pair h1) hx

/-- … and the resolved text uses exactly the placeholders of the resolved English text. -/
theorem C38_placeholders (en n : Nat) (eR eP : List (Nat × Nat)) (rows : List Row)
    (h : allOk en n eR eP rows = true) :
    ∀ r ∈ rows, ∀ l, l < n → (r.key, l) ∉ eP →
      ∀ c ce, resolve en r l = some c → resolve en r en = some ce → c.phs = ce.phs := by
  intro r hr l hl hx c ce h1 h2
  have hc := rowOk_cell (allOk_mem h hr) hl
  unfold cellOk at hc
  rw [h1] at hc
  simp only [h2, Bool.and_eq_true, Bool.or_eq_true] at hc
  rcases hc.2 with h3 | h3
  · exact of_decide_eq_true (by simpa using h3)
  · exact absurd (contains_pair h3) hx

/-- every row has one cell per shipped language -/
theorem C38_row_width (en n : Nat) (eR eP : List (Nat × Nat)) (rows : List Row)
    (h : allOk en n eR eP rows = true) : ∀ r ∈ rows, r.cells.length = n := by
  intro r hr
  have := allOk_mem h hr
  simp only [rowOk, Bool.and_eq_true] at this
  simpa using this.1

/-- The fallback is what makes an untranslated key resolve: a row with an English entry resolves in
    every language. -/
theorem C38_fallback (en : Nat) (r : Row) (l : Nat) (ce : Cell)
    (h : r.cells.getD en none = some ce) : ∃ c, resolve en r l = some c := by
  unfold resolve
  cases h1 : r.cells.getD l none with
  | none => exact ⟨ce, h⟩
  | some c => exact ⟨c, rfl⟩

/-- `translateText` (driver op `res`) and `resolve` are the same lookup -/
theorem translateText_resolved (own en : Option Str) (key : Str) :
    translateText own en key = ((own <|> en).getD key) := by
  cases own <;> cases en <;> rfl

-- non-vacuity: a table with a fallback, an excused missing key, and a failing table
example : allOk 0 2 [(1, 0), (1, 1)] [(1, 0), (1, 1)]
    [⟨0, [some ⟨5, [1, 2]⟩, none]⟩, ⟨1, [none, none]⟩, ⟨2, [some ⟨3, []⟩, some ⟨4, []⟩]⟩] = true := by decide
example : allOk 0 2 [] [] [⟨0, [none, some ⟨4, []⟩]⟩] = false := by decide          -- English missing
example : allOk 0 2 [] [] [⟨0, [some ⟨4, [1]⟩, some ⟨4, [2]⟩]⟩] = false := by decide  -- placeholder mismatch
example : allOk 0 2 [] [] [⟨0, [some ⟨0, []⟩, none]⟩] = false := by decide           -- empty text

/-! ## negotiation -/

theorem mem_insertBy (gt : Q → Q → Bool) (c x : Cand) (l : List Cand) :
    x ∈ insertBy gt c l ↔ x = c ∨ x ∈ l := by
  induction l with
  | nil => simp [insertBy]
  | cons d ds ih =>
    unfold insertBy
    split
    · simp only [List.mem_cons, ih]
      constructor
      · rintro (h | h | h)
        · exact Or.inr (Or.inl h)
        · exact Or.inl h
        · exact Or.inr (Or.inr h)
      · rintro (h | h | h)
        · exact Or.inr (Or.inl h)
        · exact Or.inl h
        · exact Or.inr (Or.inr h)
    · simp

theorem mem_sortBy (gt : Q → Q → Bool) (x : Cand) (l : List Cand) : x ∈ sortBy gt l ↔ x ∈ l := by
  induction l with
  | nil => simp [sortBy]
  | cons c cs ih => simp [sortBy, mem_insertBy, ih]

theorem pick_cases (supported : List Str) (l : List Cand) :
    pick supported l = [] ∨
    ∃ c, l.find? (fun c => supported.contains c.lang) = some c ∧ pick supported l = c.lang := by
  unfold pick
  cases h : l.find? (fun c => supported.contains c.lang) with
  | none => exact Or.inl rfl
  | some c => exact Or.inr ⟨c, rfl, rfl⟩

/-- **Language negotiation only ever selects a shipped language**: for every Accept-Language header
    (every character string), whatever ParseFloat and the comparison do, the answer is "" or a member
    of SupportedLanguages(). -/
theorem C38_negotiate (pf : Str → Option Q) (gt : Q → Q → Bool) (supported : List Str) (header : Str) :
    negotiate pf gt supported header = [] ∨ negotiate pf gt supported header ∈ supported := by
  unfold negotiate
  split
  · exact Or.inl rfl
  · rcases pick_cases supported (sortBy gt (candidates pf header)) with h | ⟨c, hc, hp⟩
    · exact Or.inl h
    · have := List.find?_some hc
      rw [hp]
      exact Or.inr (by simpa using this)

/-- the empty / blank header never selects anything -/
theorem C38_negotiate_blank (pf : Str → Option Q) (gt : Q → Q → Bool) (supported : List Str) (header : Str)
    (h : trimSpace header = []) : negotiate pf gt supported header = [] := by
  simp [negotiate, h]

/-- a non-empty answer is the lower-cased primary subtag of one of the comma-separated tags of the header -/
theorem C38_negotiate_from_header (pf : Str → Option Q) (gt : Q → Q → Bool) (supported : List Str) (header : Str)
    (h : negotiate pf gt supported header ≠ []) :
    ∃ rawTag ∈ splitOn ',' (trimSpace header), ∃ c, parseTag pf rawTag = some c ∧
      c.lang = negotiate pf gt supported header := by
  unfold negotiate at h ⊢
  split at h
  · exact absurd rfl h
  · rename_i hne
    rw [if_neg hne]
    rcases pick_cases supported (sortBy gt (candidates pf header)) with h0 | ⟨c, hc, hp⟩
    · exact absurd h0 h
    · have hm := List.mem_of_find?_eq_some hc
      rw [mem_sortBy] at hm
      simp only [candidates, List.mem_filterMap] at hm
      obtain ⟨raw, hraw, hpt⟩ := hm
      exact ⟨raw, hraw, c, hpt, hp.symm⟩

/-! ### the chosen language is a best one -/

/-- descending order: nothing later is strictly preferred to something earlier -/
def Sorted (gt : Q → Q → Bool) : List Cand → Prop
  | [] => True
  | c :: cs => (∀ d ∈ cs, gt d.q c.q = false) ∧ Sorted gt cs

theorem sorted_insertBy (gt : Q → Q → Bool)
    (trans : ∀ a b c : Q, gt a b = false → gt b c = false → gt a c = false)
    (asym : ∀ a b : Q, gt a b = true → gt b a = false)
    (c : Cand) (l : List Cand) (hs : Sorted gt l) : Sorted gt (insertBy gt c l) := by
  induction l with
  | nil => simp [insertBy, Sorted]
  | cons d ds ih =>
    unfold insertBy
    split
    · rename_i hgt
      refine ⟨?_, ih hs.2⟩
      intro x hx
      rw [mem_insertBy] at hx
      rcases hx with rfl | hx
      · exact asym _ _ hgt
      · exact hs.1 x hx
    · rename_i hgt
      have hgt' : gt d.q c.q = false := by simpa using hgt
      refine ⟨?_, hs⟩
      intro x hx
      rcases List.mem_cons.mp hx with rfl | hx
      · exact hgt'
      · exact trans _ _ _ (hs.1 x hx) hgt'

theorem sorted_sortBy (gt : Q → Q → Bool)
    (trans : ∀ a b c : Q, gt a b = false → gt b c = false → gt a c = false)
    (asym : ∀ a b : Q, gt a b = true → gt b a = false)
    (l : List Cand) : Sorted gt (sortBy gt l) := by
  induction l with
  | nil => simp [sortBy, Sorted]
  | cons c cs ih => exact sorted_insertBy gt trans asym c _ ih

theorem gt_irrefl (gt : Q → Q → Bool) (asym : ∀ a b : Q, gt a b = true → gt b a = false) (a : Q) :
    gt a a = false := by
  cases h : gt a a with
  | false => rfl
  | true => have := asym a a h; rw [h] at this; exact this

theorem find_best (gt : Q → Q → Bool) (asym : ∀ a b : Q, gt a b = true → gt b a = false)
    (p : Cand → Bool) (l : List Cand) (hs : Sorted gt l) (c : Cand)
    (hf : l.find? p = some c) : ∀ d ∈ l, p d = true → gt d.q c.q = false := by
  induction l with
  | nil => simp at hf
  | cons x xs ih =>
    intro d hd hp
    rw [List.find?_cons] at hf
    split at hf
    · cases hf
      rcases List.mem_cons.mp hd with rfl | hd
      · exact gt_irrefl gt asym _
      · exact hs.1 d hd
    · rename_i hpx
      rcases List.mem_cons.mp hd with rfl | hd
      · simp [hp] at hpx
      · exact ih hs.2 hf d hd hp

/-- When the comparison is a strict weak order (as `>` on non-NaN floats is), a non-empty answer is the
    language of a candidate of the header to which no supported candidate is strictly preferred: the
    client's best supported language wins. -/
theorem C38_negotiate_best (pf : Str → Option Q) (gt : Q → Q → Bool)
    (trans : ∀ a b c : Q, gt a b = false → gt b c = false → gt a c = false)
    (asym : ∀ a b : Q, gt a b = true → gt b a = false)
    (supported : List Str) (header : Str) (h : negotiate pf gt supported header ≠ []) :
    ∃ c ∈ candidates pf header, c.lang = negotiate pf gt supported header ∧
      ∀ d ∈ candidates pf header, d.lang ∈ supported → gt d.q c.q = false := by
  unfold negotiate at h ⊢
  split at h
  · exact absurd rfl h
  · rename_i hne
    rw [if_neg hne]
    rcases pick_cases supported (sortBy gt (candidates pf header)) with h0 | ⟨c, hc, hp⟩
    · exact absurd h0 h
    · have hm := List.mem_of_find?_eq_some hc
      rw [mem_sortBy] at hm
      refine ⟨c, hm, hp.symm, ?_⟩
      intro d hd hsup
      have hs := sorted_sortBy gt trans asym (candidates pf header)
      exact find_best gt asym _ _ hs c hc d ((mem_sortBy gt d _).mpr hd) (by simpa using hsup)

/-- the driver's comparison is such an order on the driver's qualities -/
theorem gtDec_asym (a b : Q) : gtDec a b = true → gtDec b a = false := by
  unfold gtDec
  intro h
  have hmin : (if a.exp ≤ b.exp then a.exp else b.exp) = (if b.exp ≤ a.exp then b.exp else a.exp) := by
    split <;> split <;> omega
  rw [← hmin]
  simp only [decide_eq_true_eq, decide_eq_false_iff_not] at h ⊢
  omega

-- non-vacuity of the negotiation theorems (the model run on concrete headers)
example : negotiate pfDec gtDec ["en".toList, "fr".toList] "fr-CA,fr;q=0.9,en;q=0.8,*;q=0.1".toList = "fr".toList := by decide
example : negotiate pfDec gtDec ["en".toList, "fr".toList] "de, en;q=0.3, FR ; q=0.5".toList = "fr".toList := by decide
example : negotiate pfDec gtDec ["en".toList, "fr".toList] "de,*".toList = [] := by decide

end EgoVerif.C38
