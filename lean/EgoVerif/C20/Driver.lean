import EgoVerif.Common.Drv
import EgoVerif.C20.Model
/- line protocol (fields separated by one space; names hex-encoded, "-" = empty string;
   a list is `e` (empty) or comma-separated items; a nil permission slice is `nil`):

   build <call>*          call = A0|A1 L0|L1 C0|C1 R0|R1 D0|D1 O P:<list>
       → m=<b> c=<b> l=<b> r=<b> d=<b> p=<nil|list>          (flags after Router.New + the calls)
   serve f=<m><c><l><d><h> p=<nil|list> q=<media><param><valid> cred=<cred> db=<db>
       cred = none | jwtfail | jwt:<user>:<list> | tokfail | tok:<user> | bmal | basic:<user>:<locked><ok>
       db   = e | <user>:<list>;<user>:<list>…
       → <invoked 0|1> <status>
-/
namespace EgoVerif.C20

def bit? (c : Char) : Option Bool :=
  if c == '1' then some true else if c == '0' then some false else none

def parseList (s : String) : Option (List String) :=
  if s == "e" then some [] else (s.splitOn ",").mapM stringOfHex

def parsePerms (s : String) : Option (Option (List String)) :=
  if s == "nil" then some none else (parseList s).map some

def parseCall (s : String) : Option Call :=
  match s.toList with
  | ['O'] => some .other
  | ['A', b] => (bit? b).map .authentication
  | ['L', b] => (bit? b).map .lightWeight
  | ['C', b] => (bit? b).map .canAuthenticate
  | ['R', b] => (bit? b).map .allowRedirects
  | ['D', b] => (bit? b).map .redirect
  | 'P' :: ':' :: rest => (parseList (String.ofList rest)).map .permissions
  | _ => none

def showBit (b : Bool) : String := if b then "1" else "0"

def showList (l : List String) : String :=
  if l.isEmpty then "e" else ",".intercalate (l.map hexOfString)

def showPerms : Option (List String) → String
  | none => "nil"
  | some l => showList l

def showFlags (f : Flags) : String :=
  s!"m={showBit f.mustAuth} c={showBit f.canAuth} l={showBit f.lightweight} r={showBit f.allowRedirects} d={showBit f.redirect} p={showPerms f.perms}"

def stripPrefix? (pre s : String) : Option String :=
  if s.startsWith pre then some (String.ofList (s.toList.drop pre.length)) else none

def parseFlags (fs ps : String) : Option Flags := do
  let fs ← stripPrefix? "f=" fs
  let ps ← stripPrefix? "p=" ps
  match fs.toList with
  | [m, c, l, d, h] =>
    let p ← parsePerms ps
    some { mustAuth := ← bit? m, canAuth := ← bit? c, lightweight := ← bit? l, redirect := ← bit? d,
           hasHandler := ← bit? h, perms := p }
  | _ => none

def parseReq (s : String) : Option Req := do
  let s ← stripPrefix? "q=" s
  match s.toList with
  | [a, b, c] => some { mediaBad := ← bit? a, paramBad := ← bit? b, validationBad := ← bit? c }
  | _ => none

def parseCred (s : String) : Option Cred := do
  let s ← stripPrefix? "cred=" s
  match s.splitOn ":" with
  | ["none"] => some .none
  | ["jwtfail"] => some (.jwt none)
  | ["tokfail"] => some (.bearer none)
  | ["bmal"] => some .basicMalformed
  | ["jwt", u, l] => some (.jwt (some (← stringOfHex u, ← parseList l)))
  | ["tok", u] => some (.bearer (some (← stringOfHex u)))
  | ["basic", u, bits] =>
    match bits.toList with
    | [l, ok] => some (.basic (← stringOfHex u) (← bit? l) (← bit? ok))
    | _ => none
  | _ => none

def parseDB (s : String) : Option DB := do
  let s ← stripPrefix? "db=" s
  if s == "e" then some [] else
  (s.splitOn ";").mapM fun ent =>
    match ent.splitOn ":" with
    | [u, l] => do some (← stringOfHex u, ← parseList l)
    | _ => none

def handle (line : String) : String :=
  match fields line with
  | "build" :: calls =>
    match calls.mapM parseCall with
    | some cs => showFlags (build cs)
    | none => "bad-input"
  | ["serve", fs, ps, q, c, d] =>
    match parseFlags fs ps, parseReq q, parseCred c, parseDB d with
    | some f, some rq, some cr, some db =>
      let r := serve db f rq cr
      s!"{showBit r.invoked} {r.status}"
    | _, _, _, _ => "bad-input"
  | _ => "bad-op"

def drv : Drv := Drv.pure handle

end EgoVerif.C20
