import EgoVerif.C20.Model
/-
C20 — theorems.  All quantify over every flag value / call list / credential / database.
-/
namespace EgoVerif.C20

/-! ## the gate -/

theorem permStatus_ok {db : DB} {f : Flags} {s : Session} (h : permStatus db f s = 200) :
    ∀ ps, f.perms = some ps → s.admin = true ∨ ∀ p ∈ ps, holds db s p = true := by
  intro ps hp
  unfold permStatus at h
  rw [hp] at h
  cases ha : s.admin with
  | true => exact Or.inl rfl
  | false =>
    right
    cases hall : ps.all (holds db s) with
    | true => exact List.all_eq_true.mp hall
    | false =>
      exfalso
      simp only [ha, hall, Bool.false_eq_true, if_false] at h
      split at h <;> omega

theorem tail_invoked {db : DB} {f : Flags} {rq : Req} {s : Session}
    (h : (tail db f rq s).invoked = true) : permStatus db f s = 200 := by
  unfold tail at h
  by_cases hm : rq.mediaBad = true
  · simp [hm] at h
    repeat (first | split at h | simp at h)
  · have hm' : rq.mediaBad = false := by simpa using hm
    simp only [hm'] at h
    by_cases hp : permStatus db f s = 200
    · exact hp
    · exfalso
      simp [hp] at h
      repeat (first | split at h | simp_all)

/-- **Gate.** Whatever the flags, the request and the session: if the handler is invoked then the
session is authenticated whenever the route needs it, and it is an administrator's or every
required permission was granted. -/
theorem C20_gate (db : DB) (f : Flags) (rq : Req) (s : Session)
    (h : (gate db f rq s).invoked = true) :
    (needsAuth f = true → s.authenticated = true) ∧
    (∀ ps, f.perms = some ps → s.admin = true ∨ ∀ p ∈ ps, holds db s p = true) := by
  unfold gate at h
  by_cases hn : needsAuth f = true
  · simp only [hn, Bool.or_true, if_true] at h
    by_cases hl : s.lockedOut = true
    · simp [hl] at h
    · simp only [hl] at h
      by_cases ha : s.authenticated = true
      · refine ⟨fun _ => ha, ?_⟩
        simp only [ha] at h
        by_cases hh : f.hasHandler = true
        · simp [hh] at h
          exact permStatus_ok (tail_invoked h)
        · simp [hh] at h
      · simp [ha] at h
  · refine ⟨fun h' => absurd h' hn, ?_⟩
    intro ps hp
    exfalso
    apply hn
    simp [needsAuth, hp]

/-! ## from the session back to the caller -/

theorem dbHas_eq (db : DB) (u p : String) : dbHas db u p = ciMem p (dbPerms db u) := by
  unfold dbHas dbPerms
  cases db.lookup u <;> simp [ciMem]

/-- `oauth.ValidateJWT` never returns an empty permission list (claims.go grants "ego.logon"
when no scope maps to a permission). -/
def Cred.jwtPermsNonEmpty : Cred → Prop
  | .jwt (some (_, ps)) => ps ≠ []
  | _ => True

theorem auth_authentic (db : DB) (c : Cred) (h : (authenticate db c).authenticated = true) :
    c.authentic = true := by
  cases c with
  | none => simp [authenticate] at h
  | jwt v => cases v with
    | none => simp [authenticate] at h
    | some v => rfl
  | bearer v => cases v with
    | none => simp [authenticate] at h
    | some v => rfl
  | basicMalformed => simp [authenticate] at h
  | basic u l ok =>
    cases l <;> cases ok <;> simp [authenticate] at h <;> rfl

theorem auth_admin (db : DB) (c : Cred) (h : (authenticate db c).admin = true) :
    ciMem root (c.identityPerms db) = true := by
  cases c with
  | none => simp [authenticate] at h
  | jwt v => cases v with
    | none => simp [authenticate] at h
    | some v => obtain ⟨u, ps⟩ := v; simpa [authenticate, Cred.identityPerms] using h
  | bearer v => cases v with
    | none => simp [authenticate] at h
    | some v => simpa [authenticate, Cred.identityPerms] using h
  | basicMalformed => simp [authenticate] at h
  | basic u l ok =>
    cases l <;> cases ok <;> simp [authenticate] at h
    simpa [Cred.identityPerms, dbHas_eq] using h

theorem auth_holds (db : DB) (c : Cred) (hj : c.jwtPermsNonEmpty) (p : String)
    (ha : (authenticate db c).authenticated = true)
    (h : holds db (authenticate db c) p = true) : ciMem p (c.identityPerms db) = true := by
  cases c with
  | none => simp [authenticate] at ha
  | jwt v => cases v with
    | none => simp [authenticate] at ha
    | some v =>
      obtain ⟨u, ps⟩ := v
      have : ps.length > 0 := by
        cases ps with
        | nil => exact absurd rfl hj
        | cons a t => simp
      simpa [holds, authenticate, Cred.identityPerms, this] using h
  | bearer v => cases v with
    | none => simp [authenticate] at ha
    | some u =>
      simp only [holds, authenticate, Cred.identityPerms] at h ⊢
      rw [dbHas_eq] at h
      simpa using h
  | basicMalformed => simp [authenticate] at ha
  | basic u l ok =>
    cases l <;> cases ok <;> simp [authenticate] at ha
    simpa [holds, authenticate, Cred.identityPerms, dbHas_eq] using h

/-- **Main theorem.** For every route flag combination, request, credential (with any verdicts of
the primitives) and user database: if ServeHTTP invokes the handler then
(1) a route that needs authentication was given a credential that proves an identity, and
(2) a route with required permissions was called by an identity that is an administrator or
holds every one of them. -/
theorem C20_serve (db : DB) (f : Flags) (rq : Req) (c : Cred) (hj : c.jwtPermsNonEmpty)
    (h : (serve db f rq c).invoked = true) :
    (needsAuth f = true → c.authentic = true) ∧
    (∀ ps, f.perms = some ps →
      c.authentic = true ∧
      (ciMem root (c.identityPerms db) = true ∨ ∀ p ∈ ps, ciMem p (c.identityPerms db) = true)) := by
  unfold serve at h
  have hg := C20_gate db f rq _ h
  have key : needsAuth f = true → c.authentic = true := by
    intro hn
    have := hg.1 hn
    simp only [hn, Bool.or_true, if_true] at this
    exact auth_authentic db c this
  refine ⟨key, ?_⟩
  intro ps hp
  have hn : needsAuth f = true := by simp [needsAuth, hp]
  have ha := hg.1 hn
  have hh := hg.2 ps hp
  simp only [hn, Bool.or_true, if_true] at ha hh
  refine ⟨key hn, ?_⟩
  cases hh with
  | inl hadm => exact Or.inl (auth_admin db c hadm)
  | inr hall => exact Or.inr (fun p hp' => auth_holds db c hj p ha (hall p hp'))

/-- A caller without a proven identity never reaches the handler of a route that needs one. -/
theorem C20_unauthenticated_refused (db : DB) (f : Flags) (rq : Req) (c : Cred)
    (hn : needsAuth f = true) (hc : c.authentic = false) : (serve db f rq c).invoked = false := by
  cases hi : (serve db f rq c).invoked with
  | false => rfl
  | true =>
    have h := C20_gate db f rq _ (by unfold serve at hi; exact hi)
    have ha := h.1 hn
    simp only [hn, Bool.or_true, if_true] at ha
    have := auth_authentic db c ha
    rw [hc] at this
    exact absurd this (by decide)

/-- A locked-out account never reaches a handler that authenticates, even with the right password. -/
theorem C20_locked_out_refused (db : DB) (f : Flags) (rq : Req) (u : String) (ok : Bool)
    (h : f.lightweight = false ∨ needsAuth f = true) :
    serve db f rq (.basic u true ok) = ⟨false, 429⟩ := by
  have hc : (!f.lightweight || needsAuth f) = true := by
    cases h with
    | inl h => simp [h]
    | inr h => simp [h]
  simp [serve, gate, hc, authenticate]

/-! ## the builder -/

theorem mem_addPerms (acc ps : List String) (p : String) :
    p ∈ addPerms acc ps ↔ p ∈ acc ∨ p ∈ ps := by
  induction ps generalizing acc with
  | nil => simp [addPerms]
  | cons q qs ih =>
    unfold addPerms
    split
    · rename_i hc
      have hq : q ∈ acc := by simpa using hc
      rw [ih]
      constructor
      · rintro (h | h)
        · exact Or.inl h
        · exact Or.inr (List.mem_cons_of_mem _ h)
      · rintro (h | h)
        · exact Or.inl h
        · cases List.mem_cons.mp h with
          | inl e => exact Or.inl (e ▸ hq)
          | inr h => exact Or.inr h
    · rw [ih]
      simp [List.mem_append, List.mem_cons, or_assoc]

theorem nodup_addPerms (acc ps : List String) (h : acc.Nodup) : (addPerms acc ps).Nodup := by
  induction ps generalizing acc with
  | nil => simpa [addPerms] using h
  | cons q qs ih =>
    unfold addPerms
    split
    · exact ih acc h
    · rename_i hc
      apply ih
      have hq : q ∉ acc := by simpa using hc
      rw [List.nodup_append]
      refine ⟨h, by simp, ?_⟩
      intro a ha b hb
      have : b = q := by simpa using hb
      intro e
      exact hq (this ▸ e ▸ ha)

/-- last-`Authentication` value, starting from a given one -/
def lastAuthFrom (a : Bool) (calls : List Call) : Bool := calls.foldl authStep a

theorem fold_perms_isSome (f0 : Flags) (calls : List Call) :
    (calls.foldl apply f0).perms.isSome = (f0.perms.isSome || calls.any Call.isPermissions) := by
  induction calls generalizing f0 with
  | nil => simp
  | cons c rest ih =>
    simp only [List.foldl_cons, List.any_cons]
    rw [ih]
    cases c <;> simp [apply, Call.isPermissions]

theorem fold_perms_mem (f0 : Flags) (calls : List Call) (p : String) :
    p ∈ (calls.foldl apply f0).perms.getD [] ↔ p ∈ f0.perms.getD [] ∨ p ∈ declPerms calls := by
  induction calls generalizing f0 with
  | nil => simp [declPerms]
  | cons c rest ih =>
    simp only [List.foldl_cons]
    rw [ih]
    cases c <;> simp [apply, declPerms, Call.permsOf, mem_addPerms, or_assoc]

theorem fold_perms_nodup (f0 : Flags) (calls : List Call) (h : (f0.perms.getD []).Nodup) :
    ((calls.foldl apply f0).perms.getD []).Nodup := by
  induction calls generalizing f0 with
  | nil => simpa using h
  | cons c rest ih =>
    simp only [List.foldl_cons]
    apply ih
    cases c <;> simp [apply, h]
    exact nodup_addPerms _ _ h

theorem fold_needsAuth (f0 : Flags) (calls : List Call) :
    needsAuth (calls.foldl apply f0) =
      ((f0.perms.isSome || calls.any Call.isPermissions) || lastAuthFrom f0.mustAuth calls) := by
  induction calls generalizing f0 with
  | nil => simp [needsAuth, lastAuthFrom, Bool.or_comm]
  | cons c rest ih =>
    simp only [List.foldl_cons, List.any_cons, lastAuthFrom]
    rw [ih]
    cases c <;> simp [apply, Call.isPermissions, lastAuthFrom, authStep]

/-- **Builder.** For every sequence of builder calls, what the gate will enforce for the route is
exactly what the declaration asks for: authentication iff some `Permissions` call or the last
`Authentication(v)` has v = true (no other call, in particular `LightWeight`, in any position,
changes it); `requiredPermissions` is non-nil iff `Permissions` was called, holds exactly the
permissions named by the calls, each once. -/
theorem C20_builder (calls : List Call) :
    needsAuth (build calls) = declAuth calls ∧
    (build calls).perms.isSome = calls.any Call.isPermissions ∧
    (∀ p, p ∈ (build calls).perms.getD [] ↔ p ∈ declPerms calls) ∧
    ((build calls).perms.getD []).Nodup := by
  refine ⟨?_, ?_, ?_, ?_⟩
  · simpa [build, declAuth, lastAuth, lastAuthFrom] using fold_needsAuth {} calls
  · simpa [build] using fold_perms_isSome {} calls
  · intro p; simpa [build] using fold_perms_mem {} calls p
  · exact fold_perms_nodup {} calls (by simp)

theorem declPerms_perm {c₁ c₂ : List Call} (h : c₁.Perm c₂) (p : String) :
    p ∈ declPerms c₁ ↔ p ∈ declPerms c₂ := by
  simp only [declPerms, List.mem_flatMap]
  constructor
  · rintro ⟨c, hc, hp⟩; exact ⟨c, h.mem_iff.mp hc, hp⟩
  · rintro ⟨c, hc, hp⟩; exact ⟨c, h.mem_iff.mpr hc, hp⟩

/-- **Order independence.** Two declarations made of the same calls in any two orders (with the
same final `Authentication` value, the only call whose repetition is last-wins) give routes with
the same requirements. -/
theorem C20_builder_order (c₁ c₂ : List Call) (h : c₁.Perm c₂) (hl : lastAuth c₁ = lastAuth c₂) :
    needsAuth (build c₁) = needsAuth (build c₂) ∧
    (build c₁).perms.isSome = (build c₂).perms.isSome ∧
    (∀ p, p ∈ (build c₁).perms.getD [] ↔ p ∈ (build c₂).perms.getD []) := by
  have h1 := C20_builder c₁
  have h2 := C20_builder c₂
  have hany : c₁.any Call.isPermissions = c₂.any Call.isPermissions := h.any_eq
  refine ⟨?_, ?_, ?_⟩
  · rw [h1.1, h2.1, declAuth, declAuth, hany, hl]
  · rw [h1.2.1, h2.2.1, hany]
  · intro p; rw [h1.2.2.1 p, h2.2.2.1 p]; exact declPerms_perm h p

/-- **Declared ⇒ enforced**, end to end: for every declaration, request, credential, database: if
the handler of the declared route runs, the caller proved an identity whenever the declaration
asks for authentication, and holds (or is administrator for) every permission it names. -/
theorem C20_declared_enforced (db : DB) (calls : List Call) (rq : Req) (c : Cred)
    (hj : c.jwtPermsNonEmpty) (h : (serve db (build calls) rq c).invoked = true) :
    (declAuth calls = true → c.authentic = true) ∧
    (∀ p ∈ declPerms calls,
      c.authentic = true ∧
      (ciMem root (c.identityPerms db) = true ∨ ciMem p (c.identityPerms db) = true)) := by
  have hs := C20_serve db (build calls) rq c hj h
  have hb := C20_builder calls
  refine ⟨fun hd => hs.1 (hb.1 ▸ hd), ?_⟩
  intro p hp
  have hmem := (hb.2.2.1 p).mpr hp
  cases hps : (build calls).perms with
  | none => simp [hps] at hmem
  | some ps =>
    have := hs.2 ps hps
    refine ⟨this.1, ?_⟩
    cases this.2 with
    | inl a => exact Or.inl a
    | inr a => exact Or.inr (a p (by simpa [hps] using hmem))

/-! ## the tree before fixes/C20.patch: the same statements are false -/

/-- Before the fix: `.LightWeight(true).Authentication(true)` runs the handler for a request with
no credential at all. -/
theorem C20_orig_gate_counterexample :
    let f := buildOrig [.lightWeight true, .authentication true]
    needsAuth f = true ∧ Cred.none.authentic = false ∧
    (serveOrig [] f {} Cred.none) = ⟨true, 200⟩ := by decide

/-- Before the fix: `.Authentication(true).LightWeight(true)` silently drops the declared
requirement, the reverse order keeps it — the folded flags depend on the call order. -/
theorem C20_orig_builder_counterexample :
    declAuth [.authentication true, .lightWeight true] = true ∧
    needsAuth (buildOrig [.authentication true, .lightWeight true]) = false ∧
    (buildOrig [.lightWeight true, .authentication true]).mustAuth = true := by decide

/-- Before the fix: `.Permissions("x").Authentication(false)` lets a caller who merely NAMES a user
holding "x" (wrong password) through the permission check. -/
theorem C20_orig_named_user_counterexample :
    let f := buildOrig [.permissions ["x"], .authentication false]
    let c := Cred.basic "alice" false false
    c.authentic = false ∧ f.perms = some ["x"] ∧
    (serveOrig [("alice", ["x"])] f {} c).invoked = true := by
  refine ⟨rfl, rfl, ?_⟩
  decide

/-- On the unfixed tree the gate theorem holds for the routes that are not lightweight and whose
mustAuthenticate flag agrees with their permissions — the shape of every shipped route. -/
theorem C20_orig_gate_partial (db : DB) (f : Flags) (rq : Req) (s : Session)
    (hl : f.lightweight = false) (hm : f.perms.isSome = true → f.mustAuth = true)
    (h : (gateOrig db f rq s).invoked = true) :
    (needsAuth f = true → s.authenticated = true) ∧
    (∀ ps, f.perms = some ps → s.admin = true ∨ ∀ p ∈ ps, holds db s p = true) := by
  have hn : needsAuth f = f.mustAuth := by
    unfold needsAuth
    cases hp : f.perms.isSome
    · simp
    · simp [hm hp]
  have : gateOrig db f rq s = gate db f rq s := by
    simp [gateOrig, gate, hl, hn]
  exact C20_gate db f rq s (this ▸ h)

/-! ## non-vacuity: the hypotheses are met by non-trivial instances -/

/-- an authenticated non-admin holding both permissions reaches the handler -/
example : (serve [("bob", ["ego.sql", "Ego.Logon"])]
    (build [.other, .permissions ["ego.logon", "EGO.SQL"], .canAuthenticate true]) {}
    (.basic "Bob" false true)).invoked = true := by
  decide

/-- the same caller missing one permission is refused with 403 -/
example : (serve [("bob", ["ego.sql"])]
    (build [.permissions ["ego.logon", "ego.sql"]]) {} (.bearer (some "bob"))) = ⟨false, 403⟩ := by
  decide

/-- fixed tree: lightweight + authentication, no credential: refused -/
example : (serve [] (build [.lightWeight true, .authentication true]) {} Cred.none)
    = ⟨false, 403⟩ := by decide

/-- a lightweight route that declares nothing runs without credentials (the heartbeat) -/
example : (serve [] (build [.lightWeight true, .other]) {} Cred.none) = ⟨true, 200⟩ := by decide

example : (Cred.jwt (some ("carol", ["ego.logon"]))).jwtPermsNonEmpty := by
  simp [Cred.jwtPermsNonEmpty]

/-- order theorem hypotheses met by a real reordering -/
example : List.Perm [Call.lightWeight true, .authentication true, .permissions ["a"]]
    [.permissions ["a"], .authentication true, .lightWeight true] ∧
    lastAuth [Call.lightWeight true, .authentication true, .permissions ["a"]]
      = lastAuth [.permissions ["a"], .authentication true, .lightWeight true] := by
  refine ⟨?_, by decide⟩
  decide

end EgoVerif.C20
