/-
C20 — Routes run only for authorized requests.

Executable model of
  * the route builder calls of internal/router/router.go
      (Authentication, LightWeight, Permissions, CanAuthenticate, AllowRedirects, Redirect),
  * Session.Authenticate of internal/router/auth.go, with the primitive credential verdicts
    (token unwrap, JWT validation, password check, lock-out) as inputs,
  * the gate of Router.ServeHTTP in internal/router/serve.go: everything between route lookup
    and the call `session.handler(session, w, r)`.

The model mirrors the code WITH fixes/C20.patch applied (`apply`, `gate`).  The code before the
patch is kept as `applyOrig` / `gateOrig` so that the defects are stated as theorems too.
Core Lean only.
-/
namespace EgoVerif.C20

/-! ## permission names -/

/-- `strings.ToLower` on ASCII names (written over `toList` so that the kernel can evaluate it). -/
def lowerS (s : String) : String := String.ofList (s.toList.map Char.toLower)

/-- `strings.EqualFold` on the ASCII names used for permissions. -/
def eqCI (a b : String) : Bool := a.toList.map Char.toLower == b.toList.map Char.toLower

/-- `util.InListInsensitive(p, l...)` -/
def ciMem (p : String) (l : List String) : Bool := l.any (fun q => eqCI p q)

/-- `defs.RootPermission` -/
def root : String := "ego.root"

/-! ## route flags and builder calls (router.go) -/

/-- The fields of `Route` the gate reads. `perms = none` is a nil `requiredPermissions`. -/
structure Flags where
  mustAuth : Bool := false
  canAuth : Bool := false
  lightweight : Bool := false
  allowRedirects : Bool := true
  redirect : Bool := false          -- route.redirect != ""
  hasHandler : Bool := true         -- route.handler != nil
  perms : Option (List String) := none
deriving DecidableEq, Repr

/-- One chained builder call of a route declaration. -/
inductive Call
  | authentication (v : Bool)
  | lightWeight (v : Bool)
  | canAuthenticate (v : Bool)
  | allowRedirects (v : Bool)
  | permissions (ps : List String)
  | redirect (nonEmpty : Bool)
  | other          -- Class, Parameter, AcceptMedia, Filename, … : no gate field is written
deriving DecidableEq, Repr

/-- The append-if-absent loop of `Route.Permissions` (exact string comparison). -/
def addPerms : List String → List String → List String
  | acc, [] => acc
  | acc, p :: ps => if acc.contains p then addPerms acc ps else addPerms (acc ++ [p]) ps

/-- One builder call, fixed code (LightWeight no longer writes mustAuthenticate). -/
def apply (f : Flags) : Call → Flags
  | .authentication v => { f with mustAuth := v, allowRedirects := !v }
  | .lightWeight v => { f with lightweight := v }
  | .canAuthenticate v => { f with canAuth := v }
  | .allowRedirects v => { f with allowRedirects := v }
  | .permissions ps =>
      { f with mustAuth := true, allowRedirects := false, perms := some (addPerms (f.perms.getD []) ps) }
  | .redirect b => { f with redirect := b }
  | .other => f

/-- One builder call as on the tree before the fix: `LightWeight(flag)` also sets
`mustAuthenticate = !flag`. -/
def applyOrig (f : Flags) : Call → Flags
  | .lightWeight v => { f with lightweight := v, mustAuth := !v }
  | c => apply f c

/-- `Router.New` then the chained calls, in declaration order. -/
def build (calls : List Call) : Flags := calls.foldl apply {}
def buildOrig (calls : List Call) : Flags := calls.foldl applyOrig {}

/-- What the gate enforces: authentication is needed when declared or when permissions are. -/
def needsAuth (f : Flags) : Bool := f.mustAuth || f.perms.isSome

/-! ## what a declaration asks for (specification side) -/

def Call.isPermissions : Call → Bool
  | .permissions _ => true
  | _ => false

def Call.permsOf : Call → List String
  | .permissions ps => ps
  | _ => []

/-- Value of the last `Authentication(v)` call (false when there is none). -/
def authStep (acc : Bool) : Call → Bool
  | .authentication v => v
  | _ => acc

def lastAuth (calls : List Call) : Bool := calls.foldl authStep false

/-- The declaration requires authentication: some `Permissions(…)` call, or the last
`Authentication(v)` says so. No other call (in particular `LightWeight`) takes part. -/
def declAuth (calls : List Call) : Bool := calls.any Call.isPermissions || lastAuth calls

/-- All permissions named by the declaration. -/
def declPerms (calls : List Call) : List String := calls.flatMap Call.permsOf

/-! ## sessions and credentials (auth.go) -/

structure Session where
  user : String := ""
  authenticated : Bool := false
  admin : Bool := false
  lockedOut : Bool := false
  perms : List String := []        -- session.Permissions
deriving DecidableEq, Repr

/-- The user database behind `auth.AuthService` (user name ↦ permission list). -/
abbrev DB := List (String × List String)

/-- `auth.GetPermissions` -/
def dbPerms (db : DB) (u : String) : List String := (db.lookup u).getD []

/-- `auth.GetPermission` -/
def dbHas (db : DB) (u p : String) : Bool :=
  match db.lookup u with
  | some ps => ciMem p ps
  | none => false

/-- A credential as presented, with the verdict of the primitive that judges it. -/
inductive Cred
  | none                                          -- no Authorization header
  | jwt (verdict : Option (String × List String)) -- oauth.ValidateJWT: (user, permissions from claims)
  | bearer (verdict : Option String)              -- token cache hit / auth.TokenUnwrap: user name
  | basicMalformed                                -- r.BasicAuth() not ok (also any unknown scheme)
  | basic (user : String) (locked passOK : Bool)  -- CheckRateLimit > 0; auth.ValidatePassword (right password of a user holding logon or root)
deriving DecidableEq, Repr

/-- `Session.Authenticate`. -/
def authenticate (db : DB) : Cred → Session
  | .none => {}
  | .jwt none => {}
  | .jwt (some (u, ps)) =>
      { user := u, authenticated := true, admin := ciMem root ps, perms := ps }
  | .bearer none => {}
  | .bearer (some u) =>
      { user := u, authenticated := true, admin := ciMem root (dbPerms db u), perms := dbPerms db u }
  | .basicMalformed => {}
  | .basic u locked ok =>
      let u := lowerS u
      if locked then { user := u, lockedOut := true }
      else { user := u, authenticated := ok, admin := ok && dbHas db u root }

/-! ## the gate (serve.go ServeHTTP) -/

/-- Request checks that are independent of the credential. -/
structure Req where
  mediaBad : Bool := false        -- util.AcceptedMediaType / ContentMediaType error
  paramBad : Bool := false        -- Disallowed / ValidateParameters / validatePaging error
  validationBad : Bool := false   -- body fails every route validation
deriving DecidableEq, Repr

structure Decision where
  invoked : Bool
  status : Nat
deriving DecidableEq, Repr

/-- `granted` of the permission loop. -/
def holds (db : DB) (s : Session) (p : String) : Bool :=
  if s.perms.length > 0 then ciMem p s.perms else dbHas db s.user p

/-- Status chosen by the permission block (200 = all granted). -/
def permStatus (db : DB) (f : Flags) (s : Session) : Nat :=
  match f.perms with
  | none => 200
  | some ps =>
    if s.admin then 200
    else if ps.all (holds db s) then 200
    else if s.user == "" && f.canAuth then 401 else 403

/-- The tail of ServeHTTP, from the media checks to the handler call: media types, permission
block, redirect, parameter checks, the late 401
(`route.mustAuthenticate && !session.Authenticated && route.canAuthenticate`), body validation,
nil-handler guard, handler call. -/
def tail (db : DB) (f : Flags) (rq : Req) (s : Session) : Decision :=
  let st1 := if rq.mediaBad then 400 else 200
  let st2 := if st1 == 200 then permStatus db f s else st1
  if st2 == 200 && f.redirect then ⟨false, 307⟩
  else
    let st3 := if st2 == 200 && rq.paramBad then 400 else st2
    if st3 == 200 && f.mustAuth && !s.authenticated && f.canAuth then ⟨false, 401⟩
    else
      let st4 := if st3 == 200 && rq.validationBad then 400 else st3
      if st4 == 200 then (if f.hasHandler then ⟨true, 200⟩ else ⟨false, 500⟩) else ⟨false, st4⟩

/-- Fixed gate. `s` is the session after `Authenticate` (or the empty session when the
authentication block is skipped: lightweight route that declares nothing). -/
def gate (db : DB) (f : Flags) (rq : Req) (s : Session) : Decision :=
  if !f.lightweight || needsAuth f then
    if s.lockedOut then ⟨false, 429⟩
    else if !s.authenticated && needsAuth f then ⟨false, 403⟩
    else if !f.hasHandler then ⟨false, 500⟩
    else tail db f rq s
  else tail db f rq s

/-- Gate before the fix: the block runs only for non-lightweight routes and tests mustAuthenticate. -/
def gateOrig (db : DB) (f : Flags) (rq : Req) (s : Session) : Decision :=
  if !f.lightweight then
    if s.lockedOut then ⟨false, 429⟩
    else if !s.authenticated && f.mustAuth then ⟨false, 403⟩
    else if !f.hasHandler then ⟨false, 500⟩
    else tail db f rq s
  else tail db f rq s

/-- ServeHTTP for a matched route: authenticate when the block runs, then the gate. -/
def serve (db : DB) (f : Flags) (rq : Req) (c : Cred) : Decision :=
  gate db f rq (if !f.lightweight || needsAuth f then authenticate db c else {})

def serveOrig (db : DB) (f : Flags) (rq : Req) (c : Cred) : Decision :=
  gateOrig db f rq (if !f.lightweight then authenticate db c else {})

/-! ## specification side: who is the caller, what does the caller hold -/

/-- The credential proves an identity (as judged by the primitives). -/
def Cred.authentic : Cred → Bool
  | .jwt (some _) => true
  | .bearer (some _) => true
  | .basic _ locked ok => !locked && ok
  | _ => false

/-- Permissions of the proven identity: JWT claims, else the user database. -/
def Cred.identityPerms (db : DB) : Cred → List String
  | .jwt (some (_, ps)) => ps
  | .bearer (some u) => dbPerms db u
  | .basic u _ _ => dbPerms db (lowerS u)
  | _ => []

end EgoVerif.C20
