/-
C03 — model of Ego's integer arithmetic typing rules (core Lean only).

Mirrors, for the ten integer kinds and for constant operands:
  * data.Normalize / data.Coerce / data.CoerceLossless        (internal/language/data/coerce.go)
  * addByteCode, subtractByteCode, multiplyByteCode, divideByteCode, moduloByteCode,
    negateByteCode, incrementByteCode                          (internal/language/bytecode/math.go)
  * Context.checkTypeCore (the Store boundary)                 (internal/language/bytecode/context.go)
  * the bytecode shapes of `x++`, `x += k`, `x = x + k` (compiler/assignment.go) and the
    optimizer's "Constant increment" fusion (bytecode/optimizations.go).
`ego.runtime.precision.error` is modelled at its default (false): conversions wrap.
Float operands are outside the value model (their result KIND is still modelled); the only
floating operand modelled with a value is a small non-negative float64 CONSTANT `w` or `w.5`.
-/
namespace EgoVerif.C03

/-- integer kinds, in the promotion order of data/types.go (ByteKind < Int8Kind < …) -/
inductive Kind where
  | byte | int8 | int16 | uint16 | int32 | uint32 | int | uint | int64 | uint64
  deriving DecidableEq, Repr, Inhabited

def Kind.all : List Kind := [.byte, .int8, .int16, .uint16, .int32, .uint32, .int, .uint, .int64, .uint64]

/-- position in the kind ordering (types.go iota) -/
def Kind.ord : Kind → Nat
  | .byte => 2 | .int8 => 3 | .int16 => 4 | .uint16 => 5 | .int32 => 6 | .uint32 => 7
  | .int => 8 | .uint => 9 | .int64 => 10 | .uint64 => 11

def Kind.bits : Kind → Nat
  | .byte | .int8 => 8
  | .int16 | .uint16 => 16
  | .int32 | .uint32 => 32
  | .int | .uint | .int64 | .uint64 => 64

def Kind.signed : Kind → Bool
  | .int8 | .int16 | .int32 | .int | .int64 => true
  | _ => false

/-- Go's integer conversion / overflow behaviour: two's-complement wrap to the kind's width -/
def wrap (k : Kind) (n : Int) : Int :=
  if k.signed then Int.bmod n (2 ^ k.bits) else n % (2 ^ k.bits : Int)

def inRange (k : Kind) (n : Int) : Bool := wrap k n == n

inductive Err where
  | typeMismatch | lossOfPrecision | invalidType | divideByZero | invalidVarType
  deriving DecidableEq, Repr

inductive Op where
  | add | sub | mul | div | mod
  deriving DecidableEq, Repr

/-- an operand as it arrives at an arithmetic instruction -/
inductive Operand where
  | var (k : Kind) (n : Int)        -- non-constant value of integer kind
  | const (k : Kind) (n : Int)      -- constant (data.Immutable) of integer kind; literals are `int`
  | constFlt (w : Nat) (frac : Bool) -- float64 constant  w  or  w.5   (0 ≤ w ≤ 127)
  deriving DecidableEq, Repr

def Operand.isConst : Operand → Bool
  | .var .. => false
  | _ => true

/-- result of an instruction: an integer value, "some float64 value" (opaque), or an error -/
inductive Res where
  | ok (k : Kind) (n : Int)
  | float
  | err (e : Err)
  deriving DecidableEq, Repr

/-- per-operator dispatch sets: which kinds have a `case` in the final type switch.
    GENERATED from math.go on every run (tools/extract_c03). -/
structure Dispatch where
  add : List Kind
  sub : List Kind
  mul : List Kind
  div : List Kind
  mod : List Kind
  neg : List Kind
  incr : List Kind

def Dispatch.of (D : Dispatch) : Op → List Kind
  | .add => D.add | .sub => D.sub | .mul => D.mul | .div => D.div | .mod => D.mod

/-- every integer kind has a case in every arithmetic switch (negation: every kind too — Go
    allows unary minus on unsigned; the property needs it on signed kinds) -/
def Dispatch.complete (D : Dispatch) : Bool :=
  Kind.all.all fun k =>
    D.add.contains k && D.sub.contains k && D.mul.contains k && D.div.contains k &&
    D.mod.contains k && D.incr.contains k && (!k.signed || D.neg.contains k)

/-- the arithmetic itself, as each `case T: v1.(T) op v2.(T)` does it in Go -/
def arith (op : Op) (k : Kind) (x y : Int) : Res :=
  match op with
  | .add => .ok k (wrap k (x + y))
  | .sub => .ok k (wrap k (x - y))
  | .mul => .ok k (wrap k (x * y))
  | .div => if y == 0 then .err .divideByZero else .ok k (wrap k (Int.tdiv x y))
  | .mod => if y == 0 then .err .divideByZero else .ok k (wrap k (Int.tmod x y))

/-- outcome of data.Normalize on two operands -/
inductive Norm where
  | ints (k : Kind) (x y : Int)
  | floats
  | err (e : Err)
  deriving DecidableEq, Repr

/-- data.Coerce(value, model) for an integer-kinded value into kind `k` (precision.error = false) -/
def coerceInt (k : Kind) (n : Int) : Int := wrap k n

/-- data.CoerceLossless for an integer value: the float64 round-trip comparison detects exactly
    a changed value for the operands modelled here -/
def coerceIntLossless (k : Kind) (n : Int) : Except Err Int :=
  if wrap k n == n then .ok n else .error .lossOfPrecision

/-- data.Normalize(v1, v1Const, v2, v2Const, strict) -/
def normalize (a b : Operand) (strict : Bool) : Norm :=
  match a, b with
  | .constFlt .., .constFlt .. => .floats                      -- kind1 == kind2 (float64)
  | .constFlt .., .const .. => .floats                         -- both constants: kind order → float64
  | .const .., .constFlt .. => .floats
  | .constFlt w fr, .var k n =>                                -- exactly one constant: it adapts
    if strict && (fr || !inRange k w) then .err .lossOfPrecision else .ints k (coerceInt k w) n
  | .var k n, .constFlt w fr =>
    if strict && (fr || !inRange k w) then .err .lossOfPrecision else .ints k n (coerceInt k w)
  | .var k1 n1, .var k2 n2 => promote k1 n1 k2 n2
  | .const k1 n1, .const k2 n2 => promote k1 n1 k2 n2
  | .const kc nc, .var kv nv =>
    if kc == kv then .ints kv nc nv
    else if strict then
      match coerceIntLossless kv nc with
      | .ok c => .ints kv c nv
      | .error e => .err e
    else .ints kv (coerceInt kv nc) nv
  | .var kv nv, .const kc nc =>
    if kc == kv then .ints kv nv nc
    else if strict then
      match coerceIntLossless kv nc with
      | .ok c => .ints kv nv c
      | .error e => .err e
    else .ints kv nv (coerceInt kv nc)
where
  /-- same kind: unchanged; otherwise the lower-ordered kind is coerced to the higher -/
  promote (k1 : Kind) (n1 : Int) (k2 : Kind) (n2 : Int) : Norm :=
    if k1 == k2 then .ints k1 n1 n2
    else if k1.ord < k2.ord then .ints k2 (coerceInt k2 n1) n2
    else .ints k1 n1 (coerceInt k1 n2)

def Operand.kindOrd : Operand → Nat
  | .var k _ => k.ord
  | .const k _ => k.ord
  | .constFlt .. => 13

/-- two float64 operands: every switch has a float64 case except moduloByteCode's -/
def floatRes : Op → Res
  | .mod => .err .invalidType
  | _ => .float

/-- add/subtract/multiply/divide/moduloByteCode on the modelled operands -/
def binop (D : Dispatch) (strict : Bool) (op : Op) (a b : Operand) : Res :=
  let coerceOk := a.isConst || b.isConst
  if !coerceOk && strict && a.kindOrd != b.kindOrd then .err .typeMismatch
  else
    match normalize a b strict with
    | .err e => .err e
    | .floats => floatRes op
    | .ints k x y => if (D.of op).contains k then arith op k x y else .err .invalidType

/-- negateByteCode (numeric operand) -/
def negate (D : Dispatch) (a : Operand) : Res :=
  match a with
  | .var k n => if D.neg.contains k then .ok k (wrap k (-n)) else .err .invalidType
  | .const k n => if D.neg.contains k then .ok k (wrap k (-n)) else .err .invalidType
  | .constFlt .. => .float

inductive Mode where
  | dynamic | relaxed | strict
  deriving DecidableEq, Repr

def Mode.isStrict : Mode → Bool
  | .strict => true
  | _ => false

/-- Context.checkTypeCore: storing `r` (a non-constant instruction result) into a variable whose
    current value has kind `kx`.  Returns the variable's new (kind, value). -/
def store (m : Mode) (kx : Kind) (r : Res) : Res :=
  match r with
  | .ok k n =>
    if k == kx then .ok k n
    else match m with
      | .dynamic => .ok k n
      | .relaxed => .ok kx (coerceInt kx n)
      | .strict => .err .invalidVarType
  | .float =>
    match m with
    | .dynamic => .float
    | _ => .float   -- float into an integer variable: outside the value model
  | .err e => .err e

/-- `x = x ⊕ c`, `x ⊕= c`, and (for ⊕ ∈ {+,−}, c = 1) `x++` / `x--`: all three compile to
    Load x; Push c; ⊕; Store x  (compiler/assignment.go) -/
def stmtUnfused (D : Dispatch) (m : Mode) (op : Op) (kx : Kind) (nx : Int) (c : Operand) : Res :=
  store m kx (binop D m.isStrict op (.var kx nx) c)

/-- incrementByteCode: the fused form of Load x; Push c; Add; Store x (optimizer level ≥ 2).
    It normalises like Add and stores the result through the same type boundary as Store
    (Context.checkType), so a promoted result is converted back in relaxed mode. -/
def increment (D : Dispatch) (m : Mode) (kx : Kind) (nx : Int) (c : Operand) : Res :=
  let strict := m.isStrict
  if strict && !c.isConst && (Operand.var kx nx).kindOrd != c.kindOrd then .err .typeMismatch
  else
    match normalize (.var kx nx) c strict with
    | .err e => .err e
    | .floats => .float
    | .ints k x y => if D.incr.contains k then store m kx (.ok k (wrap k (x + y))) else .err .invalidType

end EgoVerif.C03
