import EgoVerif.C03.Model
/-
C03 — property theorems: the modelled instructions compute exactly what the language
reference's "Type Conversions" tables prescribe (`docRule`), for every integer kind, every
operand value, constants and variables, every operator and both strictness settings; fixed
width results wrap like Go (stated against `BitVec`); the fused Increment instruction equals
Load/Push/Add/Store; unary minus is total on signed kinds.

All theorems are parameterised by the dispatch sets `D` (which kinds have a `case` in each
type switch of math.go).  The hypothesis `D.complete = true` is discharged, for the sets
EXTRACTED FROM THE CURRENT SOURCE, by `decide` in a file generated on every run.
-/
namespace EgoVerif.C03

/-! ## The documented rule, written from docs/LANGUAGE.md#typeConversion -/

/-- can the constant be represented exactly in kind `k`? (Go's rule for untyped constants) -/
def representable (k : Kind) : Operand → Bool
  | .var _ n => inRange k n
  | .const _ n => inRange k n
  | .constFlt w fr => !fr && inRange k w

/-- integer value of an operand after (possibly lossy) conversion to kind `k`:
    truncate the fraction, then wrap -/
def convertTo (k : Kind) : Operand → Int
  | .var _ n => wrap k n
  | .const _ n => wrap k n
  | .constFlt w _ => wrap k w

def Operand.intKind? : Operand → Option Kind
  | .var k _ => some k
  | .const k _ => some k
  | .constFlt .. => none

def compute (op : Op) (k : Kind) (x y : Int) : Res :=
  match op with
  | .add => .ok k (wrap k (x + y))
  | .sub => .ok k (wrap k (x - y))
  | .mul => .ok k (wrap k (x * y))
  | .div => if y = 0 then .err .divideByZero else .ok k (wrap k (x.tdiv y))
  | .mod => if y = 0 then .err .divideByZero else .ok k (wrap k (x.tmod y))

def wider (k1 k2 : Kind) : Kind := if k1.ord < k2.ord then k2 else k1

/-- "Combining values in an expression" (docs): same type → no conversion; one constant → it
adapts to the other operand's type (strict: only losslessly); two non-constants of different
types → promoted to the type that loses least (dynamic/relaxed) or rejected (strict); two
constants → promoted. -/
def docRule (strict : Bool) (op : Op) (a b : Operand) : Res :=
  match a.intKind?, b.intKind? with
  | none, none => floatRes op                                  -- float64 arithmetic (Go has no float %)
  | none, some kb =>
    if b.isConst then floatRes op                              -- two constants: promoted to float64
    else if strict && !representable kb a then .err .lossOfPrecision
    else compute op kb (convertTo kb a) (convertTo' b)
  | some ka, none =>
    if a.isConst then floatRes op
    else if strict && !representable ka b then .err .lossOfPrecision
    else compute op ka (convertTo' a) (convertTo ka b)
  | some ka, some kb =>
    if ka = kb then compute op ka (convertTo' a) (convertTo' b)
    else if a.isConst && !b.isConst then
      if strict && !representable kb a then .err .lossOfPrecision
      else compute op kb (convertTo kb a) (convertTo' b)
    else if !a.isConst && b.isConst then
      if strict && !representable ka b then .err .lossOfPrecision
      else compute op ka (convertTo' a) (convertTo ka b)
    else if strict && !a.isConst && !b.isConst then .err .typeMismatch
    else
      let k := wider ka kb
      compute op k (if k = ka then convertTo' a else convertTo k a) (if k = kb then convertTo' b else convertTo k b)
where
  /-- the operand's own value (no conversion) -/
  convertTo' : Operand → Int
    | .var _ n => n
    | .const _ n => n
    | .constFlt w _ => w

/-! ## helper lemmas -/

theorem arith_eq_compute (op : Op) (k : Kind) (x y : Int) : arith op k x y = compute op k x y := by
  cases op <;> simp [arith, compute]

theorem complete_all (D : Dispatch) (h : D.complete = true) (k : Kind) :
    D.add.contains k = true ∧ D.sub.contains k = true ∧ D.mul.contains k = true ∧ D.div.contains k = true ∧
    D.mod.contains k = true ∧ D.incr.contains k = true ∧ (k.signed = true → D.neg.contains k = true) := by
  unfold Dispatch.complete at h
  have hk : k ∈ Kind.all := by cases k <;> simp [Kind.all]
  have h1 := (List.all_eq_true.mp h) k hk
  simp only [Bool.and_eq_true, Bool.or_eq_true, Bool.not_eq_true'] at h1
  obtain ⟨⟨⟨⟨⟨⟨a1, a2⟩, a3⟩, a4⟩, a5⟩, a6⟩, a7⟩ := h1
  refine ⟨a1, a2, a3, a4, a5, a6, ?_⟩
  intro hs
  rcases a7 with h2 | h2
  · rw [hs] at h2; exact absurd h2 (by decide)
  · exact h2

theorem complete_mem (D : Dispatch) (h : D.complete = true) (op : Op) (k : Kind) :
    (D.of op).contains k = true := by
  have := complete_all D h k
  cases op <;> simp only [Dispatch.of] <;>
    first | exact this.1 | exact this.2.1 | exact this.2.2.1 | exact this.2.2.2.1 | exact this.2.2.2.2.1

theorem complete_incr (D : Dispatch) (h : D.complete = true) (k : Kind) : D.incr.contains k = true :=
  (complete_all D h k).2.2.2.2.2.1

theorem complete_neg (D : Dispatch) (h : D.complete = true) (k : Kind) (hs : k.signed = true) :
    D.neg.contains k = true :=
  (complete_all D h k).2.2.2.2.2.2 hs

theorem ord_inj (k1 k2 : Kind) (h : k1.ord = k2.ord) : k1 = k2 := by
  cases k1 <;> cases k2 <;> simp [Kind.ord] at h <;> rfl

theorem ord_lt_13 (k : Kind) : k.ord ≠ 13 := by cases k <;> simp [Kind.ord]

/-! ## property theorems -/

/-- **C03 (value and type).** With complete dispatch sets, every binary arithmetic instruction
yields exactly the value and type the documentation prescribes — for all kinds, all values,
constant or not, every operator, strict or not. -/
theorem C03_binop_doc (D : Dispatch) (hD : D.complete = true) (strict : Bool) (op : Op) (a b : Operand) :
    binop D strict op a b = docRule strict op a b := by
  have hm : ∀ k, k ∈ D.of op := fun k => by simpa using complete_mem D hD op k
  cases a with
  | var ka na =>
    cases b with
    | var kb nb =>
      by_cases hk : ka = kb
      · subst hk
        simp [binop, docRule, Operand.isConst, Operand.intKind?, Operand.kindOrd, normalize, normalize.promote,
          hm, arith_eq_compute, docRule.convertTo']
      · have hord : ka.ord ≠ kb.ord := fun h => hk (ord_inj _ _ h)
        cases strict
        · by_cases hlt : ka.ord < kb.ord
          · simp [binop, docRule, Operand.isConst, Operand.intKind?, Operand.kindOrd, normalize, normalize.promote,
              hm, arith_eq_compute, docRule.convertTo', hk, hlt, wider, convertTo, coerceInt, Ne.symm hk]
          · simp [binop, docRule, Operand.isConst, Operand.intKind?, Operand.kindOrd, normalize, normalize.promote,
              hm, arith_eq_compute, docRule.convertTo', hk, hlt, wider, convertTo, coerceInt]
        · simp [binop, docRule, Operand.isConst, Operand.intKind?, Operand.kindOrd, hk, hord]
    | const kb nb =>
      by_cases hk : kb = ka
      · subst hk
        simp [binop, docRule, Operand.isConst, Operand.intKind?, normalize, hm, arith_eq_compute,
          docRule.convertTo']
      · have hk' : ¬ ka = kb := fun h => hk h.symm
        cases strict
        · simp [binop, docRule, Operand.isConst, Operand.intKind?, normalize, hm, arith_eq_compute,
            docRule.convertTo', hk, hk', convertTo, coerceInt]
        · by_cases hr : wrap ka nb = nb
          · simp [binop, docRule, Operand.isConst, Operand.intKind?, normalize, hm, arith_eq_compute,
              docRule.convertTo', hk, hk', convertTo, coerceIntLossless, representable, inRange, hr]
          · simp [binop, docRule, Operand.isConst, Operand.intKind?, normalize, hk, hk', coerceIntLossless,
              representable, inRange, hr]
    | constFlt w fr =>
      cases strict <;> cases fr <;>
        simp [binop, docRule, Operand.isConst, Operand.intKind?, normalize, hm, arith_eq_compute,
          convertTo, coerceInt, representable, docRule.convertTo']
      all_goals (cases inRange _ (w : Int) <;> simp)
  | const ka na =>
    cases b with
    | var kb nb =>
      by_cases hk : ka = kb
      · subst hk
        simp [binop, docRule, Operand.isConst, Operand.intKind?, normalize, hm, arith_eq_compute,
          docRule.convertTo']
      · cases strict
        · simp [binop, docRule, Operand.isConst, Operand.intKind?, normalize, hm, arith_eq_compute,
            docRule.convertTo', hk, convertTo, coerceInt]
        · by_cases hr : wrap kb na = na
          · simp [binop, docRule, Operand.isConst, Operand.intKind?, normalize, hm, arith_eq_compute,
              docRule.convertTo', hk, convertTo, coerceIntLossless, representable, inRange, hr]
          · simp [binop, docRule, Operand.isConst, Operand.intKind?, normalize, hk, coerceIntLossless,
              representable, inRange, hr]
    | const kb nb =>
      by_cases hk : ka = kb
      · subst hk
        simp [binop, docRule, Operand.isConst, Operand.intKind?, normalize, normalize.promote, hm, arith_eq_compute,
          docRule.convertTo']
      · by_cases hlt : ka.ord < kb.ord
        · simp [binop, docRule, Operand.isConst, Operand.intKind?, normalize, normalize.promote,
            hm, arith_eq_compute, docRule.convertTo', hk, hlt, wider, convertTo, coerceInt, Ne.symm hk]
        · simp [binop, docRule, Operand.isConst, Operand.intKind?, normalize, normalize.promote,
            hm, arith_eq_compute, docRule.convertTo', hk, hlt, wider, convertTo, coerceInt]
    | constFlt w fr =>
      simp [binop, docRule, Operand.isConst, Operand.intKind?, normalize]
  | constFlt w fr =>
    cases b with
    | var kb nb =>
      cases strict <;> cases fr <;>
        simp [binop, docRule, Operand.isConst, Operand.intKind?, normalize, hm, arith_eq_compute,
          convertTo, coerceInt, representable, docRule.convertTo']
      all_goals (cases inRange _ (w : Int) <;> simp)
    | const kb nb =>
      simp [binop, docRule, Operand.isConst, Operand.intKind?, normalize]
    | constFlt w2 fr2 =>
      simp [binop, docRule, Operand.isConst, Operand.intKind?, normalize]

/-- **C03 (fixed-width results wrap like Go).** `wrap` is two's-complement truncation: it is the
integer denoted by the `bits`-wide bit vector of the exact result. -/
theorem C03_wrap_bitvec (k : Kind) (n : Int) :
    wrap k n = if k.signed then (BitVec.ofInt k.bits n).toInt else ((BitVec.ofInt k.bits n).toNat : Int) := by
  cases k <;> simp [wrap, Kind.signed, Kind.bits, BitVec.toInt_ofInt, BitVec.toNat_ofInt] <;> omega

theorem wrap_idem (k : Kind) (m : Int) : wrap k (wrap k m) = wrap k m := by
  cases k <;> simp [wrap, Kind.signed, Kind.bits, Int.bmod_bmod]

theorem arith_in_range (op : Op) (k k' : Kind) (x y n : Int) (h : arith op k x y = .ok k' n) :
    inRange k' n = true := by
  cases op <;> simp only [arith] at h
  · cases h; simp [inRange, wrap_idem]
  · cases h; simp [inRange, wrap_idem]
  · cases h; simp [inRange, wrap_idem]
  · split at h
    · cases h
    · cases h; simp [inRange, wrap_idem]
  · split at h
    · cases h
    · cases h; simp [inRange, wrap_idem]

/-- the result of an arithmetic instruction always lies in the range of its kind -/
theorem C03_result_in_range (D : Dispatch) (strict : Bool) (op : Op) (a b : Operand) (k : Kind) (n : Int)
    (h : binop D strict op a b = .ok k n) : inRange k n = true := by
  simp only [binop] at h
  split at h
  · cases h
  · split at h
    · cases h
    · cases op <;> simp [floatRes] at h
    · split at h
      · exact arith_in_range _ _ _ _ _ _ h
      · cases h

/-- **C03 (unary minus works on every signed type)** and yields −x wrapped, of the same type. -/
theorem C03_neg_total (D : Dispatch) (hD : D.complete = true) (k : Kind) (hs : k.signed = true) (n : Int) :
    negate D (.var k n) = .ok k (wrap k (-n)) ∧ negate D (.const k n) = .ok k (wrap k (-n)) := by
  have := complete_neg D hD k hs
  simp only [List.contains_eq_mem, decide_eq_true_eq] at this
  simp [negate, this]

/-- **C03 (a constant adapts to the other operand's type).** -/
theorem C03_const_adapts (D : Dispatch) (strict : Bool) (op : Op) (kv kc : Kind) (nv nc : Int) (k : Kind) (n : Int)
    (h : binop D strict op (.var kv nv) (.const kc nc) = .ok k n) : k = kv := by
  unfold binop at h
  simp only [Operand.isConst, Bool.or_true, Bool.not_true, Bool.false_and, Bool.false_eq_true, if_false] at h
  unfold normalize at h
  by_cases hk : kc = kv
  · subst hk
    simp at h
    split at h
    · cases op <;> simp [arith] at h <;> (try split at h) <;> simp_all
    · cases h
  · cases strict
    · simp [hk] at h
      split at h
      · cases op <;> simp [arith] at h <;> (try split at h) <;> simp_all
      · cases h
    · simp [hk, coerceIntLossless] at h
      split at h
      · cases h
      · cases op <;> simp [floatRes] at h
      · rename_i k' x y heq
        split at heq
        · simp at heq
          obtain ⟨rfl, _, _⟩ := heq
          split at h
          · cases op <;> simp [arith] at h <;> (try split at h) <;> simp_all
          · cases h
        · simp at heq

/-- **C03 (strict: constants adapt only losslessly).** In strict mode, combining a variable with
an integer constant of another kind succeeds iff the constant is representable in the
variable's kind (division by zero aside). -/
theorem C03_strict_lossless (D : Dispatch) (hD : D.complete = true) (kv kc : Kind) (hk : kc ≠ kv) (nv nc : Int) :
    (binop D true .add (.var kv nv) (.const kc nc) = .err .lossOfPrecision ↔ inRange kv nc = false) := by
  rw [C03_binop_doc D hD]
  have hk' : ¬ kv = kc := fun h => hk h.symm
  cases hr : inRange kv nc <;>
    simp [docRule, Operand.intKind?, Operand.isConst, hk', representable, hr, compute]

/-- **C03 (strict rejects mixed typed operands; dynamic/relaxed promote).** -/
theorem C03_strict_rejects_mixed (D : Dispatch) (op : Op) (k1 k2 : Kind) (hk : k1 ≠ k2) (n1 n2 : Int) :
    binop D true op (.var k1 n1) (.var k2 n2) = .err .typeMismatch := by
  have : k1.ord ≠ k2.ord := fun h => hk (ord_inj _ _ h)
  simp [binop, Operand.isConst, Operand.kindOrd, this]

theorem C03_relaxed_promotes (D : Dispatch) (hD : D.complete = true) (k1 k2 : Kind) (n1 n2 : Int) :
    ∃ n, binop D false .add (.var k1 n1) (.var k2 n2) = .ok (wider k1 k2) n := by
  rw [C03_binop_doc D hD]
  by_cases hk : k1 = k2
  · subst hk; simp [docRule, Operand.intKind?, compute, wider]
  · simp [docRule, Operand.intKind?, Operand.isConst, hk, compute]

/-- **C03 (statement forms and optimizer levels agree).** For a constant step `c`, the fused
Increment instruction (optimizer level ≥ 2) leaves in the variable exactly the value and type
that `Load x; Push c; Add; Store x` — the common compilation of `x++`, `x += c` and
`x = x + c` — leaves there, in every type-checking mode, for every integer kind. -/
theorem C03_fused_eq_unfused (D : Dispatch) (hD : D.complete = true) (m : Mode) (kx : Kind) (nx : Int)
    (c : Operand) (hc : c.isConst = true) :
    increment D m kx nx c = stmtUnfused D m .add kx nx c := by
  have hadd : ∀ k, k ∈ D.add := fun k => by simpa [Dispatch.of] using complete_mem D hD .add k
  have hinc : ∀ k, k ∈ D.incr := fun k => by simpa using complete_incr D hD k
  cases c with
  | var k n => simp [Operand.isConst] at hc
  | const kc nc =>
    by_cases hk : kc = kx
    · subst hk
      cases m <;>
        simp [increment, stmtUnfused, binop, store, normalize, Operand.isConst, Mode.isStrict, Dispatch.of, hadd, hinc, arith]
    · by_cases hr : wrap kx nc = nc <;> cases m <;>
        simp [increment, stmtUnfused, binop, store, normalize, Operand.isConst, Mode.isStrict, Dispatch.of, hadd, hinc,
          arith, hk, coerceIntLossless, hr]
  | constFlt w fr =>
    cases m <;> cases fr <;>
      simp [increment, stmtUnfused, binop, store, normalize, Operand.isConst, Mode.isStrict, Dispatch.of, hadd, hinc, arith]
    all_goals (cases inRange kx (w : Int) <;> simp [store])

/-- **C03 (statement forms and optimizer levels agree), every step.** The fused Increment equals
Load/Push/Add/Store for ANY step operand — constant or not, same kind or not — because it stores its
result through the same type boundary as Store. -/
theorem C03_fused_eq_unfused_any (D : Dispatch) (hD : D.complete = true) (m : Mode) (kx : Kind) (nx : Int)
    (c : Operand) : increment D m kx nx c = stmtUnfused D m .add kx nx c := by
  have hadd : ∀ k, k ∈ D.add := fun k => by simpa [Dispatch.of] using complete_mem D hD .add k
  have hinc : ∀ k, k ∈ D.incr := fun k => by simpa using complete_incr D hD k
  cases c with
  | var k n =>
    by_cases hk : kx = k
    · subst hk
      cases m <;>
        simp [increment, stmtUnfused, binop, store, normalize, normalize.promote, Operand.isConst, Operand.kindOrd,
          Mode.isStrict, Dispatch.of, hadd, hinc, arith]
    · have hord : kx.ord ≠ k.ord := fun h => hk (ord_inj _ _ h)
      by_cases hlt : kx.ord < k.ord <;> cases m <;>
        simp [increment, stmtUnfused, binop, store, normalize, normalize.promote, Operand.isConst, Operand.kindOrd,
          Mode.isStrict, Dispatch.of, hadd, hinc, arith, hk, hord, hlt]
  | const kc nc => exact C03_fused_eq_unfused D hD m kx nx (.const kc nc) rfl
  | constFlt w fr => exact C03_fused_eq_unfused D hD m kx nx (.constFlt w fr) rfl

/-- `x++` is `x += 1` is `x = x + 1`, and the variable keeps its type (no drift to `int`) -/
theorem C03_incr_keeps_type (D : Dispatch) (hD : D.complete = true) (m : Mode) (kx : Kind) (nx : Int) :
    increment D m kx nx (.const .int 1) = .ok kx (wrap kx (nx + 1)) ∧
    stmtUnfused D m .add kx nx (.const .int 1) = .ok kx (wrap kx (nx + 1)) ∧
    stmtUnfused D m .sub kx nx (.const .int 1) = .ok kx (wrap kx (nx - 1)) := by
  have h1 : ∀ k : Kind, wrap k 1 = 1 := by intro k; cases k <;> decide
  have hadd : ∀ k, k ∈ D.add := fun k => by simpa [Dispatch.of] using complete_mem D hD .add k
  have hsub : ∀ k, k ∈ D.sub := fun k => by simpa [Dispatch.of] using complete_mem D hD .sub k
  have hinc : ∀ k, k ∈ D.incr := fun k => by simpa using complete_incr D hD k
  by_cases hk : Kind.int = kx
  · subst hk
    cases m <;> simp [increment, stmtUnfused, binop, store, normalize, Operand.isConst, Mode.isStrict, Dispatch.of, hadd,
      hsub, hinc, arith]
  · cases m <;> simp [increment, stmtUnfused, binop, store, normalize, Operand.isConst, Mode.isStrict, Dispatch.of, hadd,
      hsub, hinc, arith, hk, coerceIntLossless, coerceInt, h1]

/-! ## non-vacuity and the defects of the pinned tree as counterexamples -/

/-- the dispatch sets of the pinned (pre-fix) math.go: `int8` missing from Negate and Increment -/
def pinnedD : Dispatch :=
  { add := Kind.all, sub := Kind.all, mul := Kind.all, div := Kind.all, mod := Kind.all,
    neg := Kind.all.filter (· != .int8), incr := Kind.all.filter (· != .int8) }

/-- the fixed tree: every switch has every integer kind -/
def fullD : Dispatch :=
  { add := Kind.all, sub := Kind.all, mul := Kind.all, div := Kind.all, mod := Kind.all,
    neg := Kind.all, incr := Kind.all }

example : fullD.complete = true := by decide
example : pinnedD.complete = false := by decide
/-- on the pinned sets unary minus fails on int8 and the fused increment differs from x = x + 1 -/
theorem C03_pinned_counterexample :
    negate pinnedD (.var .int8 5) = .err .invalidType ∧
    increment pinnedD .dynamic .int8 5 (.const .int 1) ≠ stmtUnfused pinnedD .dynamic .add .int8 5 (.const .int 1) := by
  decide
example : binop fullD true .add (.var .int32 2147483647) (.const .int 1) = .ok .int32 (-2147483648) := by decide
example : binop fullD true .add (.var .int8 1) (.const .int 300) = .err .lossOfPrecision := by decide
example : binop fullD false .add (.var .int8 1) (.const .int 300) = .ok .int8 45 := by decide
example : binop fullD false .mul (.var .int32 65536) (.var .int64 65536) = .ok .int64 4294967296 := by decide
example : binop fullD true .add (.var .int32 1) (.constFlt 2 true) = .err .lossOfPrecision := by decide
example : binop fullD false .add (.var .int32 1) (.constFlt 2 true) = .ok .int32 3 := by decide
example : binop fullD false .div (.var .int8 (-128)) (.const .int (-1)) = .ok .int8 (-128) := by decide

end EgoVerif.C03
