import EgoVerif.Common.Drv
import EgoVerif.C03.Model
/-
line protocol (state = the dispatch sets extracted from math.go, sent first):
  D <add|sub|mul|div|mod|neg|incr> <k1,k2,…>      → ok
  bin <strict 0|1> <op> <A> <B>                     → ok <kind> <n> | float | err <e>
  neg <A>                                           → …
  stmt <mode dynamic|relaxed|strict> <fused 0|1> <op> <kind> <n> <C>   → …
operands:  v:<kind>:<n>   c:<kind>:<n>   f:<w>:<0|1>
-/
namespace EgoVerif.C03

def Kind.name : Kind → String
  | .byte => "byte" | .int8 => "int8" | .int16 => "int16" | .uint16 => "uint16" | .int32 => "int32"
  | .uint32 => "uint32" | .int => "int" | .uint => "uint" | .int64 => "int64" | .uint64 => "uint64"

def Kind.parse (s : String) : Option Kind := Kind.all.find? (fun k => k.name == s)

def Err.name : Err → String
  | .typeMismatch => "typeMismatch" | .lossOfPrecision => "lossOfPrecision" | .invalidType => "invalidType"
  | .divideByZero => "divideByZero" | .invalidVarType => "invalidVarType"

def Res.show : Res → String
  | .ok k n => s!"ok {k.name} {n}"
  | .float => "float"
  | .err e => s!"err {e.name}"

def parseOp : String → Option Op
  | "add" => some .add | "sub" => some .sub | "mul" => some .mul | "div" => some .div | "mod" => some .mod
  | _ => none

def parseMode : String → Option Mode
  | "dynamic" => some .dynamic | "relaxed" => some .relaxed | "strict" => some .strict
  | _ => none

def parseOperand (s : String) : Option Operand :=
  match s.splitOn ":" with
  | ["v", k, n] => do let k ← Kind.parse k; let n ← n.toInt?; pure (.var k n)
  | ["c", k, n] => do let k ← Kind.parse k; let n ← n.toInt?; pure (.const k n)
  | ["f", w, fr] => do let w ← w.toNat?; pure (.constFlt w (fr == "1"))
  | _ => none

def emptyD : Dispatch := ⟨[], [], [], [], [], [], []⟩

def setD (D : Dispatch) (which : String) (ks : List Kind) : Option Dispatch :=
  match which with
  | "add" => some { D with add := ks } | "sub" => some { D with sub := ks } | "mul" => some { D with mul := ks }
  | "div" => some { D with div := ks } | "mod" => some { D with mod := ks } | "neg" => some { D with neg := ks }
  | "incr" => some { D with incr := ks }
  | _ => none

def step (D : Dispatch) (line : String) : Dispatch × String :=
  match fields line with
  | ["D", which, ks] =>
    let kinds := (ks.splitOn ",").filterMap Kind.parse
    match setD D which kinds with
    | some D' => (D', "ok")
    | none => (D, "bad-input")
  | ["bin", st, op, a, b] =>
    match parseOp op, parseOperand a, parseOperand b with
    | some op, some a, some b => (D, (binop D (st == "1") op a b).show)
    | _, _, _ => (D, "bad-input")
  | ["neg", a] =>
    match parseOperand a with
    | some a => (D, (negate D a).show)
    | none => (D, "bad-input")
  | ["stmt", m, fused, op, k, n, c] =>
    match parseMode m, parseOp op, Kind.parse k, n.toInt?, parseOperand c with
    | some m, some op, some k, some n, some c =>
      if fused == "1" then
        if op == .add then (D, (increment D m k n c).show) else (D, "bad-input")
      else (D, (stmtUnfused D m op k n c).show)
    | _, _, _, _, _ => (D, "bad-input")
  | _ => (D, "bad-op")

def drv : Drv := { σ := Dispatch, init := emptyD, step := step }

end EgoVerif.C03
