import EgoVerif.C35.Model
/-
C35 — helper lemmas: trimming, how the compiler reads a line, the compiler over a functional
table (`srun`) and its bridge to the list model (`crun`), rendering with/without the per-block sort,
the stable-sort lemma, and the invariant of `parse` ("what is rendered means the same to the compiler
as what was read").
-/
namespace EgoVerif.C35

theorem trimRightBy_cons_ne (p : Char → Bool) (c d : Char) (ds cs : Str) (h : trimRightBy p cs = d :: ds) :
    trimRightBy p (c :: cs) = c :: d :: ds := by
  simp [trimRightBy, h]

theorem trimRightBy_cons_nil (p : Char → Bool) (c : Char) (cs : Str) (h : trimRightBy p cs = []) :
    trimRightBy p (c :: cs) = if p c then [] else [c] := by
  simp [trimRightBy, h]

theorem trimRightBy_absorb (p q : Char → Bool) (h : ∀ c, q c = true → p c = true) (l : Str) :
    trimRightBy p (trimRightBy q l) = trimRightBy p l := by
  induction l with
  | nil => rfl
  | cons c cs ih =>
    cases hq : trimRightBy q cs with
    | nil =>
      rw [hq] at ih
      have hp : trimRightBy p cs = [] := by rw [← ih]; rfl
      rw [trimRightBy_cons_nil q c cs hq, trimRightBy_cons_nil p c cs hp]
      by_cases hqc : q c = true
      · simp [hqc, h c hqc, trimRightBy]
      · simp [hqc, trimRightBy]
    | cons d ds =>
      rw [hq] at ih
      rw [trimRightBy_cons_ne q c d ds cs hq]
      cases hp : trimRightBy p cs with
      | nil =>
        rw [hp] at ih
        rw [trimRightBy_cons_nil p c cs hp, trimRightBy_cons_nil p c (d :: ds) ih]
      | cons e es =>
        rw [hp] at ih
        rw [trimRightBy_cons_ne p c e es cs hp, trimRightBy_cons_ne p c e es (d :: ds) ih]

/-- a character that is kept protects everything before it -/
theorem trimRightBy_mid (p : Char → Bool) (x : Str) (c : Char) (y : Str) (hc : p c = false) :
    trimRightBy p (x ++ c :: y) = x ++ c :: trimRightBy p y := by
  induction x with
  | nil =>
    cases hy : trimRightBy p y with
    | nil => simp [trimRightBy, hy, hc]
    | cons d ds => simp [trimRightBy, hy]
  | cons a x ih =>
    cases hx : x ++ c :: trimRightBy p y with
    | nil => simp at hx
    | cons d ds =>
      rw [hx] at ih
      simp only [List.cons_append]
      rw [trimRightBy_cons_ne p a d ds _ ih, hx]

theorem isCR_isSpace (c : Char) (h : isCR c = true) : isSpace c = true := by
  have : c = '\r' := by simpa [isCR] using h
  subst this; decide

theorem trimRight_trimCR (l : Str) : trimRight (trimCR l) = trimRight l :=
  trimRightBy_absorb isSpace isCR isCR_isSpace l

theorem trim_trimCR (l : Str) : trim (trimCR l) = trim l := by
  simp [trim, trimRight_trimCR]


def noNL (l : Str) : Prop := '\n' ∉ l

theorem mem_trimRightBy (p : Char → Bool) (l : Str) (x : Char) (h : x ∈ trimRightBy p l) : x ∈ l := by
  induction l with
  | nil => simp [trimRightBy] at h
  | cons c cs ih =>
    cases ht : trimRightBy p cs with
    | nil =>
      simp only [trimRightBy, ht] at h
      split at h
      · simp at h
      · simp at h; simp [h]
    | cons d ds =>
      simp only [trimRightBy, ht] at h
      rw [ht] at ih
      rcases List.mem_cons.1 h with h | h
      · simp [h]
      · exact List.mem_cons_of_mem _ (ih h)

theorem trimRightBy_cons_cases (p : Char → Bool) (c : Char) (cs : Str) :
    (trimRightBy p (c :: cs) = [] ∧ p c = true) ∨ ∃ t, trimRightBy p (c :: cs) = c :: t := by
  cases ht : trimRightBy p cs with
  | nil =>
    by_cases hp : p c = true
    · left; simp [trimRightBy, ht, hp]
    · right; exact ⟨[], by simp [trimRightBy, ht, hp]⟩
  | cons d ds => right; exact ⟨d :: ds, by simp [trimRightBy, ht]⟩

theorem head_trimRightBy (p : Char → Bool) (a : Char) (ha : p a = false) (l : Str) :
    (trimRightBy p l).head? = some a ↔ l.head? = some a := by
  cases l with
  | nil => simp [trimRightBy]
  | cons c cs =>
    rcases trimRightBy_cons_cases p c cs with ⟨h, hp⟩ | ⟨t, h⟩
    · rw [h]; simp; intro hc; subst hc; simp [hp] at ha
    · rw [h]; simp

/-! splitEq -/
theorem splitEq_spec (l k v : Str) (h : splitEq l = some (k, v)) : l = k ++ '=' :: v ∧ '=' ∉ k := by
  induction l generalizing k with
  | nil => simp [splitEq] at h
  | cons c cs ih =>
    unfold splitEq at h
    split at h
    · rename_i hc
      simp at h; obtain ⟨rfl, rfl⟩ := h; simp [hc]
    · rename_i hc
      split at h
      · simp at h
      · rename_i k' v' hs
        simp at h; obtain ⟨rfl, rfl⟩ := h
        obtain ⟨h1, h2⟩ := ih k' hs
        constructor
        · simp [h1]
        · simp [h2]; exact fun h => hc h.symm

theorem splitEq_of (k v : Str) (h : '=' ∉ k) : splitEq (k ++ '=' :: v) = some (k, v) := by
  induction k with
  | nil => simp [splitEq]
  | cons c cs ih =>
    have hc : ¬ c = '=' := fun e => h (by simp [e])
    have := ih (fun e => h (List.mem_cons_of_mem _ e))
    simp [splitEq, hc, this]

theorem eq_notSpace : isSpace '=' = false := by decide

theorem trimLeft_append_stop (k : Str) (c : Char) (rest : Str) (hc : isSpace c = false) :
    trimLeft (k ++ c :: rest) = trimLeft k ++ c :: rest := by
  induction k with
  | nil => simp [trimLeft, List.dropWhile, hc]
  | cons a k ih =>
    by_cases ha : isSpace a = true
    · simpa [trimLeft, List.dropWhile, ha] using ih
    · simp [trimLeft, List.dropWhile, ha]

theorem mem_trimLeft (k : Str) (x : Char) (h : x ∈ trimLeft k) : x ∈ k :=
  (List.dropWhile_sublist _).subset h

theorem trim_cons_space (c : Char) (cs : Str) (hc : isSpace c = true) : trim (c :: cs) = trim cs := by
  unfold trim trimRight
  cases ht : trimRightBy isSpace cs with
  | nil => simp [trimRightBy, ht, hc, trimLeft]
  | cons d ds => simp [trimRightBy, ht, trimLeft, List.dropWhile, hc]

theorem trim_trimLeft (k : Str) : trim (trimLeft k) = trim k := by
  induction k with
  | nil => rfl
  | cons c cs ih =>
    by_cases hc : isSpace c = true
    · rw [trim_cons_space c cs hc, ← ih]; simp [trimLeft, List.dropWhile, hc]
    · simp [trimLeft, List.dropWhile, hc]

/-- how the compiler reads a line that langlint accepts as an entry -/
theorem splitEq_trim (l k v : Str) (h : splitEq l = some (k, v)) :
    splitEq (trim l) = some (trimLeft k, trimRight v) := by
  obtain ⟨hl, hk⟩ := splitEq_spec l k v h
  subst hl
  have : trim (k ++ '=' :: v) = trimLeft k ++ '=' :: trimRight v := by
    unfold trim trimRight
    rw [trimRightBy_mid isSpace k '=' v eq_notSpace, trimLeft_append_stop k '=' _ eq_notSpace]
  rw [this]
  exact splitEq_of _ _ (fun e => hk (mem_trimLeft k _ e))


/-! ### how the compiler reads lines -/

theorem cline_trimCR (r : Str) : cline (trimCR r) = cline r := by
  have hh : (trimCR r).head? = some '#' ↔ r.head? = some '#' :=
    head_trimRightBy isCR '#' (by decide) r
  unfold cline
  rw [trim_trimCR]
  by_cases h : r.head? = some '#'
  · simp [h, hh.2 h]
  · have : ¬ (trimCR r).head? = some '#' := fun e => h (hh.1 e)
    simp [h, this]

theorem cline_nil : cline [] = .skip := by decide

theorem cline_comment (l : Str) (h : l.head? = some '#') : cline l = .skip := by
  simp [cline, h]

theorem trim_id (l : Str) (a b : Char) (ha : isSpace a = false) (hb : isSpace b = false)
    (h1 : l.head? = some a) (h2 : l.getLast? = some b) : trim l = l := by
  have hr : trimRight l = l := by
    obtain ⟨ys, hl⟩ := List.getLast?_eq_some_iff.1 h2
    unfold trimRight
    rw [hl, trimRightBy_mid isSpace _ b [] hb]
    simp [trimRightBy]
  unfold trim
  rw [hr]
  cases l with
  | nil => simp at h1
  | cons c cs =>
    simp at h1; subst h1
    simp [trimLeft, List.dropWhile, ha]

theorem headerLine_inner (l : Str) (h1 : l.head? = some '[') (h2 : l.getLast? = some ']') :
    headerLine (inner l) = l := by
  cases l with
  | nil => simp at h1
  | cons c cs =>
    simp at h1; subst h1
    cases cs with
    | nil => simp at h2
    | cons d ds =>
      have h3 : (d :: ds).getLast? = some ']' := by simpa [List.getLast?_cons_cons] using h2
      obtain ⟨ys, hl⟩ := List.getLast?_eq_some_iff.1 h3
      rw [hl]
      simp [headerLine, inner]

theorem cline_header (l : Str) (h1 : l.head? = some '[') (h2 : l.getLast? = some ']') :
    cline l = .pfx (inner l) := by
  have ht : trim l = l := trim_id l '[' ']' (by decide) (by decide) h1 h2
  have hne : l ≠ [] := by intro e; simp [e] at h1
  have hh : ¬ l.head? = some '#' := by rw [h1]; decide
  simp [cline, ht, h1, h2, hne]

theorem trim_ne_nil_of_mem (l : Str) (c : Char) (hc : isSpace c = false) (h : c ∈ l) : trim l ≠ [] := by
  obtain ⟨x, y, rfl⟩ := List.append_of_mem h
  unfold trim trimRight
  rw [trimRightBy_mid isSpace x c y hc, trimLeft_append_stop x c _ hc]
  simp

def cval (e : Str × Str) : Str := trimRight e.2

theorem cline_entry (l k v : Str) (h0 : ¬ l.head? = some '#') (h1 : ¬ (trim l).head? = some '[')
    (h2 : splitEq l = some (k, v)) : cline l = .entry (trim k) (trimRight v) := by
  have hs := splitEq_trim l k v h2
  obtain ⟨hl, _⟩ := splitEq_spec l k v h2
  have hne : trim l ≠ [] := trim_ne_nil_of_mem l '=' eq_notSpace (by rw [hl]; simp)
  simp [cline, h0, h1, hs, hne, trim_trimLeft]



/-! ### the compiler over a functional table -/

abbrev Tab := Str → Option Str

def upd (f : Tab) (k v : Str) : Tab := fun x => if k = x then some v else f x

structure SSt where
  pfx : Str
  tab : Tab

def sstep (σ : SSt) (raw : Str) : Option SSt :=
  match cline raw with
  | .skip => some σ
  | .pfx h => some { σ with pfx := h }
  | .bad => none
  | .entry k v => some { σ with tab := upd σ.tab (fullKey σ.pfx k) v }

def srun : SSt → List Str → Option SSt
  | σ, [] => some σ
  | σ, l :: ls =>
    match sstep σ l with
    | none => none
    | some σ' => srun σ' ls

def abs (σ : CSt) : SSt := ⟨σ.pfx, get σ.tab⟩

theorem get_snoc (t : List (Str × Str)) (k v : Str) : get (t ++ [(k, v)]) = upd (get t) k v := by
  funext x
  simp [get, upd, List.foldl_append]

theorem bridge_step (σ : CSt) (raw : Str) : (cstep σ raw).map abs = sstep (abs σ) raw := by
  unfold cstep sstep
  cases cline raw <;> simp [abs, get_snoc]

theorem bridge (σ : CSt) (ls : List Str) : (crun σ ls).map abs = srun (abs σ) ls := by
  induction ls generalizing σ with
  | nil => rfl
  | cons l ls ih =>
    have := bridge_step σ l
    unfold crun srun
    cases h : cstep σ l with
    | none => rw [h] at this; simp at this; rw [← this]; simp
    | some σ' => rw [h] at this; simp at this; rw [← this]; simpa using ih σ'

theorem table_eq (s : Str) : table s = (srun ⟨[], fun _ => none⟩ (splitLines s)).map (·.tab) := by
  have := bridge ⟨[], []⟩ (splitLines s)
  have h0 : abs ⟨[], []⟩ = ⟨[], fun _ => none⟩ := rfl
  rw [h0] at this
  rw [← this]
  unfold table compile
  cases crun ⟨[], []⟩ (splitLines s) <;> simp [abs]

theorem srun_append (σ : SSt) (a b : List Str) :
    srun σ (a ++ b) = (srun σ a).bind (fun σ' => srun σ' b) := by
  induction a generalizing σ with
  | nil => simp [srun]
  | cons l ls ih =>
    simp only [List.cons_append, srun]
    cases sstep σ l with
    | none => simp
    | some σ' => simpa using ih σ'

/-- two line lists the compiler cannot tell apart, from any state -/
def Equiv (a b : List Str) : Prop := ∀ σ, srun σ a = srun σ b

theorem Equiv.refl (a : List Str) : Equiv a a := fun _ => rfl
theorem Equiv.trans {a b c : List Str} (h1 : Equiv a b) (h2 : Equiv b c) : Equiv a c :=
  fun σ => (h1 σ).trans (h2 σ)
theorem Equiv.symm {a b : List Str} (h : Equiv a b) : Equiv b a := fun σ => (h σ).symm

theorem Equiv.append {a a' b b' : List Str} (h1 : Equiv a a') (h2 : Equiv b b') :
    Equiv (a ++ b) (a' ++ b') := by
  intro σ
  rw [srun_append, srun_append, h1 σ]
  cases srun σ a' with
  | none => rfl
  | some σ' => simpa using h2 σ'

theorem equiv_single (l r : Str) (h : cline l = cline r) : Equiv [l] [r] := by
  intro σ; simp [srun, sstep, h]

theorem equiv_skip (l : Str) (h : cline l = .skip) : Equiv [l] [] := by
  intro σ; simp [srun, sstep, h]



/-! ### rendering, with and without the per-block sort -/

def blockLinesWith (f : List (Str × Str) → List (Str × Str)) (b : Block) : List Str :=
  match b.kind with
  | .comment => b.comments
  | .sect => (if b.hasHeader then [headerLine b.header] else []) ++ (f b.entries).map entryLine

def renderLinesWith (f : List (Str × Str) → List (Str × Str)) : List Block → List Str
  | [] => []
  | b :: bs => blockLinesWith f b ++ bs.flatMap (fun b => [] :: blockLinesWith f b)

theorem blockLines_eq (b : Block) : blockLines b = blockLinesWith sortE b := rfl

theorem renderLines_eq (bs : List Block) : renderLines bs = renderLinesWith sortE bs := by
  cases bs <;> rfl

def sep (bs : List Block) : List Str := if bs = [] then [] else [[]]

theorem rlw_snoc (f) (bs : List Block) (b : Block) :
    renderLinesWith f (bs ++ [b]) = renderLinesWith f bs ++ (sep bs ++ blockLinesWith f b) := by
  cases bs with
  | nil => simp [renderLinesWith, sep]
  | cons b0 rest => simp [renderLinesWith, sep, List.flatMap_append]

/-! ### the stable sort does not change what the compiler builds -/

theorem mem_insertE (e x : Str × Str) (l : List (Str × Str)) : x ∈ insertE e l ↔ x = e ∨ x ∈ l := by
  induction l with
  | nil => simp [insertE]
  | cons y ys ih =>
    unfold insertE
    split
    · simp [ih]; constructor
      · rintro (h | h | h) <;> simp [h]
      · rintro (h | h | h) <;> simp [h]
    · simp

theorem mem_sortE (x : Str × Str) (l : List (Str × Str)) : x ∈ sortE l ↔ x ∈ l := by
  induction l with
  | nil => simp [sortE]
  | cons e es ih => simp [sortE, mem_insertE, ih]

theorem upd_comm (f : Tab) (k1 v1 k2 v2 : Str) (h : k1 ≠ k2) :
    upd (upd f k1 v1) k2 v2 = upd (upd f k2 v2) k1 v1 := by
  funext x
  unfold upd
  by_cases h1 : k1 = x <;> by_cases h2 : k2 = x <;> simp [h1, h2]
  exact absurd (h1.trans h2.symm) h

theorem fullKey_inj (p k1 k2 : Str) (h : fullKey p k1 = fullKey p k2) : k1 = k2 := by
  unfold fullKey at h
  by_cases hp : p = []
  · simpa [hp] using h
  · simpa [hp] using h

def applyE (p : Str) (f : Tab) (es : List (Str × Str)) : Tab :=
  es.foldl (fun f e => upd f (fullKey p (trim e.1)) (cval e)) f

theorem applyE_insertE (p : Str) (f : Tab) (e : Str × Str) (l : List (Str × Str)) :
    applyE p f (insertE e l) = applyE p (upd f (fullKey p (trim e.1)) (cval e)) l := by
  induction l generalizing f with
  | nil => simp [insertE, applyE]
  | cons y ys ih =>
    unfold insertE
    split
    · rename_i hlt
      have hne : fullKey p (trim y.1) ≠ fullKey p (trim e.1) := by
        intro h
        have := fullKey_inj p _ _ h
        rw [this] at hlt
        exact List.lt_irrefl _ hlt
      have h1 : applyE p f (y :: insertE e ys) = applyE p (upd f (fullKey p (trim y.1)) (cval y)) (insertE e ys) := rfl
      rw [h1, ih, upd_comm _ _ _ _ _ hne]
      rfl
    · rfl

theorem applyE_sortE (p : Str) (f : Tab) (es : List (Str × Str)) : applyE p f (sortE es) = applyE p f es := by
  induction es generalizing f with
  | nil => rfl
  | cons e es ih =>
    simp only [sortE]
    rw [applyE_insertE, ih]
    rfl

/-- an entry as stored by langlint that the compiler reads as "assign trimmed key" -/
def GoodEntry (e : Str × Str) : Prop :=
  noNL (entryLine e) ∧ cline (entryLine e) = .entry (trim e.1) (cval e)

theorem srun_entries (σ : SSt) (es : List (Str × Str)) (h : ∀ e ∈ es, GoodEntry e) :
    srun σ (es.map entryLine) = some ⟨σ.pfx, applyE σ.pfx σ.tab es⟩ := by
  induction es generalizing σ with
  | nil => rfl
  | cons e es ih =>
    have he := (h e (by simp)).2
    have := ih ⟨σ.pfx, upd σ.tab (fullKey σ.pfx (trim e.1)) (cval e)⟩ (fun x hx => h x (by simp [hx]))
    simp only [List.map_cons, srun, sstep, he]
    exact this

theorem equiv_sorted (es : List (Str × Str)) (h : ∀ e ∈ es, GoodEntry e) :
    Equiv ((sortE es).map entryLine) (es.map entryLine) := by
  intro σ
  rw [srun_entries σ es h, srun_entries σ (sortE es) (fun e he => h e ((mem_sortE e es).1 he)), applyE_sortE]



def GoodBlock (b : Block) : Prop :=
  match b.kind with
  | .comment => ∀ l ∈ b.comments, noNL l
  | .sect => (b.hasHeader = true → noNL (headerLine b.header)) ∧ ∀ e ∈ b.entries, GoodEntry e

theorem equiv_block (b : Block) (h : GoodBlock b) : Equiv (blockLinesWith sortE b) (blockLinesWith id b) := by
  unfold blockLinesWith
  unfold GoodBlock at h
  cases hk : b.kind with
  | comment => exact Equiv.refl _
  | sect =>
    rw [hk] at h
    exact Equiv.append (Equiv.refl _) (equiv_sorted _ h.2)

theorem equiv_flat (bs : List Block) (h : ∀ b ∈ bs, GoodBlock b) :
    Equiv (bs.flatMap (fun b => [] :: blockLinesWith sortE b)) (bs.flatMap (fun b => [] :: blockLinesWith id b)) := by
  induction bs with
  | nil => exact Equiv.refl _
  | cons b bs ih =>
    simp only [List.flatMap_cons]
    exact Equiv.append (Equiv.append (a := [[]]) (Equiv.refl _) (equiv_block b (h b (by simp))))
      (ih (fun x hx => h x (by simp [hx])))

theorem equiv_render (bs : List Block) (h : ∀ b ∈ bs, GoodBlock b) :
    Equiv (renderLinesWith sortE bs) (renderLinesWith id bs) := by
  cases bs with
  | nil => exact Equiv.refl _
  | cons b bs =>
    exact Equiv.append (equiv_block b (h b (by simp))) (equiv_flat bs (fun x hx => h x (by simp [hx])))

theorem noNL_blockLines (b : Block) (h : GoodBlock b) : ∀ l ∈ blockLinesWith sortE b, noNL l := by
  intro l hl
  unfold blockLinesWith at hl
  unfold GoodBlock at h
  cases hk : b.kind with
  | comment => rw [hk] at h hl; exact h l hl
  | sect =>
    rw [hk] at h hl
    simp only [List.mem_append, List.mem_map] at hl
    rcases hl with hl | ⟨e, he, rfl⟩
    · by_cases hh : b.hasHeader = true
      · simp [hh] at hl; subst hl; exact h.1 hh
      · simp [hh] at hl
    · exact (h.2 e ((mem_sortE e _).1 he)).1

theorem noNL_nil : noNL [] := by simp [noNL]

theorem noNL_render (bs : List Block) (h : ∀ b ∈ bs, GoodBlock b) : ∀ l ∈ renderLinesWith sortE bs, noNL l := by
  intro l hl
  cases bs with
  | nil => simp [renderLinesWith] at hl
  | cons b bs =>
    simp only [renderLinesWith, List.mem_append, List.mem_flatMap, List.mem_cons] at hl
    rcases hl with hl | ⟨x, hx, hl | hl⟩
    · exact noNL_blockLines b (h b (by simp)) l hl
    · subst hl; exact noNL_nil
    · exact noNL_blockLines x (h x (by simp [hx])) l hl

/-! ### splitting what render wrote -/

theorem splitLines_line (l rest : Str) (h : noNL l) : splitLines (l ++ '\n' :: rest) = l :: splitLines rest := by
  induction l with
  | nil => simp [splitLines]
  | cons c l ih =>
    have hc : ¬ c = '\n' := fun e => h (by simp [e])
    have := ih (fun e => h (List.mem_cons_of_mem _ e))
    simp [splitLines, hc, this]

theorem splitLines_join (ls : List Str) (h : ∀ l ∈ ls, noNL l) : splitLines (joinLines ls) = ls ++ [[]] := by
  induction ls with
  | nil => simp [joinLines, splitLines]
  | cons l ls ih =>
    have h1 := ih (fun x hx => h x (by simp [hx]))
    have : joinLines (l :: ls) = l ++ '\n' :: joinLines ls := by simp [joinLines]
    rw [this, splitLines_line l _ (h l (by simp)), h1]
    rfl

theorem splitLines_noNL (s : Str) : ∀ l ∈ splitLines s, noNL l := by
  induction s with
  | nil => simp [splitLines, noNL]
  | cons c cs ih =>
    intro l hl
    unfold splitLines at hl
    split at hl
    · rcases List.mem_cons.1 hl with h | h
      · subst h; exact noNL_nil
      · exact ih l h
    · rename_i hc
      split at hl
      · simp at hl; subst hl; simp [noNL]; exact fun e => hc e.symm
      · rename_i l0 ls0 hs
        rw [hs] at ih
        rcases List.mem_cons.1 hl with h | h
        · subst h
          have := ih l0 (by simp)
          simp [noNL] at this ⊢
          exact ⟨fun e => hc e.symm, this⟩
        · exact ih l (by simp [h])



/-! ### parse keeps what the compiler sees -/

def Inv (st : PSt) (P : List Str) : Prop :=
  (∀ b ∈ st.blocks, GoodBlock b) ∧ Equiv (renderLinesWith id st.blocks) P

theorem equiv_sep_single (bs : List Block) (l raw : Str) (h : cline l = cline raw) :
    Equiv (sep bs ++ [l]) [raw] := by
  unfold sep
  split
  · simpa using equiv_single l raw h
  · exact Equiv.append (a := [[]]) (a' := []) (equiv_skip [] cline_nil) (equiv_single l raw h)

theorem inv_new_block (bs : List Block) (b : Block) (P : List Str) (raw l : Str)
    (hg : ∀ x ∈ bs, GoodBlock x) (he : Equiv (renderLinesWith id bs) P)
    (hb : GoodBlock b) (hl : blockLinesWith id b = [l]) (hc : cline l = cline raw) :
    (∀ x ∈ bs ++ [b], GoodBlock x) ∧ Equiv (renderLinesWith id (bs ++ [b])) (P ++ [raw]) := by
  constructor
  · intro x hx
    rcases List.mem_append.1 hx with hx | hx
    · exact hg x hx
    · simp at hx; subst hx; exact hb
  · rw [rlw_snoc, hl]
    exact Equiv.append he (equiv_sep_single bs l raw hc)

theorem inv_grow_block (done : List Block) (b b' : Block) (P : List Str) (raw l : Str)
    (hg : ∀ x ∈ done ++ [b], GoodBlock x) (he : Equiv (renderLinesWith id (done ++ [b])) P)
    (hb : GoodBlock b') (hl : blockLinesWith id b' = blockLinesWith id b ++ [l]) (hc : cline l = cline raw) :
    (∀ x ∈ done ++ [b'], GoodBlock x) ∧ Equiv (renderLinesWith id (done ++ [b'])) (P ++ [raw]) := by
  constructor
  · intro x hx
    rcases List.mem_append.1 hx with hx | hx
    · exact hg x (by simp [hx])
    · simp at hx; subst hx; exact hb
  · have : renderLinesWith id (done ++ [b']) = renderLinesWith id (done ++ [b]) ++ [l] := by
      rw [rlw_snoc, rlw_snoc, hl]; simp
    rw [this]
    exact Equiv.append he (equiv_single l raw hc)

theorem step_inv (st st' : PSt) (P : List Str) (n : Nat) (raw : Str) (hinv : Inv st P) (hnl : noNL raw)
    (h : pstep st n raw = .ok st') : Inv st' (P ++ [raw]) := by
  obtain ⟨hg, he⟩ := hinv
  have hlnl : noNL (trimCR raw) := fun hm => hnl (mem_trimRightBy _ _ _ hm)
  have hcl : cline (trimCR raw) = cline raw := cline_trimCR raw
  unfold pstep at h
  simp only [] at h
  split at h
  · -- blank line
    rename_i hb
    cases h
    have hs : cline raw = .skip := by
      rw [← hcl]; unfold cline; by_cases hh : (trimCR raw).head? = some '#' <;> simp [hh, hb]
    exact ⟨hg, by simpa using Equiv.append he (equiv_skip raw hs).symm⟩
  · split at h
    · -- comment line
      rename_i hb hh
      have hc : cline (trimCR raw) = cline raw := hcl
      split at h
      · rename_i hcur
        cases h
        simp only [PSt.blocks, hcur, Option.toList] at hg he ⊢
        unfold Inv; simp only [PSt.blocks, Option.toList]
        exact inv_new_block st.done (commentBlock (trimCR raw)) P raw _ (by simpa using hg) (by simpa using he)
          (by simp [GoodBlock, commentBlock]; exact hlnl) (by simp [blockLinesWith, commentBlock]) hc
      · rename_i b hcur
        split at h
        · rename_i hk
          cases h
          unfold Inv; simp only [PSt.blocks, hcur, Option.toList] at hg he ⊢
          refine inv_grow_block st.done b _ P raw (trimCR raw) hg he ?_ ?_ hc
          · have hb0 := hg b (by simp)
            unfold GoodBlock at hb0 ⊢
            simp only [hk] at hb0 ⊢
            intro l hl
            rcases List.mem_append.1 hl with hl | hl
            · exact hb0 l hl
            · simp at hl; subst hl; exact hlnl
          · simp [blockLinesWith, hk]
        · rename_i hk
          cases h
          unfold Inv; simp only [PSt.blocks, hcur, Option.toList] at hg he ⊢
          exact inv_new_block (st.done ++ [b]) (commentBlock (trimCR raw)) P raw _ hg he
            (by simp [GoodBlock, commentBlock]; exact hlnl) (by simp [blockLinesWith, commentBlock]) hc
    · split at h
      · -- section header
        rename_i hb hh h1
        split at h
        · rename_i h2
          cases h
          unfold Inv; simp only [PSt.blocks, Option.toList_some] at hg he ⊢
          have hhl : headerLine (inner (trimCR raw)) = trimCR raw := headerLine_inner _ h1 h2
          have := inv_new_block (st.done ++ st.cur.toList) (sectionBlock (inner (trimCR raw)) true) P raw (trimCR raw) hg he
            (by simp [GoodBlock, sectionBlock, hhl]; exact hlnl) (by simp [blockLinesWith, sectionBlock, hhl]) hcl
          exact this
        · cases h
      · split at h
        · cases h
        · -- entry
          rename_i hb hh h1 h5
          split at h
          · cases h
          · rename_i k v hs
            split at h
            · cases h
            · rename_i hk
              obtain ⟨hl, _⟩ := splitEq_spec _ k v hs
              have hel : entryLine (k, v) = trimCR raw := by simp [entryLine, hl.symm]
              have hce : cline (trimCR raw) = .entry (trim k) (trimRight v) := cline_entry _ k v hh h5 hs
              have hge : GoodEntry (k, v) := by
                unfold GoodEntry; rw [hel]; exact ⟨hlnl, by simpa [cval] using hce⟩
              have hc : cline (entryLine (k, v)) = cline raw := by rw [hel]; exact hcl
              cases hcur : st.cur with
              | none =>
                simp only [hcur] at h
                cases h
                unfold Inv; simp only [PSt.blocks, hcur, Option.toList] at hg he ⊢
                exact inv_new_block st.done _ P raw (entryLine (k, v)) (by simpa using hg) (by simpa using he)
                  (by simp [GoodBlock, sectionBlock]; exact hge) (by simp [blockLinesWith, sectionBlock]) hc
              | some b =>
                simp only [hcur] at h
                by_cases hkind : b.kind = .sect
                · simp only [hkind, if_true] at h
                  cases h
                  unfold Inv; simp only [PSt.blocks, hcur, Option.toList] at hg he ⊢
                  refine inv_grow_block st.done b _ P raw (entryLine (k, v)) hg he ?_ ?_ hc
                  · have hb0 := hg b (by simp)
                    unfold GoodBlock at hb0 ⊢
                    simp only [hkind] at hb0 ⊢
                    refine ⟨hb0.1, ?_⟩
                    intro e he'
                    rcases List.mem_append.1 he' with he' | he'
                    · exact hb0.2 e he'
                    · simp at he'; subst he'; exact hge
                  · simp [blockLinesWith, hkind]
                · simp only [hkind, if_false] at h
                  cases h
                  unfold Inv; simp only [PSt.blocks, hcur, Option.toList] at hg he ⊢
                  exact inv_new_block (st.done ++ [b]) _ P raw (entryLine (k, v)) hg he
                    (by simp [GoodBlock, sectionBlock]; exact hge) (by simp [blockLinesWith, sectionBlock]) hc



theorem run_inv (st st' : PSt) (P L : List Str) (n : Nat) (hinv : Inv st P) (hnl : ∀ l ∈ L, noNL l)
    (h : prun st n L = .ok st') : Inv st' (P ++ L) := by
  induction L generalizing st n P with
  | nil => simp [prun] at h; cases h; simpa using hinv
  | cons l ls ih =>
    unfold prun at h
    split at h
    · cases h
    · rename_i st1 hs
      have h1 := step_inv st st1 P n l hinv (hnl l (by simp)) hs
      have := ih st1 (P ++ [l]) (n + 1) h1 (fun x hx => hnl x (by simp [hx])) h
      simpa using this

end EgoVerif.C35
