/-
C35 — model of langlint's `Format` (tools/langlint/lint.go: parse / splitEntry /
duplicateKeyWarnings / render) and of the message compiler's line reader
(tools/lang/compile.go: compileFile), core Lean only.

Files are `List Char` (valid UTF-8 text; Go's byte-wise string order then coincides with the
code-point order used here).  The langlint model mirrors the code WITH fixes/C35.patch applied:
  * an indented "[..." line is a format error (the compiler would read it as a section header),
  * the fully-qualified key used for duplicate detection uses the trimmed key,
  * section entries are sorted (stably) by the trimmed key.
-/
namespace EgoVerif.C35

abbrev Str := List Char

/-- Go's `unicode.IsSpace` (what `strings.TrimSpace` strips). -/
def isSpace (c : Char) : Bool :=
  let n := c.toNat
  n == 0x20 || (0x09 ≤ n && n ≤ 0x0d) || n == 0x85 || n == 0xa0 || n == 0x1680 ||
  (0x2000 ≤ n && n ≤ 0x200a) || n == 0x2028 || n == 0x2029 || n == 0x202f || n == 0x205f || n == 0x3000

def isCR (c : Char) : Bool := c == '\r'

/-- remove the longest suffix whose characters all satisfy `p` (`strings.TrimRight…`) -/
def trimRightBy (p : Char → Bool) : Str → Str
  | [] => []
  | c :: cs =>
    match trimRightBy p cs with
    | [] => if p c then [] else [c]
    | d :: ds => c :: d :: ds

def trimLeft (s : Str) : Str := s.dropWhile isSpace
def trimRight (s : Str) : Str := trimRightBy isSpace s
/-- `strings.TrimRight(raw, "\r")` -/
def trimCR (s : Str) : Str := trimRightBy isCR s
/-- `strings.TrimSpace` -/
def trim (s : Str) : Str := trimLeft (trimRight s)

/-- `strings.Split(s, "\n")` -/
def splitLines : Str → List Str
  | [] => [[]]
  | c :: cs =>
    if c = '\n' then [] :: splitLines cs
    else match splitLines cs with
      | [] => [[c]]
      | l :: ls => (c :: l) :: ls

/-- `i := strings.Index(line, "="); line[:i], line[i+1:]` (`none` when there is no '=') -/
def splitEq : Str → Option (Str × Str)
  | [] => none
  | c :: cs =>
    if c = '=' then some ([], cs)
    else match splitEq cs with
      | none => none
      | some (k, v) => some (c :: k, v)

/-- `line[1 : len(line)-1]` -/
def inner (s : Str) : Str := (s.drop 1).dropLast

/-- `prefix + "." + key`, or `key` when the prefix is empty (both programs) -/
def fullKey (p k : Str) : Str := if p = [] then k else p ++ '.' :: k

/-! ## the compiler: tools/lang/compile.go `compileFile` -/

inductive CEv where
  | skip
  | pfx (h : Str)
  | entry (k v : Str)
  | bad            -- the compiler panics
  deriving Repr, DecidableEq

/-- what one line of the file means to the compiler (the body of the `for lineNumber, line` loop) -/
def cline (raw : Str) : CEv :=
  if raw.head? = some '#' then .skip                       -- comment test is on the untrimmed line
  else
    let t := trim raw
    if t = [] then .skip
    else if t.head? = some '[' then
      (if t.getLast? = some ']' then .pfx (inner t) else .bad)
    else match splitEq t with
      | none => .bad
      | some (k, v) => .entry (trim k) v

structure CSt where
  pfx : Str
  tab : List (Str × Str)      -- assignments `messages[key][language] = message`, in order

def cstep (σ : CSt) (raw : Str) : Option CSt :=
  match cline raw with
  | .skip => some σ
  | .pfx h => some { σ with pfx := h }
  | .bad => none
  | .entry k v => some { σ with tab := σ.tab ++ [(fullKey σ.pfx k, v)] }

def crun : CSt → List Str → Option CSt
  | σ, [] => some σ
  | σ, l :: ls =>
    match cstep σ l with
    | none => none
    | some σ' => crun σ' ls

/-- the ordered list of map assignments the compiler performs (`none` = panic) -/
def compile (s : Str) : Option (List (Str × Str)) :=
  (crun ⟨[], []⟩ (splitLines s)).map (·.tab)

/-- the map after the assignments: the last definition of a key wins -/
def get (t : List (Str × Str)) (k : Str) : Option Str :=
  t.foldl (fun acc e => if e.1 = k then some e.2 else acc) none

/-- the key→message table built from a file -/
def table (s : Str) : Option (Str → Option Str) := (compile s).map get

/-! ## langlint: tools/langlint/lint.go -/

inductive Kind where
  | comment
  | sect
  deriving Repr, DecidableEq

structure Block where
  kind : Kind
  comments : List Str
  header : Str
  hasHeader : Bool
  entries : List (Str × Str)         -- kvEntry.key, kvEntry.value  (kvEntry.line is not used by render)
  deriving Repr, DecidableEq

inductive Err where
  | header | indentedHeader | noEq | emptyKey
  deriving Repr, DecidableEq

/-- `blocks`, split as `blocks[:len-1]` and the element `cur` points to; `currentPrefix`; `seenAt`
    as the list of (fullKey, lineNumber) in the order of the appends -/
structure PSt where
  done : List Block
  cur : Option Block
  pfx : Str
  seen : List (Str × Nat)

def PSt.blocks (st : PSt) : List Block := st.done ++ st.cur.toList

def commentBlock (line : Str) : Block := ⟨.comment, [line], [], false, []⟩
def sectionBlock (h : Str) (hasHeader : Bool) : Block := ⟨.sect, [], h, hasHeader, []⟩

/-- one iteration of the loop in `parse` on (lineNumber, raw) -/
def pstep (st : PSt) (n : Nat) (raw : Str) : Except (Nat × Err) PSt :=
  let line := trimCR raw
  if trim line = [] then .ok st
  else if line.head? = some '#' then
    match st.cur with
    | none => .ok { st with cur := some (commentBlock line) }
    | some b =>
      if b.kind = .comment then .ok { st with cur := some { b with comments := b.comments ++ [line] } }
      else .ok { st with done := st.done ++ [b], cur := some (commentBlock line) }
  else if line.head? = some '[' then
    if line.getLast? = some ']' then
      .ok { st with done := st.blocks, cur := some (sectionBlock (inner line) true), pfx := inner line }
    else .error (n, .header)
  else if (trim line).head? = some '[' then .error (n, .indentedHeader)     -- fixes/C35.patch
  else match splitEq line with
    | none => .error (n, .noEq)
    | some (k, v) =>
      if k = [] then .error (n, .emptyKey)
      else
        let (done', b) : List Block × Block :=
          match st.cur with
          | none => (st.done, sectionBlock st.pfx false)
          | some b => if b.kind = .sect then (st.done, b) else (st.done ++ [b], sectionBlock st.pfx false)
        .ok { done := done', cur := some { b with entries := b.entries ++ [(k, v)] }, pfx := st.pfx,
              seen := st.seen ++ [(fullKey b.header (trim k), n)] }

def prun : PSt → Nat → List Str → Except (Nat × Err) PSt
  | st, _, [] => .ok st
  | st, n, l :: ls =>
    match pstep st n l with
    | .error e => .error e
    | .ok st' => prun st' (n + 1) ls

def pinit : PSt := ⟨[], none, [], []⟩

/-- `sort.SliceStable(entries, trimmed key <)` : the stable sort (insertion from the right) -/
def insertE (e : Str × Str) : List (Str × Str) → List (Str × Str)
  | [] => [e]
  | y :: ys => if trim y.1 < trim e.1 then y :: insertE e ys else e :: y :: ys

def sortE : List (Str × Str) → List (Str × Str)
  | [] => []
  | e :: es => insertE e (sortE es)

def entryLine (e : Str × Str) : Str := e.1 ++ '=' :: e.2
def headerLine (h : Str) : Str := '[' :: (h ++ [']'])

def blockLines (b : Block) : List Str :=
  match b.kind with
  | .comment => b.comments
  | .sect => (if b.hasHeader then [headerLine b.header] else []) ++ (sortE b.entries).map entryLine

/-- the lines `render` writes (each is followed by "\n"); a blank line before every block but the first -/
def renderLines : List Block → List Str
  | [] => []
  | b :: bs => blockLines b ++ bs.flatMap (fun b => [] :: blockLines b)

def joinLines (ls : List Str) : Str := ls.flatMap (· ++ ['\n'])

def render (bs : List Block) : Str := joinLines (renderLines bs)

/-- sorted set insertion (the keys of the Go map, after `sort.Strings`) -/
def insertUniq (k : Str) : List Str → List Str
  | [] => [k]
  | y :: ys => if y < k then y :: insertUniq k ys else if y = k then y :: ys else k :: y :: ys

/-- `duplicateKeyWarnings`: the fully-qualified keys defined more than once, alphabetically -/
def dupKeys (seen : List (Str × Nat)) : List Str :=
  let keys := seen.map (·.1)
  (keys.foldr insertUniq []).filter (fun k => decide (keys.count k > 1))

def linesOfKey (seen : List (Str × Nat)) (k : Str) : List Nat :=
  (seen.filter (fun e => e.1 = k)).map (·.2)

structure Formatted where
  out : Str
  dups : List Str
  seen : List (Str × Nat)

/-- `Format` (brace warnings are not modelled: they do not influence the output) -/
def format (s : Str) : Except (Nat × Err) Formatted :=
  match prun pinit 1 (splitLines s) with
  | .error e => .error e
  | .ok st => .ok ⟨render st.blocks, dupKeys st.seen, st.seen⟩

end EgoVerif.C35
