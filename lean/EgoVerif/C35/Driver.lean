import EgoVerif.Common.Drv
import EgoVerif.C35.Model
/- line protocol (all text fields hex of UTF-8, "-" = empty):
   `fmt <file>` → `ok <formatted> <dups>`  with dups = `none` | `<key>:<l1>.<l2>…,<key>:…`
                 | `err <line> <header|indented|noeq|emptykey>`
   `tab <file>` → `panic` | `empty` | `<key>=<msg>;<key>=<msg>…` (keys ascending, last definition wins) -/
namespace EgoVerif.C35

def hx (s : Str) : String := hexOfString (String.ofList s)

def errName : Err → String
  | .header => "header" | .indentedHeader => "indented" | .noEq => "noeq" | .emptyKey => "emptykey"

def showDups (f : Formatted) : String :=
  if f.dups.isEmpty then "none" else
  ",".intercalate (f.dups.map fun k => hx k ++ ":" ++ ".".intercalate ((linesOfKey f.seen k).map toString))

def showTable (t : List (Str × Str)) : String :=
  let keys := (t.map (·.1)).foldr insertUniq []
  if keys.isEmpty then "empty" else
  ";".intercalate (keys.map fun k => hx k ++ "=" ++ hx ((get t k).getD []))

def handle (line : String) : String :=
  match fields line with
  | ["fmt", h] =>
    match stringOfHex h with
    | none => "bad-input"
    | some s =>
      match format s.toList with
      | .error (n, e) => s!"err {n} {errName e}"
      | .ok f => s!"ok {hx f.out} {showDups f}"
  | ["tab", h] =>
    match stringOfHex h with
    | none => "bad-input"
    | some s =>
      match compile s.toList with
      | none => "panic"
      | some t => showTable t
  | _ => "bad-op"

def drv : Drv := Drv.pure handle

end EgoVerif.C35
