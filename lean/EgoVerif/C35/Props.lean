import EgoVerif.C35.Lemmas
/-
C35 — property theorems for langlint's Format against the message compiler.

  * `C35_table`        : Format s = ok f  →  table f.out = table s
                         (the compiler builds the same key→message map, or panics on both);
  * `C35_dup_reported` : Format s = ok f  →  the compiler does not panic on s and every key it assigns
                         more than once is in f.dups (and conversely);
  * `C35_idempotent`   : Format s = ok f  →  Format f.out = ok f' with f'.out = f.out.
-/
namespace EgoVerif.C35

theorem inv_init : Inv pinit [] := by
  constructor
  · intro b hb; simp [pinit, PSt.blocks] at hb
  · exact Equiv.refl _

/-- **C35 (table).**  Whenever `Format` succeeds, the compiler builds from the formatted file
exactly the key→message table it builds from the original (and panics on one iff on the other). -/
theorem C35_table (s : Str) (f : Formatted) (h : format s = .ok f) : table f.out = table s := by
  unfold format at h
  split at h
  · cases h
  · rename_i st hp
    cases h
    have hinv := run_inv pinit st [] (splitLines s) 1 inv_init (splitLines_noNL s) hp
    simp only [List.nil_append] at hinv
    obtain ⟨hg, he⟩ := hinv
    rw [table_eq, table_eq]
    show Option.map _ (srun _ (splitLines (render st.blocks))) = _
    unfold render
    rw [renderLines_eq, splitLines_join _ (noNL_render _ hg)]
    have e1 : Equiv (renderLinesWith sortE st.blocks ++ [[]]) (splitLines s) := by
      have := Equiv.append ((equiv_render _ hg).trans he) (equiv_skip [] cline_nil)
      simpa using this
    rw [e1 _]



/-! ### duplicate keys: langlint's `seenAt` keys are exactly the compiler's assignments -/

def J (st : PSt) (σ : CSt) : Prop :=
  σ.pfx = st.pfx ∧ σ.tab.map (·.1) = st.seen.map (·.1) ∧
  (∀ b, st.cur = some b → b.kind = .sect → b.header = st.pfx)

theorem step_J (st st' : PSt) (σ : CSt) (n : Nat) (raw : Str) (hJ : J st σ)
    (h : pstep st n raw = .ok st') : ∃ σ', cstep σ raw = some σ' ∧ J st' σ' := by
  obtain ⟨hp, hs, hc⟩ := hJ
  have hcl : cline (trimCR raw) = cline raw := cline_trimCR raw
  unfold pstep at h
  simp only [] at h
  split at h
  · rename_i hb
    cases h
    have hs' : cline raw = .skip := by
      rw [← hcl]; unfold cline; by_cases hh : (trimCR raw).head? = some '#' <;> simp [hh, hb]
    exact ⟨σ, by simp [cstep, hs'], hp, hs, hc⟩
  · split at h
    · rename_i hb hh
      have hs' : cline raw = .skip := by rw [← hcl]; exact cline_comment _ hh
      refine ⟨σ, by simp [cstep, hs'], ?_⟩
      split at h
      · cases h; exact ⟨hp, hs, by simp [commentBlock]⟩
      · split at h
        · rename_i b hcur hk
          cases h
          refine ⟨hp, hs, ?_⟩
          intro b' hb' hk'
          simp at hb'; subst hb'
          simp [hk] at hk'
        · cases h; exact ⟨hp, hs, by simp [commentBlock]⟩
    · split at h
      · rename_i hb hh h1
        split at h
        · rename_i h2
          cases h
          have hs' : cline raw = .pfx (inner (trimCR raw)) := by rw [← hcl]; exact cline_header _ h1 h2
          exact ⟨{ σ with pfx := inner (trimCR raw) }, by simp [cstep, hs'], rfl, hs, by simp [sectionBlock]⟩
        · cases h
      · split at h
        · cases h
        · rename_i hb hh h1 h5
          split at h
          · cases h
          · rename_i k v hsp
            split at h
            · cases h
            · rename_i hk
              have hs' : cline raw = .entry (trim k) (trimRight v) := by rw [← hcl]; exact cline_entry _ k v hh h5 hsp
              refine ⟨{ σ with tab := σ.tab ++ [(fullKey σ.pfx (trim k), trimRight v)] }, by simp [cstep, hs'], ?_⟩
              cases hcur : st.cur with
              | none =>
                simp only [hcur] at h
                cases h
                exact ⟨hp, by simp [hs, sectionBlock, hp], by simp [sectionBlock]⟩
              | some b =>
                simp only [hcur] at h
                by_cases hkind : b.kind = .sect
                · simp only [hkind, if_true] at h
                  cases h
                  have hh' := hc b hcur hkind
                  exact ⟨hp, by simp [hs, hh', hp], by simp [hh']⟩
                · simp only [hkind, if_false] at h
                  cases h
                  exact ⟨hp, by simp [hs, sectionBlock, hp], by simp [sectionBlock]⟩

theorem run_J (st st' : PSt) (σ : CSt) (n : Nat) (L : List Str) (hJ : J st σ)
    (h : prun st n L = .ok st') : ∃ σ', crun σ L = some σ' ∧ J st' σ' := by
  induction L generalizing st σ n with
  | nil => simp [prun] at h; cases h; exact ⟨σ, rfl, hJ⟩
  | cons l ls ih =>
    unfold prun at h
    split at h
    · cases h
    · rename_i st1 hs
      obtain ⟨σ1, h1, hJ1⟩ := step_J st st1 σ n l hJ hs
      obtain ⟨σ2, h2, hJ2⟩ := ih st1 σ1 (n + 1) hJ1 h
      exact ⟨σ2, by simp [crun, h1, h2], hJ2⟩

theorem mem_insertUniq (x k : Str) (l : List Str) : x ∈ insertUniq k l ↔ x = k ∨ x ∈ l := by
  induction l with
  | nil => simp [insertUniq]
  | cons y ys ih =>
    unfold insertUniq
    split
    · simp [ih]; constructor
      · rintro (h | h | h) <;> simp [h]
      · rintro (h | h | h) <;> simp [h]
    · split
      · rename_i hy
        subst hy
        simp
      · simp

theorem mem_foldr_insertUniq (x : Str) (l : List Str) : x ∈ l.foldr insertUniq [] ↔ x ∈ l := by
  induction l with
  | nil => simp
  | cons k ks ih => simp [mem_insertUniq, ih]

theorem mem_dupKeys (seen : List (Str × Nat)) (K : Str) :
    K ∈ dupKeys seen ↔ 1 < (seen.map (·.1)).count K := by
  unfold dupKeys
  simp only [List.mem_filter, mem_foldr_insertUniq, decide_eq_true_eq, gt_iff_lt]
  constructor
  · exact fun h => h.2
  · intro h
    exact ⟨List.count_pos_iff.1 (by omega), h⟩

/-- **C35 (duplicates).**  Whenever `Format` succeeds the compiler does not panic on the file, and a
fully-qualified key is reported as a duplicate by langlint exactly when the compiler assigns it more
than once (so every duplicate whose winner could matter is reported). -/
theorem C35_dup_reported (s : Str) (f : Formatted) (h : format s = .ok f) :
    ∃ T, compile s = some T ∧ ∀ K, K ∈ f.dups ↔ 1 < (T.map (·.1)).count K := by
  unfold format at h
  split at h
  · cases h
  · rename_i st hp
    cases h
    obtain ⟨σ, h1, _, h2, _⟩ := run_J pinit st ⟨[], []⟩ 1 (splitLines s) ⟨rfl, rfl, by simp [pinit]⟩ hp
    refine ⟨σ.tab, by simp [compile, h1], ?_⟩
    intro K
    rw [h2]
    exact mem_dupKeys st.seen K



/-! ### idempotence, part 1: the stable sort is idempotent -/

def Sorted (l : List (Str × Str)) : Prop := l.Pairwise (fun a b => ¬ trim b.1 < trim a.1)

theorem insertE_sorted (e : Str × Str) (l : List (Str × Str)) (h : Sorted l) : Sorted (insertE e l) := by
  induction l with
  | nil => simp [insertE, Sorted]
  | cons y ys ih =>
    unfold Sorted at h
    rw [List.pairwise_cons] at h
    unfold insertE
    split
    · rename_i hlt
      unfold Sorted
      rw [List.pairwise_cons]
      refine ⟨?_, ih h.2⟩
      intro x hx
      rcases (mem_insertE e x ys).1 hx with hx | hx
      · subst hx
        rw [List.not_lt]; exact List.le_of_lt hlt
      · exact h.1 x hx
    · rename_i hnlt
      unfold Sorted
      rw [List.pairwise_cons, List.pairwise_cons]
      refine ⟨?_, h⟩
      intro x hx
      rcases List.mem_cons.1 hx with hx | hx
      · subst hx; exact hnlt
      · have := h.1 x hx
        rw [List.not_lt] at *
        exact List.le_trans hnlt this

theorem sorted_sortE (l : List (Str × Str)) : Sorted (sortE l) := by
  induction l with
  | nil => simp [sortE, Sorted]
  | cons e es ih => exact insertE_sorted e _ ih

theorem sortE_of_sorted (l : List (Str × Str)) (h : Sorted l) : sortE l = l := by
  induction l with
  | nil => rfl
  | cons e es ih =>
    unfold Sorted at h
    rw [List.pairwise_cons] at h
    simp only [sortE]
    rw [ih h.2]
    cases es with
    | nil => rfl
    | cons y ys =>
      have := h.1 y (by simp)
      simp [insertE, this]

theorem sortE_idem (l : List (Str × Str)) : sortE (sortE l) = sortE l :=
  sortE_of_sorted _ (sorted_sortE l)



/-! ### idempotence, part 2: what `parse` does on lines written by `render` -/

def OKComment (l : Str) : Prop := trimCR l = l ∧ trim l ≠ [] ∧ l.head? = some '#'

def OKEntry (e : Str × Str) : Prop :=
  trimCR e.2 = e.2 ∧ '=' ∉ e.1 ∧ e.1 ≠ [] ∧ ¬ e.1.head? = some '#' ∧ ¬ e.1.head? = some '[' ∧
  ¬ (trim (entryLine e)).head? = some '['

theorem pstep_blank (st : PSt) (n : Nat) : pstep st n [] = .ok st := by
  simp [pstep, trimCR, trimRightBy, trim, trimRight, trimLeft]

theorem pstep_comment (st : PSt) (n : Nat) (l : Str) (h : OKComment l) :
    pstep st n l = .ok (match st.cur with
      | none => { st with cur := some (commentBlock l) }
      | some b => if b.kind = .comment then { st with cur := some { b with comments := b.comments ++ [l] } }
                  else { st with done := st.done ++ [b], cur := some (commentBlock l) }) := by
  obtain ⟨h1, h2, h3⟩ := h
  unfold pstep
  simp only [h1, h2, h3, if_false, if_true]
  cases st.cur with
  | none => rfl
  | some b => by_cases hk : b.kind = .comment <;> simp [hk]

theorem notCR_rb : isCR ']' = false := by decide
theorem notCR_eq : isCR '=' = false := by decide
theorem notSpace_lb : isSpace '[' = false := by decide

theorem headerLine_facts (h : Str) :
    trimCR (headerLine h) = headerLine h ∧ trim (headerLine h) ≠ [] ∧ (headerLine h).head? = some '[' ∧
    (headerLine h).getLast? = some ']' ∧ inner (headerLine h) = h := by
  refine ⟨?_, ?_, ?_, ?_, ?_⟩
  · have : headerLine h = ('[' :: h) ++ ']' :: [] := by simp [headerLine]
    rw [this]; unfold trimCR
    rw [trimRightBy_mid isCR _ ']' [] notCR_rb]; simp [trimRightBy]
  · exact trim_ne_nil_of_mem _ '[' notSpace_lb (by simp [headerLine])
  · simp [headerLine]
  · have : headerLine h = ('[' :: h) ++ [']'] := by simp [headerLine]
    rw [this, List.getLast?_concat]
  · simp [headerLine, inner]

theorem pstep_header (st : PSt) (n : Nat) (h : Str) :
    pstep st n (headerLine h) =
      .ok { st with done := st.blocks, cur := some (sectionBlock h true), pfx := h } := by
  obtain ⟨h1, h2, h3, h4, h5⟩ := headerLine_facts h
  unfold pstep
  simp only [h1, h2, h3, h4, h5, if_false, if_true]
  simp

theorem entryLine_facts (e : Str × Str) (he : OKEntry e) :
    trimCR (entryLine e) = entryLine e ∧ trim (entryLine e) ≠ [] ∧ ¬ (entryLine e).head? = some '#' ∧
    ¬ (entryLine e).head? = some '[' ∧ splitEq (entryLine e) = some (e.1, e.2) := by
  obtain ⟨h1, h2, h3, h4, h5, h6⟩ := he
  have hh : (entryLine e).head? = e.1.head? := by
    unfold entryLine
    cases hk : e.1 with
    | nil => exact absurd hk h3
    | cons c cs => simp
  refine ⟨?_, ?_, ?_, ?_, ?_⟩
  · unfold entryLine trimCR
    rw [trimRightBy_mid isCR _ '=' _ notCR_eq]
    unfold trimCR at h1; rw [h1]
  · exact trim_ne_nil_of_mem _ '=' eq_notSpace (by simp [entryLine])
  · rw [hh]; exact h4
  · rw [hh]; exact h5
  · exact splitEq_of _ _ h2

theorem pstep_entry (st : PSt) (n : Nat) (e : Str × Str) (he : OKEntry e) :
    ∃ seen', pstep st n (entryLine e) = .ok (match st.cur with
      | none => ⟨st.done, some { sectionBlock st.pfx false with entries := [e] }, st.pfx, seen'⟩
      | some b => if b.kind = .sect then ⟨st.done, some { b with entries := b.entries ++ [e] }, st.pfx, seen'⟩
                  else ⟨st.done ++ [b], some { sectionBlock st.pfx false with entries := [e] }, st.pfx, seen'⟩) := by
  obtain ⟨h1, h2, h3, h4, h5⟩ := entryLine_facts e he
  have h6 := he.2.2.2.2.2
  have h7 := he.2.2.1
  unfold pstep
  simp only [h1, h2, h3, h4, h5, h6, h7, if_false]
  cases st.cur with
  | none => exact ⟨_, rfl⟩
  | some b =>
    by_cases hk : b.kind = .sect
    · simp only [hk, if_true]; exact ⟨_, rfl⟩
    · simp only [hk, if_false]; exact ⟨_, rfl⟩



/-! ### idempotence, part 3: the shape of the block lists `parse` can produce -/

def OKBlock (b : Block) : Prop :=
  match b.kind with
  | .comment => b.comments ≠ [] ∧ (∀ l ∈ b.comments, OKComment l) ∧ b.header = [] ∧ b.hasHeader = false ∧ b.entries = []
  | .sect => b.comments = [] ∧ (b.hasHeader = false → b.entries ≠ []) ∧ ∀ e ∈ b.entries, OKEntry e

def lastKind (bs : List Block) : Option Kind := bs.getLast?.map (·.kind)

/-- `b` may follow the blocks `bs` (after which the prefix in force is `p0`); then the prefix is `p` -/
def Ext (bs : List Block) (p0 : Str) (b : Block) (p : Str) : Prop :=
  OKBlock b ∧
  match b.kind with
  | .comment => lastKind bs ≠ some .comment ∧ p = p0
  | .sect => if b.hasHeader = true then p = b.header
             else (b.header = p0 ∧ p = p0 ∧ lastKind bs ≠ some .sect)

inductive WF : List Block → Str → Prop
  | nil : WF [] []
  | snoc {bs : List Block} {p0 : Str} {b : Block} {p : Str} : WF bs p0 → Ext bs p0 b p → WF (bs ++ [b]) p

def WFS (st : PSt) : Prop :=
  match st.cur with
  | none => st.done = [] ∧ st.pfx = []
  | some b => ∃ p0, WF st.done p0 ∧ Ext st.done p0 b st.pfx

theorem WFS_blocks (st : PSt) (h : WFS st) : WF st.blocks st.pfx := by
  unfold WFS at h
  unfold PSt.blocks
  cases hc : st.cur with
  | none => rw [hc] at h; simp [h.1, h.2]; exact WF.nil
  | some b => rw [hc] at h; obtain ⟨p0, h1, h2⟩ := h; exact WF.snoc h1 h2

theorem lastKind_snoc (bs : List Block) (b : Block) : lastKind (bs ++ [b]) = some b.kind := by
  simp [lastKind]

theorem trimCR_idem (l : Str) : trimCR (trimCR l) = trimCR l :=
  trimRightBy_absorb isCR isCR (fun _ h => h) l

theorem OK_commentBlock (l : Str) (h : OKComment l) : OKBlock (commentBlock l) := by
  simp [OKBlock, commentBlock, h]

theorem step_WFS (st st' : PSt) (n : Nat) (raw : Str) (hw : WFS st) (h : pstep st n raw = .ok st') : WFS st' := by
  have hblocks := WFS_blocks st hw
  unfold pstep at h
  simp only [] at h
  split at h
  · cases h; exact hw
  · split at h
    · rename_i hb hh
      have hok : OKComment (trimCR raw) := ⟨trimCR_idem raw, hb, hh⟩
      split at h
      · rename_i hcur
        cases h
        unfold WFS at hw ⊢
        simp only [hcur] at hw ⊢
        refine ⟨[], by rw [hw.1]; exact WF.nil, OK_commentBlock _ hok, ?_⟩
        simp [commentBlock, lastKind, hw.1, hw.2]
      · rename_i b hcur
        split at h
        · rename_i hk
          cases h
          unfold WFS at hw ⊢
          simp only [hcur] at hw ⊢
          obtain ⟨p0, h1, h2, h3⟩ := hw
          refine ⟨p0, h1, ?_, ?_⟩
          · unfold OKBlock at h2 ⊢
            simp only [hk] at h2 ⊢
            refine ⟨by simp, ?_, h2.2.2⟩
            intro l hl
            rcases List.mem_append.1 hl with hl | hl
            · exact h2.2.1 l hl
            · simp at hl; subst hl; exact hok
          · simpa [hk] using h3
        · rename_i hk
          cases h
          unfold WFS
          simp only
          refine ⟨st.pfx, ?_, OK_commentBlock _ hok, ?_⟩
          · simpa [PSt.blocks, hcur] using hblocks
          · have : b.kind = .sect := by cases hkk : b.kind <;> simp_all
            simp [commentBlock, lastKind_snoc, this]
    · split at h
      · split at h
        · cases h
          unfold WFS
          simp only
          refine ⟨st.pfx, hblocks, ?_, ?_⟩
          · simp [OKBlock, sectionBlock]
          · simp [sectionBlock]
        · cases h
      · split at h
        · cases h
        · rename_i hb hh h1 h5
          split at h
          · cases h
          · rename_i k v hsp
            split at h
            · cases h
            · rename_i hk
              obtain ⟨hl, hnk⟩ := splitEq_spec _ k v hsp
              have hel : entryLine (k, v) = trimCR raw := by simp [entryLine, hl.symm]
              have hhead : (trimCR raw).head? = k.head? := by
                rw [hl]; cases k with
                | nil => exact absurd rfl hk
                | cons c cs => simp
              have hoke : OKEntry (k, v) := by
                refine ⟨?_, hnk, hk, ?_, ?_, ?_⟩
                · have h0 := trimCR_idem raw
                  rw [hl] at h0
                  unfold trimCR at h0
                  rw [trimRightBy_mid isCR k '=' v notCR_eq] at h0
                  have := List.append_cancel_left h0
                  have : trimRightBy isCR v = v := by simpa using this
                  exact this
                · rw [← hhead]; exact hh
                · rw [← hhead]; exact h1
                · rw [hel]; exact h5
              cases hcur : st.cur with
              | none =>
                simp only [hcur] at h
                cases h
                unfold WFS at hw ⊢
                simp only [hcur] at hw ⊢
                refine ⟨[], by rw [hw.1]; exact WF.nil, ?_, ?_⟩
                · simp [OKBlock, sectionBlock, hoke]
                · simp [sectionBlock, hw.1, hw.2, lastKind]
              | some b =>
                simp only [hcur] at h
                by_cases hkind : b.kind = .sect
                · simp only [hkind, if_true] at h
                  cases h
                  unfold WFS at hw ⊢
                  simp only [hcur] at hw ⊢
                  obtain ⟨p0, h1', h2, h3⟩ := hw
                  refine ⟨p0, h1', ?_, ?_⟩
                  · unfold OKBlock at h2 ⊢
                    simp only [hkind] at h2 ⊢
                    refine ⟨h2.1, by simp, ?_⟩
                    intro e he
                    rcases List.mem_append.1 he with he | he
                    · exact h2.2.2 e he
                    · simp at he; subst he; exact hoke
                  · simpa [hkind] using h3
                · simp only [hkind, if_false] at h
                  cases h
                  unfold WFS
                  simp only
                  refine ⟨st.pfx, ?_, ?_, ?_⟩
                  · simpa [PSt.blocks, hcur] using hblocks
                  · simp [OKBlock, sectionBlock, hoke]
                  · have : b.kind = .comment := by cases hkk : b.kind <;> simp_all
                    simp [sectionBlock, lastKind_snoc, this]

theorem run_WFS (st st' : PSt) (n : Nat) (L : List Str) (hw : WFS st) (h : prun st n L = .ok st') : WFS st' := by
  induction L generalizing st n with
  | nil => simp [prun] at h; cases h; exact hw
  | cons l ls ih =>
    unfold prun at h
    split at h
    · cases h
    · rename_i st1 hs
      exact ih st1 (n + 1) (step_WFS st st1 n l hw hs) h



/-! ### idempotence, part 4: parsing what `render` wrote gives the same blocks, entries sorted -/

def sortB (b : Block) : Block := { b with entries := sortE b.entries }

theorem prun_append (A B : List Str) (st st1 : PSt) (n : Nat) (h : prun st n A = .ok st1) :
    ∃ n', prun st n (A ++ B) = prun st1 n' B := by
  induction A generalizing st n with
  | nil => simp [prun] at h; cases h; exact ⟨n, rfl⟩
  | cons a A ih =>
    unfold prun at h
    split at h
    · cases h
    · rename_i st0 hs
      obtain ⟨n', hn⟩ := ih st0 (n + 1) h
      exact ⟨n', by simp [prun, hs, hn]⟩

theorem comments_run (ls : List Str) (h : ∀ l ∈ ls, OKComment l) (st : PSt) (c : Block)
    (hc : st.cur = some c) (hk : c.kind = .comment) (n : Nat) :
    ∃ st', prun st n ls = .ok st' ∧ st'.done = st.done ∧
      st'.cur = some { c with comments := c.comments ++ ls } ∧ st'.pfx = st.pfx := by
  induction ls generalizing st c n with
  | nil => exact ⟨st, rfl, rfl, by simp [hc], rfl⟩
  | cons l ls ih =>
    have hs := pstep_comment st n l (h l (by simp))
    simp only [hc] at hs
    rw [if_pos hk] at hs
    obtain ⟨st', h1, h2, h3, h4⟩ := ih (fun x hx => h x (by simp [hx]))
      { st with cur := some { c with comments := c.comments ++ [l] } } { c with comments := c.comments ++ [l] } rfl hk (n + 1)
    refine ⟨st', by simp [prun, hs, h1], h2, ?_, h4⟩
    simp [h3]

theorem entries_run (es : List (Str × Str)) (h : ∀ e ∈ es, OKEntry e) (st : PSt) (c : Block)
    (hc : st.cur = some c) (hk : c.kind = .sect) (n : Nat) :
    ∃ st', prun st n (es.map entryLine) = .ok st' ∧ st'.done = st.done ∧
      st'.cur = some { c with entries := c.entries ++ es } ∧ st'.pfx = st.pfx := by
  induction es generalizing st c n with
  | nil => exact ⟨st, rfl, rfl, by simp [hc], rfl⟩
  | cons e es ih =>
    obtain ⟨seen', hs⟩ := pstep_entry st n e (h e (by simp))
    simp only [hc] at hs
    rw [if_pos hk] at hs
    obtain ⟨st', h1, h2, h3, h4⟩ := ih (fun x hx => h x (by simp [hx]))
      ⟨st.done, some { c with entries := c.entries ++ [e] }, st.pfx, seen'⟩ { c with entries := c.entries ++ [e] } rfl hk (n + 1)
    refine ⟨st', by simp [prun, hs, h1], h2, ?_, h4⟩
    simp [h3]

theorem sortE_ne_nil (es : List (Str × Str)) (h : es ≠ []) : sortE es ≠ [] := by
  cases es with
  | nil => exact absurd rfl h
  | cons e es =>
    intro hn
    have : e ∈ sortE (e :: es) := (mem_sortE e _).2 (by simp)
    rw [hn] at this; simp at this

theorem block_run (bs : List Block) (p0 : Str) (b : Block) (p : Str) (hext : Ext bs p0 b p) (st : PSt)
    (hk : st.cur.map (·.kind) = lastKind bs) (hp : st.pfx = p0) (n : Nat) :
    ∃ st', prun st n (blockLines b) = .ok st' ∧ st'.done = st.blocks ∧ st'.cur = some (sortB b) ∧ st'.pfx = p := by
  obtain ⟨hok, hcompat⟩ := hext
  unfold OKBlock at hok
  cases hkind : b.kind with
  | comment =>
    simp only [hkind] at hok hcompat
    obtain ⟨hne, hall, hh, hhh, hent⟩ := hok
    have hbl : blockLines b = b.comments := by simp [blockLines, hkind]
    rw [hbl]
    cases hcs : b.comments with
    | nil => exact absurd hcs hne
    | cons l0 ls =>
      rw [hcs] at hall
      have hs := pstep_comment st n l0 (hall l0 (by simp))
      -- after the first line: a new comment block
      have hs' : pstep st n l0 = .ok { st with done := st.blocks, cur := some (commentBlock l0) } := by
        rw [hs]
        cases hcur : st.cur with
        | none => simp [PSt.blocks, hcur]
        | some c =>
          have : c.kind ≠ .comment := by
            intro hc
            rw [hcur] at hk
            simp [hc] at hk
            exact hcompat.1 hk.symm
          simp [this, PSt.blocks, hcur]
      obtain ⟨st', h1, h2, h3, h4⟩ := comments_run ls (fun x hx => hall x (by simp [hx]))
        { st with done := st.blocks, cur := some (commentBlock l0) } (commentBlock l0) rfl rfl (n + 1)
      refine ⟨st', by simp [prun, hs', h1], h2, ?_, ?_⟩
      · rw [h3]
        cases b
        simp_all [sortB, commentBlock, sortE]
      · rw [h4]; simp [hp, hcompat.2]
  | sect =>
    simp only [hkind] at hok hcompat
    obtain ⟨hcm, hne, hall⟩ := hok
    have hall' : ∀ e ∈ sortE b.entries, OKEntry e := fun e he => hall e ((mem_sortE e _).1 he)
    by_cases hh : b.hasHeader = true
    · simp only [hh, if_true] at hcompat
      have hbl : blockLines b = headerLine b.header :: (sortE b.entries).map entryLine := by
        simp [blockLines, hkind, hh]
      rw [hbl]
      have hs := pstep_header st n b.header
      obtain ⟨st', h1, h2, h3, h4⟩ := entries_run (sortE b.entries) hall'
        { st with done := st.blocks, cur := some (sectionBlock b.header true), pfx := b.header }
        (sectionBlock b.header true) rfl rfl (n + 1)
      refine ⟨st', by simp [prun, hs, h1], h2, ?_, ?_⟩
      · rw [h3]
        cases b
        simp_all [sortB, sectionBlock]
      · rw [h4]; simp [hcompat]
    · simp only [hh] at hcompat hne
      simp only [Bool.false_eq_true, if_false] at hcompat
      have hhf : b.hasHeader = false := by simpa using hh
      have hbl : blockLines b = (sortE b.entries).map entryLine := by
        simp [blockLines, hkind, hhf]
      rw [hbl]
      cases hse : sortE b.entries with
      | nil => exact absurd hse (sortE_ne_nil _ (by simpa using hne))
      | cons e0 rest =>
        rw [hse] at hall'
        obtain ⟨seen', hs⟩ := pstep_entry st n e0 (hall' e0 (by simp))
        have hs' : pstep st n (entryLine e0) =
            .ok ⟨st.blocks, some { sectionBlock st.pfx false with entries := [e0] }, st.pfx, seen'⟩ := by
          rw [hs]
          cases hcur : st.cur with
          | none => simp [PSt.blocks, hcur]
          | some c =>
            have : c.kind ≠ .sect := by
              intro hc
              rw [hcur] at hk
              simp [hc] at hk
              exact hcompat.2.2 hk.symm
            simp [this, PSt.blocks, hcur]
        obtain ⟨st', h1, h2, h3, h4⟩ := entries_run rest (fun x hx => hall' x (by simp [hx]))
          ⟨st.blocks, some { sectionBlock st.pfx false with entries := [e0] }, st.pfx, seen'⟩
          { sectionBlock st.pfx false with entries := [e0] } rfl rfl (n + 1)
        refine ⟨st', by simp [prun, hs', h1], h2, ?_, ?_⟩
        · rw [h3]
          cases b
          simp_all [sortB, sectionBlock]
        · rw [h4]; simp [hp, hcompat.2.1]

theorem reparse (bs : List Block) (p : Str) (h : WF bs p) :
    ∀ n, ∃ st', prun pinit n (renderLines bs) = .ok st' ∧ st'.blocks = bs.map sortB ∧
      st'.cur = (bs.map sortB).getLast? ∧ st'.pfx = p := by
  induction h with
  | nil => intro n; exact ⟨pinit, rfl, rfl, rfl, rfl⟩
  | @snoc bs p0 b p _ hext ih =>
    intro n
    obtain ⟨st1, h1, h2, h3, h4⟩ := ih n
    have hr : renderLines (bs ++ [b]) = renderLines bs ++ (sep bs ++ blockLines b) := by
      rw [renderLines_eq, renderLines_eq, blockLines_eq, rlw_snoc]
    obtain ⟨n', hn⟩ := prun_append (renderLines bs) (sep bs ++ blockLines b) pinit st1 n h1
    have hk : st1.cur.map (·.kind) = lastKind bs := by
      rw [h3, List.getLast?_map]; unfold lastKind
      cases bs.getLast? <;> simp [sortB]
    -- the separator is a blank line
    have hsep : ∃ n'', prun st1 n' (sep bs ++ blockLines b) = prun st1 n'' (blockLines b) := by
      unfold sep
      split
      · exact ⟨n', by simp⟩
      · exact ⟨n' + 1, by simp [prun, pstep_blank]⟩
    obtain ⟨n'', hn''⟩ := hsep
    obtain ⟨st2, g1, g2, g3, g4⟩ := block_run bs p0 b p hext st1 hk h4 n''
    refine ⟨st2, by rw [hr, hn, hn'', g1], ?_, ?_, g4⟩
    · have : st2.blocks = st1.blocks ++ [sortB b] := by simp [PSt.blocks, g2, g3]
      rw [this, h2]; simp
    · simp [g3]

theorem blockLines_sortB (b : Block) : blockLines (sortB b) = blockLines b := by
  unfold blockLines sortB
  cases b.kind <;> simp [sortE_idem]

theorem renderLines_sortB (bs : List Block) : renderLines (bs.map sortB) = renderLines bs := by
  cases bs with
  | nil => rfl
  | cons b bs =>
    simp only [List.map_cons, renderLines, blockLines_sortB]
    congr 1
    induction bs with
    | nil => rfl
    | cons c cs ih => simp [List.flatMap_cons, blockLines_sortB, ih]

/-- **C35 (idempotence).**  Formatting a formatted file succeeds and changes nothing. -/
theorem C35_idempotent (s : Str) (f : Formatted) (h : format s = .ok f) :
    ∃ f', format f.out = .ok f' ∧ f'.out = f.out := by
  unfold format at h
  split at h
  · cases h
  · rename_i st hp
    cases h
    have hinv := run_inv pinit st [] (splitLines s) 1 inv_init (splitLines_noNL s) hp
    have hw : WFS st := run_WFS pinit st 1 _ (by simp [WFS, pinit]) hp
    have hwf := WFS_blocks st hw
    obtain ⟨st2, h1, h2, _, _⟩ := reparse st.blocks st.pfx hwf 1
    obtain ⟨n', hn⟩ := prun_append (renderLines st.blocks) [[]] pinit st2 1 h1
    have hsl : splitLines (render st.blocks) = renderLines st.blocks ++ [[]] := by
      unfold render
      rw [renderLines_eq]
      exact splitLines_join _ (noNL_render _ hinv.1)
    have hrun : prun pinit 1 (splitLines (render st.blocks)) = .ok st2 := by
      rw [hsl, hn]; simp [prun, pstep_blank]
    refine ⟨⟨render st2.blocks, dupKeys st2.seen, st2.seen⟩, ?_, ?_⟩
    · simp only [format, hrun]
    · show render st2.blocks = render st.blocks
      unfold render
      rw [h2, renderLines_sortB]

/-! ### non-vacuity: concrete files on which the hypotheses hold -/

/-- a file that is really reorganised (sorted, blank line inserted) -/
example : (format "[b]\nz=1\na =2\n# c\nq=1".toList).toOption.map (fun f => String.ofList f.out)
    = some "[b]\na =2\nz=1\n\n# c\n\nq=1\n" := by decide

/-- space-variant duplicate: reported, and the stable sort keeps the winner -/
example : (format "b =1\nb=2\n".toList).toOption.map (fun f => (String.ofList f.out, f.dups.map String.ofList))
    = some ("b =1\nb=2\n", ["b"]) := by decide

/-- an indented header is refused (the compiler would read it as a section) -/
example : (format "x=1\n  [a=b]\n".toList).toOption.isNone = true := by decide

example : (compile "[s]\nb=1\n b =2\n".toList) = some [("s.b".toList, "1".toList), ("s.b".toList, "2".toList)] := by decide

end EgoVerif.C35
