import EgoVerif.Common.Drv
import EgoVerif.C27.Model
/- line protocol (fields separated by one space; hex fields use "-" for empty):

     udec <data> <tbl>            util.Decrypt(data, pass)
     sdec <data> <tbl>            settings.Decrypt(data, pass)
     tok  <tokenString> <pv> <tbl>   tokens.Unwrap(tokenString); pv = 1 iff the harness's
                                     plaintext is an acceptable token payload (JSON, unexpired)
   answer:  `ok <text>` (`ok` for tok) | `err <short|auth|b64|hex|empty|payload>` | `unanswered`

   `tbl` is "-" or a comma-separated list of the REAL primitives' verdicts, computed by the
   harness with Go's crypto (never by the model):
     O:<key>/<nonce>/<ct>=N | P<plaintext>     gcm.Open; key = 01 (md5) | 02<salt> (pbkdf2) |
                                               03<salt> (argon2id) | 04 (sha256) for the line's passphrase
     B:<body>=N | P<raw>                       base64.StdEncoding.DecodeString
   The model's framing decides WHICH verdict is consulted.  A query the table does not
   answer makes the line `unanswered` (detected by running with two different defaults). -/
namespace EgoVerif.C27

abbrev Tbl := List (String × String)

def parseTbl (s : String) : Tbl :=
  if s == "-" then [] else
  (s.splitOn ",").filterMap fun e =>
    match e.splitOn "=" with
    | [k, v] => some (k, v)
    | _ => none

def hx (b : Bytes) : String := if b.isEmpty then "-" else hexOfBytes b

def unhx (s : String) : Option Bytes := if s == "-" then some [] else bytesOfHex s

/-- "N" → rejected, "P<hex>" → accepted with that text -/
def parseVerdict (v : String) : Option (Option Bytes) :=
  match v.toList with
  | ['N'] => some none
  | 'P' :: rest => (unhx (String.ofList rest)).map some
  | _ => none

def ask (tbl : Tbl) (key : String) (miss : Option Bytes) : Option Bytes :=
  match tbl.lookup key with
  | some v => match parseVerdict v with
    | some r => r
    | none => miss
  | none => miss

def tablePrim (tbl : Tbl) (miss : Option Bytes) : Prim where
  argon2id _ salt := 3 :: salt
  pbkdf2 _ salt := 2 :: salt
  md5hex _ := [1]
  sha256 _ := [4]
  gcmSeal _ _ _ := []
  gcmOpen key nonce c := ask tbl ("O:" ++ hx key ++ "/" ++ hx nonce ++ "/" ++ hx c) miss
  b64enc b := b
  b64dec body := ask tbl ("B:" ++ hx body) miss
  hexenc b := b
  hexdec s := bytesOfHexAux (s.map fun b => Char.ofNat b.toNat)

def render : Res → String
  | .ok t => "ok " ++ hx t
  | .err .short => "err short"
  | .err .auth => "err auth"
  | .err .b64 => "err b64"
  | .err .hex => "err hex"
  | .err .empty => "err empty"
  | .err .payload => "err payload"

def both (f : Prim → Res) (tbl : Tbl) : String :=
  let a := f (tablePrim tbl none)
  let b := f (tablePrim tbl (some [0xEE]))
  if a == b then render a else "unanswered"

def handle (line : String) : String :=
  match fields line with
  | ["udec", d, t] =>
    match unhx d with
    | some data => both (fun P => utilDecrypt P data []) (parseTbl t)
    | none => "bad-input"
  | ["sdec", d, t] =>
    match unhx d with
    | some data => both (fun P => settingsDecrypt P data []) (parseTbl t)
    | none => "bad-input"
  | ["tok", s, pv, t] =>
    match unhx s with
    | some ts =>
      -- Unwrap returns a Token, not the payload text: only accept / reject class is compared
      let r := both (fun P => tokenUnwrap P (fun _ => pv == "1") ts []) (parseTbl t)
      if r.startsWith "ok " then "ok" else r
    | none => "bad-input"
  | _ => "bad-op"

def drv : Drv := Drv.pure handle

end EgoVerif.C27
