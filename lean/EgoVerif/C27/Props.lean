import EgoVerif.C27.Model
/-
C27 — property theorems for the encryption framing.

What is proved (for EVERY byte string, passphrase and every primitive `P`):

  * success_needs_open — a successful `Decrypt` always went through `gcm.Open`, on the
    nonce / ciphertext split of one of the three frames, under the key the frame's KDF
    derives from the caller's passphrase: there is no success path around the AEAD.
    (This is the theorem the unpatched tree violates: its short-input guards return
    success with empty text — `C27_short_input_counterexample`.)
  * verdict — conversely, on a well-formed frame the answer IS the AEAD's verdict.
  * roundtrip — `Decrypt (Encrypt p k) k = p` for all p, k, salt, nonce (law: open∘seal).
  * reject_else — under the functional AEAD law `open k n c = some p → c = seal k n p`
    every accepted string is literally an honest encryption of the returned text under the
    caller's passphrase; everything else is an error.  Producing such a string without
    the passphrase is the AEAD forgery problem — computational, ASSUMED (trusted base).
  * min_length — anything shorter than nonce+tag (28 bytes; 48 with the v3 header) is an error.

The same five statements for settings (base64 + `v3:`/`v2:` prefixes) and for the token
layer (hex transport, empty-payload test).
-/
namespace EgoVerif.C27

/-- Hypotheses on the primitives.  `open_seal`/`open_only_seal`/`seal_len` are true of
AES-GCM *as a function* (deterministic given key and nonce, 16-byte tag); the transport
laws are decode∘encode = id.  Non-vacuity: `toy_laws` below. -/
structure Laws (P : Prim) : Prop where
  open_seal : ∀ k n p, P.gcmOpen k n (P.gcmSeal k n p) = some p
  open_only_seal : ∀ k n c p, P.gcmOpen k n c = some p → c = P.gcmSeal k n p
  seal_len : ∀ k n p, (P.gcmSeal k n p).length = p.length + 16
  b64_dec_enc : ∀ b, P.b64dec (P.b64enc b) = some b
  hex_dec_enc : ∀ b, P.hexdec (P.hexenc b) = some b

inductive Fmt where
  | v3 | v2 | legacy
  deriving DecidableEq, Repr

/-- result of handing the AEAD's verdict back to the caller -/
def ofOpen : Option Bytes → Res
  | some p => .ok p
  | none => .err .auth

/-! ## util/crypto.go -/

def utilFrame : Fmt → Bytes → Bytes → Bytes → Bytes
  | .v3, salt, nonce, c => magic3 ++ (salt ++ (nonce ++ c))
  | .v2, salt, nonce, c => magic2 ++ (salt ++ (nonce ++ c))
  | .legacy, _, nonce, c => nonce ++ c

def utilKey (P : Prim) : Fmt → Bytes → Bytes → Bytes
  | .v3, pass, salt => P.argon2id pass salt
  | .v2, pass, salt => P.pbkdf2 pass salt
  | .legacy, pass, _ => P.md5hex pass

/-- salt and nonce have the sizes the format prescribes (legacy has no salt) -/
def Sized (f : Fmt) (salt nonce : Bytes) : Prop :=
  nonce.length = 12 ∧ (f = .legacy ∨ salt.length = 16)

/-! ### helper lemmas -/

theorem aes_ok (P : Prim) (key data t : Bytes) (h : aesGCMDecrypt P key data = .ok t) :
    ∃ nonce c, data = nonce ++ c ∧ nonce.length = 12 ∧ P.gcmOpen key nonce c = some t := by
  unfold aesGCMDecrypt at h
  split at h
  · cases h
  · rename_i hlen
    refine ⟨data.take nonceSize, data.drop nonceSize, (List.take_append_drop _ _).symm, ?_, ?_⟩
    · simp [nonceSize] at hlen ⊢; omega
    · split at h
      · rename_i p hp; cases h; exact hp
      · cases h

theorem aes_frame (P : Prim) (key nonce c : Bytes) (hn : nonce.length = 12) :
    aesGCMDecrypt P key (nonce ++ c) = ofOpen (P.gcmOpen key nonce c) := by
  unfold aesGCMDecrypt
  have h1 : ¬ nonceSize > (nonce ++ c).length := by simp [nonceSize, hn]
  have h2 : (nonce ++ c).take nonceSize = nonce := by simp [nonceSize, ← hn]
  have h3 : (nonce ++ c).drop nonceSize = c := by simp [nonceSize, ← hn]
  rw [if_neg h1, h2, h3]
  cases P.gcmOpen key nonce c <;> rfl

theorem argon_ok (P : Prim) (data pass t : Bytes) (h : decryptArgon2id P data pass = .ok t) :
    ∃ salt nonce c, data = salt ++ (nonce ++ c) ∧ salt.length = 16 ∧ nonce.length = 12 ∧
      P.gcmOpen (P.argon2id pass salt) nonce c = some t := by
  unfold decryptArgon2id at h
  split at h
  · cases h
  · rename_i hlen
    obtain ⟨nonce, c, hd, hn, ho⟩ := aes_ok P _ _ _ h
    refine ⟨data.take saltLen, nonce, c, ?_, ?_, hn, ho⟩
    · rw [← hd]; exact (List.take_append_drop _ _).symm
    · simp [saltLen] at hlen ⊢; omega

theorem argon_frame (P : Prim) (salt nonce c pass : Bytes) (hs : salt.length = 16) (hn : nonce.length = 12) :
    decryptArgon2id P (salt ++ (nonce ++ c)) pass = ofOpen (P.gcmOpen (P.argon2id pass salt) nonce c) := by
  unfold decryptArgon2id
  have h1 : ¬ (salt ++ (nonce ++ c)).length < saltLen := by simp [saltLen, hs]
  have h2 : (salt ++ (nonce ++ c)).take saltLen = salt := by simp [saltLen, ← hs]
  have h3 : (salt ++ (nonce ++ c)).drop saltLen = nonce ++ c := by simp [saltLen, ← hs]
  rw [if_neg h1, h2, h3, aes_frame P _ _ _ hn]

theorem pbkdf2_ok (P : Prim) (data pass t : Bytes) (h : decryptPBKDF2 P data pass = .ok t) :
    ∃ salt nonce c, data = salt ++ (nonce ++ c) ∧ salt.length = 16 ∧ nonce.length = 12 ∧
      P.gcmOpen (P.pbkdf2 pass salt) nonce c = some t := by
  unfold decryptPBKDF2 at h
  split at h
  · cases h
  · rename_i hlen
    obtain ⟨nonce, c, hd, hn, ho⟩ := aes_ok P _ _ _ h
    refine ⟨data.take saltLen, nonce, c, ?_, ?_, hn, ho⟩
    · rw [← hd]; exact (List.take_append_drop _ _).symm
    · simp [saltLen] at hlen ⊢; omega

theorem pbkdf2_frame (P : Prim) (salt nonce c pass : Bytes) (hs : salt.length = 16) (hn : nonce.length = 12) :
    decryptPBKDF2 P (salt ++ (nonce ++ c)) pass = ofOpen (P.gcmOpen (P.pbkdf2 pass salt) nonce c) := by
  unfold decryptPBKDF2
  have h1 : ¬ (salt ++ (nonce ++ c)).length < saltLen := by simp [saltLen, hs]
  have h2 : (salt ++ (nonce ++ c)).take saltLen = salt := by simp [saltLen, ← hs]
  have h3 : (salt ++ (nonce ++ c)).drop saltLen = nonce ++ c := by simp [saltLen, ← hs]
  rw [if_neg h1, h2, h3, aes_frame P _ _ _ hn]

theorem take_eq_prefix {d m : Bytes} (h : (d.take m.length == m) = true) : d = m ++ d.drop m.length := by
  have := (List.take_append_drop m.length d).symm
  rw [eq_of_beq h] at this
  exact this

/-! ### theorems -/

/-- **No success path bypasses the AEAD** (util.Decrypt): a returned text is always the
result of `gcm.Open` on a correctly split frame under the key derived from the caller's
passphrase. -/
theorem C27_util_success_needs_open (P : Prim) (d k t : Bytes) (h : utilDecrypt P d k = .ok t) :
    ∃ f salt nonce c, d = utilFrame f salt nonce c ∧ Sized f salt nonce ∧
      P.gcmOpen (utilKey P f k salt) nonce c = some t := by
  unfold utilDecrypt at h
  split at h
  · rename_i hm
    simp only [Bool.and_eq_true] at hm
    obtain ⟨salt, nonce, c, hd, hs, hn, ho⟩ := argon_ok P _ _ _ h
    refine ⟨.v3, salt, nonce, c, ?_, ⟨hn, Or.inr hs⟩, ho⟩
    rw [utilFrame, ← hd]; exact take_eq_prefix hm.2
  · split at h
    · rename_i hm
      simp only [Bool.and_eq_true] at hm
      obtain ⟨salt, nonce, c, hd, hs, hn, ho⟩ := pbkdf2_ok P _ _ _ h
      refine ⟨.v2, salt, nonce, c, ?_, ⟨hn, Or.inr hs⟩, ho⟩
      rw [utilFrame, ← hd]; exact take_eq_prefix hm.2
    · obtain ⟨nonce, c, hd, hn, ho⟩ := aes_ok P _ _ _ h
      exact ⟨.legacy, [], nonce, c, hd, ⟨hn, Or.inl rfl⟩, ho⟩

/-- On a v3 frame (whatever salt, nonce, ciphertext an attacker puts there, whatever
passphrase) the answer is exactly AES-GCM's verdict under the Argon2id key. -/
theorem C27_util_v3_verdict (P : Prim) (salt nonce c k : Bytes) (hs : salt.length = 16) (hn : nonce.length = 12) :
    utilDecrypt P (utilFrame .v3 salt nonce c) k = ofOpen (P.gcmOpen (P.argon2id k salt) nonce c) := by
  unfold utilDecrypt utilFrame
  have h1 : ((magic3 ++ (salt ++ (nonce ++ c))).length > magic3.length &&
      (magic3 ++ (salt ++ (nonce ++ c))).take magic3.length == magic3) = true := by
    simp [magic3, hs]; omega
  rw [if_pos h1]
  have h2 : (magic3 ++ (salt ++ (nonce ++ c))).drop magic3.length = salt ++ (nonce ++ c) := by simp
  rw [h2, argon_frame P _ _ _ _ hs hn]

/-- Same for a v2 (PBKDF2) frame. -/
theorem C27_util_v2_verdict (P : Prim) (salt nonce c k : Bytes) (hs : salt.length = 16) (hn : nonce.length = 12) :
    utilDecrypt P (utilFrame .v2 salt nonce c) k = ofOpen (P.gcmOpen (P.pbkdf2 k salt) nonce c) := by
  unfold utilDecrypt utilFrame
  have h0 : ¬ ((magic2 ++ (salt ++ (nonce ++ c))).length > magic3.length &&
      (magic2 ++ (salt ++ (nonce ++ c))).take magic3.length == magic3) = true := by
    simp [magic3, magic2]
  have h1 : ((magic2 ++ (salt ++ (nonce ++ c))).length > magic2.length &&
      (magic2 ++ (salt ++ (nonce ++ c))).take magic2.length == magic2) = true := by
    simp [magic2, hs]; omega
  rw [if_neg h0, if_pos h1]
  have h2 : (magic2 ++ (salt ++ (nonce ++ c))).drop magic2.length = salt ++ (nonce ++ c) := by simp
  rw [h2, pbkdf2_frame P _ _ _ _ hs hn]

/-- A legacy frame (one that does not start with either magic) gets AES-GCM's verdict under the MD5 key. -/
theorem C27_util_legacy_verdict (P : Prim) (nonce c k : Bytes) (hn : nonce.length = 12)
    (h3 : (nonce ++ c).take 4 ≠ magic3) (h2 : (nonce ++ c).take 4 ≠ magic2) :
    utilDecrypt P (utilFrame .legacy [] nonce c) k = ofOpen (P.gcmOpen (P.md5hex k) nonce c) := by
  unfold utilDecrypt utilFrame legacyDecrypt
  have e3 : magic3.length = 4 := rfl
  have e2 : magic2.length = 4 := rfl
  have g3 : ¬ ((nonce ++ c).length > magic3.length && (nonce ++ c).take magic3.length == magic3) = true := by
    rw [e3]; simp [h3]
  have g2 : ¬ ((nonce ++ c).length > magic2.length && (nonce ++ c).take magic2.length == magic2) = true := by
    rw [e2]; simp [h2]
  rw [if_neg g3, if_neg g2, aes_frame P _ _ _ hn]

/-- **Round trip** (util): for every plaintext, passphrase, salt and nonce. -/
theorem C27_util_roundtrip (P : Prim) (L : Laws P) (salt nonce p k : Bytes)
    (hs : salt.length = 16) (hn : nonce.length = 12) :
    utilDecrypt P (utilEncrypt P salt nonce p k) k = .ok p := by
  have := C27_util_v3_verdict P salt nonce (P.gcmSeal (P.argon2id k salt) nonce p) k hs hn
  rw [utilFrame] at this
  rw [utilEncrypt, this, L.open_seal]; rfl

/-- **Different key** (util): presenting an honest v3 ciphertext with another passphrase `k'`
yields exactly AES-GCM's verdict on it under the key derived from `k'` — rejection of a wrong
key is the AEAD's (assumed) property, and passphrases the KDF maps to the same key are
interchangeable (cf. known finding `v2-hmac-equivalent-key` for the PBKDF2 format). -/
theorem C27_util_other_key_verdict (P : Prim) (salt nonce p k k' : Bytes)
    (hs : salt.length = 16) (hn : nonce.length = 12) :
    utilDecrypt P (utilEncrypt P salt nonce p k) k' =
      ofOpen (P.gcmOpen (P.argon2id k' salt) nonce (P.gcmSeal (P.argon2id k salt) nonce p)) := by
  have := C27_util_v3_verdict P salt nonce (P.gcmSeal (P.argon2id k salt) nonce p) k' hs hn
  rw [utilFrame] at this
  rw [utilEncrypt, this]
/-- `d` is an honest encryption (in one of the three formats) of `t` under passphrase `k`. -/
def UtilHonest (P : Prim) (k t d : Bytes) : Prop :=
  ∃ f salt nonce, Sized f salt nonce ∧ d = utilFrame f salt nonce (P.gcmSeal (utilKey P f k salt) nonce t)

/-- **Everything else is rejected** (util): whatever string is accepted with text `t` under
passphrase `k` IS an honest encryption of `t` under `k`. -/
theorem C27_util_reject_else (P : Prim) (L : Laws P) (d k t : Bytes) (h : utilDecrypt P d k = .ok t) :
    UtilHonest P k t d := by
  obtain ⟨f, salt, nonce, c, hd, hsz, ho⟩ := C27_util_success_needs_open P d k t h
  exact ⟨f, salt, nonce, hsz, by rw [hd, L.open_only_seal _ _ _ _ ho]⟩

/-- contrapositive form: a string that is not an honest encryption of anything under `k` is an error -/
theorem C27_util_forged_is_error (P : Prim) (L : Laws P) (d k : Bytes)
    (h : ∀ t, ¬ UtilHonest P k t d) : ∃ e, utilDecrypt P d k = .err e := by
  cases hr : utilDecrypt P d k with
  | ok t => exact absurd (C27_util_reject_else P L d k t hr) (h t)
  | err e => exact ⟨e, rfl⟩

theorem utilFrame_length (f : Fmt) (salt nonce c : Bytes) (h : Sized f salt nonce) :
    (utilFrame f salt nonce c).length ≥ c.length + 12 ∧
    (f ≠ .legacy → (utilFrame f salt nonce c).length = c.length + 32) := by
  obtain ⟨hn, hs⟩ := h
  cases f
  · rcases hs with hs | hs
    · cases hs
    · simp [utilFrame, magic3, hn, hs]; omega
  · rcases hs with hs | hs
    · cases hs
    · simp [utilFrame, magic2, hn, hs]; omega
  · simp [utilFrame, hn]; omega

/-- **Truncated / short input** (util): an accepted string is at least nonce + tag longer
than the returned text, so every input shorter than 28 bytes is an error — in particular
the empty string and every truncation of a ciphertext into its header. -/
theorem C27_util_min_length (P : Prim) (L : Laws P) (d k t : Bytes) (h : utilDecrypt P d k = .ok t) :
    d.length ≥ t.length + 28 := by
  obtain ⟨f, salt, nonce, hsz, hd⟩ := C27_util_reject_else P L d k t h
  have := (utilFrame_length f salt nonce (P.gcmSeal (utilKey P f k salt) nonce t) hsz).1
  rw [L.seal_len] at this
  rw [hd]; omega

theorem C27_util_short_is_error (P : Prim) (L : Laws P) (d k : Bytes) (h : d.length < 28) :
    ∃ e, utilDecrypt P d k = .err e := by
  cases hr : utilDecrypt P d k with
  | ok t => have := C27_util_min_length P L d k t hr; omega
  | err e => exact ⟨e, rfl⟩

/-! ### the unpatched tree -/

/-- The tree without fixes/C27.patch accepts the empty string (and every string shorter than
its header) with empty text, for every passphrase and every primitive — although no honest
encryption is that short. -/
theorem C27_short_input_counterexample (P : Prim) (k : Bytes) :
    utilDecryptUnpatched P [] k = .ok [] ∧ utilDecryptUnpatched P (magic3 ++ [1, 2, 3]) k = .ok [] := by
  constructor <;> rfl

theorem aes_unpatched (P : Prim) (key data : Bytes) :
    aesGCMDecryptUnpatched P key data =
      (match aesGCMDecrypt P key data with | .err .short => .ok [] | r => r) := by
  unfold aesGCMDecryptUnpatched aesGCMDecrypt
  split
  · rfl
  · cases P.gcmOpen key (List.take nonceSize data) (List.drop nonceSize data) <;> rfl

/-- The unpatched `Decrypt` differs from the repaired one exactly by answering `ok ""`
where the repaired one answers `err short` (so every theorem above holds for it on the
inputs that pass the length guards). -/
theorem C27_unpatched_partial (P : Prim) (d k : Bytes) :
    utilDecryptUnpatched P d k =
      (match utilDecrypt P d k with | .err .short => .ok [] | r => r) := by
  unfold utilDecryptUnpatched utilDecrypt decryptArgon2idUnpatched decryptArgon2id
    decryptPBKDF2Unpatched decryptPBKDF2 legacyDecrypt
  split
  · split
    · rfl
    · exact aes_unpatched P _ _
  · split
    · split
      · rfl
      · exact aes_unpatched P _ _
    · exact aes_unpatched P _ _

/-! ## settings/crypto.go -/

def sPrefix : Fmt → Bytes
  | .v3 => pfx3
  | .v2 => pfx2
  | .legacy => []

def sFrame : Fmt → Bytes → Bytes → Bytes → Bytes
  | .v3, salt, nonce, c => salt ++ (nonce ++ c)
  | _, _, nonce, c => nonce ++ c

def sKey (P : Prim) : Fmt → Bytes → Bytes → Bytes
  | .v3, pass, salt => P.argon2id pass salt
  | .v2, pass, _ => P.sha256 pass
  | .legacy, pass, _ => P.md5hex pass

def sSized (f : Fmt) (salt nonce : Bytes) : Prop :=
  nonce.length = 12 ∧ (f ≠ .v3 ∨ salt.length = 16)

/-- **No success path bypasses the AEAD** (settings.Decrypt). -/
theorem C27_settings_success_needs_open (P : Prim) (d k t : Bytes) (h : settingsDecrypt P d k = .ok t) :
    ∃ f body salt nonce c, d = sPrefix f ++ body ∧ P.b64dec body = some (sFrame f salt nonce c) ∧
      sSized f salt nonce ∧ P.gcmOpen (sKey P f k salt) nonce c = some t := by
  unfold settingsDecrypt at h
  split at h
  · rename_i hp
    split at h
    · cases h
    · rename_i src hsrc
      obtain ⟨salt, nonce, c, hd, hs, hn, ho⟩ := argon_ok P _ _ _ h
      exact ⟨.v3, d.drop pfx3.length, salt, nonce, c, take_eq_prefix hp, by rw [hsrc, hd]; rfl,
        ⟨hn, Or.inr hs⟩, ho⟩
  · split at h
    · rename_i hp
      split at h
      · cases h
      · rename_i src hsrc
        obtain ⟨nonce, c, hd, hn, ho⟩ := aes_ok P _ _ _ h
        exact ⟨.v2, d.drop pfx2.length, [], nonce, c, take_eq_prefix hp, by rw [hsrc, hd]; rfl,
          ⟨hn, Or.inl (by decide)⟩, ho⟩
    · split at h
      · cases h
      · rename_i src hsrc
        obtain ⟨nonce, c, hd, hn, ho⟩ := aes_ok P _ _ _ h
        exact ⟨.legacy, d, [], nonce, c, rfl, by rw [hsrc, hd]; rfl, ⟨hn, Or.inl (by decide)⟩, ho⟩

/-- On `"v3:" ++ body` the answer depends only on what `body` base64-decodes to, and on a
decoded v3 frame it is AES-GCM's verdict under the Argon2id key. -/
theorem C27_settings_v3_verdict (P : Prim) (body salt nonce c k : Bytes)
    (hb : P.b64dec body = some (salt ++ (nonce ++ c))) (hs : salt.length = 16) (hn : nonce.length = 12) :
    settingsDecrypt P (pfx3 ++ body) k = ofOpen (P.gcmOpen (P.argon2id k salt) nonce c) := by
  unfold settingsDecrypt
  have h1 : hasPrefix (pfx3 ++ body) pfx3 = true := by simp [hasPrefix]
  have h2 : (pfx3 ++ body).drop pfx3.length = body := by simp
  rw [if_pos h1, h2, hb]
  exact argon_frame P _ _ _ _ hs hn

/-- **Round trip** (settings). -/
theorem C27_settings_roundtrip (P : Prim) (L : Laws P) (salt nonce p k : Bytes)
    (hs : salt.length = 16) (hn : nonce.length = 12) :
    settingsDecrypt P (settingsEncrypt P salt nonce p k) k = .ok p := by
  rw [settingsEncrypt, C27_settings_v3_verdict P _ salt nonce _ k (L.b64_dec_enc _) hs hn, L.open_seal]; rfl

/-- `d` is a transport encoding of an honest encryption of `t` under `k` (settings formats) -/
def SettingsHonest (P : Prim) (k t d : Bytes) : Prop :=
  ∃ f body salt nonce, sSized f salt nonce ∧ d = sPrefix f ++ body ∧
    P.b64dec body = some (sFrame f salt nonce (P.gcmSeal (sKey P f k salt) nonce t))

/-- **Everything else is rejected** (settings): an accepted string base64-decodes to an
honest encryption of the returned text under the caller's passphrase. -/
theorem C27_settings_reject_else (P : Prim) (L : Laws P) (d k t : Bytes) (h : settingsDecrypt P d k = .ok t) :
    SettingsHonest P k t d := by
  obtain ⟨f, body, salt, nonce, c, hd, hb, hsz, ho⟩ := C27_settings_success_needs_open P d k t h
  exact ⟨f, body, salt, nonce, hsz, hd, by rw [hb, L.open_only_seal _ _ _ _ ho]⟩

/-- The verdict depends on the ciphertext string only through its base64 decoding: two
strings with the same prefix whose bodies decode alike get the same answer.  (Go's
`base64.StdEncoding.DecodeString` ignores CR/LF and non-zero trailing bits, so such
aliases exist — known finding `settings-base64-alias`; by this theorem they can only
yield the ORIGINAL text.) -/
theorem C27_settings_alias_same_verdict (P : Prim) (f : Fmt) (b1 b2 k : Bytes)
    (h : P.b64dec b1 = P.b64dec b2)
    (h1 : f = .legacy → hasPrefix b1 pfx3 = false ∧ hasPrefix b1 pfx2 = false)
    (h2 : f = .legacy → hasPrefix b2 pfx3 = false ∧ hasPrefix b2 pfx2 = false) :
    settingsDecrypt P (sPrefix f ++ b1) k = settingsDecrypt P (sPrefix f ++ b2) k := by
  cases f
  · have e1 : hasPrefix (pfx3 ++ b1) pfx3 = true := by simp [hasPrefix]
    have e2 : hasPrefix (pfx3 ++ b2) pfx3 = true := by simp [hasPrefix]
    simp only [settingsDecrypt, sPrefix, e1, e2, if_true, List.drop_left, h]
  · have n1 : hasPrefix (pfx2 ++ b1) pfx3 = false := by simp [hasPrefix, pfx2, pfx3]
    have n2 : hasPrefix (pfx2 ++ b2) pfx3 = false := by simp [hasPrefix, pfx2, pfx3]
    have e1 : hasPrefix (pfx2 ++ b1) pfx2 = true := by simp [hasPrefix]
    have e2 : hasPrefix (pfx2 ++ b2) pfx2 = true := by simp [hasPrefix]
    simp only [settingsDecrypt, sPrefix, n1, n2, e1, e2, if_true, List.drop_left, h]
    simp
  · obtain ⟨a1, a2⟩ := h1 rfl
    obtain ⟨c1, c2⟩ := h2 rfl
    simp only [settingsDecrypt, sPrefix, List.nil_append, a1, a2, c1, c2, h]
    simp

theorem C27_settings_min_length (P : Prim) (L : Laws P) (d k t : Bytes) (h : settingsDecrypt P d k = .ok t) :
    ∃ body raw, P.b64dec body = some raw ∧ raw.length ≥ t.length + 28 ∧ body.length ≤ d.length := by
  obtain ⟨f, body, salt, nonce, hsz, hd, hb⟩ := C27_settings_reject_else P L d k t h
  refine ⟨body, _, hb, ?_, by rw [hd]; simp⟩
  obtain ⟨hn, hs⟩ := hsz
  cases f <;> simp [sFrame, L.seal_len, hn] <;> omega

/-! ## tokens/unwrap.go -/

/-- **No success path bypasses the AEAD** (tokens.Unwrap): an accepted token string
hex-decodes to bytes that `util.Decrypt` accepted with a non-empty payload. -/
theorem C27_token_success_needs_open (P : Prim) (ok : Bytes → Bool) (s k j : Bytes)
    (h : tokenUnwrap P ok s k = .ok j) :
    ∃ b f salt nonce c, P.hexdec s = some b ∧ b = utilFrame f salt nonce c ∧ Sized f salt nonce ∧
      P.gcmOpen (utilKey P f k salt) nonce c = some j ∧ j ≠ [] ∧ ok j = true := by
  unfold tokenUnwrap at h
  split at h
  · cases h
  · rename_i b hb
    split at h
    · cases h
    · rename_i j' hj
      split at h
      · cases h
      · rename_i hne
        split at h
        · rename_i hok
          cases h
          obtain ⟨f, salt, nonce, c, hd, hsz, ho⟩ := C27_util_success_needs_open P b k j hj
          refine ⟨b, f, salt, nonce, c, hb, hd, hsz, ho, ?_, hok⟩
          intro hnil; apply hne; simp [hnil]
        · cases h

/-- **Round trip** (tokens): `Unwrap (New json) = json` for every non-empty acceptable payload. -/
theorem C27_token_roundtrip (P : Prim) (L : Laws P) (ok : Bytes → Bool) (salt nonce json k : Bytes)
    (hs : salt.length = 16) (hn : nonce.length = 12) (hne : json ≠ []) (hok : ok json = true) :
    tokenUnwrap P ok (tokenNew P salt nonce json k) k = .ok json := by
  unfold tokenUnwrap tokenNew
  rw [L.hex_dec_enc]
  simp only [C27_util_roundtrip P L salt nonce json k hs hn]
  have : ¬ (json.length == 0) = true := by
    cases json with
    | nil => exact absurd rfl hne
    | cons a l => simp
  rw [if_neg this, if_pos hok]

/-- **Everything else is rejected** (tokens): an accepted token string hex-decodes to an
honest encryption of its payload under the server's token key. -/
theorem C27_token_reject_else (P : Prim) (L : Laws P) (ok : Bytes → Bool) (s k j : Bytes)
    (h : tokenUnwrap P ok s k = .ok j) :
    ∃ b, P.hexdec s = some b ∧ UtilHonest P k j b ∧ b.length ≥ j.length + 28 := by
  obtain ⟨b, f, salt, nonce, c, hb, hd, hsz, ho, _, _⟩ := C27_token_success_needs_open P ok s k j h
  refine ⟨b, hb, ⟨f, salt, nonce, hsz, by rw [hd, L.open_only_seal _ _ _ _ ho]⟩, ?_⟩
  have := (utilFrame_length f salt nonce c hsz).1
  rw [L.open_only_seal _ _ _ _ ho, L.seal_len] at this
  rw [hd, L.open_only_seal _ _ _ _ ho]; omega

/-! ## non-vacuity: a primitive satisfying `Laws`, and instances of every hypothesis -/

/-- a toy AEAD (all-zero 16-byte tag in front of the plaintext; identity transports) -/
def toy : Prim where
  argon2id p s := p ++ s
  pbkdf2 p s := s ++ p
  md5hex p := p
  sha256 p := p
  gcmSeal _ _ p := List.replicate 16 0 ++ p
  gcmOpen _ _ c := if c.take 16 = List.replicate 16 0 then some (c.drop 16) else none
  b64enc b := b
  b64dec b := some b
  hexenc b := b
  hexdec b := some b

theorem toy_laws : Laws toy where
  open_seal := by intro k n p; simp [toy]
  open_only_seal := by
    intro k n c p h
    simp only [toy] at h ⊢
    split at h
    · rename_i ht
      cases h
      rw [← ht]; exact (List.take_append_drop 16 c).symm
    · cases h
  seal_len := by intro k n p; simp [toy]
  b64_dec_enc := by intro b; rfl
  hex_dec_enc := by intro b; rfl

def salt0 : Bytes := List.replicate 16 7
def nonce0 : Bytes := List.replicate 12 9

example : utilDecrypt toy (utilEncrypt toy salt0 nonce0 [1, 2, 3] [5]) [5] = .ok [1, 2, 3] := by decide
example : settingsDecrypt toy (settingsEncrypt toy salt0 nonce0 [1, 2, 3] [5]) [5] = .ok [1, 2, 3] := by decide
example : tokenUnwrap toy (fun _ => true) (tokenNew toy salt0 nonce0 [1] [5]) [5] = .ok [1] := by decide
-- the hypothesis of `forged_is_error` / `short_is_error` is met by a non-trivial input
example : ∃ e, utilDecrypt toy (magic3 ++ salt0) [5] = .err e := C27_util_short_is_error toy toy_laws _ _ (by decide)
-- legacy verdict: hypotheses satisfiable
example : (nonce0 ++ [1, 2]).take 4 ≠ magic3 ∧ (nonce0 ++ [1, 2]).take 4 ≠ magic2 := by decide
-- a rejected tampering in the toy instance (tag byte flipped)
example : utilDecrypt toy (magic3 ++ (salt0 ++ (nonce0 ++ (1 :: List.replicate 15 0 ++ [1, 2, 3])))) [5] = .err .auth := by decide

end EgoVerif.C27
