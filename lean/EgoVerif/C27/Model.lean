/-
C27 — model of the FRAMING of ego's two symmetric-encryption layers (core Lean only):

  * internal/util/crypto.go          Encrypt / Decrypt   (tokens, user & DSN files, cipher.*)
  * internal/cli/settings/crypto.go  Encrypt / Decrypt   (encrypted profile values)
  * internal/language/tokens/unwrap.go  Unwrap steps 1–2 (+ the empty-payload test)

Only the framing is modelled: magic / prefix dispatch, salt and nonce split, length guards,
base64 / hex transport decoding.  AES-256-GCM, the three key-derivation functions and the
transport decoders are the fields of `Prim`; nothing is assumed about them here (the
hypotheses live in `Props.lean`, structure `Laws`).

The model mirrors the code WITH fixes/C27.patch applied: the five short-input guards
(`len(data) < saltLen`, `nonceSize > len(data)`) return an error (`Err.short`) where the
unpatched code returns `([]byte(""), nil)`.  `utilDecryptUnpatched` (end of this file)
records the unpatched behaviour for the counterexample / partial theorems.
-/
namespace EgoVerif.C27

abbrev Bytes := List UInt8

/-- The external primitives.  `argon2id pass salt`, `pbkdf2 pass salt`, `md5hex pass`,
`sha256 pass` return the 32-byte AES key; `gcmSeal key nonce plaintext` is `gcm.Seal` without
the nonce prefix; `gcmOpen key nonce ct` is `gcm.Open` (`none` = authentication failed). -/
structure Prim where
  argon2id : Bytes → Bytes → Bytes
  pbkdf2 : Bytes → Bytes → Bytes
  md5hex : Bytes → Bytes
  sha256 : Bytes → Bytes
  gcmSeal : Bytes → Bytes → Bytes → Bytes
  gcmOpen : Bytes → Bytes → Bytes → Option Bytes
  b64enc : Bytes → Bytes
  b64dec : Bytes → Option Bytes
  hexenc : Bytes → Bytes
  hexdec : Bytes → Option Bytes

inductive Err where
  | short   -- input too short to hold salt / nonce (the repaired guards)
  | auth    -- gcm.Open failed
  | b64     -- base64.StdEncoding.DecodeString failed
  | hex     -- hex.DecodeString failed
  | empty   -- tokens: decryption gave an empty payload (ErrInvalidTokenEncryption)
  | payload -- tokens: JSON / expiry / blacklist rejected the decrypted payload
  deriving DecidableEq, Repr

inductive Res where
  | ok (text : Bytes)
  | err (e : Err)
  deriving DecidableEq, Repr

def saltLen : Nat := 16
def nonceSize : Nat := 12

/-- `argon2Magic` / `encryptMagic` of util/crypto.go -/
def magic3 : Bytes := [0xFF, 0x45, 0x47, 0x33]
def magic2 : Bytes := [0xFF, 0x45, 0x47, 0x4F]

/-- `aesGCMDecrypt(key, data)` — the same function text exists in util/crypto.go and in
settings/crypto.go.  (`aes.NewCipher` cannot fail: every key is 32 bytes.) -/
def aesGCMDecrypt (P : Prim) (key data : Bytes) : Res :=
  if nonceSize > data.length then .err .short
  else
    match P.gcmOpen key (data.take nonceSize) (data.drop nonceSize) with
    | some plaintext => .ok plaintext
    | none => .err .auth

/-- `decryptArgon2id(data, passphrase)` — util/crypto.go and settings/crypto.go -/
def decryptArgon2id (P : Prim) (data pass : Bytes) : Res :=
  if data.length < saltLen then .err .short
  else aesGCMDecrypt P (P.argon2id pass (data.take saltLen)) (data.drop saltLen)

/-- `decryptPBKDF2(data, passphrase)` — util/crypto.go -/
def decryptPBKDF2 (P : Prim) (data pass : Bytes) : Res :=
  if data.length < saltLen then .err .short
  else aesGCMDecrypt P (P.pbkdf2 pass (data.take saltLen)) (data.drop saltLen)

/-- `legacyDecrypt(data, passphrase)` — util/crypto.go and settings/crypto.go -/
def legacyDecrypt (P : Prim) (data pass : Bytes) : Res :=
  aesGCMDecrypt P (P.md5hex pass) data

/-- `decrypt(data, passphrase)` = `Decrypt` of util/crypto.go -/
def utilDecrypt (P : Prim) (data pass : Bytes) : Res :=
  if data.length > magic3.length && data.take magic3.length == magic3 then
    decryptArgon2id P (data.drop magic3.length) pass
  else if data.length > magic2.length && data.take magic2.length == magic2 then
    decryptPBKDF2 P (data.drop magic2.length) pass
  else
    legacyDecrypt P data pass

/-- `encrypt(data, passphrase)` = `Encrypt` of util/crypto.go; the two `rand.Reader`
draws (salt, nonce) are parameters.  `gcm.Seal(nonce, nonce, data, nil)` = nonce ++ seal. -/
def utilEncrypt (P : Prim) (salt nonce data pass : Bytes) : Bytes :=
  magic3 ++ (salt ++ (nonce ++ P.gcmSeal (P.argon2id pass salt) nonce data))

/-! ### settings/crypto.go -/

def pfx3 : Bytes := [0x76, 0x33, 0x3A]   -- "v3:"
def pfx2 : Bytes := [0x76, 0x32, 0x3A]   -- "v2:"

/-- `strings.HasPrefix` -/
def hasPrefix (s p : Bytes) : Bool := s.take p.length == p

/-- `Decrypt(data, password)` of settings/crypto.go -/
def settingsDecrypt (P : Prim) (data pass : Bytes) : Res :=
  if hasPrefix data pfx3 then
    match P.b64dec (data.drop pfx3.length) with
    | none => .err .b64
    | some src => decryptArgon2id P src pass
  else if hasPrefix data pfx2 then
    match P.b64dec (data.drop pfx2.length) with
    | none => .err .b64
    | some src => aesGCMDecrypt P (P.sha256 pass) src
  else
    match P.b64dec data with
    | none => .err .b64
    | some src => legacyDecrypt P src pass

/-- `Encrypt(data, password)` of settings/crypto.go -/
def settingsEncrypt (P : Prim) (salt nonce data pass : Bytes) : Bytes :=
  pfx3 ++ P.b64enc (salt ++ (nonce ++ P.gcmSeal (P.argon2id pass salt) nonce data))

/-! ### tokens/unwrap.go (`Unwrap`; `Validate` has the same first two steps) -/

/-- Steps 1–2 of `Unwrap` plus the `len(j) == 0` test; steps 3–5 (JSON, expiry,
blacklist) are the predicate `payloadOK` on the decrypted text. -/
def tokenUnwrap (P : Prim) (payloadOK : Bytes → Bool) (tokenString key : Bytes) : Res :=
  match P.hexdec tokenString with
  | none => .err .hex
  | some b =>
    match utilDecrypt P b key with
    | .err e => .err e
    | .ok j =>
      if j.length == 0 then .err .empty
      else if payloadOK j then .ok j else .err .payload

/-- `New` steps 4–5 -/
def tokenNew (P : Prim) (salt nonce json key : Bytes) : Bytes :=
  P.hexenc (utilEncrypt P salt nonce json key)

/-! ### the unpatched guards (for the counterexample only) -/

/-- `aesGCMDecrypt` as it is on the tree WITHOUT fixes/C27.patch -/
def aesGCMDecryptUnpatched (P : Prim) (key data : Bytes) : Res :=
  if nonceSize > data.length then .ok []
  else
    match P.gcmOpen key (data.take nonceSize) (data.drop nonceSize) with
    | some plaintext => .ok plaintext
    | none => .err .auth

def decryptArgon2idUnpatched (P : Prim) (data pass : Bytes) : Res :=
  if data.length < saltLen then .ok []
  else aesGCMDecryptUnpatched P (P.argon2id pass (data.take saltLen)) (data.drop saltLen)

def decryptPBKDF2Unpatched (P : Prim) (data pass : Bytes) : Res :=
  if data.length < saltLen then .ok []
  else aesGCMDecryptUnpatched P (P.pbkdf2 pass (data.take saltLen)) (data.drop saltLen)

def utilDecryptUnpatched (P : Prim) (data pass : Bytes) : Res :=
  if data.length > magic3.length && data.take magic3.length == magic3 then
    decryptArgon2idUnpatched P (data.drop magic3.length) pass
  else if data.length > magic2.length && data.take magic2.length == magic2 then
    decryptPBKDF2Unpatched P (data.drop magic2.length) pass
  else
    aesGCMDecryptUnpatched P (P.md5hex pass) data

end EgoVerif.C27
