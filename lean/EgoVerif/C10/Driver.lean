import EgoVerif.Common.Drv
import EgoVerif.C10.Step
import EgoVerif.C10.Spec
/- line protocol (program encoding: see harness zz_verif_c10_test.go; `D[..]` bodies are lifted
   into extra code units numbered after the functions, in order of completion; a function text
   starting with `u` / `n` has one unnamed / named result: its `Y<k>` `Z<f>` `W` statements are
   `return mkv(k)` / `return f<f>()` / `return 1/zero`, and the harness closes its body with a bare
   return, which the parser appends; `I<id>.<k>[..]` is `if i<id> == k { .. }` on the counter of an
   enclosing loop of the same function):
   `vm <prog>`   → trace of the VM model on compileCtl, e.g. `1,2,r7,rn:ok`
   `spec <prog>` → trace of CtlSpec
   `skel <prog>` → control skeleton of compileCtl, same token language as the harness -/
namespace EgoVerif.C10

structure PS where
  next : Nat
  clos : List Block      -- reversed
  named : Bool := false  -- the function being parsed has named results

def parseNum : List Char → Nat → Nat × List Char
  | c :: r, acc => if c.isDigit then parseNum r (acc * 10 + (c.toNat - 48)) else (acc, c :: r)
  | [], acc => (acc, [])

mutual
def parseBlock : Nat → List Char → PS → Option (Block × List Char × PS)
  | 0, _, _ => none
  | _ + 1, [], st => some ([], [], st)
  | fuel + 1, c :: r, st =>
    if c == ']' || c == '|' then some ([], c :: r, st)
    else if c == ';' then parseBlock fuel r st
    else match parseStmt fuel c r st with
      | none => none
      | some (s, r', st') =>
        match parseBlock fuel r' st' with
        | none => none
        | some (b, r'', st'') => some (s :: b, r'', st'')
def parseBracket : Nat → List Char → PS → Option (Block × List Char × PS)
  | 0, _, _ => none
  | fuel + 1, '[' :: r, st =>
    (match parseBlock fuel r st with
     | some (b, ']' :: r', st') => some (b, r', st')
     | _ => none)
  | _ + 1, _, _ => none
def parseStmt : Nat → Char → List Char → PS → Option (Stmt × List Char × PS)
  | 0, _, _, _ => none
  | fuel + 1, c, r, st =>
    if c == 'E' then let (n, r') := parseNum r 0; some (.emit n, r', st)
    else if c == 'P' then let (n, r') := parseNum r 0; some (.panic n, r', st)
    else if c == 'C' then let (n, r') := parseNum r 0; some (.call n, r', st)
    else if c == 'R' then some (.raise, r, st)
    else if c == 'X' then some (.ret, r, st)
    else if c == 'B' then some (.brk, r, st)
    else if c == 'K' then some (.cont, r, st)
    else if c == 'V' then some (.recover, r, st)
    else if c == 'Y' then let (n, r') := parseNum r 0; some (.retE st.named (.mkv n), r', st)
    else if c == 'Z' then let (n, r') := parseNum r 0; some (.retE st.named (.call n), r', st)
    else if c == 'W' then some (.retE st.named .div, r, st)
    else if c == 'T' then
      match parseBracket fuel r st with
      | none => none
      | some (b, r', st') =>
        match parseBracket fuel r' st' with
        | none => none
        | some (h, r'', st'') => some (.tryCatch b h, r'', st'')
    else if c == 'D' then
      match parseBracket fuel r st with
      | none => none
      | some (b, r', st') => some (.defer_ st'.next, r', { st' with next := st'.next + 1, clos := b :: st'.clos })
    else if c == 'L' then
      let (id, r1) := parseNum r 0
      match r1 with
      | '.' :: r2 =>
        let (n, r3) := parseNum r2 0
        match parseBracket fuel r3 st with
        | none => none
        | some (b, r', st') => some (.loop id n b, r', st')
      | _ => none
    else if c == 'I' then
      let (id, r1) := parseNum r 0
      match r1 with
      | '.' :: r2 =>
        let (k, r3) := parseNum r2 0
        match parseBracket fuel r3 st with
        | none => none
        | some (b, r', st') => some (.cond id k b, r', st')
      | _ => none
    else none
end

def parseFuncs : Nat → List Char → PS → Option (List Block × PS)
  | 0, _, _ => none
  | fuel + 1, cs, st =>
    -- kind marker: `u` unnamed result, `n` named result; such a body ends with a bare return
    let (kind, cs) := match cs with
      | 'u' :: r => (1, r)
      | 'n' :: r => (2, r)
      | _ => (0, cs)
    let close : Block → Block := fun b => if kind == 0 then b else b ++ [.ret]
    match parseBlock (cs.length + 2) cs { st with named := kind == 2 } with
    | none => none
    | some (b, [], st') => some ([close b], st')
    | some (b, '|' :: r, st') =>
      (match parseFuncs fuel r st' with
       | none => none
       | some (bs, st'') => some (close b :: bs, st''))
    | some _ => none

def parseProg (s : String) : Option Prog :=
  let cs := s.toList
  let nf := (cs.filter (· == '|')).length + 1
  match parseFuncs (nf + 1) cs { next := nf, clos := [] } with
  | none => none
  | some (fs, st) => some (fs ++ st.clos.reverse)

def showTok : Tok → String
  | .mark k => toString k
  | .recov (some v) => "r" ++ toString v
  | .recov none => "rn"

def showStatus : Option Status → String
  | some .ok => "ok" | some .err => "err" | some .panic => "panic" | some .other => "other"
  | none => "nofuel"

/-- the harness keeps the first 400 markers of a run (deferred calls that run again and again
make a real trace much longer than the 150 markers the reference run is limited to) -/
def showTrace (r : List Tok × Option Status) : String :=
  (if r.1.isEmpty then "-" else ",".intercalate ((r.1.take 400).map showTok)) ++ ":" ++ showStatus r.2

def kept : Instr → Bool
  | .loopInit _ | .loopIncr _ => false
  | _ => true

/-- index, among kept instructions, of the first kept instruction at address ≥ a -/
def keptIdx (c : Code) (a : Nat) : Nat := ((c.take a).filter kept).length

def skelUnit (units : List Code) : Nat → Nat → String
  | 0, _ => "?"
  | fuel + 1, u =>
    let c := units.getD u []
    let tok : Instr → String := fun i => match i with
      | .emit k => "E" ++ toString k
      | .raise => "R"
      | .panic v => "P" ++ toString v
      | .recover => "V"
      | .try_ a => "T" ++ toString (keptIdx c a)
      | .pushTry => "M"
      | .dropTry => "U"
      | .tryPop => "O"
      | .branch a => "J" ++ toString (keptIdx c a)
      | .loopTest _ _ a => "F" ++ toString (keptIdx c a)
      | .ifTest _ _ a => "F" ++ toString (keptIdx c a)
      | .defer_ d => "D{" ++ skelUnit units fuel d ++ "}"
      | .runDefers => "Q"
      | .ret => "X"
      | .call f => "C" ++ toString f
      | _ => ""
    " ".intercalate ((c.filter kept).map tok)

def handle (line : String) : String :=
  match fields line with
  | [op, src] =>
    match parseProg src with
    | none => "bad-input"
    | some p =>
      let named := (src.splitOn "|").map (·.startsWith "n")
      if op == "vm" then showTrace (traceCode (compileCtlK p named) 400000)
      else if op == "spec" then showTrace (traceSpec p 4000)
      else if op == "skel" then
        let nf := ((src.toList.filter (· == '|')).length + 1)
        let units := compileCtlK p named
        " | ".intercalate ((List.range nf).map (skelUnit units 64))
      else "bad-op"
  | _ => "bad-op"

def drv : Drv := Drv.pure handle

end EgoVerif.C10
