import EgoVerif.C10.VM
/-
C10 part 4 — `CtlSpec`: source-level big-step semantics of the control sub-language, as Ego
implements it (with fixes/C10.patch).  It is written independently of `compileCtl`/`step`; the
driver runs both on every generated program and both are compared with the real VM.

  * an error is caught by the innermost dynamically enclosing try BODY; activations in between are
    abandoned without running their deferred calls;
  * panic() is not catchable; each activation it unwinds runs its deferred calls, last first, in
    child contexts that can `recover`; recovery returns normally to the caller;
  * `return` and the end of a body run the deferred calls (RunDefers) at that point of the body,
    i.e. still inside the try statements of the same function, and do not clear the list;
  * `return <expr>`: named results evaluate <expr> and then run the deferred calls; unnamed results
    run the deferred calls first and evaluate <expr> afterwards (so an <expr> that fails leaves the
    activation with its deferred calls still registered: they run again);
  * an error coming out of a deferred call is an error of the RunDefers instruction (normal exit)
    or ends the whole context (panic unwinding); an unrecovered panic inside a deferred call ends
    that child context with ErrPanicUnhandled, which its parent sees as such an error.
-/
namespace EgoVerif.C10

inductive Sig where
  | normal | brk | cont | ret
  | err (e : Err)       -- catchable runtime error travelling up
  | panic (v : Nat)     -- panic travelling up
  | fatal (e : Err)     -- the context's Run() is returning e (not catchable)
  | nofuel
  deriving Repr, DecidableEq

structure W where
  trace : List Tok := []            -- reversed
  chain : List (Option Nat) := []   -- panic cells reachable through panicContext, nearest first
  defers : List Nat := []           -- deferred calls of the running activation, last first
  spawned : List Nat := []          -- ghost log of deferred calls started, reversed
  env : List (Nat × Nat) := []      -- loop counters (loop ids are unique in a program and a function is never
                                    -- active twice, so one table serves all activations)
  deriving Repr

/-- findPanickingContext over the cells: clear the first active one -/
def recoverCells : List (Option Nat) → Option (Nat × List (Option Nat))
  | [] => none
  | some v :: r => some (v, none :: r)
  | none :: r => match recoverCells r with
    | some (v, r') => some (v, none :: r')
    | none => none

mutual
def execS : Nat → Prog → W → Stmt → Sig × W
  | 0, _, w, _ => (.nofuel, w)
  | fuel + 1, p, w, s =>
    match s with
    | .emit k => (.normal, { w with trace := .mark k :: w.trace })
    | .raise => (.err .div, w)
    | .panic v => (.panic v, w)
    | .recover =>
      match recoverCells w.chain with
      | some (v, ch) => (.normal, { w with trace := .recov (some v) :: w.trace, chain := ch })
      | none => (.normal, { w with trace := .recov none :: w.trace })
    | .tryCatch b h =>
      match execB fuel p w b with
      | (.err _, w') => execB fuel p w' h
      | r => r
    | .defer_ c => (.normal, { w with defers := c :: w.defers })
    | .call f => activation fuel p w f
    | .ret =>
      match runDefers fuel p w w.defers with
      | (.normal, w') => (.ret, w')
      | r => r
    | .retE true e =>
      match evalE fuel p w e with
      | (.normal, w1) =>
        (match runDefers fuel p w1 w1.defers with
         | (.normal, w2) => (.ret, w2)
         | r => r)
      | r => r
    | .retE false e =>
      match runDefers fuel p w w.defers with
      | (.normal, w1) =>
        (match evalE fuel p w1 e with
         | (.normal, w2) => (.ret, w2)
         | r => r)
      | r => r
    | .loop id n b => execLoop fuel p w id 0 n b
    | .brk => (.brk, w)
    | .cont => (.cont, w)
    | .cond id k b => if envGet w.env id = k then execB fuel p w b else (.normal, w)
/-- the expression of a `return <expr>` -/
def evalE : Nat → Prog → W → RExpr → Sig × W
  | 0, _, w, _ => (.nofuel, w)
  | _ + 1, _, w, .mkv k => (.normal, { w with trace := .mark k :: w.trace })
  | fuel + 1, p, w, .call f => activation fuel p w f
  | _ + 1, _, w, .div => (.err .div, w)
def execB : Nat → Prog → W → Block → Sig × W
  | 0, _, w, _ => (.nofuel, w)
  | _ + 1, _, w, [] => (.normal, w)
  | fuel + 1, p, w, s :: r =>
    match execS fuel p w s with
    | (.normal, w') => execB fuel p w' r
    | x => x
def execLoop : Nat → Prog → W → Nat → Nat → Nat → Block → Sig × W
  | 0, _, w, _, _, _, _ => (.nofuel, w)
  | _ + 1, _, w, _, _, 0, _ => (.normal, w)
  | fuel + 1, p, w, id, i, n + 1, b =>            -- pass number i (counter value), n + 1 passes to go
    match execB fuel p { w with env := envSet w.env id i } b with
    | (.normal, w') | (.cont, w') => execLoop fuel p w' id (i + 1) n b
    | (.brk, w') => (.normal, w')
    | x => x
/-- invokeDeferredStatements: each deferred call in its own child context, no panic chain -/
def runDefers : Nat → Prog → W → List Nat → Sig × W
  | 0, _, w, _ => (.nofuel, w)
  | _ + 1, _, w, [] => (.normal, w)
  | fuel + 1, p, w, d :: ds =>
    match child fuel p { w with spawned := d :: w.spawned } [] d with
    | (.normal, w', _) => runDefers fuel p w' ds
    | (.fatal e, w', _) => (.err e, w')          -- RunDefers returns the child's error
    | (x, w', _) => (x, w')
/-- invokePanicDefers: child contexts see the panicking context's cell `cell` first -/
def runPanicDefers : Nat → Prog → W → Option Nat → List Nat → Sig × W × Option Nat
  | 0, _, w, c, _ => (.nofuel, w, c)
  | _ + 1, _, w, c, [] => (.normal, w, c)
  | fuel + 1, p, w, c, d :: ds =>
    match child fuel p { w with spawned := d :: w.spawned } (c :: w.chain) d with
    | (.normal, w', c' :: ch) => runPanicDefers fuel p { w' with chain := ch } c' ds
    | (.normal, w', []) => (.fatal .underflow, w', c)  -- unreachable
    | (.fatal e, w', _) => (.fatal e, w', c)     -- unwindPanic returns the error
    | (x, w', _) => (x, w', c)
/-- a child context running closure `d`: `(.normal, …)` = Run() returned nil, `(.fatal e, …)` = e.
The third component is the (possibly updated) chain handed in. -/
def child : Nat → Prog → W → List (Option Nat) → Nat → Sig × W × List (Option Nat)
  | 0, _, w, ch, _ => (.nofuel, w, ch)
  | fuel + 1, p, w, ch, d =>
    match activation fuel p { w with chain := ch, defers := [] } d with
    | (.normal, w') => (.normal, { w' with chain := w.chain, defers := w.defers }, w'.chain)
    | (.err e, w') | (.fatal e, w') => (.fatal e, { w' with chain := w.chain, defers := w.defers }, w'.chain)
    | (.panic _, w') => (.fatal .panicU, { w' with chain := w.chain, defers := w.defers }, w'.chain)
    | (x, w') => (x, { w' with chain := w.chain, defers := w.defers }, w'.chain)
/-- one call: callFramePush … Return / error unwind / unwindPanic of that frame -/
def activation : Nat → Prog → W → Nat → Sig × W
  | 0, _, w, _ => (.nofuel, w)
  | fuel + 1, p, w, f =>
    let body := p.getD f []
    let w0 := { w with defers := [] }
    let back := fun (w' : W) => { w' with defers := w.defers }
    match execB fuel p w0 body with
    | (.normal, w1) =>                              -- end of body: RunDefers; Return
      (match runDefers fuel p w1 w1.defers with
       | (.normal, w2) => (.normal, back w2)
       | (.panic v, w2) => unwindAct fuel p w2 v w.defers
       | (x, w2) => (x, back w2))
    | (.ret, w1) => (.normal, back w1)
    | (.panic v, w1) => unwindAct fuel p w1 v w.defers
    | (.brk, w1) | (.cont, w1) => (.normal, back w1)   -- not produced by the generator
    | (x, w1) => (x, back w1)
/-- unwindPanic for the current frame, then hand the panic to the caller -/
def unwindAct : Nat → Prog → W → Nat → List Nat → Sig × W
  | 0, _, w, _, _ => (.nofuel, w)
  | fuel + 1, p, w, v, callerDefers =>
    match runPanicDefers fuel p w (some v) w.defers with
    | (.normal, w', none) => (.normal, { w' with defers := callerDefers })     -- recovered
    | (.normal, w', some v') => (.panic v', { w' with defers := callerDefers })
    | (x, w', _) => (x, { w' with defers := callerDefers })
end

def traceSpec (p : Prog) (fuel : Nat) : List Tok × Option Status :=
  match child fuel p {} [] 0 with
  | (.normal, w, _) => (w.trace.reverse, some .ok)
  | (.fatal e, w, _) => (w.trace.reverse, some (match e with | .div => .err | .panicU => .panic | _ => .other))
  | (_, w, _) => (w.trace.reverse, none)

end EgoVerif.C10
