/-
C10 — try/catch, defer, panic/recover.  Core Lean only.

Part 1 (this file): the control sub-language `Stmt`, the control instructions `Instr` of the VM,
and `compileCtl`, the code skeleton the real compiler emits for each statement
(internal/language/compiler: try.go compileTry, defer.go compileDefer, function.go
generateFunctionBytecode/generateFunctionReturn, return.go compileReturn, for.go iterationFor /
compileBreak / compileContinue / emitScopeUnwindTo, panic.go compilePanic).
The model mirrors the code WITH fixes/C10.patch applied (break/continue leave the try statements
they exit; every pass of a three-clause loop's increment has its own "let" marker).

`return <expr>` (compileReturn, return.go) is modelled as the code stands: in a function with NAMED
results the expression is evaluated and stored first and RunDefers follows; in a function with
UNNAMED results RunDefers is emitted first and the expression is evaluated afterwards (the project's
own tests tests/defer/basic.ego and tests/flow/defer.ego REQUIRE that order: a deferred closure that
assigns a local changes the value `return r` yields).  Known finding
`defers-run-twice-on-failing-return-expr`: see Props.lean.
-/
namespace EgoVerif.C10

/-- the expression of a `return <expr>` statement, reduced to what carries control -/
inductive RExpr where
  | mkv (k : Nat)                     -- `mkv(k)`: observable effect, cannot fail
  | call (f : Nat)                    -- `f()`: may emit, raise, panic
  | div                               -- `1 / zero`: raises a catchable error
  deriving Repr, DecidableEq

/-- control statements; a program is a table of code units (functions and deferred closures),
`defer_ c` registers unit `c` as a deferred closure, `call f` calls unit `f`. -/
inductive Stmt where
  | emit (k : Nat)                    -- observable effect  (harness: `mk(k)`)
  | raise                             -- catchable runtime error (harness: `zz = 1 / zero`)
  | panic (v : Nat)                   -- `panic(v)`
  | recover                           -- `mkr(recover())`: logs the recovered value or nil
  | tryCatch (body handler : List Stmt)
  | defer_ (c : Nat)                  -- `defer func(){ <unit c> }()`
  | call (f : Nat)
  | ret
  | retE (named : Bool) (e : RExpr)   -- `return <e>` in a function with named / unnamed results
  | loop (id n : Nat) (body : List Stmt)   -- `for i := 0; i < n; i = i + 1 { body }`
  | brk
  | cont
  | cond (id k : Nat) (body : List Stmt)   -- `if i<id> == k { body }` inside loop `id` of the same function
  deriving Repr

abbrev Block := List Stmt
abbrev Prog := List Block

/-- VM instructions that carry control (everything else the compiler emits is erased). -/
inductive Instr where
  | emit (k : Nat)          -- Call of the marker function
  | raise                   -- Div (by zero)
  | panic (v : Nat)         -- Push v; UserPanic
  | recover                 -- Recover (+ the call that logs the value)
  | try_ (a : Nat)          -- Try @a
  | pushTry                 -- Push Marker<try>
  | dropTry                 -- DropToMarker Marker<try>
  | tryPop                  -- TryPop
  | branch (a : Nat)        -- Branch @a
  | loopInit (id : Nat)     -- i := 0
  | loopTest (id n a : Nat) -- i < n ; BranchFalse @a
  | loopIncr (id : Nat)     -- i = i + 1
  | ifTest (id k a : Nat)   -- i == k ; BranchFalse @a   (if.go compileIf, no else clause)
  | defer_ (c : Nat)        -- DeferStart; Push <closure c>; Defer 0
  | runDefers               -- RunDefers
  | ret                     -- Return 0
  | call (f : Nat)          -- Load f; Call 0
  deriving Repr, DecidableEq, Inhabited

abbrev Code := List Instr

/-- compile-time context of break/continue (compiler.go `loop`, `Compiler.tryNest`):
`tn` has one entry per try statement opened inside the innermost loop: `true` while in its try
body (marker on the stack), `false` in its catch block. `brkFix`/`contFix` are patched later, so the
compiler emits placeholders: we compile in two passes instead (sizes first), see `size`. -/
structure LoopCtx where
  exitA : Nat      -- address just after the loop
  contA : Nat      -- address of the increment code
  deriving Repr

mutual
/-- number of instructions `compS` emits (needed because the real compiler back-patches) -/
def sizeS (tn : List Bool) : Stmt → Nat
  | .emit _ | .raise | .panic _ | .recover | .defer_ _ | .call _ => 1
  | .ret => 2
  | .retE _ _ => 3
  | .tryCatch b h => 2 + sizeB (true :: tn) b + 2 + sizeB (false :: tn) h + 1
  | .loop _ _ b => 2 + sizeB [] b + 2
  | .brk | .cont => tn.length + (tn.filter id).length + 1
  | .cond _ _ b => 1 + sizeB tn b
def sizeB (tn : List Bool) : List Stmt → Nat
  | [] => 0
  | s :: r => sizeS tn s + sizeB tn r
end

/-- the instruction that evaluates a return expression (loads, coercions, stores erased) -/
def RExpr.instr : RExpr → Instr
  | .mkv k => .emit k
  | .call f => .call f
  | .div => .raise

/-- emitScopeUnwindTo (fixed): for every try statement opened inside the target loop, innermost
first: DropToMarker "try" if still in the try body, then TryPop. -/
def leaveTries : List Bool → Code
  | [] => []
  | true :: r => .dropTry :: .tryPop :: leaveTries r
  | false :: r => .tryPop :: leaveTries r

mutual
/-- code for one statement placed at address `pc` -/
def compS (pc : Nat) (lc : Option LoopCtx) (tn : List Bool) : Stmt → Code
  | .emit k => [.emit k]
  | .raise => [.raise]
  | .panic v => [.panic v]
  | .recover => [.recover]
  | .defer_ c => [.defer_ c]
  | .call f => [.call f]
  | .ret => [.runDefers, .ret]                                   -- compileReturn, bare return
  | .retE true e => [e.instr, .runDefers, .ret]                  -- named results: expr; Store; RunDefers; Load; Return
  | .retE false e => [.runDefers, e.instr, .ret]                 -- unnamed results: RunDefers; expr; Return
  | .tryCatch b h =>                                              -- compileTry
    let nb := sizeB (true :: tn) b
    let nh := sizeB (false :: tn) h
    let catchA := pc + 2 + nb + 2
    let endA := catchA + nh
    [.try_ catchA, .pushTry] ++ compB (pc + 2) lc (true :: tn) b ++
      [.dropTry, .branch endA] ++ compB catchA lc (false :: tn) h ++ [.tryPop]
  | .loop id n b =>                                               -- iterationFor
    let nb := sizeB [] b
    let top := pc + 1
    let contA := pc + 2 + nb
    let exitA := contA + 2
    [.loopInit id, .loopTest id n exitA] ++ compB (pc + 2) (some ⟨exitA, contA⟩) [] b ++
      [.loopIncr id, .branch top]
  | .brk => leaveTries tn ++ [.branch (match lc with | some l => l.exitA | none => 0)]
  | .cont => leaveTries tn ++ [.branch (match lc with | some l => l.contA | none => 0)]
  | .cond id k b =>                                               -- compileIf: cond; BranchFalse @end; block
    [.ifTest id k (pc + 1 + sizeB tn b)] ++ compB (pc + 1) lc tn b
def compB (pc : Nat) (lc : Option LoopCtx) (tn : List Bool) : List Stmt → Code
  | [] => []
  | s :: r => compS pc lc tn s ++ compB (pc + sizeS tn s) lc tn r
end

/-- a function or closure body: statements, then RunDefers; Return (block.go compileBlock with
runDefers = true, function.go generateFunctionReturn) -/
def compUnit (b : Block) : Code := compB 0 none [] b ++ [.runDefers, .ret]

def compileCtl (p : Prog) : List Code := p.map compUnit

/-- generateFunctionReturn (function.go): a function with NAMED results ends with a second Return
(never reached: the first one leaves the function).  `named` lists the functions' kinds; units
beyond the list (deferred closures) have no results. -/
def compUnitK (named : Bool) (b : Block) : Code := compUnit b ++ (if named then [.ret] else [])

def compileCtlK : Prog → List Bool → List Code
  | [], _ => []
  | b :: r, [] => compUnitK false b :: compileCtlK r []
  | b :: r, n :: ns => compUnitK n b :: compileCtlK r ns

end EgoVerif.C10
