import EgoVerif.C10.Model
/-
C10 part 2 — small-step model of the VM fragment that carries control
(internal/language/bytecode: run.go RunFromAddress, catch.go handleCatch, try.go, defer.go,
panic.go userPanicByteCode/recoverByteCode/findPanickingContext/unwindPanic, callframe.go
callFramePush/callFramePop, return.go returnByteCode, stack.go dropToMarkerByteCode).

Abstractions (stated, not verified): the value stack is a list whose head is the top and holds only
the items that matter for control ("try" markers and call frames); "discard to the frame pointer"
is "drop items down to the topmost frame" (the frame pointer always designates the topmost frame);
symbol tables are reduced to the loop counters; catch sets are "catch everything" (selective sets
of the `?` operator are not part of the fragment).  A deferred call runs in a CHILD context
(defer.go NewContext); the Go call stack of nested `cx.Run()` calls is the list `ctxs`.
-/
namespace EgoVerif.C10

/-- CallFrame (callframe.go): what callFramePop restores -/
structure Frame where
  unit : Nat
  pc : Nat
  defers : List Nat
  tryDepth : Nat
  env : List (Nat × Nat)
  deriving Repr, DecidableEq

inductive Item where
  | tryM                    -- StackMarker "try"
  | frame (f : Frame)       -- *CallFrame
  deriving Repr, DecidableEq

/-- what a context is waiting for while a child context runs one of its deferred calls -/
inductive Pending where
  | none
  | normal (rest : List Nat)     -- inside invokeDeferredStatements, `rest` still to run
  | panicking (rest : List Nat)  -- inside unwindPanic → invokePanicDefers
  deriving Repr, DecidableEq

/-- runtime errors as the run loop sees them -/
inductive Err where
  | div          -- ErrDivisionByZero (any catchable runtime error)
  | panicU       -- ErrPanicUnhandled coming out of a child context (an ordinary error for the parent)
  | underflow    -- stack underflow inside handleCatch
  | tryMismatch  -- ErrTryCatchMismatch (TryPop on an empty try stack)
  deriving Repr, DecidableEq

/-- bytecode.Context -/
structure Ctx where
  unit : Nat
  pc : Nat
  stack : List Item := []
  tries : List Nat := []          -- tryStack, head = innermost; the value is `addr`, 0 = spent
  defers : List Nat := []         -- deferStack, head = registered last
  env : List (Nat × Nat) := []
  panic : Option Nat := none      -- panicActive / panicValue
  hasPC : Bool := false           -- panicContext != nil (set by invokePanicDefers only)
  pend : Pending := .none
  deriving Repr, DecidableEq

inductive Tok where
  | mark (k : Nat)
  | recov (v : Option Nat)
  deriving Repr, DecidableEq

inductive Status where
  | ok | err | panic | other
  deriving Repr, DecidableEq

structure State where
  ctxs : List Ctx            -- head = running context, tail = its suspended ancestors
  trace : List Tok := []     -- reversed (head = latest)
  spawned : List Nat := []   -- ghost log: closure units started as deferred calls, reversed
  halted : Option Status := none
  deriving Repr

def envGet (e : List (Nat × Nat)) (id : Nat) : Nat :=
  match e.find? (·.1 == id) with
  | some p => p.2
  | none => 0

def envSet (e : List (Nat × Nat)) (id v : Nat) : List (Nat × Nat) :=
  (id, v) :: e.filter (·.1 != id)

/-- callFramePop: restore the saved state; discard try entries created inside the callee -/
def restore (c : Ctx) (f : Frame) (below : List Item) : Ctx :=
  { c with unit := f.unit, pc := f.pc, defers := f.defers, env := f.env, stack := below,
           tries := c.tries.drop (c.tries.length - f.tryDepth) }

/-- first live (addr > 0) try entry from the top: `some (spentAbove, addr, below)` -/
def findLive : List Nat → Option (Nat × Nat × List Nat)
  | [] => none
  | a :: r => if a > 0 then some (0, a, r) else
      match findLive r with
      | some (n, x, b) => some (n + 1, x, b)
      | none => none

/-- the pop loop of handleCatch: pop items; a frame is put back and popped formally
(callFramePop); stop at the first "try" marker.  `none` = stack underflow. -/
def unwindToTry (c : Ctx) : List Item → Option Ctx
  | [] => none
  | .tryM :: below => some { c with stack := below }
  | .frame f :: below => unwindToTry (restore c f below) below

/-- handleCatch for a catchable error: `.inl c'` caught (pc redirected), `.inr e` still an error -/
def handleCatch (c : Ctx) (e : Err) : Ctx ⊕ Err :=
  match findLive c.tries with
  | none => .inr e
  | some (_, addr, below) =>
    match unwindToTry c c.stack with
    | none => .inr .underflow
    | some c' => .inl { c' with pc := addr, tries := 0 :: below }   -- truncate to tryIndex+1, addr := 0

/-- items above the topmost frame dropped, then the frame: `some (frame, below)` -/
def topFrame : List Item → Option (Frame × List Item)
  | [] => none
  | .frame f :: below => some (f, below)
  | .tryM :: r => topFrame r

/-- dropToMarkerByteCode with label "try": never goes below the frame pointer -/
def dropToTry : List Item → List Item
  | [] => []
  | .tryM :: r => r
  | .frame f :: r => .frame f :: r

/-- findPanickingContext + clearing it: walk the context and its panicContext chain -/
def recoverIn : List Ctx → Option (Nat × List Ctx)
  | [] => none
  | c :: r =>
    match c.panic with
    | some v => some (v, { c with panic := none } :: r)
    | none => if c.hasPC then
        match recoverIn r with
        | some (v, r') => some (v, c :: r')
        | none => none
      else none

/-- the stub unit: the two-instruction bytecode `Push target; Call 0` of a deferred call is
modelled as the closure already called from an empty unit (index = number of units). -/
def childCtx (stub : Nat) (d : Nat) (hasPC : Bool) : Ctx :=
  { unit := d, pc := 0, hasPC := hasPC,
    stack := [.frame { unit := stub, pc := 0, defers := [], tryDepth := 0, env := [] }] }

end EgoVerif.C10
